#!/usr/bin/env python3
"""Regenerates MANIFEST.json from checks_config.py (single source of truth)."""
import json, os, subprocess
from checks_config import CHECKS, NOT_APPLICABLE, HOOK_COMMITS

props = [json.loads(l)["id"] for l in open(os.path.join(os.path.dirname(__file__), "properties.jsonl"))]
checks = []
for pid in props:
    if pid not in CHECKS:
        continue
    c = CHECKS[pid]
    checks.append({
        "property_id": pid,
        "quick_cmd": f"./check {pid} --tier quick",
        "thorough_cmd": f"./check {pid} --tier thorough",
        "evidence_file": f"/verif/evidence/{pid}.json",
        "replay_cmd_template": f"./check {pid} --replay {{path}}",
        "engine": c.get("engine", "E2"),
        "level_claimed": {"category": c["level"], "text": c["level_text"], "design_ref": c.get("design_ref", "DESIGN.md section 4 " + pid)},
        "level_note": c["level_note"],
        "technique": c["technique"],
    })
na = [{"property_id": p, "reason": NOT_APPLICABLE.get(p, "check not built yet in this session; no claim is made")} for p in props if p not in CHECKS]
m = {
    "version": 1,
    "setup_cmd": "cd /verif/harness && cp /repo/go.sum go.sum && GOFLAGS=-mod=mod GOPROXY=off GOSUMDB=off GOTOOLCHAIN=local go test -tags verif -vet=off -count=1 -run '^$' ./...",
    "hooks": {
        "guard": "verif",
        "enable": "go build tag: checks compile /repo with `go test -c -tags verif` (hook files are `//go:build verif`, add-only)",
        "baseline_off_cmd": "cd /repo && go test -vet=off -count=1 -timeout 25m ./...",
        "source_commits": HOOK_COMMITS,
        "add_only": True,
    },
    "engines": [
        {"name": "E1", "path": "harness/sim", "kind_free_text": "closed-loop cluster simulator: real reconcilers/webhooks/providers on a wrapped controller-runtime fake client, rapid state machine over reconcile/environment/user/fault actions",
         "serves_properties": [p for p in props if p in CHECKS and "E1" in CHECKS[p].get("engine", "")]},
        {"name": "E2", "path": "harness/pNN", "kind_free_text": "component harnesses: one real component driven by rapid generators / state machines against an explicit oracle",
         "serves_properties": [p for p in props if p in CHECKS and "E2" in CHECKS[p].get("engine", "E2")]},
        {"name": "E3", "path": "harness/pNN", "kind_free_text": "exhaustive enumeration of small arithmetic / finite domains against a reference",
         "serves_properties": [p for p in props if p in CHECKS and "E3" in CHECKS[p].get("engine", "")]},
    ],
    "checks": checks,
    "not_applicable": na,
    "notes": "Driver: ./check <ID> --tier quick|thorough [--replay f]; VERIF_SEED selects the PRNG seeds; exit 0 held / 1 violation / 2 inconclusive. known_findings.json lists recorded and fixed defects (a listed finding prints one KNOWN-FINDING line from its own replay; its input class is excluded from generation and counted in evidence). DESIGN.md section 8 describes what was built, what it found and which seeded changes (seeded/) each check catches.",
}
json.dump(m, open(os.path.join(os.path.dirname(__file__), "MANIFEST.json"), "w"), indent=1)
print("checks:", [c["property_id"] for c in checks], "not_applicable:", [x["property_id"] for x in na])
