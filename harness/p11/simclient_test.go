package p11

import (
	"context"
	"fmt"
	"reflect"
	"sort"
	"time"

	"k8s.io/apimachinery/pkg/api/meta"
	metav1 "k8s.io/apimachinery/pkg/apis/meta/v1"
	"k8s.io/apimachinery/pkg/apis/meta/v1/unstructured"
	"k8s.io/apimachinery/pkg/runtime"
	"k8s.io/apimachinery/pkg/runtime/schema"
	"k8s.io/apimachinery/pkg/types"
	"sigs.k8s.io/controller-runtime/pkg/client"
	"sigs.k8s.io/controller-runtime/pkg/client/apiutil"
)

// simClient is a thin wrapper around controller-runtime's fake client which adds what the
// fake lacks and the BatchRelease controller relies on: UIDs, creation timestamps (strictly
// increasing virtual clock), deterministic generateName, metadata.generation bumps on spec
// changes, sorted List results, a write log with before/after objects and the acting party,
// and "a write that changes nothing is no write" (a real API server persists nothing and
// sends no watch event for it).
type simClient struct {
	inner  client.WithWatch
	scheme *runtime.Scheme
	actor  string // who is writing right now: "controller", "env", "user"
	seq    int    // number of effective writes so far
	nobj   int    // number of objects created so far (UIDs, names, timestamps)
	// onWrite is called after every effective write (before == nil: create, after == nil: delete).
	onWrite func(w *writeRec)
}

type writeRec struct {
	Seq    int
	Actor  string
	Verb   string
	GVK    schema.GroupVersionKind
	Key    client.ObjectKey
	Before client.Object
	After  client.Object
}

var simEpoch = time.Date(2024, 1, 1, 0, 0, 0, 0, time.UTC)

var _ client.Client = &simClient{}

func (c *simClient) Scheme() *runtime.Scheme     { return c.scheme }
func (c *simClient) RESTMapper() meta.RESTMapper { return c.inner.RESTMapper() }

func (c *simClient) Get(ctx context.Context, key client.ObjectKey, obj client.Object, opts ...client.GetOption) error {
	return c.inner.Get(ctx, key, obj, opts...)
}

func (c *simClient) List(ctx context.Context, list client.ObjectList, opts ...client.ListOption) error {
	if err := c.inner.List(ctx, list, opts...); err != nil {
		return err
	}
	items, err := meta.ExtractList(list)
	if err != nil || len(items) < 2 {
		return nil
	}
	sort.SliceStable(items, func(i, j int) bool {
		a, _ := meta.Accessor(items[i])
		b, _ := meta.Accessor(items[j])
		if a.GetNamespace() != b.GetNamespace() {
			return a.GetNamespace() < b.GetNamespace()
		}
		return a.GetName() < b.GetName()
	})
	return meta.SetList(list, items)
}

func (c *simClient) gvkOf(obj client.Object) schema.GroupVersionKind {
	gvk, err := apiutil.GVKForObject(obj, c.scheme)
	if err != nil {
		panic(fmt.Sprintf("simClient: no GVK for %T: %v", obj, err))
	}
	return gvk
}

// fetch returns the stored object or nil.
func (c *simClient) fetch(gvk schema.GroupVersionKind, key client.ObjectKey) client.Object {
	var obj client.Object
	if ro, err := c.scheme.New(gvk); err == nil {
		obj = ro.(client.Object)
	} else {
		u := &unstructured.Unstructured{}
		u.SetGroupVersionKind(gvk)
		obj = u
	}
	if err := c.inner.Get(context.TODO(), key, obj); err != nil {
		return nil
	}
	obj.GetObjectKind().SetGroupVersionKind(gvk)
	return obj
}

func toMap(o client.Object) map[string]interface{} {
	if u, ok := o.(*unstructured.Unstructured); ok {
		return runtime.DeepCopyJSON(u.Object)
	}
	m, err := runtime.DefaultUnstructuredConverter.ToUnstructured(o)
	if err != nil {
		panic(err)
	}
	return m
}

// sameObject compares everything but resourceVersion / managedFields.
func sameObject(a, b client.Object) bool {
	ma, mb := toMap(a), toMap(b)
	for _, m := range []map[string]interface{}{ma, mb} {
		if md, ok := m["metadata"].(map[string]interface{}); ok {
			delete(md, "resourceVersion")
			delete(md, "managedFields")
		}
		delete(m, "apiVersion")
		delete(m, "kind")
	}
	return reflect.DeepEqual(ma, mb)
}

// sameSpec compares everything but metadata and status.
func sameSpec(a, b client.Object) bool {
	ma, mb := toMap(a), toMap(b)
	for _, m := range []map[string]interface{}{ma, mb} {
		delete(m, "metadata")
		delete(m, "status")
		delete(m, "apiVersion")
		delete(m, "kind")
	}
	return reflect.DeepEqual(ma, mb)
}

// around performs one write and does the bookkeeping.
func (c *simClient) around(verb string, obj client.Object, do func() error) error {
	gvk := c.gvkOf(obj)
	key := client.ObjectKeyFromObject(obj)
	var before client.Object
	if verb != "create" {
		before = c.fetch(gvk, key)
	}
	if err := do(); err != nil {
		return err
	}
	key = client.ObjectKeyFromObject(obj)
	after := c.fetch(gvk, key)
	if before != nil && after != nil {
		if sameObject(before, after) {
			return nil // nothing changed: not a write
		}
		if !sameSpec(before, after) {
			after.SetGeneration(before.GetGeneration() + 1)
			if err := c.inner.Update(context.TODO(), after); err != nil {
				panic(fmt.Sprintf("simClient: generation bump of %v %v failed: %v", gvk.Kind, key, err))
			}
			after = c.fetch(gvk, key)
			if after != nil {
				obj.SetGeneration(after.GetGeneration())
				obj.SetResourceVersion(after.GetResourceVersion())
			}
		}
	}
	if before == nil && after == nil {
		return nil
	}
	c.seq++
	if c.onWrite != nil {
		c.onWrite(&writeRec{Seq: c.seq, Actor: c.actor, Verb: verb, GVK: gvk, Key: key, Before: before, After: after})
	}
	return nil
}

func (c *simClient) Create(ctx context.Context, obj client.Object, opts ...client.CreateOption) error {
	c.nobj++
	if obj.GetName() == "" && obj.GetGenerateName() != "" {
		obj.SetName(fmt.Sprintf("%s%05d", obj.GetGenerateName(), c.nobj))
	}
	if obj.GetUID() == "" {
		obj.SetUID(types.UID(fmt.Sprintf("uid-%05d", c.nobj)))
	}
	if ts := obj.GetCreationTimestamp(); ts.IsZero() {
		obj.SetCreationTimestamp(metav1.NewTime(simEpoch.Add(time.Duration(c.nobj) * time.Second)))
	}
	if obj.GetGeneration() == 0 {
		obj.SetGeneration(1)
	}
	return c.around("create", obj, func() error { return c.inner.Create(ctx, obj, opts...) })
}

func (c *simClient) Delete(ctx context.Context, obj client.Object, opts ...client.DeleteOption) error {
	return c.around("delete", obj, func() error { return c.inner.Delete(ctx, obj, opts...) })
}

func (c *simClient) Update(ctx context.Context, obj client.Object, opts ...client.UpdateOption) error {
	return c.around("update", obj, func() error { return c.inner.Update(ctx, obj, opts...) })
}

func (c *simClient) Patch(ctx context.Context, obj client.Object, patch client.Patch, opts ...client.PatchOption) error {
	return c.around("patch", obj, func() error { return c.inner.Patch(ctx, obj, patch, opts...) })
}

func (c *simClient) DeleteAllOf(ctx context.Context, obj client.Object, opts ...client.DeleteAllOfOption) error {
	panic("simClient: DeleteAllOf is not used by the code under test")
}

func (c *simClient) Status() client.SubResourceWriter { return &simStatus{c: c} }

func (c *simClient) SubResource(subResource string) client.SubResourceClient {
	panic("simClient: SubResource is not used by the code under test")
}

type simStatus struct{ c *simClient }

func (s *simStatus) Create(ctx context.Context, obj client.Object, sub client.Object, opts ...client.SubResourceCreateOption) error {
	panic("simClient: Status().Create is not used by the code under test")
}

// Update of the status subresource persists only the status of obj (as an API server does).
func (s *simStatus) Update(ctx context.Context, obj client.Object, opts ...client.SubResourceUpdateOption) error {
	return s.c.around("status-update", obj, func() error {
		gvk := s.c.gvkOf(obj)
		cur := s.c.fetch(gvk, client.ObjectKeyFromObject(obj))
		if cur == nil {
			return s.c.inner.Status().Update(ctx, obj, opts...) // yields NotFound
		}
		if obj.GetResourceVersion() != "" && obj.GetResourceVersion() != cur.GetResourceVersion() {
			return s.c.inner.Status().Update(ctx, obj, opts...) // yields Conflict
		}
		mc, mo := toMap(cur), toMap(obj)
		if st, ok := mo["status"]; ok {
			mc["status"] = st
		} else {
			delete(mc, "status")
		}
		if u, ok := cur.(*unstructured.Unstructured); ok {
			u.Object = mc
		} else if err := runtime.DefaultUnstructuredConverter.FromUnstructured(mc, cur); err != nil {
			return err
		}
		if err := s.c.inner.Update(ctx, cur); err != nil {
			return err
		}
		obj.SetResourceVersion(cur.GetResourceVersion())
		return nil
	})
}

func (s *simStatus) Patch(ctx context.Context, obj client.Object, patch client.Patch, opts ...client.SubResourcePatchOption) error {
	return s.c.around("status-patch", obj, func() error { return s.c.inner.Status().Patch(ctx, obj, patch, opts...) })
}
