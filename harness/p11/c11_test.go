package p11

import (
	"flag"
	"fmt"
	"io"
	"os"
	"strings"
	"testing"

	"github.com/openkruise/rollouts/api/v1beta1"
	"k8s.io/klog/v2"
	"pgregory.net/rapid"

	"verifharness/vlib"
)

const (
	chkC11 = "c11-batchrelease-machine"
	chkC01 = "c01-batchrelease-knob"
)

func TestMain(m *testing.M) {
	fs := flag.NewFlagSet("klog", flag.ContinueOnError)
	klog.InitFlags(fs)
	_ = fs.Set("logtostderr", "false")
	_ = fs.Set("alsologtostderr", "false")
	_ = fs.Set("stderrthreshold", "FATAL")
	klog.SetOutput(io.Discard)
	vlib.Main(m)
}

// planes returns the control planes a run covers ($P11_PLANES restricts them, for debugging).
func planes() []string {
	if s := os.Getenv("P11_PLANES"); s != "" {
		return strings.Split(s, ",")
	}
	return allPlanes
}

// ---------------------------------------------------------------------------------------
// Generators.

func genIntOrPercent(t *rapid.T, n int, label string) string {
	if rapid.Bool().Draw(t, label+"-percent") {
		p := rapid.OneOf(rapid.IntRange(1, 100), rapid.SampledFrom([]int{1, 10, 20, 25, 33, 50, 60, 75, 99, 100})).Draw(t, label+"-p")
		return fmt.Sprintf("%d%%", p)
	}
	return fmt.Sprint(rapid.IntRange(1, n+2).Draw(t, label+"-k"))
}

// genBatches draws 1..5 batches as the Rollout validating webhook admits them: positive
// integers or percentages in 1..100, non-decreasing where two neighbours are comparable.
func genBatches(t *rapid.T, n int, label string) []string {
	cnt := rapid.IntRange(1, 5).Draw(t, label+"-count")
	style := rapid.SampledFrom([]string{"percent", "percent", "int", "int", "mixed"}).Draw(t, label+"-style")
	var out []string
	lastP, lastK := 1, 1
	for i := 0; i < cnt; i++ {
		pct := style == "percent" || (style == "mixed" && rapid.Bool().Draw(t, label+"-is-percent"))
		if pct {
			p := rapid.IntRange(lastP, 100).Draw(t, label+"-p")
			if i == cnt-1 && rapid.IntRange(0, 2).Draw(t, label+"-last-full") > 0 {
				p = 100
			}
			lastP = p
			out = append(out, fmt.Sprintf("%d%%", p))
		} else {
			hi := n + 2
			if hi < lastK {
				hi = lastK
			}
			k := rapid.IntRange(lastK, hi).Draw(t, label+"-k")
			lastK = k
			out = append(out, fmt.Sprint(k))
		}
	}
	return out
}

func genReplicas(t *rapid.T) int {
	// rapid biases integer draws toward the low end: the common classes come first
	switch c := rapid.IntRange(0, 39).Draw(t, "n-class"); {
	case c < 28:
		return rapid.IntRange(2, 12).Draw(t, "n-small")
	case c < 35:
		return rapid.IntRange(13, 40).Draw(t, "n-mid")
	case c < 38:
		return rapid.IntRange(0, 1).Draw(t, "n-tiny")
	}
	return rapid.IntRange(101, 250).Draw(t, "n-large")
}

func genThreshold(t *rapid.T) string {
	switch rapid.IntRange(0, 5).Draw(t, "threshold-kind") {
	case 0:
		return fmt.Sprint(rapid.IntRange(0, 3).Draw(t, "threshold-k"))
	case 1:
		return fmt.Sprintf("%d%%", rapid.SampledFrom([]int{0, 10, 20, 50, 100}).Draw(t, "threshold-p"))
	}
	return ""
}

func genScenario(t *rapid.T, family string) Scenario {
	sc := Scenario{Plane: rapid.SampledFrom(planes()).Draw(t, "plane")}
	sc.Replicas = genReplicas(t)
	sc.Batches = genBatches(t, sc.Replicas, "batches")
	sc.Partition = rapid.IntRange(0, len(sc.Batches)-1).Draw(t, "partition")
	if rapid.IntRange(0, 2).Draw(t, "partition-zero") == 0 {
		sc.Partition = 0
	}
	sc.RolloutID = rapid.SampledFrom([]string{"", "r1", "r1"}).Draw(t, "rollout-id")
	sc.Threshold = genThreshold(t)
	sc.Policy = rapid.SampledFrom([]string{"", string(v1beta1.ImmediateFinalizingPolicyType), string(v1beta1.WaitResumeFinalizingPolicyType)}).Draw(t, "policy")
	sc.MaxSurge = rapid.SampledFrom([]string{"", "25%", "1", "0", "50%"}).Draw(t, "max-surge")
	sc.MaxUnavailable = rapid.SampledFrom([]string{"", "25%", "1", "0", "50%"}).Draw(t, "max-unavailable")
	if sc.MaxSurge == "0" && sc.MaxUnavailable == "0" {
		sc.MaxUnavailable = "1" // both zero is rejected by API validation
	}
	sc.PatchMeta = rapid.Bool().Draw(t, "patch-meta")
	sc.Calm = rapid.IntRange(4, 30).Draw(t, "calm")
	if family == "c01" {
		sc.FinalizeAfter = rapid.IntRange(25, 200).Draw(t, "finalize-after")
	} else {
		sc.FinalizeAfter = rapid.IntRange(8, 90).Draw(t, "finalize-after")
	}
	return sc
}

// ---------------------------------------------------------------------------------------
// Rules: each draws its parameters from the current state and executes one Action.

func (m *machine) ruleReconcile(t *rapid.T) {
	a := Action{Op: "reconcile"}
	skip, exempt := m.knownClass()
	if skip != "" {
		a.Skipped = true
		vlib.Excluded(m.chk, skip)
	} else if exempt != "" {
		a.Exempt = true
		vlib.Excluded(m.chk, exempt)
	}
	m.apply(a)
}

func (m *machine) ruleSetStatus(t *rapid.T) {
	n := m.currentN()
	br := m.getRelease()
	desired := 0
	if br != nil && int(br.Status.CanaryStatus.CurrentBatch) < len(br.Spec.ReleasePlan.Batches) {
		desired = desiredFor(m.sc.Plane, br.Spec.ReleasePlan.Batches[br.Status.CanaryStatus.CurrentBatch].CanaryReplicas, n)
	}
	finalizing := br == nil || br.Status.Phase == v1beta1.RolloutPhaseFinalizing || br.Spec.ReleasePlan.BatchPartition == nil
	surge := isBlueGreen(m.sc.Plane) || m.sc.Plane == pDepCanary
	a := Action{Op: "setStatus", Fresh: rapid.IntRange(0, 9).Draw(t, "fresh") > 0}
	mode := rapid.SampledFrom([]string{"meet", "meet", "meet", "meet", "meet", "meet", "any", "any", "zero", "done", "short"}).Draw(t, "mode")
	if finalizing {
		mode = rapid.SampledFrom([]string{"any", "any", "any", "meet", "done", "done", "almost"}).Draw(t, "mode-finalizing")
	}
	switch mode {
	case "meet": // enough for the current batch, perhaps a little more
		a.Updated = clamp(desired+rapid.SampledFrom([]int{0, 0, 0, 1, 2}).Draw(t, "extra"), 0, n)
		a.UpdatedReady = a.Updated
		if rapid.IntRange(0, 3).Draw(t, "some-unready") == 0 {
			a.UpdatedReady = rapid.IntRange(0, a.Updated).Draw(t, "updated-ready")
		}
	case "short": // one short of the current batch
		a.Updated = clamp(desired-1, 0, n)
		a.UpdatedReady = a.Updated
	case "any":
		a.Updated = rapid.IntRange(0, n).Draw(t, "updated")
		a.UpdatedReady = rapid.IntRange(0, a.Updated).Draw(t, "updated-ready")
	case "zero":
	case "done", "almost":
		a.Updated, a.UpdatedReady = n, n
	}
	switch {
	case mode == "done":
		a.Old, a.OldReady = 0, 0
		if m.sc.Plane == pDepCanary {
			a.Old, a.OldReady, a.SUpdated = n, n, n
		}
	case mode == "almost":
		// all but one thing finished
		a.Old = rapid.IntRange(0, 1).Draw(t, "old-left")
		a.OldReady = rapid.IntRange(0, a.Old).Draw(t, "old-left-ready")
		a.UpdatedReady = n - rapid.IntRange(0, 1).Draw(t, "unready-left")
		if a.UpdatedReady < 0 {
			a.UpdatedReady = 0
		}
		if m.sc.Plane == pDepCanary {
			a.Old, a.OldReady = n, n-rapid.IntRange(0, 1).Draw(t, "stable-unready")
			a.SUpdated = n - rapid.IntRange(0, 1).Draw(t, "stable-old-left")
		}
	case surge:
		a.Old = n
		if finalizing && rapid.Bool().Draw(t, "old-shrunk") {
			a.Old = rapid.IntRange(0, n).Draw(t, "old")
		}
		a.OldReady = a.Old
		if m.sc.Plane == pDepCanary && finalizing {
			a.SUpdated = rapid.IntRange(0, a.Old).Draw(t, "stable-updated")
		}
	default:
		a.Old = n - a.Updated
		a.OldReady = a.Old
	}
	if a.OldReady > 0 && rapid.IntRange(0, 5).Draw(t, "old-unready") == 0 {
		a.OldReady = rapid.IntRange(0, a.Old).Draw(t, "old-ready")
	}
	if a.OldReady < 0 {
		a.OldReady = 0
	}
	ready := a.OldReady + a.UpdatedReady
	if m.sc.Plane == pDepCanary {
		ready = a.OldReady
	}
	a.Available = ready
	if rapid.IntRange(0, 3).Draw(t, "available-less") == 0 {
		a.Available = rapid.IntRange(0, ready).Draw(t, "available")
	}
	m.apply(a)
}

func (m *machine) ruleScale(t *rapid.T) {
	m.calm(t)
	n := m.currentN()
	var nn int
	switch rapid.IntRange(0, 5).Draw(t, "scale-kind") {
	case 0:
		nn = n * 2
	case 1:
		nn = n / 2
	case 2:
		nn = rapid.IntRange(0, 14).Draw(t, "scale-abs")
	default:
		nn = n + rapid.SampledFrom([]int{-3, -2, -1, 1, 2, 3}).Draw(t, "scale-delta")
	}
	nn = clamp(nn, 0, 300)
	if nn == n {
		nn = n + 1
	}
	m.apply(Action{Op: "scale", N: nn})
}

// calm makes the disturbing rules wait until the scenario's calm period since the last
// disturbance has passed, so that histories contain stretches in which a batch can become Ready.
func (m *machine) calm(t *rapid.T) {
	if m.steps-m.lastDisturb < m.sc.Calm {
		t.Skip("calm period")
	}
}

func (m *machine) planOrSkip(t *rapid.T) *v1beta1.BatchRelease {
	m.calm(t)
	br := m.getRelease()
	if br == nil || br.DeletionTimestamp != nil || br.Spec.ReleasePlan.BatchPartition == nil {
		t.Skip("no live release plan")
	}
	return br
}

func (m *machine) ruleRaisePartition(t *rapid.T) {
	br := m.planOrSkip(t)
	bp, last := int(*br.Spec.ReleasePlan.BatchPartition), len(br.Spec.ReleasePlan.Batches)-1
	if bp >= last {
		t.Skip("partition at the last batch")
	}
	to := bp + 1
	if rapid.IntRange(0, 4).Draw(t, "jump") == 0 {
		to = rapid.IntRange(bp+1, last).Draw(t, "to")
	}
	m.apply(Action{Op: "raisePartition", Partition: to})
}

func (m *machine) ruleLowerPartition(t *rapid.T) {
	br := m.planOrSkip(t)
	bp := int(*br.Spec.ReleasePlan.BatchPartition)
	if bp == 0 {
		t.Skip("partition is 0")
	}
	m.apply(Action{Op: "lowerPartition", Partition: rapid.IntRange(0, bp-1).Draw(t, "to")})
}

// maxBatchLabel is the highest batch-id label the controller has put on live pods for id.
func (m *machine) maxBatchLabel(id string) int {
	return m.maxLabel(id)
}

func (m *machine) ruleEditPlan(t *rapid.T) {
	br := m.planOrSkip(t)
	n := m.currentN()
	b := genBatches(t, n, "new-batches")
	// Steering away from another property's finding (C12: a pod batch-id label larger than
	// the number of batches indexes out of range in the label patcher): keep at least as many
	// batches as the largest batch-id already on a pod of the current rollout-id.
	if id := br.Spec.ReleasePlan.RolloutID; id != "" {
		for need := m.maxBatchLabel(id); len(b) < need; {
			b = append(b, b[len(b)-1])
			vlib.Class(m.chk, "steered:c12-batch-id-beyond-plan")
		}
	}
	a := Action{Op: "editPlan", Batches: b, Partition: rapid.IntRange(0, len(b)-1).Draw(t, "new-partition"), Threshold: m.sc.Threshold}
	if rapid.IntRange(0, 3).Draw(t, "change-threshold") == 0 {
		a.Threshold = genThreshold(t)
	}
	m.apply(a)
}

func (m *machine) ruleChangeRolloutID(t *rapid.T) {
	br := m.planOrSkip(t)
	// a rollout-id names one release: a new one has never been used before (or is empty)
	cur := br.Spec.ReleasePlan.RolloutID
	m.idSeq++
	id := fmt.Sprintf("r%d", m.idSeq+1)
	if cur != "" && rapid.IntRange(0, 3).Draw(t, "id-none") == 0 {
		id = ""
	}
	m.apply(Action{Op: "changeRolloutID", RolloutID: id})
}

func (m *machine) rulePodChurn(t *rapid.T) {
	kind := rapid.SampledFrom([]string{"flip-new", "flip-new", "recreate-new", "delete-new", "terminate-new", "flip-old", "delete-old"}).Draw(t, "churn")
	m.apply(Action{Op: "podChurn", Churn: kind, Idx: rapid.IntRange(0, 40).Draw(t, "pod")})
}

func (m *machine) ruleDelete(t *rapid.T) {
	br := m.getRelease()
	if m.steps < m.sc.FinalizeAfter || br == nil || br.DeletionTimestamp != nil {
		t.Skip("not yet")
	}
	if knownOpen[sigBGStillControlled] && isBlueGreen(m.sc.Plane) && br.Spec.ReleasePlan.BatchPartition != nil && br.Status.Phase != v1beta1.RolloutPhaseCompleted {
		// input class of that known finding: a blue-green BatchRelease deleted while batchPartition is set
		vlib.Excluded(m.chk, sigBGStillControlled)
		t.Skip("known finding")
	}
	m.apply(Action{Op: "deleteBatchRelease"})
}

func (m *machine) rulePartitionNil(t *rapid.T) {
	br := m.getRelease()
	if m.steps < m.sc.FinalizeAfter || br == nil || br.DeletionTimestamp != nil {
		t.Skip("not yet")
	}
	pol := rapid.SampledFrom([]string{string(v1beta1.WaitResumeFinalizingPolicyType), string(v1beta1.WaitResumeFinalizingPolicyType), string(v1beta1.ImmediateFinalizingPolicyType)}).Draw(t, "policy")
	if br.Spec.ReleasePlan.BatchPartition == nil && string(br.Spec.ReleasePlan.FinalizingPolicy) == pol {
		t.Skip("already finalizing with this policy")
	}
	m.apply(Action{Op: "setPartitionNil", Policy: pol})
}

// ---------------------------------------------------------------------------------------
// The property.

func runMachine(t *testing.T, family, chk string) {
	var rc Case
	if ok, _ := vlib.LoadReplay(chk, &rc); ok {
		replay(t, family, chk, rc)
		return
	}
	rapid.Check(t, func(t *rapid.T) {
		sc := genScenario(t, family)
		m := newMachine(family, chk, sc)
		defer func() {
			vlib.Record(chk, m.signature(), m.nonTrivial(), m.classes(), func() any { return m.theCase() })
		}()
		step := func(f func(*rapid.T)) func(*rapid.T) {
			return func(t *rapid.T) {
				if m.dead {
					return // the code under test crashed earlier in this case: nothing more is executed
				}
				f(t)
				m.check(t)
			}
		}
		rules := map[string]func(*rapid.T){
			"scale":              step(m.ruleScale),
			"raisePartition":     step(m.ruleRaisePartition),
			"raisePartition-2":   step(m.ruleRaisePartition),
			"lowerPartition":     step(m.ruleLowerPartition),
			"editPlan":           step(m.ruleEditPlan),
			"changeRolloutID":    step(m.ruleChangeRolloutID),
			"podChurn":           step(m.rulePodChurn),
			"deleteBatchRelease": step(m.ruleDelete),
			"setPartitionNil":    step(m.rulePartitionNil),
			"setPartitionNil-2":  step(m.rulePartitionNil),
		}
		// weights: a real Reconcile is by far the most frequent event, status publications next
		for i := 0; i < 10; i++ {
			rules[fmt.Sprintf("reconcile-%d", i)] = step(m.ruleReconcile)
		}
		for i := 0; i < 4; i++ {
			rules[fmt.Sprintf("setStatus-%d", i)] = step(m.ruleSetStatus)
		}
		t.Repeat(rules)
	})
}

func replay(t *testing.T, family, chk string, c Case) {
	m := newMachine(family, chk, c.Sc)
	for i, a := range c.Actions {
		m.apply(a)
		if os.Getenv("P11_TRACE") != "" {
			fmt.Printf("TRACE %3d %-18s %s\n", i, a.Op, m.trace())
		}
		m.check(t)
	}
}

// TestC11BatchReleaseMachine: status oracles (Ready / batchPartition / Completed / fall-back).
func TestC11BatchReleaseMachine(t *testing.T) { runMachine(t, "c11", chkC11) }

// TestC01BatchReleaseKnob: knob oracles (exposure bound, never moved back).
func TestC01BatchReleaseKnob(t *testing.T) { runMachine(t, "c01", chkC01) }
