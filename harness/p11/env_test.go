package p11

import (
	"context"
	"encoding/json"
	"fmt"
	"math"
	"sort"
	"strconv"
	"strings"

	kruisev1alpha1 "github.com/openkruise/kruise-api/apps/v1alpha1"
	kruisev1beta1 "github.com/openkruise/kruise-api/apps/v1beta1"
	"github.com/openkruise/rollouts/api/v1alpha1"
	"github.com/openkruise/rollouts/api/v1beta1"
	"github.com/openkruise/rollouts/pkg/util"
	apps "k8s.io/api/apps/v1"
	corev1 "k8s.io/api/core/v1"
	metav1 "k8s.io/apimachinery/pkg/apis/meta/v1"
	"k8s.io/apimachinery/pkg/runtime"
	"k8s.io/apimachinery/pkg/types"
	"k8s.io/apimachinery/pkg/util/intstr"
	clientgoscheme "k8s.io/client-go/kubernetes/scheme"
	"k8s.io/utils/pointer"
	"sigs.k8s.io/controller-runtime/pkg/client"
)

// ---------------------------------------------------------------------------------------
// The eight (kind, style) control planes.

const (
	pCSPart    = "cloneset-partition"
	pSTSNative = "statefulset-native-partition"
	pSTSAdv    = "statefulset-advanced-partition"
	pDSAdv     = "daemonset-advanced-partition"
	pDepPart   = "deployment-partition"
	pDepCanary = "deployment-canary"
	pCSBG      = "cloneset-bluegreen"
	pDepBG     = "deployment-bluegreen"
)

var allPlanes = []string{pCSPart, pDepCanary, pSTSNative, pSTSAdv, pDSAdv, pDepPart, pCSBG, pDepBG}

func isDeploymentPlane(p string) bool { return p == pDepPart || p == pDepCanary || p == pDepBG }
func isBlueGreen(p string) bool       { return p == pCSBG || p == pDepBG }

const (
	ns      = "ns"
	wname   = "demo"
	oldHash = "v1old"
	newHash = "v2new"
	canHash = "v2can"
)

var (
	scheme  = runtime.NewScheme()
	selLbls = map[string]string{"app": "demo"}
	brKey   = client.ObjectKey{Namespace: ns, Name: wname}
	wKey    = client.ObjectKey{Namespace: ns, Name: wname}
)

func init() {
	must(clientgoscheme.AddToScheme(scheme))
	must(kruisev1alpha1.AddToScheme(scheme))
	must(kruisev1beta1.AddToScheme(scheme))
	must(v1alpha1.AddToScheme(scheme))
	must(v1beta1.AddToScheme(scheme))
}

func must(err error) {
	if err != nil {
		panic(err)
	}
}

// Scenario is what is drawn once per case.
type Scenario struct {
	Plane          string   `json:"plane"`
	Replicas       int      `json:"replicas"`
	Batches        []string `json:"batches"` // "3" or "30%"
	Partition      int      `json:"partition"`
	RolloutID      string   `json:"rolloutID"`
	Threshold      string   `json:"threshold"` // "" = nil
	Policy         string   `json:"policy"`    // "", WaitResume, Immediate
	MaxSurge       string   `json:"maxSurge"`  // the user's own workload setting
	MaxUnavailable string   `json:"maxUnavailable"`
	PatchMeta      bool     `json:"patchMeta"`     // canary style: patchPodTemplateMetadata
	FinalizeAfter  int      `json:"finalizeAfter"` // the finalize rules are enabled after this many steps
	Calm           int      `json:"calm"`          // minimum number of steps between two disturbing rules
}

func parseIS(s string) intstr.IntOrString {
	if strings.HasSuffix(s, "%") {
		return intstr.FromString(s)
	}
	n, err := strconv.Atoi(s)
	if err != nil {
		panic("bad int-or-percent " + s)
	}
	return intstr.FromInt(n)
}

func parseISPtr(s string) *intstr.IntOrString {
	if s == "" {
		return nil
	}
	v := parseIS(s)
	return &v
}

func toBatches(b []string) []v1beta1.ReleaseBatch {
	out := make([]v1beta1.ReleaseBatch, 0, len(b))
	for _, s := range b {
		out = append(out, v1beta1.ReleaseBatch{CanaryReplicas: parseIS(s)})
	}
	return out
}

// ---------------------------------------------------------------------------------------
// Reference arithmetic (the harness's own statement, independent of pkg/.../control).

func ceilDiv(a, b int) int { return (a + b - 1) / b }

// scaledUp is "int, or percent of n rounded up"; not clamped.
func scaledUp(v intstr.IntOrString, n int) int {
	if v.Type == intstr.Int {
		return int(v.IntVal)
	}
	p, err := strconv.Atoi(strings.TrimSuffix(v.StrVal, "%"))
	if err != nil {
		return 0
	}
	return ceilDiv(p*n, 100)
}

func scaledDown(v intstr.IntOrString, n int) int {
	if v.Type == intstr.Int {
		return int(v.IntVal)
	}
	p, err := strconv.Atoi(strings.TrimSuffix(v.StrVal, "%"))
	if err != nil {
		return 0
	}
	return p * n / 100
}

func clamp(x, lo, hi int) int {
	if x < lo {
		return lo
	}
	if x > hi {
		return hi
	}
	return x
}

func isPercent(v intstr.IntOrString) bool { return v.Type == intstr.String }

// desiredFor is the number of updated pods batch value v calls for on a workload of n pods:
// ceil(p*n/100) or k, clamped to [0,n]. For the Deployment knobs that take the plan value
// verbatim (strategy-annotation partition, blue-green maxSurge) a percentage below 100% never
// covers every pod of a workload with more than one pod (documented semantics of the advanced
// Deployment partition).
func desiredFor(plane string, v intstr.IntOrString, n int) int {
	d := clamp(scaledUp(v, n), 0, n)
	if (plane == pDepPart || plane == pDepBG) && n > 1 && isPercent(v) && v.StrVal != "100%" && d > n-1 {
		d = n - 1
	}
	return d
}

// tolerated is the number of updated pods that may be unready: k, or p% of the updated pods
// rounded up.
func tolerated(th *intstr.IntOrString, updated int) int {
	if th == nil {
		return 0
	}
	t := scaledUp(*th, updated)
	if t < 0 {
		t = 0
	}
	return t
}

// ---------------------------------------------------------------------------------------
// Object builders.

func podTemplate(extraLabels map[string]string) corev1.PodTemplateSpec {
	l := map[string]string{"app": "demo"}
	for k, v := range extraLabels {
		l[k] = v
	}
	return corev1.PodTemplateSpec{
		ObjectMeta: metav1.ObjectMeta{Labels: l},
		Spec:       corev1.PodSpec{Containers: []corev1.Container{{Name: "main", Image: "demo:v2"}}},
	}
}

func inProgressing() map[string]string {
	return map[string]string{util.InRolloutProgressingAnnotation: `{"rolloutName":"demo"}`}
}

func (m *machine) buildRelease() *v1beta1.BatchRelease {
	sc := m.sc
	br := &v1beta1.BatchRelease{
		TypeMeta:   metav1.TypeMeta{APIVersion: v1beta1.GroupVersion.String(), Kind: "BatchRelease"},
		ObjectMeta: metav1.ObjectMeta{Namespace: ns, Name: wname},
		Spec: v1beta1.BatchReleaseSpec{
			ReleasePlan: v1beta1.ReleasePlan{
				Batches:          toBatches(sc.Batches),
				BatchPartition:   pointer.Int32(int32(sc.Partition)),
				RolloutID:        sc.RolloutID,
				FailureThreshold: parseISPtr(sc.Threshold),
				FinalizingPolicy: v1beta1.FinalizingPolicyType(sc.Policy),
			},
		},
	}
	ref := &br.Spec.WorkloadRef
	ref.Name = wname
	switch sc.Plane {
	case pCSPart, pCSBG:
		ref.APIVersion, ref.Kind = "apps.kruise.io/v1alpha1", "CloneSet"
	case pSTSNative:
		ref.APIVersion, ref.Kind = "apps/v1", "StatefulSet"
	case pSTSAdv:
		ref.APIVersion, ref.Kind = "apps.kruise.io/v1beta1", "StatefulSet"
	case pDSAdv:
		ref.APIVersion, ref.Kind = "apps.kruise.io/v1alpha1", "DaemonSet"
	default:
		ref.APIVersion, ref.Kind = "apps/v1", "Deployment"
	}
	switch sc.Plane {
	case pDepCanary:
		br.Spec.ReleasePlan.RollingStyle = v1beta1.CanaryRollingStyle
		br.Spec.ReleasePlan.EnableExtraWorkloadForCanary = true
		if sc.PatchMeta {
			br.Spec.ReleasePlan.PatchPodTemplateMetadata = &v1beta1.PatchPodTemplateMetadata{Labels: map[string]string{"canary": "true"}, Annotations: map[string]string{"canary": "true"}}
		}
	case pCSBG, pDepBG:
		br.Spec.ReleasePlan.RollingStyle = v1beta1.BlueGreenRollingStyle
	default:
		br.Spec.ReleasePlan.RollingStyle = v1beta1.PartitionRollingStyle
	}
	return br
}

func (m *machine) newWorkloadObject() client.Object {
	switch m.sc.Plane {
	case pCSPart, pCSBG:
		return &kruisev1alpha1.CloneSet{}
	case pSTSNative:
		return &apps.StatefulSet{}
	case pSTSAdv:
		return &kruisev1beta1.StatefulSet{}
	case pDSAdv:
		return &kruisev1alpha1.DaemonSet{}
	}
	return &apps.Deployment{}
}

// getWorkload reads the (stable) workload from the store; nil when absent.
func (m *machine) getWorkload() client.Object {
	o := m.newWorkloadObject()
	if err := m.cli.Get(context.TODO(), wKey, o); err != nil {
		return nil
	}
	return o
}

func (m *machine) getRelease() *v1beta1.BatchRelease {
	br := &v1beta1.BatchRelease{}
	if err := m.cli.Get(context.TODO(), brKey, br); err != nil {
		return nil
	}
	return br
}

// getCanary returns the canary Deployment the controller created (canary style), or nil.
func (m *machine) getCanary() *apps.Deployment {
	l := &apps.DeploymentList{}
	if err := m.cli.List(context.TODO(), l, client.InNamespace(ns)); err != nil {
		return nil
	}
	var out *apps.Deployment
	for i := range l.Items {
		d := &l.Items[i]
		if d.Labels[util.CanaryDeploymentLabel] == wname && d.DeletionTimestamp == nil {
			if out == nil || d.CreationTimestamp.After(out.CreationTimestamp.Time) {
				out = d
			}
		}
	}
	return out
}

// buildWorkload creates the workload in the state the mutating webhook leaves it in when a new
// revision is published under a Rollout (paused / partition 100% / partition MaxInt16), with
// all pods still on the old revision.
func (m *machine) buildWorkload() {
	sc := m.sc
	n := int32(sc.Replicas)
	sel := &metav1.LabelSelector{MatchLabels: selLbls}
	ms, mu := parseISPtr(sc.MaxSurge), parseISPtr(sc.MaxUnavailable)
	meta := metav1.ObjectMeta{Namespace: ns, Name: wname, Annotations: inProgressing(), Labels: map[string]string{}}
	var obj client.Object
	switch sc.Plane {
	case pCSPart, pCSBG:
		hundred := intstr.FromString("100%")
		obj = &kruisev1alpha1.CloneSet{
			TypeMeta: metav1.TypeMeta{APIVersion: "apps.kruise.io/v1alpha1", Kind: "CloneSet"}, ObjectMeta: meta,
			Spec: kruisev1alpha1.CloneSetSpec{Replicas: &n, Selector: sel, Template: podTemplate(nil),
				UpdateStrategy: kruisev1alpha1.CloneSetUpdateStrategy{Partition: &hundred, MaxSurge: ms, MaxUnavailable: mu}},
			Status: kruisev1alpha1.CloneSetStatus{ObservedGeneration: 1, Replicas: n, ReadyReplicas: n, AvailableReplicas: n,
				CurrentRevision: wname + "-" + oldHash, UpdateRevision: wname + "-" + newHash},
		}
	case pSTSNative:
		obj = &apps.StatefulSet{
			TypeMeta: metav1.TypeMeta{APIVersion: "apps/v1", Kind: "StatefulSet"}, ObjectMeta: meta,
			Spec: apps.StatefulSetSpec{Replicas: &n, Selector: sel, Template: podTemplate(nil), ServiceName: "demo",
				UpdateStrategy: apps.StatefulSetUpdateStrategy{Type: apps.RollingUpdateStatefulSetStrategyType,
					RollingUpdate: &apps.RollingUpdateStatefulSetStrategy{Partition: pointer.Int32(math.MaxInt16)}}},
			Status: apps.StatefulSetStatus{ObservedGeneration: 1, Replicas: n, ReadyReplicas: n, AvailableReplicas: n,
				CurrentRevision: wname + "-" + oldHash, UpdateRevision: wname + "-" + newHash},
		}
	case pSTSAdv:
		obj = &kruisev1beta1.StatefulSet{
			TypeMeta: metav1.TypeMeta{APIVersion: "apps.kruise.io/v1beta1", Kind: "StatefulSet"}, ObjectMeta: meta,
			Spec: kruisev1beta1.StatefulSetSpec{Replicas: &n, Selector: sel, Template: podTemplate(nil), ServiceName: "demo",
				UpdateStrategy: kruisev1beta1.StatefulSetUpdateStrategy{Type: apps.RollingUpdateStatefulSetStrategyType,
					RollingUpdate: &kruisev1beta1.RollingUpdateStatefulSetStrategy{Partition: pointer.Int32(math.MaxInt16), MaxUnavailable: mu}}},
			Status: kruisev1beta1.StatefulSetStatus{ObservedGeneration: 1, Replicas: n, ReadyReplicas: n, AvailableReplicas: n,
				CurrentRevision: wname + "-" + oldHash, UpdateRevision: wname + "-" + newHash},
		}
	case pDSAdv:
		obj = &kruisev1alpha1.DaemonSet{
			TypeMeta: metav1.TypeMeta{APIVersion: "apps.kruise.io/v1alpha1", Kind: "DaemonSet"}, ObjectMeta: meta,
			Spec: kruisev1alpha1.DaemonSetSpec{Selector: sel, Template: podTemplate(nil),
				UpdateStrategy: kruisev1alpha1.DaemonSetUpdateStrategy{Type: kruisev1alpha1.RollingUpdateDaemonSetStrategyType,
					RollingUpdate: &kruisev1alpha1.RollingUpdateDaemonSet{Partition: pointer.Int32(math.MaxInt16), MaxUnavailable: mu}}},
			Status: kruisev1alpha1.DaemonSetStatus{ObservedGeneration: 1, DesiredNumberScheduled: n, CurrentNumberScheduled: n, NumberReady: n,
				NumberAvailable: n, DaemonSetHash: newHash},
		}
	default:
		// apps/v1 defaulting: a Deployment read from an API server always carries both values
		if ms == nil {
			ms = parseISPtr("25%")
		}
		if mu == nil {
			mu = parseISPtr("25%")
		}
		meta.Labels[v1alpha1.DeploymentStableRevisionLabel] = oldHash
		obj = &apps.Deployment{
			TypeMeta: metav1.TypeMeta{APIVersion: "apps/v1", Kind: "Deployment"}, ObjectMeta: meta,
			Spec: apps.DeploymentSpec{Replicas: &n, Selector: sel, Template: podTemplate(nil), Paused: true,
				ProgressDeadlineSeconds: pointer.Int32(600),
				Strategy: apps.DeploymentStrategy{Type: apps.RollingUpdateDeploymentStrategyType,
					RollingUpdate: &apps.RollingUpdateDeployment{MaxSurge: ms, MaxUnavailable: mu}}},
			Status: apps.DeploymentStatus{ObservedGeneration: 1, Replicas: n, ReadyReplicas: n, AvailableReplicas: n},
		}
	}
	must(m.cli.Create(context.TODO(), obj))
	m.wUID = string(obj.GetUID())
	m.observedGen = 1
	if isDeploymentPlane(sc.Plane) {
		d := obj.(*apps.Deployment)
		old := podTemplate(map[string]string{apps.DefaultDeploymentUniqueLabelKey: oldHash})
		old.Spec.Containers[0].Image = "demo:v1"
		m.ensureRS(wname+"-"+oldHash, d, old, "1", int(n), int(n))
	}
	m.syncPods(0, 0, int(n), int(n))
}

// ---------------------------------------------------------------------------------------
// ReplicaSets and pods (real objects, as the control planes list them).

func (m *machine) ensureRS(name string, owner *apps.Deployment, tmpl corev1.PodTemplateSpec, revision string, replicas, ready int) {
	rs := &apps.ReplicaSet{}
	r32 := int32(replicas)
	if err := m.cli.Get(context.TODO(), client.ObjectKey{Namespace: ns, Name: name}, rs); err != nil {
		rs = &apps.ReplicaSet{
			TypeMeta: metav1.TypeMeta{APIVersion: "apps/v1", Kind: "ReplicaSet"},
			ObjectMeta: metav1.ObjectMeta{Namespace: ns, Name: name, Labels: tmpl.Labels,
				Annotations:     map[string]string{util.DeploymentRevisionAnnotation: revision},
				OwnerReferences: []metav1.OwnerReference{*metav1.NewControllerRef(owner, apps.SchemeGroupVersion.WithKind("Deployment"))}},
			Spec: apps.ReplicaSetSpec{Replicas: &r32, Selector: &metav1.LabelSelector{MatchLabels: tmpl.Labels}, Template: tmpl},
		}
		rs.Status = apps.ReplicaSetStatus{Replicas: r32, ReadyReplicas: int32(ready), AvailableReplicas: int32(ready), ObservedGeneration: 1}
		must(m.cli.Create(context.TODO(), rs))
		return
	}
	rs.Spec.Replicas = &r32
	rs.Status.Replicas, rs.Status.ReadyReplicas, rs.Status.AvailableReplicas = r32, int32(ready), int32(ready)
	must(m.cli.Update(context.TODO(), rs))
}

type podInfo struct {
	name  string
	isNew bool
	idx   int
	ready bool
	term  bool
}

func (m *machine) listPods() []podInfo {
	l := &corev1.PodList{}
	must(m.cli.List(context.TODO(), l, client.InNamespace(ns)))
	var out []podInfo
	for i := range l.Items {
		p := &l.Items[i]
		pi := podInfo{name: p.Name, ready: util.IsPodReady(p), term: p.DeletionTimestamp != nil}
		var rest string
		switch {
		case strings.HasPrefix(p.Name, "pod-new-"):
			pi.isNew, rest = true, strings.TrimPrefix(p.Name, "pod-new-")
		case strings.HasPrefix(p.Name, "pod-old-"):
			rest = strings.TrimPrefix(p.Name, "pod-old-")
		default:
			continue
		}
		// name is pod-<rev>-<idx>-<incarnation>
		pi.idx, _ = strconv.Atoi(strings.SplitN(rest, "-", 2)[0])
		out = append(out, pi)
	}
	sort.Slice(out, func(i, j int) bool {
		if out[i].isNew != out[j].isNew {
			return out[i].isNew
		}
		if out[i].idx != out[j].idx {
			return out[i].idx < out[j].idx
		}
		return out[i].name < out[j].name
	})
	return out
}

// podOwner returns the owner reference and revision labels of a pod of the given revision.
func (m *machine) podOwner(isNew bool) (metav1.OwnerReference, map[string]string, bool) {
	lbl := map[string]string{"app": "demo"}
	hash := oldHash
	if isNew {
		hash = newHash
	}
	t := true
	switch m.sc.Plane {
	case pCSPart, pCSBG:
		lbl[apps.ControllerRevisionHashLabelKey] = wname + "-" + hash
		lbl[apps.DefaultDeploymentUniqueLabelKey] = hash
		return metav1.OwnerReference{APIVersion: "apps.kruise.io/v1alpha1", Kind: "CloneSet", Name: wname, UID: types.UID(m.wUID), Controller: &t}, lbl, true
	case pSTSNative:
		lbl[apps.ControllerRevisionHashLabelKey] = wname + "-" + hash
		return metav1.OwnerReference{APIVersion: "apps/v1", Kind: "StatefulSet", Name: wname, UID: types.UID(m.wUID), Controller: &t}, lbl, true
	case pSTSAdv:
		lbl[apps.ControllerRevisionHashLabelKey] = wname + "-" + hash
		return metav1.OwnerReference{APIVersion: "apps.kruise.io/v1beta1", Kind: "StatefulSet", Name: wname, UID: types.UID(m.wUID), Controller: &t}, lbl, true
	case pDSAdv:
		lbl[apps.ControllerRevisionHashLabelKey] = hash
		return metav1.OwnerReference{APIVersion: "apps.kruise.io/v1alpha1", Kind: "DaemonSet", Name: wname, UID: types.UID(m.wUID), Controller: &t}, lbl, true
	}
	// Deployments: pods belong to a ReplicaSet; pod-template-hash is an arbitrary string.
	rsName := wname + "-" + hash
	if isNew && m.sc.Plane == pDepCanary {
		c := m.getCanary()
		if c == nil {
			return metav1.OwnerReference{}, nil, false
		}
		rsName = c.Name + "-" + canHash
		hash = canHash
		if m.sc.PatchMeta {
			lbl["canary"] = "true"
		}
	}
	rs := &apps.ReplicaSet{}
	if err := m.cli.Get(context.TODO(), client.ObjectKey{Namespace: ns, Name: rsName}, rs); err != nil {
		return metav1.OwnerReference{}, nil, false
	}
	lbl[apps.DefaultDeploymentUniqueLabelKey] = hash
	return metav1.OwnerReference{APIVersion: "apps/v1", Kind: "ReplicaSet", Name: rsName, UID: rs.UID, Controller: &t}, lbl, true
}

func (m *machine) createPod(isNew bool, idx int, ready bool) {
	owner, lbl, ok := m.podOwner(isNew)
	if !ok {
		return
	}
	rev := "old"
	if isNew {
		rev = "new"
	}
	m.podSeq++
	p := &corev1.Pod{
		TypeMeta:   metav1.TypeMeta{APIVersion: "v1", Kind: "Pod"},
		ObjectMeta: metav1.ObjectMeta{Namespace: ns, Name: fmt.Sprintf("pod-%s-%d-%d", rev, idx, m.podSeq), Labels: lbl, OwnerReferences: []metav1.OwnerReference{owner}},
		Spec:       corev1.PodSpec{Containers: []corev1.Container{{Name: "main", Image: "demo"}}},
		Status:     corev1.PodStatus{Phase: corev1.PodRunning},
	}
	setPodReady(p, ready)
	must(m.cli.Create(context.TODO(), p))
}

func setPodReady(p *corev1.Pod, ready bool) {
	st := corev1.ConditionFalse
	if ready {
		st = corev1.ConditionTrue
	}
	p.Status.Conditions = []corev1.PodCondition{{Type: corev1.PodReady, Status: st}}
}

func (m *machine) deletePod(name string) {
	p := &corev1.Pod{}
	if err := m.cli.Get(context.TODO(), client.ObjectKey{Namespace: ns, Name: name}, p); err != nil {
		return
	}
	if len(p.Finalizers) > 0 {
		p.Finalizers = nil
		must(m.cli.Update(context.TODO(), p))
		if p.DeletionTimestamp != nil {
			return
		}
	}
	_ = m.cli.Delete(context.TODO(), p)
}

func (m *machine) setPodReadiness(name string, ready bool) {
	p := &corev1.Pod{}
	if err := m.cli.Get(context.TODO(), client.ObjectKey{Namespace: ns, Name: name}, p); err != nil {
		return
	}
	if util.IsPodReady(p) == ready {
		return
	}
	setPodReady(p, ready)
	must(m.cli.Update(context.TODO(), p))
}

// syncPods makes the pod set say: nNew pods of the new revision (the first readyNew of them
// ready) and nOld of the old revision (the first readyOld ready). Existing pods are kept (with
// whatever labels the controller patched onto them), surplus ones are removed.
func (m *machine) syncPods(nNew, readyNew, nOld, readyOld int) {
	have := map[bool]map[int]podInfo{true: {}, false: {}}
	for _, p := range m.listPods() {
		if _, dup := have[p.isNew][p.idx]; dup || p.term {
			m.deletePod(p.name)
			continue
		}
		have[p.isNew][p.idx] = p
	}
	for _, rev := range []bool{true, false} {
		want, ready := nOld, readyOld
		if rev {
			want, ready = nNew, readyNew
		}
		idxs := make([]int, 0, len(have[rev]))
		for i := range have[rev] {
			idxs = append(idxs, i)
		}
		sort.Ints(idxs)
		for _, i := range idxs {
			if i >= want {
				m.deletePod(have[rev][i].name)
			}
		}
		for i := 0; i < want; i++ {
			if p, ok := have[rev][i]; ok {
				m.setPodReadiness(p.name, i < ready)
			} else {
				m.createPod(rev, i, i < ready)
			}
		}
	}
}

// ---------------------------------------------------------------------------------------
// What the workload object in the store says (the oracle's view of the workload).

type obs struct {
	exists       bool
	n            int // desired pods
	fresh        bool
	promoted     bool // status.replicas == status.updatedReplicas
	updated      int
	updatedReady int
	controlled   bool // carries the control-info annotation
}

func (m *machine) podCountUpdatedReady(revision string) int {
	l := &corev1.PodList{}
	must(m.cli.List(context.TODO(), l, client.InNamespace(ns)))
	c := 0
	for i := range l.Items {
		p := &l.Items[i]
		if p.DeletionTimestamp != nil || !util.IsPodReady(p) {
			continue
		}
		if h := p.Labels[apps.ControllerRevisionHashLabelKey]; h != "" && strings.HasSuffix(revision, h) {
			c++
		}
	}
	return c
}

// observe is the harness's reading of "what the workload reports": which field of which object
// carries the number of updated / updated-and-ready pods for each kind.
func (m *machine) observe() obs {
	w := m.getWorkload()
	if w == nil {
		return obs{}
	}
	o := obs{exists: true, controlled: w.GetAnnotations()[util.BatchReleaseControlAnnotation] != ""}
	switch x := w.(type) {
	case *kruisev1alpha1.CloneSet:
		o.n = int(*x.Spec.Replicas)
		o.fresh = x.Status.ObservedGeneration >= x.Generation
		o.promoted = x.Status.Replicas == x.Status.UpdatedReplicas
		o.updated, o.updatedReady = int(x.Status.UpdatedReplicas), int(x.Status.UpdatedReadyReplicas)
	case *apps.StatefulSet:
		o.n = int(*x.Spec.Replicas)
		o.fresh = x.Status.ObservedGeneration >= x.Generation
		o.promoted = x.Status.Replicas == x.Status.UpdatedReplicas
		o.updated, o.updatedReady = int(x.Status.UpdatedReplicas), m.podCountUpdatedReady(x.Status.UpdateRevision)
	case *kruisev1beta1.StatefulSet:
		o.n = int(*x.Spec.Replicas)
		o.fresh = x.Status.ObservedGeneration >= x.Generation
		o.promoted = x.Status.Replicas == x.Status.UpdatedReplicas
		o.updated, o.updatedReady = int(x.Status.UpdatedReplicas), m.podCountUpdatedReady(x.Status.UpdateRevision)
	case *kruisev1alpha1.DaemonSet:
		o.n = int(x.Status.DesiredNumberScheduled)
		o.fresh = x.Status.ObservedGeneration >= x.Generation
		o.promoted = x.Status.DesiredNumberScheduled == x.Status.UpdatedNumberScheduled
		o.updated, o.updatedReady = int(x.Status.UpdatedNumberScheduled), m.podCountUpdatedReady(x.Status.DaemonSetHash)
	case *apps.Deployment:
		o.n = int(*x.Spec.Replicas)
		o.fresh = x.Status.ObservedGeneration >= x.Generation
		o.promoted = x.Status.Replicas == x.Status.UpdatedReplicas
		switch m.sc.Plane {
		case pDepPart:
			o.updated = int(x.Status.UpdatedReplicas)
			var es v1alpha1.DeploymentExtraStatus
			_ = json.Unmarshal([]byte(x.Annotations[v1alpha1.DeploymentExtraStatusAnnotation]), &es)
			o.updatedReady = int(es.UpdatedReadyReplicas)
		case pDepBG:
			o.updated = int(x.Status.UpdatedReplicas)
			rs := &apps.ReplicaSet{}
			if err := m.cli.Get(context.TODO(), client.ObjectKey{Namespace: ns, Name: wname + "-" + newHash}, rs); err == nil && rs.DeletionTimestamp == nil {
				o.updatedReady = int(rs.Status.ReadyReplicas)
			}
		case pDepCanary:
			if c := m.getCanary(); c != nil {
				o.updated, o.updatedReady = int(c.Status.Replicas), int(c.Status.AvailableReplicas)
				if c.Status.ObservedGeneration < c.Generation {
					// the canary Deployment's own counts are stale: nothing can be said
					o.fresh = false
				}
			}
		}
	}
	return o
}

// exposureOf is the reference semantics of each update knob: how many pods of the new revision
// the workload controller may run given the knob value in obj. For canary style obj is the
// canary Deployment and stable is the stable one.
func (m *machine) exposureOf(w client.Object, canary *apps.Deployment) int {
	switch x := w.(type) {
	case *kruisev1alpha1.CloneSet:
		n := int(*x.Spec.Replicas)
		if x.Spec.UpdateStrategy.Paused {
			return 0
		}
		byPartition := n
		if p := x.Spec.UpdateStrategy.Partition; p != nil {
			byPartition = n - clamp(scaledUp(*p, n), 0, n)
		}
		if m.sc.Plane == pCSBG {
			surge := 0
			if s := x.Spec.UpdateStrategy.MaxSurge; s != nil {
				surge = scaledUp(*s, n)
			}
			// blue-green: new pods never become available (minReadySeconds), so only surge
			// pods are created; a partition additionally limits them.
			if x.Spec.MinReadySeconds == v1beta1.MaxReadySeconds {
				if surge < byPartition {
					return surge
				}
				return byPartition
			}
		}
		return byPartition
	case *apps.StatefulSet:
		n := int(*x.Spec.Replicas)
		p := 0
		if x.Spec.UpdateStrategy.RollingUpdate != nil && x.Spec.UpdateStrategy.RollingUpdate.Partition != nil {
			p = int(*x.Spec.UpdateStrategy.RollingUpdate.Partition)
		}
		return n - clamp(p, 0, n)
	case *kruisev1beta1.StatefulSet:
		n := int(*x.Spec.Replicas)
		p := 0
		if ru := x.Spec.UpdateStrategy.RollingUpdate; ru != nil {
			if ru.Paused {
				return 0
			}
			if ru.Partition != nil {
				p = int(*ru.Partition)
			}
		}
		return n - clamp(p, 0, n)
	case *kruisev1alpha1.DaemonSet:
		n := int(x.Status.DesiredNumberScheduled)
		p := 0
		if ru := x.Spec.UpdateStrategy.RollingUpdate; ru != nil {
			if ru.Paused != nil && *ru.Paused {
				return 0
			}
			if ru.Partition != nil {
				p = int(*ru.Partition)
			}
		}
		return n - clamp(p, 0, n)
	case *apps.Deployment:
		n := int(*x.Spec.Replicas)
		switch m.sc.Plane {
		case pDepPart:
			if x.Annotations[v1alpha1.DeploymentStrategyAnnotation] == "" {
				// not (or no longer) under the advanced controller: native semantics
				if x.Spec.Paused {
					return 0
				}
				return n
			}
			var st v1alpha1.DeploymentStrategy
			_ = json.Unmarshal([]byte(x.Annotations[v1alpha1.DeploymentStrategyAnnotation]), &st)
			if st.Paused {
				return 0
			}
			return desiredFor(pDepPart, st.Partition, n)
		case pDepBG:
			if x.Spec.Paused {
				return 0
			}
			if x.Spec.MinReadySeconds != v1beta1.MaxReadySeconds {
				return n // an ordinary rolling update replaces everything
			}
			if x.Spec.Strategy.RollingUpdate == nil || x.Spec.Strategy.RollingUpdate.MaxSurge == nil {
				return ceilDiv(25*n, 100)
			}
			return scaledUp(*x.Spec.Strategy.RollingUpdate.MaxSurge, n)
		case pDepCanary:
			e := 0
			if canary != nil && canary.Spec.Replicas != nil {
				e = int(*canary.Spec.Replicas)
			}
			if !x.Spec.Paused {
				e += n
			}
			return e
		}
	}
	return 0
}

// maxLabel is the highest batch-id label on live pods carrying rollout-id id.
func (m *machine) maxLabel(id string) int {
	l := &corev1.PodList{}
	must(m.cli.List(context.TODO(), l, client.InNamespace(ns)))
	mx := 0
	for i := range l.Items {
		p := &l.Items[i]
		if p.Labels[v1beta1.RolloutIDLabel] != id {
			continue
		}
		if k, err := strconv.Atoi(p.Labels[v1beta1.RolloutBatchIDLabel]); err == nil && k > mx {
			mx = k
		}
	}
	return mx
}
