# Contribution of package p11 (BatchRelease machine, engine E2): the whole of CHECKS["C11"] and the
# part (b) sub-check of CHECKS["C01"]. Both sub-checks run the same rapid state machine (real
# BatchReleaseReconciler, adversarial workload) and differ in the oracle family that fails the test
# (and in how late the finalize rules are enabled); a violation of the other family is recorded as
# a NOTE in the evidence, never dropped.
{
    "C11": {
        "level": "exploration",
        "engine": "E2",
        "technique": "model-based / stateful property-based testing (rapid t.Repeat): the real BatchReleaseReconciler against a simulated API server with an adversarial workload; status-vs-workload invariants evaluated at every BatchRelease status write",
        "level_text": ("Decided by generated search. rapid draws one of the 8 (kind, style) control planes (partition CloneSet / native StatefulSet / "
                       "Advanced StatefulSet / Advanced DaemonSet / Deployment, canary Deployment, blue-green CloneSet / Deployment), replicas 0..250, a plan of "
                       "1..5 int-or-percent batches, batchPartition, rollout-id on/off, failureThreshold, finalizing policy and the workload's own "
                       "maxSurge/maxUnavailable, then a history of ~100 events: a REAL Reconcile of the BatchRelease (most frequent), the workload controller "
                       "publishing ANY status (counts with ready <= updated, fresh or stale observedGeneration, with the matching Pod / ReplicaSet objects), "
                       "scale, raise / lower batchPartition, plan edit, new rollout-id, pod churn (flip / delete / recreate / terminate), deletion of the "
                       "BatchRelease or batchPartition=nil (Finalizing). The reconciler runs against controller-runtime's fake client behind a wrapper "
                       "(UIDs, generation bump on spec change, sorted lists, status subresource, no-op writes are no writes, write log with actor). At every "
                       "status write by the controller the workload object in the store at that instant is judged with a re-statement of the property: "
                       "Ready => enough updated / ready pods; currentBatch <= batchPartition; Completed => no control-info annotation and (WaitResume, styles "
                       "that wait) resumed, no old-revision pod counted, ready within the workload's own maxUnavailable - on every Finalize attempt; a reconcile "
                       "that starts from Ready after a plan change, a scale or a degrade does not end Ready. Failures shrink to a scenario + action list "
                       "(replay file). Sampled, not exhaustive: absence of a violation outside the listed findings is not established."),
        "level_note": ("Trusted: the wrapper around the fake client; the harness's reading of which object field carries 'updated' / 'updated and ready' "
                       "for each kind (CloneSet: status.updatedReplicas / updatedReadyReplicas; native and Advanced StatefulSet, Advanced DaemonSet: status "
                       "updated count and the number of live ready pods whose revision label matches the update revision; partition Deployment: "
                       "status.updatedReplicas and the advanced controller's extra-status annotation; canary style: the canary Deployment's status.replicas / "
                       "availableReplicas; blue-green Deployment: status.updatedReplicas and the new ReplicaSet's status.readyReplicas); the reference "
                       "arithmetic desired = ceil(p*n/100) clamped to [0,n] resp. min(k,n), tolerated = k or ceil(p% of updated); the re-statement of "
                       "'finished' for the waiting styles. The workload is adversarial (any status an API client could publish), so a verdict does not depend "
                       "on a model of the workload controllers."),
        "rule": ("rapid t.Repeat over rules reconcile (x10 weight), setStatus (x4; modes meet-current-batch / any / short-by-one / zero / all-done / almost-done), "
                 "scale, raisePartition, lowerPartition, editPlan, changeRolloutID, podChurn, deleteBatchRelease, setPartitionNil(policy); disturbing rules "
                 "observe a drawn calm period (4..30 steps) so that batches do become Ready; finalize rules are enabled after a drawn step (8..90). Oracles at "
                 "every BatchRelease status write by the controller (store at that instant): c11-ready-but-workload-not-ready, c11-batch-beyond-partition, "
                 "c11-completed-still-controlled-*, c11-completed-unfinished-<plane>; after every reconcile that started in Ready with a fresh workload: "
                 "c11-ready-kept-after-plan-change / -scale / -degrade. Non-trivial: the case reached Ready and afterwards saw a degrade / scale / plan / churn "
                 "rule, or spent >= 2 reconciles in Finalizing with an unfinished workload. Distinct by (plane, plan, n, partition, rollout-id, threshold, "
                 "policy, set of rules fired, states reached)."),
        "assumptions": [
            "Covered control planes (all 8): partition-style CloneSet, native StatefulSet, Advanced StatefulSet (apps.kruise.io/v1beta1), Advanced DaemonSet, Deployment; canary-style Deployment; blue-green CloneSet, Deployment. HPA objects (blue-green DisableHPA/RestoreHPA) and rollback-in-batches (no-need-update) are not generated.",
            "Workloads are created in the state the mutating workload webhook leaves them in (CloneSet partition 100%, StatefulSet/DaemonSet partition MaxInt16, Deployment paused with the stable-revision label); apps/v1 defaulting respected (Deployment maxSurge/maxUnavailable always set; both zero never generated).",
            "Plans are what the Rollout validating webhook admits: positive integers (up to n+2) or 1%..100%, non-decreasing where two neighbours have the same unit; batchPartition within 0..len-1; a new rollout-id has never been used before.",
            "Ready / fall-back oracles are evaluated only while the workload's published status is fresh (observedGeneration >= generation; canary style: also the canary Deployment's) - with a stale status the controller's documented behaviour is to wait, and the stale counts describe an older spec.",
            "Scale fall-back is asserted only when status.replicas != status.updatedReplicas (the controller treats an already fully updated workload as promoted and re-evaluates readiness against the new size instead).",
            "Deployment knobs taking the plan value verbatim (strategy-annotation partition, blue-green maxSurge): a percentage below 100% calls for at most n-1 pods when n > 1 (documented partition semantics of the advanced Deployment controller).",
            "Completed-under-WaitResume is asserted for the styles that wait (canary Deployment, blue-green Deployment / CloneSet) and only when batchPartition is nil; api/v1beta1 documents that WaitResume 'only works in canary-style' - partition-style planes complete immediately and are not judged. 'Ready' there means available (Deployments) / ready (CloneSet) count + the workload's own maxUnavailable >= status.replicas.",
            "The pod batch-label condition of IsBatchReady is C12's subject and not asserted here; a plan edit never drops below the highest batch-id already on a pod (input class of C12's out-of-range finding); a panic of the code under test ends the case with a NOTE other-property=C09/C12.",
            "Known open findings (p11/known.go) are excluded by construction and counted in excluded_known: a reconcile falling into a finding's input class is recorded as skipped (Finalize classes) or runs with the Ready oracles off (count-refresh class); blue-green BatchReleases are not deleted while batchPartition is set. Replays re-execute the recorded decisions, so findings/<sig>.json still fail with their signature.",
        ],
        "subchecks": [
            {"name": "c11-batchrelease-machine", "pkg": "p11", "test": "TestC11BatchReleaseMachine",
             "quick": rp(1000, 16, timeout=600, steps=100, shrinktime="30s"),
             "thorough": rp(6400, 16, timeout=1500, steps=120, shrinktime="120s")},
        ],
    },
    "C01B": {
        "rule_fragment": ("BatchRelease level (c01-batchrelease-knob, package p11): the same rapid state machine as C11 (real BatchReleaseReconciler, 8 control planes, "
                          "adversarial workload status, scale / partition raise+lower / plan edit / rollout-id change / pod churn; finalize rules enabled late, step 25..200). "
                          "At every write to the workload object by the controller (canary style: also the canary Deployment): when the write raises the exposure computed by "
                          "harness reference semantics per knob (CloneSet / StatefulSet / DaemonSet partition, strategy-annotation partition, canary Deployment replicas plus "
                          "stable un-paused, blue-green maxSurge gated by paused / partition / minReadySeconds), exposure <= max over batches[0..min(batchPartition,len-1)] scaled "
                          "to the replicas at that instant (+ ceil(n/100) only for percent batches on the CloneSet percent partition) [c01-knob-exceeds-partition-batch]; no "
                          "controller write lowers the exposure while batchPartition is set [c01-knob-moved-back-<plane>], nor below an earlier controller write of the same epoch "
                          "(an epoch ends at any rule other than reconcile / setStatus / podChurn / raisePartition). Non-trivial: some knob write raised exposure to 0 < e < n."),
        "assumptions": [
            "C01(b) knob semantics (trusted): CloneSet partition -> old pods = int or percentage rounded up, paused -> 0; StatefulSet / DaemonSet partition p -> n-p; partition-style Deployment: strategy-annotation partition = updated pods (percent < 100% keeps one old pod when n > 1); canary style: canary Deployment spec.replicas (+ n when the stable Deployment is un-paused); blue-green: maxSurge rounded up, 0 while the Deployment is paused / limited by the CloneSet partition, n once minReadySeconds is restored.",
            "C01(b) bound: the maximum over batches 0..min(batchPartition,len-1) is used instead of the single batch at batchPartition because plans mixing integers and percentages may be non-monotone (admitted by the validating webhook) and the controllers never move a knob back; writes that leave the exposure unchanged (annotation-only) are not judged; no bound applies once batchPartition is nil (promotion).",
            "C01(b) does not assert progress: a regression that makes UpgradeBatch a no-op produces no knob write at all and is C07's subject (seen as a collapse of the non-trivial fraction only).",
        ],
        "subchecks": [
            {"name": "c01-batchrelease-knob", "pkg": "p11", "test": "TestC01BatchReleaseKnob",
             "quick": rp(1000, 16, timeout=600, steps=100, shrinktime="30s"),
             "thorough": rp(6400, 16, timeout=1500, steps=120, shrinktime="120s")},
        ],
    },
}
