package p11

// knownOpen lists confirmed genuine defects (finding signatures) that are still open in /repo.
// While an entry is true the generator / oracles steer away from exactly that finding's input
// class (counted with vlib.Excluded) so that the search continues behind it. Switch an entry
// to false to see the finding reproduced (its minimal replay is in findings/<sig>.json).
var knownOpen = map[string]bool{
	sigCountRefresh:      true,
	sigBGDepRetry:        true,
	sigBGCloneSetWait:    true,
	sigBGDepWait:         true,
	sigDepPartBack:       true,
	sigBGStillControlled: true,
}
