package p11

// Signatures of the known open findings (vlib.Fail signatures).

// sigCountRefresh: a reconcile that starts from Ready and finds changed workload counts only
// refreshes them in the status and ends the round; the state stays Ready for one more round
// although the workload no longer satisfies the batch.
const sigCountRefresh = "c11-ready-survives-count-refresh"

// sigBGDepRetry: blue-green Deployment Finalize hands an empty object to its wait check when the
// Deployment was already restored by an earlier attempt, so the second attempt reports Completed
// whatever the pods look like.
const sigBGDepRetry = "c11-completed-unfinished-deployment-bluegreen-retry"

// sigBGDepWait: blue-green Deployment Finalize accepts readyReplicas == updatedReplicas plus
// available within maxUnavailable as "all pods updated and ready"; that also holds while
// (unready) old-revision pods still exist.
const sigBGDepWait = "c11-completed-unfinished-deployment-bluegreen"

// sigBGCloneSetWait: blue-green CloneSet Finalize waits only for readyReplicas ==
// updatedReadyReplicas ("no old pod is ready"), which also holds while updated pods are unready
// or old pods still exist unready: Completed is reported although not every pod is updated and
// ready.
const sigBGCloneSetWait = "c11-completed-unfinished-cloneset-bluegreen"

// sigBGStillControlled: blue-green Finalize returns success without touching the workload when
// the BatchRelease is deleted while batchPartition is still set ("continuous release is not
// supported yet"): Completed is reported, the finalizer removed, and the workload keeps the
// control-info annotation and the blue-green settings.
const sigBGStillControlled = "c11-completed-still-controlled-bluegreen"

// knownOpen lists confirmed genuine defects (finding signatures) that are still open in /repo.
// While an entry is true the generator / oracles steer away from exactly that finding's input
// class (counted with vlib.Excluded) so that the search continues behind it. Switch an entry
// to false to see the finding reproduced (its minimal replay is in findings/<sig>.json).
var knownOpen = map[string]bool{
	sigCountRefresh:      true,
	sigBGDepRetry:        true,
	sigBGCloneSetWait:    true,
	sigBGDepWait:         true,
	sigBGStillControlled: true,
}
