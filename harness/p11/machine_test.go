package p11

import (
	"context"
	"encoding/json"
	"fmt"
	"sort"
	"strings"

	kruisev1alpha1 "github.com/openkruise/kruise-api/apps/v1alpha1"
	kruisev1beta1 "github.com/openkruise/kruise-api/apps/v1beta1"
	"github.com/openkruise/rollouts/api/v1alpha1"
	"github.com/openkruise/rollouts/api/v1beta1"
	"github.com/openkruise/rollouts/pkg/controller/batchrelease"
	"github.com/openkruise/rollouts/pkg/util"
	expectations "github.com/openkruise/rollouts/pkg/util/expectation"
	apps "k8s.io/api/apps/v1"
	corev1 "k8s.io/api/core/v1"
	"k8s.io/apimachinery/pkg/runtime"
	"k8s.io/apimachinery/pkg/types"
	"k8s.io/apimachinery/pkg/util/intstr"
	"k8s.io/utils/pointer"
	"sigs.k8s.io/controller-runtime/pkg/client"
	"sigs.k8s.io/controller-runtime/pkg/client/fake"
	"sigs.k8s.io/controller-runtime/pkg/reconcile"

	"verifharness/vlib"
)

// Action is one executed rule with all its drawn parameters (absolute values), so that a case
// is a pure function of (Scenario, []Action).
type Action struct {
	Op string `json:"op"`
	// reconcile: steering decisions of the generated run (input class of a known open finding)
	Skipped bool `json:"skipped,omitempty"` // the reconcile was not executed
	Exempt  bool `json:"exempt,omitempty"`  // executed with the Ready oracles switched off
	// setStatus
	Updated      int  `json:"updated,omitempty"`
	UpdatedReady int  `json:"updatedReady,omitempty"`
	Old          int  `json:"old,omitempty"`      // pods of the old revision that exist
	OldReady     int  `json:"oldReady,omitempty"` // ... and are ready
	Available    int  `json:"available,omitempty"`
	SUpdated     int  `json:"stableUpdated,omitempty"` // canary style: updatedReplicas of the stable Deployment
	Fresh        bool `json:"fresh,omitempty"`
	// scale
	N int `json:"n,omitempty"`
	// plan edits
	Batches   []string `json:"batches,omitempty"`
	Partition int      `json:"partition,omitempty"`
	RolloutID string   `json:"rolloutID,omitempty"`
	Threshold string   `json:"threshold,omitempty"`
	Policy    string   `json:"policy,omitempty"`
	// podChurn
	Churn string `json:"churn,omitempty"`
	Idx   int    `json:"idx,omitempty"`
}

// Case is the replayable unit.
type Case struct {
	Sc      Scenario `json:"scenario"`
	Actions []Action `json:"actions"`
}

type violation struct {
	family string // "c11" or "c01"
	sig    string
	msg    string
}

type runStats struct {
	rules              map[string]int
	reachedReady       bool
	disturbedAfter     bool // a degrade/scale/plan rule after Ready had been reached
	leftReady          bool // Ready -> not Ready observed
	finalizeReconciles int  // reconciles that started in Finalizing
	unfinishedFinalize int  // ... while the workload was unfinished
	completed          bool
	maxBatch           int
	knobWrites         int
	knobRaises         int
	exposureMid        bool // a knob write raised exposure to 0 < e < n
	statusWrites       int
	readyChecks        int
	completedChecks    int
	panicked           bool
}

type machine struct {
	family string // which oracle family fails the test: "c11" or "c01"
	chk    string
	sc     Scenario
	cli    *simClient
	rec    reconcile.Reconciler

	actions     []Action
	steps       int
	lastDisturb int
	idSeq       int
	wUID        string
	podSeq      int
	observedGen int64 // what the workload controller has observed of the (stable) workload
	dead        bool  // the code under test panicked: nothing more is executed

	viol  []violation
	notes []string

	epochHave     bool
	epochExposure int

	// exemptReady: this reconcile falls into the input class of the known finding
	// sigCountRefresh; the Ready oracles are not evaluated for it.
	restoredAtStart bool // blue-green Deployment: already restored when this reconcile started
	exemptReady     bool
	countRefresh    bool // this reconcile is in that input class

	st runStats
}

func newMachine(family, chk string, sc Scenario) *machine {
	m := &machine{family: family, chk: chk, sc: sc}
	m.st.rules = map[string]int{}
	inner := fake.NewClientBuilder().WithScheme(scheme).Build()
	m.cli = &simClient{inner: inner, scheme: scheme, actor: "env"}
	m.cli.onWrite = m.onWrite
	// process-global state of the code under test
	expectations.ResourceExpectations = expectations.NewResourceExpectations()
	m.rec = batchrelease.NewReconcilerForVerif(m.cli, scheme, discardRecorder{})
	m.buildWorkload()
	m.cli.actor = "user"
	must(m.cli.Create(context.TODO(), m.buildRelease()))
	m.cli.actor = "env"
	return m
}

type discardRecorder struct{}

func (discardRecorder) Event(runtime.Object, string, string, string)                  {}
func (discardRecorder) Eventf(runtime.Object, string, string, string, ...interface{}) {}
func (discardRecorder) AnnotatedEventf(runtime.Object, map[string]string, string, string, string, ...interface{}) {
}

func (m *machine) theCase() Case { return Case{Sc: m.sc, Actions: append([]Action(nil), m.actions...)} }

func (m *machine) violate(family, sig, format string, args ...any) {
	m.viol = append(m.viol, violation{family: family, sig: sig, msg: fmt.Sprintf(format, args...)})
}

// check fails the test on the first violation of this run's oracle family; violations of the
// other family are kept as notes (they are the other sub-check's business).
func (m *machine) check(t vlib.TB) {
	for _, v := range m.viol {
		if v.family == m.family {
			vlib.Fail(t, m.chk, v.sig, m.theCase(), "%s\nplane=%s history=%s", v.msg, m.sc.Plane, m.history())
		}
		note := fmt.Sprintf("NOTE other-family=%s sig=%s plane=%s", v.family, v.sig, m.sc.Plane)
		vlib.Note(m.chk, note)
		vlib.Class(m.chk, "other-family-violation:"+v.sig)
	}
	m.viol = nil
}

func (m *machine) history() string {
	var b []string
	for _, a := range m.actions {
		b = append(b, a.Op)
	}
	if len(b) > 60 {
		b = append([]string{"…"}, b[len(b)-60:]...)
	}
	return strings.Join(b, ",")
}

// ---------------------------------------------------------------------------------------
// Executing actions.

var epochKeepers = map[string]bool{"reconcile": true, "setStatus": true, "podChurn": true, "raisePartition": true}

func (m *machine) apply(a Action) {
	m.actions = append(m.actions, a)
	m.steps++
	if m.dead {
		return
	}
	m.st.rules[a.Op]++
	if !epochKeepers[a.Op] {
		m.epochHave = false
	}
	if a.Op != "reconcile" && a.Op != "setStatus" && a.Op != "podChurn" {
		m.lastDisturb = m.steps
	}
	if m.st.reachedReady {
		switch a.Op {
		case "scale", "editPlan", "lowerPartition", "changeRolloutID", "podChurn":
			m.st.disturbedAfter = true
		case "setStatus":
			if br := m.getRelease(); br != nil && br.Status.CanaryStatus.CurrentBatchState == v1beta1.ReadyBatchState {
				m.st.disturbedAfter = true
			}
		}
	}
	switch a.Op {
	case "reconcile":
		m.reconcile(a)
	case "setStatus":
		m.setStatus(a)
	case "scale":
		m.scale(a.N)
	case "raisePartition", "lowerPartition", "editPlan", "changeRolloutID", "setPartitionNil":
		m.editRelease(a)
	case "podChurn":
		m.podChurn(a)
	case "deleteBatchRelease":
		m.cli.actor = "user"
		if br := m.getRelease(); br != nil && br.DeletionTimestamp == nil {
			_ = m.cli.Delete(context.TODO(), br)
		}
		m.cli.actor = "env"
	default:
		panic("unknown op " + a.Op)
	}
}

func (m *machine) currentN() int {
	w := m.getWorkload()
	if w == nil {
		return 0
	}
	if ds, ok := w.(*kruisev1alpha1.DaemonSet); ok {
		return int(ds.Status.DesiredNumberScheduled)
	}
	return int(util.GetReplicas(w))
}

// editRelease is the user / Rollout controller changing the BatchRelease spec.
func (m *machine) editRelease(a Action) {
	br := m.getRelease()
	if br == nil || br.DeletionTimestamp != nil {
		return
	}
	p := &br.Spec.ReleasePlan
	switch a.Op {
	case "raisePartition", "lowerPartition":
		if p.BatchPartition == nil {
			return
		}
		p.BatchPartition = pointer.Int32(int32(clamp(a.Partition, 0, len(p.Batches)-1)))
	case "editPlan":
		if p.BatchPartition == nil || len(a.Batches) == 0 {
			return
		}
		p.Batches = toBatches(a.Batches)
		p.BatchPartition = pointer.Int32(int32(clamp(a.Partition, 0, len(p.Batches)-1)))
		p.FailureThreshold = parseISPtr(a.Threshold)
	case "changeRolloutID":
		if p.BatchPartition == nil {
			return
		}
		p.RolloutID = a.RolloutID
	case "setPartitionNil":
		// what the Rollout controller's finalizingBatchRelease patches
		p.BatchPartition = nil
		p.FinalizingPolicy = v1beta1.FinalizingPolicyType(a.Policy)
	}
	m.cli.actor = "user"
	must(m.cli.Update(context.TODO(), br))
	m.cli.actor = "env"
}

func (m *machine) scale(n int) {
	if n < 0 {
		n = 0
	}
	w := m.getWorkload()
	if w == nil {
		return
	}
	n32 := int32(n)
	m.cli.actor = "user"
	defer func() { m.cli.actor = "env" }()
	switch x := w.(type) {
	case *kruisev1alpha1.CloneSet:
		x.Spec.Replicas = &n32
		must(m.cli.Update(context.TODO(), x))
	case *apps.StatefulSet:
		x.Spec.Replicas = &n32
		must(m.cli.Update(context.TODO(), x))
	case *kruisev1beta1.StatefulSet:
		x.Spec.Replicas = &n32
		must(m.cli.Update(context.TODO(), x))
	case *apps.Deployment:
		x.Spec.Replicas = &n32
		must(m.cli.Update(context.TODO(), x))
	case *kruisev1alpha1.DaemonSet:
		// the number of eligible nodes changed: published by the DaemonSet controller
		x.Status.DesiredNumberScheduled = n32
		must(m.cli.Update(context.TODO(), x))
	}
}

// setStatus is the workload controller publishing status (any counts) together with the pod /
// ReplicaSet objects that correspond to those counts.
func (m *machine) setStatus(a Action) {
	w := m.getWorkload()
	if w == nil {
		return
	}
	n := m.currentN()
	upd := clamp(a.Updated, 0, 1<<20)
	if m.sc.Plane != pDepCanary && !isBlueGreen(m.sc.Plane) {
		upd = clamp(upd, 0, n)
	}
	updReady := clamp(a.UpdatedReady, 0, upd)
	old := clamp(a.Old, 0, 1<<20)
	oldReady := clamp(a.OldReady, 0, old)
	total := old + upd
	ready := oldReady + updReady
	avail := clamp(a.Available, 0, ready)
	if a.Fresh {
		m.observedGen = w.GetGeneration()
	}
	m.cli.actor = "env"
	switch x := w.(type) {
	case *kruisev1alpha1.CloneSet:
		x.Status.ObservedGeneration = m.observedGen
		x.Status.Replicas, x.Status.UpdatedReplicas = int32(total), int32(upd)
		x.Status.ReadyReplicas, x.Status.UpdatedReadyReplicas, x.Status.AvailableReplicas = int32(ready), int32(updReady), int32(avail)
		must(m.cli.Status().Update(context.TODO(), x))
	case *apps.StatefulSet:
		x.Status.ObservedGeneration = m.observedGen
		x.Status.Replicas, x.Status.UpdatedReplicas = int32(total), int32(upd)
		x.Status.ReadyReplicas, x.Status.AvailableReplicas = int32(ready), int32(avail)
		x.Status.CurrentReplicas = int32(old)
		must(m.cli.Status().Update(context.TODO(), x))
	case *kruisev1beta1.StatefulSet:
		x.Status.ObservedGeneration = m.observedGen
		x.Status.Replicas, x.Status.UpdatedReplicas = int32(total), int32(upd)
		x.Status.ReadyReplicas, x.Status.AvailableReplicas = int32(ready), int32(avail)
		x.Status.CurrentReplicas = int32(old)
		must(m.cli.Status().Update(context.TODO(), x))
	case *kruisev1alpha1.DaemonSet:
		x.Status.ObservedGeneration = m.observedGen
		x.Status.CurrentNumberScheduled, x.Status.UpdatedNumberScheduled = int32(total), int32(upd)
		x.Status.NumberReady, x.Status.NumberAvailable = int32(ready), int32(avail)
		must(m.cli.Status().Update(context.TODO(), x))
	case *apps.Deployment:
		switch m.sc.Plane {
		case pDepCanary:
			// stable Deployment: its own pods; canary Deployment: the updated pods
			sUpd := clamp(a.SUpdated, 0, old)
			x.Status.ObservedGeneration = m.observedGen
			x.Status.Replicas, x.Status.UpdatedReplicas = int32(old), int32(sUpd)
			x.Status.ReadyReplicas, x.Status.AvailableReplicas = int32(oldReady), int32(clamp(a.Available, 0, oldReady))
			must(m.cli.Status().Update(context.TODO(), x))
			if c := m.getCanary(); c != nil {
				tmpl := *c.Spec.Template.DeepCopy()
				tmpl.Labels = copyMap(tmpl.Labels)
				tmpl.Labels[apps.DefaultDeploymentUniqueLabelKey] = canHash
				m.ensureRS(c.Name+"-"+canHash, c, tmpl, "1", upd, updReady)
				if a.Fresh {
					c.Status.ObservedGeneration = c.Generation
				}
				c.Status.Replicas, c.Status.UpdatedReplicas = int32(upd), int32(upd)
				c.Status.ReadyReplicas, c.Status.AvailableReplicas = int32(updReady), int32(updReady)
				must(m.cli.Status().Update(context.TODO(), c))
			} else {
				upd, updReady = 0, 0
			}
		default:
			if upd > 0 || m.rsExists(wname+"-"+newHash) {
				tmpl := *x.Spec.Template.DeepCopy()
				tmpl.Labels = copyMap(tmpl.Labels)
				tmpl.Labels[apps.DefaultDeploymentUniqueLabelKey] = newHash
				m.ensureRS(wname+"-"+newHash, x, tmpl, "2", upd, updReady)
			}
			if m.rsExists(wname + "-" + oldHash) {
				m.ensureRS(wname+"-"+oldHash, x, corev1.PodTemplateSpec{}, "1", old, oldReady)
			}
			x.Status.ObservedGeneration = m.observedGen
			x.Status.Replicas, x.Status.UpdatedReplicas = int32(total), int32(upd)
			x.Status.ReadyReplicas, x.Status.AvailableReplicas = int32(ready), int32(avail)
			if m.sc.Plane == pDepPart && x.Annotations[v1alpha1.DeploymentStrategyAnnotation] != "" {
				// the advanced Deployment controller publishes the extra status annotation
				es, _ := json.Marshal(v1alpha1.DeploymentExtraStatus{UpdatedReadyReplicas: int32(updReady), ExpectedUpdatedReplicas: int32(m.exposureOf(x, nil))})
				x.Annotations[v1alpha1.DeploymentExtraStatusAnnotation] = string(es)
			}
			must(m.cli.Update(context.TODO(), x))
		}
	}
	m.syncPods(upd, updReady, old, oldReady)
}

func copyMap(in map[string]string) map[string]string {
	out := map[string]string{}
	for k, v := range in {
		out[k] = v
	}
	return out
}

func (m *machine) rsExists(name string) bool {
	rs := &apps.ReplicaSet{}
	return m.cli.Get(context.TODO(), client.ObjectKey{Namespace: ns, Name: name}, rs) == nil
}

// podChurn changes pods without the workload status following (status lags behind pods).
func (m *machine) podChurn(a Action) {
	pods := m.listPods()
	var cand []podInfo
	wantNew := !strings.HasSuffix(a.Churn, "-old")
	for _, p := range pods {
		if p.isNew == wantNew && !p.term {
			cand = append(cand, p)
		}
	}
	if len(cand) == 0 {
		return
	}
	p := cand[((a.Idx%len(cand))+len(cand))%len(cand)]
	switch strings.TrimSuffix(strings.TrimSuffix(a.Churn, "-new"), "-old") {
	case "flip":
		m.setPodReadiness(p.name, !p.ready)
	case "delete":
		m.deletePod(p.name)
	case "recreate": // a recreated pod has lost the labels the controller patched
		m.deletePod(p.name)
		m.createPod(p.isNew, p.idx, p.ready)
	case "terminate": // deletionTimestamp set, still listed
		po := &corev1.Pod{}
		if err := m.cli.Get(context.TODO(), client.ObjectKey{Namespace: ns, Name: p.name}, po); err == nil {
			po.Finalizers = []string{"verif/hold"}
			must(m.cli.Update(context.TODO(), po))
			_ = m.cli.Delete(context.TODO(), po)
		}
	}
}

// ---------------------------------------------------------------------------------------
// One real Reconcile, with the oracles that look at a whole reconcile.

// knownClass says whether a reconcile started now would fall into the input class of a known open
// finding: skip != "" means the reconcile must not be executed, exempt != "" means it is executed
// with the Ready oracles switched off. Only the generator asks (steering); the answer is recorded
// in the Action, so a replay re-executes exactly what the generated run did.
func (m *machine) knownClass() (skip, exempt string) {
	pre := m.getRelease()
	if pre == nil {
		return "", ""
	}
	plan := pre.Spec.ReleasePlan
	// a reconcile that will call Finalize under the wait policy
	waiting := plan.BatchPartition == nil && plan.FinalizingPolicy == v1beta1.WaitResumeFinalizingPolicyType && pre.Status.Phase == v1beta1.RolloutPhaseFinalizing
	w := m.getWorkload()
	switch {
	// sigBGDepRetry: a further Finalize attempt on an already restored, unfinished blue-green
	// Deployment under WaitResume.
	case knownOpen[sigBGDepRetry] && m.sc.Plane == pDepBG && waiting &&
		w != nil && w.GetAnnotations()[v1beta1.OriginalDeploymentStrategyAnnotation] == "" && m.unfinishedWhy() != "":
		return sigBGDepRetry, ""
	// sigBGDepWait: a first Finalize attempt (WaitResume) on a blue-green Deployment whose status
	// has readyReplicas == updatedReplicas while old-revision pods are still counted.
	case knownOpen[sigBGDepWait] && m.sc.Plane == pDepBG && waiting && w != nil && w.GetAnnotations()[v1beta1.OriginalDeploymentStrategyAnnotation] != "":
		if d := w.(*apps.Deployment); d.Status.ReadyReplicas == d.Status.UpdatedReplicas && d.Status.UpdatedReplicas != d.Status.Replicas {
			return sigBGDepWait, ""
		}
	// sigBGCloneSetWait: a Finalize attempt (WaitResume) on a blue-green CloneSet whose status
	// passes "readyReplicas == updatedReadyReplicas" although the workload is not finished.
	case knownOpen[sigBGCloneSetWait] && m.sc.Plane == pCSBG && waiting && w != nil:
		if cs := w.(*kruisev1alpha1.CloneSet); cs.Status.ReadyReplicas == cs.Status.UpdatedReadyReplicas && m.unfinishedWhy() != "" {
			return sigBGCloneSetWait, ""
		}
	}
	if knownOpen[sigCountRefresh] && m.isCountRefresh(pre, m.observe()) {
		return "", sigCountRefresh
	}
	return "", ""
}

// isCountRefresh: input class of sigCountRefresh - the reconcile starts in Ready while the
// workload's updated / updated-ready counts differ from the ones recorded in the BatchRelease
// status (refreshing them ends the round before readiness is re-evaluated).
func (m *machine) isCountRefresh(pre *v1beta1.BatchRelease, o obs) bool {
	return pre != nil && o.exists && o.fresh && pre.DeletionTimestamp == nil &&
		pre.Status.Phase == v1beta1.RolloutPhaseProgressing && pre.Status.CanaryStatus.CurrentBatchState == v1beta1.ReadyBatchState &&
		(int(pre.Status.CanaryStatus.UpdatedReplicas) != o.updated || int(pre.Status.CanaryStatus.UpdatedReadyReplicas) != o.updatedReady)
}

func (m *machine) reconcile(a Action) {
	if a.Skipped {
		return
	}
	pre := m.getRelease()
	var preObs obs
	if pre != nil {
		preObs = m.observe()
		if pre.Status.Phase == v1beta1.RolloutPhaseFinalizing {
			m.st.finalizeReconciles++
			if preObs.exists && !m.finished(pre) {
				m.st.unfinishedFinalize++
			}
		}
	}
	m.restoredAtStart = false
	if w := m.getWorkload(); w != nil && m.sc.Plane == pDepBG && w.GetAnnotations()[v1beta1.OriginalDeploymentStrategyAnnotation] == "" {
		m.restoredAtStart = true
	}
	countRefresh := m.isCountRefresh(pre, preObs)
	m.exemptReady, m.countRefresh = a.Exempt, countRefresh
	defer func() { m.exemptReady, m.countRefresh = false, false }()
	// the informer has delivered everything that happened so far
	expectations.ResourceExpectations = expectations.NewResourceExpectations()
	m.cli.actor = "controller"
	panicked, msg := vlib.Guard(func() {
		_, _ = m.rec.Reconcile(context.TODO(), reconcile.Request{NamespacedName: types.NamespacedName{Namespace: ns, Name: wname}})
	})
	m.cli.actor = "env"
	if panicked {
		// a crash is the business of C09 / C12, not of these checks: note it and stop the case
		m.dead, m.st.panicked = true, true
		short := msg
		if i := strings.Index(short, "\n"); i > 0 {
			short = short[:i]
		}
		where := "other"
		if strings.Contains(msg, "labelpatch") {
			where = "labelpatch"
		}
		vlib.Note(m.chk, fmt.Sprintf("NOTE other-property=C09/C12 reconcile panicked (%s): %s plane=%s", where, short, m.sc.Plane))
		vlib.Class(m.chk, "other-property-panic:"+where)
		return
	}
	post := m.getRelease()
	if post != nil {
		if int(post.Status.CanaryStatus.CurrentBatch) > m.st.maxBatch {
			m.st.maxBatch = int(post.Status.CanaryStatus.CurrentBatch)
		}
		if post.Status.Phase == v1beta1.RolloutPhaseCompleted {
			m.st.completed = true
		}
	}
	if pre == nil || post == nil {
		return
	}
	wasReady := pre.Status.Phase == v1beta1.RolloutPhaseProgressing && pre.Status.CanaryStatus.CurrentBatchState == v1beta1.ReadyBatchState
	isReady := post.Status.Phase == v1beta1.RolloutPhaseProgressing && post.Status.CanaryStatus.CurrentBatchState == v1beta1.ReadyBatchState
	if isReady {
		m.st.reachedReady = true
	}
	if wasReady && !isReady {
		m.st.leftReady = true
	}
	// Oracle "falls back rather than staying Ready": a reconcile that starts from Ready while
	// the plan changed, the workload was scaled, or the workload no longer satisfies the batch,
	// must not leave the state Ready. Preconditions (documented waiting behaviour): the
	// workload exists and its status is fresh.
	if !wasReady || !isReady || !preObs.exists || !preObs.fresh || m.exemptReady {
		return
	}
	plan := pre.Spec.ReleasePlan
	cb := int(pre.Status.CanaryStatus.CurrentBatch)
	switch {
	case util.HashReleasePlanBatches(&plan) != pre.Status.ObservedReleasePlanHash:
		m.violate("c11", "c11-ready-kept-after-plan-change", "reconcile started from Ready with a changed release plan and left the state Ready (batch %d)", cb)
	case !preObs.promoted && pre.Status.ObservedWorkloadReplicas != -1 && int(pre.Status.ObservedWorkloadReplicas) != preObs.n:
		m.violate("c11", "c11-ready-kept-after-scale", "reconcile started from Ready after the workload was scaled %d -> %d and left the state Ready (batch %d)", pre.Status.ObservedWorkloadReplicas, preObs.n, cb)
	case cb < len(plan.Batches):
		if why := m.notReady(plan, cb, preObs); why != "" {
			sig := "c11-ready-kept-after-degrade"
			if countRefresh {
				sig = sigCountRefresh
			}
			m.violate("c11", sig, "reconcile started from Ready with a workload that does not satisfy batch %d (%s) and left the state Ready; workload: %+v", cb, why, preObs)
		}
	}
}

// notReady re-states the readiness rule of the property text; "" when satisfied.
func (m *machine) notReady(plan v1beta1.ReleasePlan, batch int, o obs) string {
	d := desiredFor(m.sc.Plane, plan.Batches[batch].CanaryReplicas, o.n)
	if o.n == 0 {
		return ""
	}
	if o.updated < d {
		return fmt.Sprintf("updated %d < desired %d", o.updated, d)
	}
	if tol := tolerated(plan.FailureThreshold, o.updated); o.updatedReady+tol < d {
		return fmt.Sprintf("updatedReady %d + tolerated %d < desired %d", o.updatedReady, tol, d)
	}
	if d > 0 && o.updatedReady < 1 {
		return fmt.Sprintf("desired %d > 0 but no updated pod is ready", d)
	}
	return ""
}

// ownMaxUnavailable restates how many pods of a rolling update may be unavailable.
func ownMaxUnavailable(maxSurge, maxUnavailable *intstr.IntOrString, defSurge, defUnavail string, n int) int {
	s, u := parseIS(defSurge), parseIS(defUnavail)
	if maxSurge != nil {
		s = *maxSurge
	}
	if maxUnavailable != nil {
		u = *maxUnavailable
	}
	surge, unavail := scaledUp(s, n), scaledDown(u, n)
	if surge == 0 && unavail == 0 {
		unavail = 1
	}
	return clamp(unavail, 0, n)
}

// finished re-states "the workload has been resumed and every pod is updated and ready (within
// the workload's own maxUnavailable)" for the styles that wait; true for styles that do not.
func (m *machine) finished(br *v1beta1.BatchRelease) bool { return m.unfinishedWhy() == "" }

func (m *machine) unfinishedWhy() string {
	w := m.getWorkload()
	if w == nil {
		return ""
	}
	switch x := w.(type) {
	case *apps.Deployment:
		if m.sc.Plane != pDepCanary && m.sc.Plane != pDepBG {
			return ""
		}
		if x.Spec.Paused {
			return "deployment is paused"
		}
		if x.Status.UpdatedReplicas != x.Status.Replicas {
			return fmt.Sprintf("status.updatedReplicas %d != status.replicas %d (old-revision pods remain)", x.Status.UpdatedReplicas, x.Status.Replicas)
		}
		mu := 0
		if x.Spec.Strategy.Type == apps.RollingUpdateDeploymentStrategyType && *x.Spec.Replicas > 0 {
			var s, u *intstr.IntOrString
			if ru := x.Spec.Strategy.RollingUpdate; ru != nil {
				s, u = ru.MaxSurge, ru.MaxUnavailable
			}
			mu = ownMaxUnavailable(s, u, "25%", "25%", int(*x.Spec.Replicas))
		}
		if int(x.Status.AvailableReplicas)+mu < int(x.Status.Replicas) {
			return fmt.Sprintf("available %d + maxUnavailable %d < replicas %d", x.Status.AvailableReplicas, mu, x.Status.Replicas)
		}
	case *kruisev1alpha1.CloneSet:
		if m.sc.Plane != pCSBG {
			return ""
		}
		if x.Status.UpdatedReplicas != x.Status.Replicas {
			return fmt.Sprintf("status.updatedReplicas %d != status.replicas %d (old-revision pods remain)", x.Status.UpdatedReplicas, x.Status.Replicas)
		}
		mu := ownMaxUnavailable(x.Spec.UpdateStrategy.MaxSurge, x.Spec.UpdateStrategy.MaxUnavailable, "0", "20%", int(*x.Spec.Replicas))
		if int(x.Status.ReadyReplicas)+mu < int(x.Status.Replicas) {
			return fmt.Sprintf("ready %d + maxUnavailable %d < replicas %d", x.Status.ReadyReplicas, mu, x.Status.Replicas)
		}
	}
	return ""
}

// ---------------------------------------------------------------------------------------
// Monitors: called by simClient after every effective write.

func (m *machine) onWrite(w *writeRec) {
	if w.Actor != "controller" {
		return
	}
	switch {
	case w.GVK.Kind == "BatchRelease":
		if w.Before == nil || w.After == nil {
			return
		}
		b, a := w.Before.(*v1beta1.BatchRelease), w.After.(*v1beta1.BatchRelease)
		if jsonOf(b.Status) != jsonOf(a.Status) {
			m.onStatusWrite(b, a)
		}
	case w.Key == wKey && w.GVK.Kind != "Pod" && w.GVK.Kind != "ReplicaSet" && w.GVK.Kind != "BatchRelease":
		m.onKnobWrite(w, false)
	case w.GVK.Kind == "Deployment" && m.sc.Plane == pDepCanary:
		m.onKnobWrite(w, true)
	}
}

func jsonOf(x any) string {
	b, _ := json.Marshal(x)
	return string(b)
}

// onStatusWrite: the C11 oracles at a BatchRelease status write, against the store right now.
func (m *machine) onStatusWrite(before, after *v1beta1.BatchRelease) {
	m.st.statusWrites++
	st := after.Status
	plan := after.Spec.ReleasePlan
	cb := int(st.CanaryStatus.CurrentBatch)
	o := m.observe()
	if st.Phase == v1beta1.RolloutPhaseProgressing {
		if plan.BatchPartition != nil && cb > int(*plan.BatchPartition) {
			m.violate("c11", "c11-batch-beyond-partition", "status write with currentBatch %d > batchPartition %d (state %s)", cb, *plan.BatchPartition, st.CanaryStatus.CurrentBatchState)
		}
		if st.CanaryStatus.CurrentBatchState == v1beta1.ReadyBatchState && o.exists && o.fresh && cb < len(plan.Batches) && !m.exemptReady {
			m.st.readyChecks++
			if why := m.notReady(plan, cb, o); why != "" {
				sig := "c11-ready-but-workload-not-ready"
				if m.countRefresh && before.Status.CanaryStatus.CurrentBatchState == v1beta1.ReadyBatchState {
					sig = sigCountRefresh
				}
				m.violate("c11", sig, "status write reports batch %d (%s of %d) Ready but the workload does not satisfy it: %s; workload: %+v", cb, plan.Batches[cb].CanaryReplicas.String(), o.n, why, o)
			}
		}
	}
	if st.Phase == v1beta1.RolloutPhaseCompleted && before.Status.Phase != v1beta1.RolloutPhaseCompleted && o.exists {
		m.st.completedChecks++
		if o.controlled {
			sig := "c11-completed-still-controlled-" + m.sc.Plane
			if isBlueGreen(m.sc.Plane) {
				sig = sigBGStillControlled
			}
			m.violate("c11", sig, "status write reports Completed while the workload still carries the control-info annotation (batchPartition=%v, deleting=%v)", ptrStr(plan.BatchPartition), after.DeletionTimestamp != nil)
		}
		if plan.FinalizingPolicy == v1beta1.WaitResumeFinalizingPolicyType && plan.BatchPartition == nil {
			if why := m.unfinishedWhy(); why != "" {
				sig := "c11-completed-unfinished-" + m.sc.Plane
				if m.sc.Plane == pDepBG && m.restoredAtStart {
					sig = sigBGDepRetry
				}
				m.violate("c11", sig, "status write reports Completed under WaitResume (Finalize attempt %d) but the workload is not finished: %s", m.st.finalizeReconciles, why)
			}
		}
	}
}

func ptrStr(p *int32) string {
	if p == nil {
		return "nil"
	}
	return fmt.Sprint(*p)
}

// onKnobWrite: the C01(b) oracles at a controller write to the workload object.
func (m *machine) onKnobWrite(w *writeRec, isCanary bool) {
	br := m.getRelease()
	if br == nil || br.Spec.ReleasePlan.BatchPartition == nil || len(br.Spec.ReleasePlan.Batches) == 0 {
		return
	}
	stable := m.getWorkload()
	if stable == nil {
		return
	}
	var before, after int
	if isCanary {
		if w.After != nil && w.After.GetLabels()[util.CanaryDeploymentLabel] != wname {
			return
		}
		var cb, ca *apps.Deployment
		if w.Before != nil {
			cb = w.Before.(*apps.Deployment)
		}
		if w.After != nil {
			ca = w.After.(*apps.Deployment)
		}
		before, after = m.exposureOf(stable, cb), m.exposureOf(stable, ca)
	} else {
		if w.Before == nil || w.After == nil {
			return
		}
		c := m.getCanary()
		before, after = m.exposureOf(w.Before, c), m.exposureOf(w.After, c)
	}
	m.st.knobWrites++
	n := m.currentN()
	plan := br.Spec.ReleasePlan
	idx := clamp(int(*plan.BatchPartition), 0, len(plan.Batches)-1)
	if after > before {
		m.st.knobRaises++
		if after > 0 && after < n {
			m.st.exposureMid = true
		}
		bound, slack := 0, 0
		for j := 0; j <= idx; j++ {
			v := plan.Batches[j].CanaryReplicas
			if b := scaledUp(v, n); b > bound {
				bound = b
			}
			if m.sc.Plane == pCSPart && isPercent(v) {
				slack = ceilDiv(n, 100)
			}
		}
		if after > bound+slack {
			m.violate("c01", "c01-knob-exceeds-partition-batch", "controller write to %s %s raised exposure %d -> %d, above batches[<=%d] of %v scaled to %d replicas = %d (+slack %d); currentBatch=%d",
				w.GVK.Kind, w.Key.Name, before, after, idx, batchStrings(plan.Batches), n, bound, slack, br.Status.CanaryStatus.CurrentBatch)
		}
	}
	if after < before {
		m.violate("c01", "c01-knob-moved-back-"+m.sc.Plane, "controller write to %s %s lowered exposure %d -> %d while batchPartition=%d", w.GVK.Kind, w.Key.Name, before, after, *plan.BatchPartition)
	} else if m.epochHave && after < m.epochExposure {
		m.violate("c01", "c01-knob-moved-back-in-epoch", "controller write to %s %s set exposure %d below the %d of an earlier controller write of the same epoch", w.GVK.Kind, w.Key.Name, after, m.epochExposure)
	}
	m.epochHave, m.epochExposure = true, after
}

func batchStrings(b []v1beta1.ReleaseBatch) []string {
	var out []string
	for _, x := range b {
		out = append(out, x.CanaryReplicas.String())
	}
	return out
}

// ---------------------------------------------------------------------------------------
// Statistics.

func (m *machine) classes() []string {
	c := []string{"plane=" + m.sc.Plane}
	if m.sc.RolloutID != "" {
		c = append(c, "rollout-id=set")
	} else {
		c = append(c, "rollout-id=none")
	}
	c = append(c, "policy="+m.sc.Policy, "n="+nBucket(m.sc.Replicas), "plan="+planShape(m.sc.Batches))
	if m.sc.Threshold != "" {
		c = append(c, "threshold=set")
	}
	flag := func(b bool, s string) {
		if b {
			c = append(c, s)
		}
	}
	flag(m.st.reachedReady, "reached-ready")
	flag(m.st.leftReady, "left-ready")
	flag(m.st.reachedReady && m.st.disturbedAfter, "disturbed-after-ready")
	flag(m.st.finalizeReconciles > 0, "finalizing-reached")
	flag(m.st.unfinishedFinalize >= 2, "finalize-retried-unfinished")
	flag(m.st.completed, "completed")
	flag(m.st.knobRaises > 0, "knob-raised")
	flag(m.st.exposureMid, "exposure-mid")
	flag(m.st.maxBatch >= 1, "batch>=1")
	flag(m.st.maxBatch >= 2, "batch>=2")
	flag(m.st.readyChecks > 0, "ready-oracle-evaluated")
	flag(m.st.completedChecks > 0, "completed-oracle-evaluated")
	var rules []string
	for r := range m.st.rules {
		rules = append(rules, r)
	}
	sort.Strings(rules)
	for _, r := range rules {
		c = append(c, "rule:"+r)
	}
	return c
}

func nBucket(n int) string {
	switch {
	case n == 0:
		return "0"
	case n == 1:
		return "1"
	case n <= 5:
		return "2-5"
	case n <= 12:
		return "6-12"
	case n <= 40:
		return "13-40"
	case n <= 100:
		return "41-100"
	}
	return ">100"
}

func planShape(b []string) string {
	s := ""
	for _, x := range b {
		if strings.HasSuffix(x, "%") {
			s += "p"
		} else {
			s += "i"
		}
	}
	return s
}

func (m *machine) signature() string {
	var rules []string
	for r := range m.st.rules {
		rules = append(rules, r)
	}
	sort.Strings(rules)
	return fmt.Sprintf("%s|%v|%d|%d|%s|%s|%s|%v|%v%v%v%v%v|%d", m.sc.Plane, m.sc.Batches, m.sc.Replicas, m.sc.Partition, m.sc.RolloutID, m.sc.Threshold, m.sc.Policy,
		rules, m.st.reachedReady, m.st.leftReady, m.st.completed, m.st.exposureMid, m.st.unfinishedFinalize >= 2, m.st.maxBatch)
}

func (m *machine) nonTrivial() bool {
	if m.family == "c01" {
		return m.st.exposureMid
	}
	return (m.st.reachedReady && m.st.disturbedAfter) || m.st.unfinishedFinalize >= 2
}

// trace is a one-line summary of the BatchRelease and workload for debugging replays.
func (m *machine) trace() string {
	br := m.getRelease()
	o := m.observe()
	w := m.getWorkload()
	exp := -1
	if w != nil {
		exp = m.exposureOf(w, m.getCanary())
	}
	if br == nil {
		return fmt.Sprintf("br=<gone> workload=%+v exposure=%d", o, exp)
	}
	st := br.Status
	return fmt.Sprintf("phase=%s batch=%d state=%s bp=%s upd=%d/%d obsN=%d msg=%q | workload=%+v exposure=%d", st.Phase, st.CanaryStatus.CurrentBatch, st.CanaryStatus.CurrentBatchState,
		ptrStr(br.Spec.ReleasePlan.BatchPartition), st.CanaryStatus.UpdatedReplicas, st.CanaryStatus.UpdatedReadyReplicas, st.ObservedWorkloadReplicas, st.Message, o, exp)
}
