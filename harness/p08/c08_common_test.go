package p08

import (
	"bytes"
	"context"
	"encoding/json"
	"fmt"
	"io"
	"os"
	"reflect"
	"sort"
	"strings"
	"testing"

	jsonpatch "github.com/evanphx/json-patch"
	kruisev1alpha1 "github.com/openkruise/kruise-api/apps/v1alpha1"
	kruisev1beta1 "github.com/openkruise/kruise-api/apps/v1beta1"
	rolloutapi "github.com/openkruise/rollouts/api"
	"github.com/openkruise/rollouts/api/v1alpha1"
	"github.com/openkruise/rollouts/api/v1beta1"
	"github.com/openkruise/rollouts/pkg/util"
	"github.com/openkruise/rollouts/pkg/webhook/util/configuration"
	"github.com/openkruise/rollouts/pkg/webhook/workload/mutating"
	admissionv1 "k8s.io/api/admission/v1"
	admregv1 "k8s.io/api/admissionregistration/v1"
	apps "k8s.io/api/apps/v1"
	metav1 "k8s.io/apimachinery/pkg/apis/meta/v1"
	"k8s.io/apimachinery/pkg/runtime"
	"k8s.io/apimachinery/pkg/util/intstr"
	clientgoscheme "k8s.io/client-go/kubernetes/scheme"
	"k8s.io/klog/v2"
	"pgregory.net/rapid"
	"sigs.k8s.io/controller-runtime/pkg/client"
	"sigs.k8s.io/controller-runtime/pkg/client/fake"
	"sigs.k8s.io/controller-runtime/pkg/webhook/admission"

	"verifharness/vlib"
)

func TestMain(m *testing.M) {
	klog.SetOutput(io.Discard)
	klog.LogToStderr(false)
	// C08_KNOWN_OFF=all|<sig>[,<sig>] switches exclusions off (used to re-confirm a finding or to
	// verify a repair); the committed default is known.go.
	for _, s := range strings.Split(os.Getenv("C08_KNOWN_OFF"), ",") {
		if s == "all" {
			knownOpen = map[string]bool{}
		}
		delete(knownOpen, s)
	}
	vlib.Main(m)
}

// Names the handlers read and write; taken from the repository so that a rename is followed.
var (
	annInProgress   = util.InRolloutProgressingAnnotation
	annRolloutID    = v1beta1.RolloutIDLabel // read from the workload's ANNOTATIONS by the webhook (implicit precondition)
	annDepStrategy  = v1alpha1.DeploymentStrategyAnnotation
	annOrigStrategy = v1beta1.OriginalDeploymentStrategyAnnotation
	lblStableRev    = v1alpha1.DeploymentStableRevisionLabel
	lblWorkloadType = util.WorkloadTypeLabel
	hashLabel       = apps.DefaultDeploymentUniqueLabelKey
)

const (
	wlNS   = "ns1"
	wlName = "demo"
	wlUID  = "uid-demo"
)

var scheme = func() *runtime.Scheme {
	s := runtime.NewScheme()
	_ = clientgoscheme.AddToScheme(s)
	_ = kruisev1alpha1.AddToScheme(s)
	_ = kruisev1beta1.AddToScheme(s)
	_ = rolloutapi.AddToScheme(s)
	return s
}()

var decoder, _ = admission.NewDecoder(scheme)

// ---------------------------------------------------------------------------------------------
// JSON object helpers (the request carries raw JSON; the reference reads the same raw JSON with
// these few lines instead of the repository's typed/unstructured accessors)
// ---------------------------------------------------------------------------------------------

type obj = map[string]any

func deepCopyObj(m obj) obj {
	b, _ := json.Marshal(m)
	var out obj
	_ = json.Unmarshal(b, &out)
	return out
}

func getPath(m any, path ...string) (any, bool) {
	cur := m
	for _, p := range path {
		mm, ok := cur.(map[string]any)
		if !ok {
			return nil, false
		}
		cur, ok = mm[p]
		if !ok {
			return nil, false
		}
	}
	return cur, true
}

func setPath(m obj, v any, path ...string) {
	cur := m
	for _, p := range path[:len(path)-1] {
		next, ok := cur[p].(map[string]any)
		if !ok {
			next = obj{}
			cur[p] = next
		}
		cur = next
	}
	cur[path[len(path)-1]] = v
}

func delPath(m obj, path ...string) {
	parent, ok := getPath(m, path[:len(path)-1]...)
	if !ok {
		return
	}
	if pm, ok := parent.(map[string]any); ok {
		delete(pm, path[len(path)-1])
	}
}

func strAt(m obj, path ...string) string {
	v, _ := getPath(m, path...)
	s, _ := v.(string)
	return s
}

func boolAt(m obj, path ...string) bool {
	v, _ := getPath(m, path...)
	b, _ := v.(bool)
	return b
}

func numAt(m obj, path ...string) (float64, bool) {
	v, ok := getPath(m, path...)
	if !ok {
		return 0, false
	}
	f, ok := v.(float64)
	return f, ok
}

func strMapAt(m obj, path ...string) map[string]string {
	v, _ := getPath(m, path...)
	mm, _ := v.(map[string]any)
	out := map[string]string{}
	for k, x := range mm {
		if s, ok := x.(string); ok {
			out[k] = s
		}
	}
	return out
}

func js(v any) string { b, _ := json.Marshal(v); return string(b) }

// firstDiff returns a path at which a and b differ ("" when equal).
func firstDiff(a, b any, at string) string {
	am, aok := a.(map[string]any)
	bm, bok := b.(map[string]any)
	if aok && bok {
		keys := map[string]bool{}
		for k := range am {
			keys[k] = true
		}
		for k := range bm {
			keys[k] = true
		}
		ks := make([]string, 0, len(keys))
		for k := range keys {
			ks = append(ks, k)
		}
		sort.Strings(ks)
		for _, k := range ks {
			av, ain := am[k]
			bv, bin := bm[k]
			if ain != bin {
				return at + "/" + k
			}
			if d := firstDiff(av, bv, at+"/"+k); d != "" {
				return d
			}
		}
		return ""
	}
	if reflect.DeepEqual(a, b) {
		return ""
	}
	return at
}

// pruneEmpty removes empty maps (after the allowed fields were cut out an emptied
// annotations/labels/rollingUpdate block must compare equal to an absent one).
func pruneEmpty(m map[string]any) {
	for k, v := range m {
		if mm, ok := v.(map[string]any); ok {
			pruneEmpty(mm)
			if len(mm) == 0 {
				delete(m, k)
			}
		}
	}
}

// ---------------------------------------------------------------------------------------------
// The case
// ---------------------------------------------------------------------------------------------

type ident struct {
	Group    string `json:"group"`
	Version  string `json:"version"`
	Kind     string `json:"kind"`
	Resource string `json:"resource"`
}

func (i ident) apiVersion() string {
	if i.Group == "" {
		return i.Version
	}
	return i.Group + "/" + i.Version
}

// Case is everything one execution depends on. Old/New are the raw objects of the
// AdmissionRequest. TemplateChanged is known by construction (which template edits were applied),
// not computed with the repository's EqualIgnoreHash.
type Case struct {
	Handler         string                                 `json:"handler"` // workload | unified
	ID              ident                                  `json:"id"`
	Old             json.RawMessage                        `json:"old"`
	New             json.RawMessage                        `json:"new"`
	TemplateChanged bool                                   `json:"templateChanged"`
	Edits           []string                               `json:"edits"`
	InProgress      string                                 `json:"inProgress,omitempty"` // base in-progress state (Deployment), informational
	Rollouts        []*v1beta1.Rollout                     `json:"rollouts"`
	RSs             []*apps.ReplicaSet                     `json:"replicaSets,omitempty"`
	Webhook         *admregv1.MutatingWebhookConfiguration `json:"webhook"`
	WebhookVariant  string                                 `json:"webhookVariant"`
	OwnEntry        string                                 `json:"ownEntry"`
	ListReverse     bool                                   `json:"listReverse"`
}

func (c Case) objs() (oldO, newO obj) {
	_ = json.Unmarshal(c.Old, &oldO)
	_ = json.Unmarshal(c.New, &newO)
	return
}

// ---------------------------------------------------------------------------------------------
// MutatingWebhookConfiguration situations and the reference "selected" predicate
// ---------------------------------------------------------------------------------------------

func existsWT() metav1.LabelSelectorRequirement {
	return metav1.LabelSelectorRequirement{Key: lblWorkloadType, Operator: metav1.LabelSelectorOpExists}
}

func rule(groups, versions, resources []string, ops ...admregv1.OperationType) admregv1.RuleWithOperations {
	return admregv1.RuleWithOperations{Operations: ops, Rule: admregv1.Rule{APIGroups: groups, APIVersions: versions, Resources: resources}}
}

// webhookConfig builds the configuration as shipped (config/webhook/manifests.yaml patched by
// patch_manifests.yaml) and variations of it. objectSelector is never nil: the API server
// defaults it to the empty selector.
func webhookConfig(variant, ownEntry string) *admregv1.MutatingWebhookConfiguration {
	sel := func(reqs ...metav1.LabelSelectorRequirement) *metav1.LabelSelector {
		switch variant {
		case "unpatched":
			return &metav1.LabelSelector{}
		case "team":
			return &metav1.LabelSelector{MatchLabels: map[string]string{"team": "a"}, MatchExpressions: reqs}
		}
		return &metav1.LabelSelector{MatchExpressions: reqs}
	}
	cfg := &admregv1.MutatingWebhookConfiguration{ObjectMeta: metav1.ObjectMeta{Name: configuration.MutatingWebhookConfigurationName}}
	if variant == "foreign" {
		cfg.Webhooks = []admregv1.MutatingWebhook{{Name: "mpod.kb.io", Rules: []admregv1.RuleWithOperations{rule([]string{""}, []string{"v1"}, []string{"pods"}, admregv1.Create, admregv1.Update)}, ObjectSelector: &metav1.LabelSelector{}}}
		return cfg
	}
	all := []admregv1.MutatingWebhook{
		{Name: "mcloneset.kb.io", Rules: []admregv1.RuleWithOperations{rule([]string{"apps.kruise.io"}, []string{"v1alpha1"}, []string{"clonesets"}, admregv1.Update)}, ObjectSelector: sel(existsWT())},
		{Name: "mdaemonset.kb.io", Rules: []admregv1.RuleWithOperations{rule([]string{"apps.kruise.io"}, []string{"v1alpha1"}, []string{"daemonsets"}, admregv1.Update)}, ObjectSelector: sel(existsWT())},
		{Name: "mdeployment.kb.io", Rules: []admregv1.RuleWithOperations{rule([]string{"apps"}, []string{"v1"}, []string{"deployments"}, admregv1.Update)},
			ObjectSelector: sel(metav1.LabelSelectorRequirement{Key: "control-plane", Operator: metav1.LabelSelectorOpNotIn, Values: []string{"controller-manager"}}, existsWT())},
		{Name: "munifiedworload.kb.io", Rules: []admregv1.RuleWithOperations{rule([]string{"*"}, []string{"*"}, []string{"*"}, admregv1.Create, admregv1.Update)}, ObjectSelector: sel(existsWT())},
	}
	for _, w := range all {
		if variant == "no-own" && w.Name == ownEntry {
			continue
		}
		cfg.Webhooks = append(cfg.Webhooks, w)
	}
	return cfg
}

func inList(items []string, x string) bool {
	for _, it := range items {
		if it == "*" || it == x {
			return true
		}
	}
	return false
}

// refEntrySelects: does this webhook entry select an UPDATE of a (group, version, resource) object
// carrying these labels (rules as the API server evaluates them, label selector by definition).
func refEntrySelects(w admregv1.MutatingWebhook, id ident, labels map[string]string) bool {
	ruleOK := false
	for _, r := range w.Rules {
		opOK := false
		for _, op := range r.Operations {
			if op == admregv1.OperationAll || op == admregv1.Update {
				opOK = true
			}
		}
		if opOK && inList(r.APIGroups, id.Group) && inList(r.APIVersions, id.Version) && inList(r.Resources, id.Resource) {
			ruleOK = true
		}
	}
	if !ruleOK || w.ObjectSelector == nil {
		return false
	}
	for k, v := range w.ObjectSelector.MatchLabels {
		if got, ok := labels[k]; !ok || got != v {
			return false
		}
	}
	for _, e := range w.ObjectSelector.MatchExpressions {
		got, has := labels[e.Key]
		in := false
		for _, v := range e.Values {
			if v == got {
				in = true
			}
		}
		switch e.Operator {
		case metav1.LabelSelectorOpExists:
			if !has {
				return false
			}
		case metav1.LabelSelectorOpDoesNotExist:
			if has {
				return false
			}
		case metav1.LabelSelectorOpIn:
			if !has || !in {
				return false
			}
		case metav1.LabelSelectorOpNotIn:
			if has && in {
				return false
			}
		}
	}
	return true
}

// ownSelected: the webhook entry that routes to the handler under test selects the NEW object.
// Only then the decision is asserted strictly; otherwise (the entry matched only the old object,
// or the configuration changed after the API server evaluated it) the statement makes no claim
// about holding and "unchanged" is additionally accepted.
func ownSelected(c Case, labelsNew map[string]string) bool {
	for _, w := range c.Webhook.Webhooks {
		if w.Name == c.OwnEntry && refEntrySelects(w, c.ID, labelsNew) {
			return true
		}
	}
	return false
}

// ---------------------------------------------------------------------------------------------
// Rollout set: generator and the reference "matching active Rollout"
// ---------------------------------------------------------------------------------------------

type refOpt struct{ api, kind, name string }

func gRollouts(t *rapid.T, id ident, allowBlueGreen bool) []*v1beta1.Rollout {
	n := rapid.SampledFrom([]int{0, 1, 1, 1, 1, 1, 2, 2, 2, 3}).Draw(t, "rollouts")
	otherVersion := map[string]string{"apps": "apps/v1beta2", "apps.kruise.io": "apps.kruise.io/v1", "example.io": "example.io/v2"}[id.Group]
	otherKind := "CloneSet"
	if id.Kind == "CloneSet" {
		otherKind = "Deployment"
	}
	var out []*v1beta1.Rollout
	for i := 0; i < n; i++ {
		l := fmt.Sprintf("ro%d-", i)
		r := &v1beta1.Rollout{
			TypeMeta:   metav1.TypeMeta{APIVersion: "rollouts.kruise.io/v1beta1", Kind: "Rollout"},
			ObjectMeta: metav1.ObjectMeta{Name: fmt.Sprintf("r%d", i), Namespace: wlNS},
		}
		if rapid.IntRange(0, 11).Draw(t, l+"ns") == 0 {
			r.Namespace = "other-ns"
		}
		ref := refOpt{id.apiVersion(), id.Kind, wlName}
		refOpts := []string{"match", "match", "match", "match", "match", "match", "match", "match", "match-other-version", "other-name", "other-kind", "other-group", "bad-apiversion", "core-apiversion"}
		lifeOpts := []string{"active", "active", "active", "active", "active", "active", "active", "active", "deleting", "deleting", "disabled", "disabled", "disable-pending", "enable-pending"}
		if i == 0 { // the first Rollout is biased towards the interesting region: it references the workload and is active
			for k := 0; k < 22; k++ {
				refOpts = append(refOpts, "match")
				lifeOpts = append(lifeOpts, "active")
			}
		}
		switch rapid.SampledFrom(refOpts).Draw(t, l+"ref") {
		case "match-other-version":
			ref.api = otherVersion
		case "other-name":
			ref.name = "someone-else"
		case "other-kind":
			ref.kind = otherKind
		case "other-group":
			ref.api = "extensions/v1beta1"
		case "bad-apiversion":
			ref.api = id.Group + "/" + id.Version + "/x"
		case "core-apiversion":
			ref.api = "v1"
		}
		r.Spec.WorkloadRef = v1beta1.ObjectRef{APIVersion: ref.api, Kind: ref.kind, Name: ref.name}
		switch rapid.SampledFrom(lifeOpts).Draw(t, l+"life") {
		case "active":
			r.Status.Phase = rapid.SampledFrom([]v1beta1.RolloutPhase{"", v1beta1.RolloutPhaseInitial, v1beta1.RolloutPhaseHealthy, v1beta1.RolloutPhaseProgressing, v1beta1.RolloutPhaseTerminating}).Draw(t, l+"phase")
		case "deleting":
			ts := metav1.Unix(1700000000, 0)
			r.DeletionTimestamp = &ts
			r.Finalizers = []string{"rollouts.kruise.io/rollout"}
			r.Status.Phase = rapid.SampledFrom([]v1beta1.RolloutPhase{v1beta1.RolloutPhaseTerminating, v1beta1.RolloutPhaseHealthy, v1beta1.RolloutPhaseProgressing}).Draw(t, l+"phase")
		case "disabled":
			r.Spec.Disabled = true
			r.Status.Phase = v1beta1.RolloutPhaseDisabled
		case "disable-pending": // user set spec.disabled, controller has not reconciled yet
			r.Spec.Disabled = true
			r.Status.Phase = v1beta1.RolloutPhaseHealthy
		case "enable-pending": // user re-enabled, status still says Disabled
			r.Status.Phase = v1beta1.RolloutPhaseDisabled
		}
		var traffic []v1beta1.TrafficRoutingRef
		if rapid.IntRange(0, 9).Draw(t, l+"traffic") < 4 {
			traffic = []v1beta1.TrafficRoutingRef{{Service: "svc", Ingress: &v1beta1.IngressTrafficRouting{Name: "ing"}}}
		}
		steps := []v1beta1.CanaryStep{{Replicas: &intstr.IntOrString{Type: intstr.String, StrVal: "20%"}}, {Replicas: &intstr.IntOrString{Type: intstr.String, StrVal: "100%"}}}
		styles := []string{"partition", "partition", "partition", "canary", "bluegreen", "bluegreen", "empty"}
		st := rapid.SampledFrom(styles).Draw(t, l+"style")
		if st == "bluegreen" && !allowBlueGreen {
			st = "partition"
		}
		switch st {
		case "partition":
			r.Spec.Strategy.Canary = &v1beta1.CanaryStrategy{Steps: steps, TrafficRoutings: traffic}
		case "canary":
			r.Spec.Strategy.Canary = &v1beta1.CanaryStrategy{Steps: steps, TrafficRoutings: traffic, EnableExtraWorkloadForCanary: true}
		case "bluegreen":
			r.Spec.Strategy.BlueGreen = &v1beta1.BlueGreenStrategy{Steps: steps, TrafficRoutings: traffic}
		}
		out = append(out, r)
	}
	return out
}

// refParseGroup: group of an apiVersion string; ok=false when it is not "v" or "g/v".
func refParseGroup(apiVersion string) (string, bool) {
	switch strings.Count(apiVersion, "/") {
	case 0:
		return "", true
	case 1:
		return apiVersion[:strings.Index(apiVersion, "/")], true
	}
	return "", false
}

func refMatches(r *v1beta1.Rollout, id ident) bool {
	g, ok := refParseGroup(r.Spec.WorkloadRef.APIVersion)
	return ok && r.Namespace == wlNS && g == id.Group && r.Spec.WorkloadRef.Kind == id.Kind && r.Spec.WorkloadRef.Name == wlName
}

// liveness of a Rollout as the statement words it: "active" = neither being deleted nor disabled.
// spec.disabled and status.phase==Disabled disagree for a moment after the user flips the switch;
// in that window either reading is accepted.
func refLiveness(r *v1beta1.Rollout) string {
	switch {
	case r.DeletionTimestamp != nil && !r.DeletionTimestamp.IsZero():
		return "inactive"
	case r.Spec.Disabled && r.Status.Phase == v1beta1.RolloutPhaseDisabled:
		return "inactive"
	case !r.Spec.Disabled && r.Status.Phase != v1beta1.RolloutPhaseDisabled:
		return "active"
	}
	return "ambiguous"
}

func refEmptyStrategy(r *v1beta1.Rollout) bool {
	return r.Spec.Strategy.Canary == nil && r.Spec.Strategy.BlueGreen == nil
}

func refHasTraffic(r *v1beta1.Rollout) bool {
	if r.Spec.Strategy.BlueGreen != nil {
		return len(r.Spec.Strategy.BlueGreen.TrafficRoutings) > 0
	}
	if r.Spec.Strategy.Canary != nil {
		return len(r.Spec.Strategy.Canary.TrafficRoutings) > 0
	}
	return false
}

// ---------------------------------------------------------------------------------------------
// Verdict
// ---------------------------------------------------------------------------------------------

// verdict is the set of admissible results of one admission call.
type verdict struct {
	// decision mode
	Unchanged bool     // "allowed, no patch" is admissible
	Held      []string // admitted object held back and marked in-progress for one of these Rollouts is admissible
	// in-progress Deployment mode
	InProgress         bool
	MustPaused         bool // admitted spec.paused must be true
	MustStrategyPaused bool // admitted deployment-strategy annotation must carry paused=true
	Class              string
	NT                 bool
	// the input falls in the class of a known finding (used by the generator to steer away)
	KnownClass string
}

func (v *verdict) addHeld(name string) {
	for _, h := range v.Held {
		if h == name {
			return
		}
	}
	v.Held = append(v.Held, name)
}

// decide folds the Rollout set into the verdict. perRollout tells what the reference expects if
// the webhook acts for r: "held", "unchanged" or "either".
func decide(c Case, v *verdict, perRollout func(r *v1beta1.Rollout) string) {
	definite := 0
	for _, r := range c.Rollouts {
		if !refMatches(r, c.ID) {
			continue
		}
		lv := refLiveness(r)
		if lv == "inactive" {
			continue
		}
		if lv == "active" && !refEmptyStrategy(r) {
			definite++
		}
		if refEmptyStrategy(r) {
			v.Unchanged = true // nothing to release with: treated like "no Rollout"
			continue
		}
		switch perRollout(r) {
		case "held":
			v.addHeld(r.Name)
		case "unchanged":
			v.Unchanged = true
		default:
			v.addHeld(r.Name)
			v.Unchanged = true
		}
	}
	if definite == 0 {
		v.Unchanged = true
	}
	switch {
	case len(v.Held) > 0 && !v.Unchanged:
		v.Class, v.NT = "held", true
	case len(v.Held) > 0:
		v.Class, v.NT = "held-or-unchanged", definite > 0
	case definite > 0:
		v.Class, v.NT = "unchanged:traffic-multi-revision", true
	default:
		v.Class = "unchanged:no-active-rollout"
	}
}

// hasActiveRollout: some Rollout that is definitely active (and has something to release with)
// references the workload.
func hasActiveRollout(c Case) bool {
	for _, r := range c.Rollouts {
		if refMatches(r, c.ID) && refLiveness(r) == "active" && !refEmptyStrategy(r) {
			return true
		}
	}
	return false
}

func rolloutNameOf(ann string) string {
	var st struct {
		RolloutName string `json:"rolloutName"`
	}
	_ = json.Unmarshal([]byte(ann), &st)
	return st.RolloutName
}

// ---------------------------------------------------------------------------------------------
// Execution against the real handlers
// ---------------------------------------------------------------------------------------------

// orderedClient makes List deterministic (the fake client returns map order) and lets a case
// choose ascending or descending name order, since the handlers take the first matching Rollout.
type orderedClient struct {
	client.Client
	reverse bool
}

func (c orderedClient) List(ctx context.Context, list client.ObjectList, opts ...client.ListOption) error {
	if err := c.Client.List(ctx, list, opts...); err != nil {
		return err
	}
	less := func(a, b metav1.Object) bool {
		ka, kb := a.GetNamespace()+"/"+a.GetName(), b.GetNamespace()+"/"+b.GetName()
		if c.reverse {
			return ka > kb
		}
		return ka < kb
	}
	switch l := list.(type) {
	case *v1beta1.RolloutList:
		sort.SliceStable(l.Items, func(i, j int) bool { return less(&l.Items[i], &l.Items[j]) })
	case *apps.ReplicaSetList:
		sort.SliceStable(l.Items, func(i, j int) bool { return less(&l.Items[i], &l.Items[j]) })
	}
	return nil
}

type handleFn func(ctx context.Context, req admission.Request) admission.Response

func buildClient(c Case) (client.Client, error) {
	objs := []client.Object{c.Webhook.DeepCopy()}
	for _, r := range c.Rollouts {
		objs = append(objs, r.DeepCopy())
	}
	for _, rs := range c.RSs {
		objs = append(objs, rs.DeepCopy())
	}
	for _, o := range objs {
		o.SetResourceVersion("")
	}
	cli := fake.NewClientBuilder().WithScheme(scheme).WithObjects(objs...).Build()
	// the store must hold what the case says (in particular deletionTimestamps)
	rl := &v1beta1.RolloutList{}
	if err := cli.List(context.TODO(), rl); err != nil {
		return nil, err
	}
	if len(rl.Items) != len(c.Rollouts) {
		return nil, fmt.Errorf("fake store holds %d Rollouts, case has %d", len(rl.Items), len(c.Rollouts))
	}
	for i := range rl.Items {
		for _, r := range c.Rollouts {
			if r.Name == rl.Items[i].Name && r.Namespace == rl.Items[i].Namespace && r.DeletionTimestamp.IsZero() != rl.Items[i].DeletionTimestamp.IsZero() {
				return nil, fmt.Errorf("fake store lost the deletionTimestamp of %s", r.Name)
			}
		}
	}
	return orderedClient{Client: cli, reverse: c.ListReverse}, nil
}

func buildRequest(c Case) admission.Request {
	dry := false
	return admission.Request{AdmissionRequest: admissionv1.AdmissionRequest{
		UID:       "req-1",
		Kind:      metav1.GroupVersionKind{Group: c.ID.Group, Version: c.ID.Version, Kind: c.ID.Kind},
		Resource:  metav1.GroupVersionResource{Group: c.ID.Group, Version: c.ID.Version, Resource: c.ID.Resource},
		Name:      wlName,
		Namespace: wlNS,
		Operation: admissionv1.Update,
		Object:    runtime.RawExtension{Raw: append([]byte(nil), c.New...)},
		OldObject: runtime.RawExtension{Raw: append([]byte(nil), c.Old...)},
		DryRun:    &dry,
	}}
}

// heldFor: the admitted object is held back in the way of its kind and marked in-progress for r.
func heldFor(c Case, admitted obj, r string) (bool, string) {
	ann := strAt(admitted, "metadata", "annotations", annInProgress)
	if got := rolloutNameOf(ann); got != r {
		return false, fmt.Sprintf("in-progressing annotation %q names %q, want %q", ann, got, r)
	}
	switch {
	case c.ID.Kind == "Deployment" && c.ID.Group == "apps":
		if !boolAt(admitted, "spec", "paused") {
			return false, "spec.paused is not true"
		}
	case c.ID.Kind == "CloneSet":
		if p := strAt(admitted, "spec", "updateStrategy", "partition"); p != "100%" {
			v, _ := getPath(admitted, "spec", "updateStrategy", "partition")
			return false, fmt.Sprintf("spec.updateStrategy.partition=%v, want \"100%%\"", v)
		}
	default: // DaemonSet, StatefulSet-like
		if p, ok := numAt(admitted, "spec", "updateStrategy", "rollingUpdate", "partition"); !ok || p != 32767 {
			v, _ := getPath(admitted, "spec", "updateStrategy", "rollingUpdate", "partition")
			return false, fmt.Sprintf("spec.updateStrategy.rollingUpdate.partition=%v, want 32767", v)
		}
	}
	return true, ""
}

// frame cuts the fields the webhook may set out of both objects and compares the rest.
func frame(c Case, before, after obj) string {
	cut := func(o obj) obj {
		o = deepCopyObj(o)
		delPath(o, "metadata", "annotations", annInProgress)
		switch {
		case c.ID.Kind == "Deployment" && c.ID.Group == "apps":
			delPath(o, "spec", "paused")
			delPath(o, "spec", "strategy")
			delPath(o, "metadata", "annotations", annDepStrategy)
			delPath(o, "metadata", "labels", lblStableRev)
		case c.ID.Kind == "CloneSet":
			delPath(o, "spec", "updateStrategy", "partition")
		default:
			delPath(o, "spec", "updateStrategy", "rollingUpdate", "partition")
		}
		pruneEmpty(o)
		return o
	}
	b, a := cut(before), cut(after)
	if _, had := getPath(before, "spec", "updateStrategy", "type"); !had && c.Handler == "unified" {
		// a StatefulSet-like object without an update strategy block gets one of type RollingUpdate
		delPath(a, "spec", "updateStrategy", "type")
		pruneEmpty(a)
	}
	return firstDiff(b, a, "")
}

// run executes one case against the real handler and checks it against the verdict.
func run(t vlib.TB, chk string, c Case, v verdict) {
	cli, err := buildClient(c)
	if err != nil {
		t.Fatalf("[%s] harness: %v", chk, err)
	}
	var h handleFn
	if c.Handler == "unified" {
		h = (&mutating.UnifiedWorkloadHandler{Client: cli, Decoder: decoder, Finder: util.NewControllerFinder(cli)}).Handle
	} else {
		h = (&mutating.WorkloadHandler{Client: cli, Decoder: decoder, Finder: util.NewControllerFinder(cli)}).Handle
	}
	req := buildRequest(c)
	var resp admission.Response
	if p, msg := vlib.Guard(func() { resp = h(context.TODO(), req) }); p {
		sig := "c08-handler-panic"
		if v.KnownClass == "c08-daemonset-nil-rollingupdate-panic" && strings.Contains(msg, "handleDaemonSet") {
			sig = v.KnownClass
		}
		vlib.Fail(t, chk, sig, c, "%s handler panicked on %s %v: %s", c.Handler, c.ID.Kind, c.Edits, msg)
	}
	if !bytes.Equal(req.Object.Raw, c.New) || !bytes.Equal(req.OldObject.Raw, c.Old) {
		vlib.Fail(t, chk, "c08-input-mutated", c, "the handler modified the raw objects of the request")
	}
	if !resp.Allowed {
		msg := ""
		if resp.Result != nil {
			msg = resp.Result.Message
		}
		vlib.Fail(t, chk, "c08-update-denied", c, "a valid %s update was not admitted: %s", c.ID.Kind, msg)
	}
	_, newO := c.objs()
	admitted := newO
	patched := len(resp.Patches) > 0
	if patched {
		pj, _ := json.Marshal(resp.Patches)
		p, err := jsonpatch.DecodePatch(pj)
		if err != nil {
			vlib.Fail(t, chk, "c08-patch-undecodable", c, "patch %s: %v", pj, err)
		}
		out, err := p.Apply(c.New)
		if err != nil {
			vlib.Fail(t, chk, "c08-patch-not-applicable", c, "the returned patch %s does not apply to the submitted object: %v", pj, err)
		}
		admitted = obj{}
		if err := json.Unmarshal(out, &admitted); err != nil {
			vlib.Fail(t, chk, "c08-patch-not-applicable", c, "patched object is not JSON: %v", err)
		}
		if d := frame(c, newO, admitted); d != "" {
			vlib.Fail(t, chk, "c08-frame-"+c.ID.Kind, c, "the patch %s changes %s, which is outside paused/partition/strategy/in-progressing/stable-revision", pj, d)
		}
	}

	if v.InProgress {
		if v.MustPaused && !boolAt(admitted, "spec", "paused") {
			vlib.Fail(t, chk, "c08-inprogress-unpaused-"+v.Class, c, "Deployment in the middle of a release (%s) admitted with spec.paused=false", v.Class)
		}
		if v.MustStrategyPaused {
			var st struct {
				Paused bool `json:"paused"`
			}
			_ = json.Unmarshal([]byte(strAt(admitted, "metadata", "annotations", annDepStrategy)), &st)
			if !st.Paused {
				vlib.Fail(t, chk, "c08-inprogress-partition-release-not-held", c, "partition-style Deployment received a release change during a release but the admitted strategy annotation is not paused: %q", strAt(admitted, "metadata", "annotations", annDepStrategy))
			}
		}
		return
	}

	if !patched && v.Unchanged {
		return
	}
	var why []string
	for _, r := range v.Held {
		ok, w := heldFor(c, admitted, r)
		if ok {
			return
		}
		why = append(why, r+": "+w)
	}
	sort.Strings(why)
	switch {
	case len(v.Held) == 0:
		pj, _ := json.Marshal(resp.Patches)
		vlib.Fail(t, chk, "c08-unexpected-mutation-"+strings.TrimPrefix(v.Class, "unchanged:"), c, "expected the %s update to be admitted unchanged (%s) but the webhook patched it: %s", c.ID.Kind, v.Class, pj)
	case !patched:
		vlib.Fail(t, chk, "c08-not-held-"+c.ID.Kind, c, "release change of a selected %s with an active Rollout was admitted without being held (%s)", c.ID.Kind, strings.Join(why, "; "))
	default:
		pj, _ := json.Marshal(resp.Patches)
		vlib.Fail(t, chk, "c08-held-wrong-"+c.ID.Kind, c, "patch %s does not hold the %s for an admissible Rollout (%s)", pj, c.ID.Kind, strings.Join(why, "; "))
	}
}

// shared small generators

func gLabelsShape(t *rapid.T, l string, crd bool) string {
	if crd {
		return rapid.SampledFrom([]string{"absent", "empty", "some", "some"}).Draw(t, l)
	}
	return rapid.SampledFrom([]string{"absent", "some", "some"}).Draw(t, l)
}

func applyMapShape(o obj, shape string, path ...string) {
	switch shape {
	case "absent":
	case "empty":
		setPath(o, obj{}, path...)
	default:
		setPath(o, obj{"user/k": "v"}, path...)
	}
}

func ensureMap(o obj, path ...string) {
	if v, ok := getPath(o, path...); ok {
		if _, isMap := v.(map[string]any); isMap {
			return
		}
	}
	setPath(o, obj{}, path...)
}

func setLabel(o obj, k, v string) {
	ensureMap(o, "metadata", "labels")
	setPath(o, v, "metadata", "labels", k)
}
func setAnn(o obj, k, v string) {
	ensureMap(o, "metadata", "annotations")
	setPath(o, v, "metadata", "annotations", k)
}

func baseTemplate(t *rapid.T) obj {
	tm := obj{
		"metadata": obj{"labels": obj{"app": wlName}},
		"spec":     obj{"containers": []any{obj{"name": "main", "image": "img:v1", "resources": obj{"requests": obj{"cpu": "1"}}}}},
	}
	if rapid.IntRange(0, 3).Draw(t, "tmpl-has-hash") == 0 {
		setPath(tm, "5b494f7bf", "metadata", "labels", hashLabel)
	}
	if rapid.IntRange(0, 3).Draw(t, "tmpl-has-ann") == 0 {
		setPath(tm, "n1", "metadata", "annotations", "note")
	}
	return tm
}

func container0(o obj) obj {
	v, _ := getPath(o, "spec", "template", "spec", "containers")
	return v.([]any)[0].(map[string]any)
}

// gTemplateEdits applies a drawn set of pod-template edits to o and reports whether the template
// changed semantically (ignoring the pod-template-hash label, nil-vs-empty maps and quantity
// spelling — none of which makes a controller produce a new revision).
func gTemplateEdits(t *rapid.T, o obj, crd bool) (changed bool, edits []string) {
	mode := rapid.SampledFrom([]string{"real", "real", "real", "real", "real", "real", "cosmetic", "cosmetic", "none", "none"}).Draw(t, "tmpl-mode")
	if mode == "real" {
		for _, e := range rapid.SliceOfNDistinct(rapid.SampledFrom([]string{"image", "env", "label", "annotation"}), 1, 2, rapid.ID[string]).Draw(t, "tmpl-edits") {
			switch e {
			case "image":
				container0(o)["image"] = "img:v2"
			case "env":
				container0(o)["env"] = []any{obj{"name": "K", "value": "x"}}
			case "label":
				setPath(o, "1", "spec", "template", "metadata", "labels", "extra")
			case "annotation":
				setPath(o, "n2", "spec", "template", "metadata", "annotations", "note")
			}
			edits = append(edits, "tmpl-"+e)
			changed = true
		}
	}
	if mode == "cosmetic" || rapid.IntRange(0, 5).Draw(t, "tmpl-cosmetic-too") == 0 {
		opts := []string{"hash-label", "quantity-respell"}
		if crd {
			opts = append(opts, "empty-annotations")
		}
		for _, e := range rapid.SliceOfNDistinct(rapid.SampledFrom(opts), 1, 2, rapid.ID[string]).Draw(t, "tmpl-cosmetic") {
			switch e {
			case "hash-label":
				setPath(o, "other-hash", "spec", "template", "metadata", "labels", hashLabel)
			case "quantity-respell":
				setPath(container0(o), "1000m", "resources", "requests", "cpu")
			case "empty-annotations":
				if _, has := getPath(o, "spec", "template", "metadata", "annotations"); has {
					continue
				}
				setPath(o, obj{}, "spec", "template", "metadata", "annotations")
			}
			edits = append(edits, "tmpl-"+e)
		}
	}
	return
}

// gRolloutID draws the (old, new) rollout-id pair and writes it where the webhook reads it.
func gRolloutID(t *rapid.T, oldO, newO obj) []string {
	pair := rapid.SampledFrom([][2]string{{"", ""}, {"", ""}, {"", ""}, {"", "v1"}, {"v1", "v1"}, {"v1", "v1"}, {"v1", "v2"}, {"v1", "v2"}, {"v1", ""}}).Draw(t, "rollout-id")
	if pair[0] != "" {
		setAnn(oldO, annRolloutID, pair[0])
	}
	if pair[1] != "" {
		setAnn(newO, annRolloutID, pair[1])
	}
	switch {
	case pair[0] == pair[1] && pair[0] == "":
		return nil
	case pair[0] == pair[1]:
		return []string{"rid-same"}
	case pair[0] == "":
		return []string{"rid-added"}
	case pair[1] == "":
		return []string{"rid-removed"}
	}
	return []string{"rid-changed"}
}

func gWebhook(t *rapid.T, c *Case) {
	c.WebhookVariant = rapid.SampledFrom([]string{"shipped", "shipped", "shipped", "shipped", "shipped", "shipped", "shipped", "shipped", "shipped", "shipped", "shipped", "shipped", "shipped", "shipped", "shipped", "shipped", "unpatched", "unpatched", "unpatched", "team", "team", "team", "no-own", "foreign"}).Draw(t, "webhook-variant")
	c.Webhook = webhookConfig(c.WebhookVariant, c.OwnEntry)
}

// gSelectionLabels puts the labels the object selectors look at on old and new.
func gSelectionLabels(t *rapid.T, oldO, newO obj, typeValue string, variant string) []string {
	var edits []string
	switch rapid.SampledFrom([]string{"both", "both", "both", "both", "both", "both", "both", "both", "both", "both", "both", "both", "both", "both", "both", "both", "neither", "only-new", "only-old"}).Draw(t, "wt-label") {
	case "both":
		setLabel(oldO, lblWorkloadType, typeValue)
		setLabel(newO, lblWorkloadType, typeValue)
	case "only-new":
		setLabel(newO, lblWorkloadType, typeValue)
		edits = append(edits, "wt-label-added")
	case "only-old":
		setLabel(oldO, lblWorkloadType, typeValue)
		edits = append(edits, "wt-label-removed")
	default:
		edits = append(edits, "wt-label-absent")
	}
	teamP := 1
	if variant == "team" {
		teamP = 9
	}
	if rapid.IntRange(0, 9).Draw(t, "team-label") < teamP {
		setLabel(oldO, "team", "a")
		setLabel(newO, "team", "a")
	}
	return edits
}

func classesOf(c Case, v verdict, sel bool) []string {
	cls := []string{"kind=" + c.ID.Kind, "verdict=" + v.Class, "webhook=" + c.WebhookVariant, fmt.Sprintf("own-selected=%v", sel), fmt.Sprintf("rollouts=%d", len(c.Rollouts))}
	for _, e := range c.Edits {
		cls = append(cls, "edit="+e)
	}
	if len(c.Edits) == 0 {
		cls = append(cls, "edit=none")
	}
	seen := map[string]bool{}
	for _, r := range c.Rollouts {
		k := "rollout=nomatch"
		if refMatches(r, c.ID) {
			k = "rollout=match-" + refLiveness(r)
			if refEmptyStrategy(r) {
				k += "-empty"
			} else if refHasTraffic(r) {
				k += "-traffic"
			}
		}
		if !seen[k] {
			seen[k] = true
			cls = append(cls, k)
		}
	}
	if c.InProgress != "" {
		cls = append(cls, "inprogress="+c.InProgress)
	}
	return cls
}

func shapeSig(c Case, v verdict) string {
	var rs []string
	for _, r := range c.Rollouts {
		rs = append(rs, fmt.Sprintf("%v/%s/%v/%v", refMatches(r, c.ID), refLiveness(r), refEmptyStrategy(r), refHasTraffic(r)))
	}
	return fmt.Sprintf("%s|%s|%v|%v|%s|%s|%s|%d", c.Handler, c.ID.Kind+c.ID.Group, c.Edits, rs, v.Class, c.WebhookVariant, c.InProgress, len(c.RSs))
}
