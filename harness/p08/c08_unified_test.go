package p08

import (
	"encoding/json"
	"strings"
	"testing"

	"github.com/openkruise/rollouts/api/v1beta1"
	"pgregory.net/rapid"

	"verifharness/vlib"
)

const chkUnified = "c08-unified-handler"

var (
	idStsNative      = ident{Group: "apps", Version: "v1", Kind: "StatefulSet", Resource: "statefulsets"}
	idStsKruiseBeta  = ident{Group: "apps.kruise.io", Version: "v1beta1", Kind: "StatefulSet", Resource: "statefulsets"}
	idStsKruiseAlpha = ident{Group: "apps.kruise.io", Version: "v1alpha1", Kind: "StatefulSet", Resource: "statefulsets"}
	idCustom         = ident{Group: "example.io", Version: "v1", Kind: "GameSet", Resource: "gamesets"}
)

func gStatefulSetLike(t *rapid.T, id ident) obj {
	s := obj{
		"apiVersion": id.apiVersion(), "kind": id.Kind, "metadata": baseMeta(id),
		"spec": obj{
			"serviceName": "svc",
			"selector":    obj{"matchLabels": obj{"app": wlName}},
			"template":    baseTemplate(t),
		},
	}
	crd := id != idStsNative
	applyMapShape(s, gLabelsShape(t, "labels-shape", crd), "metadata", "labels")
	applyMapShape(s, gLabelsShape(t, "ann-shape", crd), "metadata", "annotations")
	rOpts := []int{0, 1, 1, 2, 3, 3, 5, 5, 2, 4}
	if id == idCustom {
		rOpts = append(rOpts, -1)
	}
	r := rapid.SampledFrom(rOpts).Draw(t, "replicas")
	if r >= 0 {
		setPath(s, r, "spec", "replicas")
	} else {
		r = 1
	}
	usOpts := []string{"rolling-p0", "rolling-p0", "rolling-p2", "ondelete"}
	if crd {
		usOpts = append(usOpts, "rolling-no-block", "rolling-p2")
	}
	if id == idCustom {
		usOpts = append(usOpts, "absent", "empty", "no-type")
	}
	switch rapid.SampledFrom(usOpts).Draw(t, "update-strategy") {
	case "rolling-p0":
		setPath(s, obj{"type": "RollingUpdate", "rollingUpdate": obj{"partition": 0}}, "spec", "updateStrategy")
	case "rolling-p2":
		ru := obj{"partition": 2}
		if crd {
			ru["maxUnavailable"] = "20%"
		}
		setPath(s, obj{"type": "RollingUpdate", "rollingUpdate": ru}, "spec", "updateStrategy")
	case "rolling-no-block":
		setPath(s, obj{"type": "RollingUpdate"}, "spec", "updateStrategy")
	case "ondelete":
		setPath(s, obj{"type": "OnDelete"}, "spec", "updateStrategy")
	case "empty":
		setPath(s, obj{}, "spec", "updateStrategy")
	case "no-type":
		setPath(s, obj{"rollingUpdate": obj{"partition": 1}}, "spec", "updateStrategy")
	}
	updated := r
	if r > 0 && rapid.IntRange(0, 2).Draw(t, "multi-revision") == 0 {
		updated = r - 1
	}
	st := obj{"replicas": r, "updatedReplicas": updated, "readyReplicas": r, "observedGeneration": 3, "currentRevision": wlName + "-a", "updateRevision": wlName + "-a"}
	if updated != r {
		st["updateRevision"] = wlName + "-b"
	}
	setPath(s, st, "status")
	if rapid.IntRange(0, 5).Draw(t, "already-in-progress") == 0 {
		setAnn(s, annInProgress, `{"rolloutName":"r0"}`)
	}
	return s
}

func genUnified(t *rapid.T) Case {
	c := Case{Handler: "unified", OwnEntry: "munifiedworload.kb.io"}
	var oldO obj
	typeValue := "statefulset"
	switch rapid.SampledFrom([]string{"sts-native", "sts-native", "sts-native", "sts-kruise-beta", "sts-kruise-beta", "sts-kruise-beta", "sts-kruise-alpha", "custom", "custom", "custom", "typed"}).Draw(t, "kind") {
	case "sts-native":
		c.ID = idStsNative
	case "sts-kruise-beta":
		c.ID = idStsKruiseBeta
	case "sts-kruise-alpha":
		c.ID = idStsKruiseAlpha
	case "custom":
		c.ID = idCustom
		typeValue = rapid.SampledFrom([]string{"statefulset", "statefulset", "statefulset", "StatefulSet", "cloneset", "gameset"}).Draw(t, "custom-type-label")
	default: // kinds that have a handler of their own pass through this one untouched
		switch rapid.SampledFrom([]string{"Deployment", "CloneSet", "DaemonSet"}).Draw(t, "typed-kind") {
		case "Deployment":
			c.ID = idDeployment
			oldO, c.InProgress = gDeployment(t)
		case "CloneSet":
			c.ID = idCloneSet
			oldO = gCloneSet(t)
		default:
			c.ID = idDaemonSet
			oldO = gDaemonSet(t)
		}
		typeValue = strings.ToLower(c.ID.Kind)
	}
	if oldO == nil {
		oldO = gStatefulSetLike(t, c.ID)
	}
	gWebhook(t, &c)
	newO := deepCopyObj(oldO)
	c.Edits = append(c.Edits, gSelectionLabels(t, oldO, newO, typeValue, c.WebhookVariant)...)
	var te []string
	c.TemplateChanged, te = gTemplateEdits(t, newO, c.ID != idStsNative && c.ID != idDeployment)
	c.Edits = append(c.Edits, te...)
	c.Edits = append(c.Edits, gRolloutID(t, oldO, newO)...)
	if rapid.IntRange(0, 4).Draw(t, "edit-replicas") == 0 && c.ID.Kind != "DaemonSet" {
		setPath(newO, rapid.SampledFrom([]int{0, 1, 4, 6}).Draw(t, "new-replicas"), "spec", "replicas")
		c.Edits = append(c.Edits, "replicas")
	}
	if _, has := getPath(newO, "spec", "updateStrategy", "rollingUpdate", "partition"); has && c.ID.Kind != "CloneSet" && rapid.IntRange(0, 5).Draw(t, "edit-partition") == 0 {
		setPath(newO, 0, "spec", "updateStrategy", "rollingUpdate", "partition")
		c.Edits = append(c.Edits, "partition-zero")
	}
	if rapid.IntRange(0, 4).Draw(t, "edit-annotation") == 0 {
		setAnn(newO, "user/note", "edited")
		c.Edits = append(c.Edits, "annotation-only")
	}
	if rapid.IntRange(0, 4).Draw(t, "edit-label") == 0 {
		setLabel(newO, "user/tier", "edited")
		c.Edits = append(c.Edits, "label-only")
	}
	if rapid.IntRange(0, 5).Draw(t, "edit-status") == 0 {
		setPath(newO, 9, "status", "observedGeneration")
		c.Edits = append(c.Edits, "status")
	}
	setPath(newO, 4, "metadata", "generation")
	c.Rollouts = gRollouts(t, c.ID, false)
	c.ListReverse = rapid.Bool().Draw(t, "list-reverse")
	c.Old, _ = json.Marshal(oldO)
	c.New, _ = json.Marshal(newO)
	return c
}

// verdictUnified is the reference decision for StatefulSet-like workloads.
func verdictUnified(c Case) (verdict, bool) {
	oldO, newO := c.objs()
	labelsNew := strMapAt(newO, "metadata", "labels")
	sel := ownSelected(c, labelsNew)
	ridOld, ridNew := strAt(oldO, "metadata", "annotations", annRolloutID), strAt(newO, "metadata", "annotations", annRolloutID)
	release := c.TemplateChanged
	if ridNew != "" {
		release = ridOld != ridNew
	}
	v := verdict{}
	stsLike := c.ID.Kind == "StatefulSet" || strings.ToLower(labelsNew[lblWorkloadType]) == "statefulset"
	replicas, hasReplicas := numAt(newO, "spec", "replicas")
	if !hasReplicas {
		replicas = 1
	}
	ustype, _ := getPath(newO, "spec", "updateStrategy", "type")
	rolling := ustype == nil || ustype == "" || ustype == "RollingUpdate"
	total, _ := numAt(newO, "status", "replicas")
	updated, _ := numAt(newO, "status", "updatedReplicas")
	perRollout := func(r *v1beta1.Rollout) string {
		// OnDelete: the workload's own controller never replaces a pod by itself, so nothing can be
		// released unsupervised either way. Traffic routing with several revisions: the statement's
		// "only while it runs a single revision" is implemented for Deployment/CloneSet only; holding
		// is the safe side. Both readings are accepted.
		if !rolling || (refHasTraffic(r) && total != updated) {
			return "either"
		}
		return "held"
	}
	switch {
	case c.ID == idDeployment || c.ID == idCloneSet || c.ID == idDaemonSet:
		v.Unchanged, v.Class = true, "unchanged:kind-has-own-handler"
	case !stsLike:
		v.Unchanged, v.Class = true, "unchanged:not-statefulset-like"
	case replicas == 0:
		// the Decoder's JSON reader yields int64 for whole numbers, so the guard sees spec.replicas
		v.Unchanged, v.Class = true, "unchanged:not-running"
	case !release:
		v.Unchanged, v.Class = true, "unchanged:not-release"
	default:
		decide(c, &v, perRollout)
	}
	if !sel {
		v.Unchanged = true
		v.Class = "unselected/" + v.Class
	}
	v.NT = release && hasActiveRollout(c) && v.Class != "unchanged:kind-has-own-handler" && v.Class != "unselected/unchanged:kind-has-own-handler"
	return v, sel
}

func TestC08UnifiedHandler(t *testing.T) {
	var rc Case
	if ok, _ := vlib.LoadReplay(chkUnified, &rc); ok {
		v, _ := verdictUnified(rc)
		run(t, chkUnified, rc, v)
		return
	}
	rapid.Check(t, func(t *rapid.T) {
		c := genUnified(t)
		v, sel := verdictUnified(c)
		vlib.Record(chkUnified, shapeSig(c, v), v.NT, classesOf(c, v, sel), func() any { return c })
		run(t, chkUnified, c, v)
	})
}
