package p08

import (
	"encoding/json"
	"fmt"
	"strings"
	"testing"

	"github.com/openkruise/rollouts/api/v1beta1"
	apps "k8s.io/api/apps/v1"
	metav1 "k8s.io/apimachinery/pkg/apis/meta/v1"
	"k8s.io/apimachinery/pkg/types"
	"k8s.io/apimachinery/pkg/util/intstr"

	"verifharness/vlib"
)

// c08-decision-table: every cell of the finite grid
//
//	kind x (old rollout-id, new rollout-id) x template edit x Rollout situation x running x
//	selector label x traffic routing/revisions
//
// is executed once against the real handlers (shipped webhook configuration), with the same
// reference decision and frame condition as the generated checks. The random checks vary object
// shapes around these cells; this enumeration guarantees that no cell of the table is missed.
const chkTable = "c08-decision-table"

func fixedTemplate() obj {
	return obj{
		"metadata": obj{"labels": obj{"app": wlName, hashLabel: "5b494f7bf"}},
		"spec":     obj{"containers": []any{obj{"name": "main", "image": "img:v1", "resources": obj{"requests": obj{"cpu": "1"}}}}},
	}
}

type tableKind struct {
	name    string
	handler string
	id      ident
	own     string
	wtLabel string
}

var tableKinds = []tableKind{
	{"Deployment", "workload", idDeployment, "mdeployment.kb.io", "deployment"},
	{"CloneSet", "workload", idCloneSet, "mcloneset.kb.io", "cloneset"},
	{"DaemonSet", "workload", idDaemonSet, "mdaemonset.kb.io", "daemonset"},
	{"StatefulSet", "unified", idStsNative, "munifiedworload.kb.io", "statefulset"},
	{"AdvancedStatefulSet", "unified", idStsKruiseBeta, "munifiedworload.kb.io", "statefulset"},
	{"CustomStatefulSetLike", "unified", idCustom, "munifiedworload.kb.io", "StatefulSet"},
}

func fixedBase(k tableKind, running, multiRevision bool) obj {
	n := 0
	if running {
		n = 3
	}
	updated := n
	if multiRevision && n > 0 {
		updated = n - 1
	}
	o := obj{"apiVersion": k.id.apiVersion(), "kind": k.id.Kind, "metadata": baseMeta(k.id),
		"spec": obj{"selector": obj{"matchLabels": obj{"app": wlName}}, "template": fixedTemplate()}}
	switch k.name {
	case "Deployment":
		setPath(o, n, "spec", "replicas")
		setPath(o, obj{"type": "RollingUpdate", "rollingUpdate": obj{"maxSurge": "25%", "maxUnavailable": "25%"}}, "spec", "strategy")
		setPath(o, obj{"replicas": n, "updatedReplicas": updated}, "status")
	case "CloneSet":
		setPath(o, n, "spec", "replicas")
		setPath(o, obj{"type": "ReCreate", "maxUnavailable": "20%"}, "spec", "updateStrategy")
		setPath(o, obj{"replicas": n, "updatedReplicas": updated, "readyReplicas": n}, "status")
	case "DaemonSet":
		setPath(o, obj{"type": "RollingUpdate", "rollingUpdate": obj{"rollingUpdateType": "Standard", "maxUnavailable": 1, "partition": 0}}, "spec", "updateStrategy")
		setPath(o, obj{"desiredNumberScheduled": n, "currentNumberScheduled": n, "updatedNumberScheduled": updated, "numberMisscheduled": 0, "numberReady": n}, "status")
	default:
		setPath(o, n, "spec", "replicas")
		setPath(o, "svc", "spec", "serviceName")
		setPath(o, obj{"type": "RollingUpdate", "rollingUpdate": obj{"partition": 0}}, "spec", "updateStrategy")
		setPath(o, obj{"replicas": n, "updatedReplicas": updated}, "status")
	}
	return o
}

func fixedRollout(name string, id ident, traffic bool) *v1beta1.Rollout {
	r := &v1beta1.Rollout{
		TypeMeta:   metav1.TypeMeta{APIVersion: "rollouts.kruise.io/v1beta1", Kind: "Rollout"},
		ObjectMeta: metav1.ObjectMeta{Name: name, Namespace: wlNS},
		Spec:       v1beta1.RolloutSpec{WorkloadRef: v1beta1.ObjectRef{APIVersion: id.apiVersion(), Kind: id.Kind, Name: wlName}},
		Status:     v1beta1.RolloutStatus{Phase: v1beta1.RolloutPhaseHealthy},
	}
	c := &v1beta1.CanaryStrategy{Steps: []v1beta1.CanaryStep{{Replicas: &intstr.IntOrString{Type: intstr.String, StrVal: "50%"}}}}
	if traffic {
		c.TrafficRoutings = []v1beta1.TrafficRoutingRef{{Service: "svc", Ingress: &v1beta1.IngressTrafficRouting{Name: "ing"}}}
	}
	r.Spec.Strategy.Canary = c
	return r
}

func tableCases() []Case {
	var out []Case
	rids := [][2]string{{"", ""}, {"", "v1"}, {"v1", "v1"}, {"v1", "v2"}, {"v1", ""}}
	tmplEdits := []string{"none", "image", "hash-label", "quantity-respell"}
	rollouts := []string{"none", "active", "active-traffic", "deleting", "disabled", "other-name", "other-namespace", "empty-strategy"}
	for _, k := range tableKinds {
		for _, rid := range rids {
			for _, te := range tmplEdits {
				for _, ro := range rollouts {
					for _, running := range []bool{true, false} {
						for _, labelled := range []bool{true, false} {
							for _, multi := range []bool{false, true} {
								if multi && (ro != "active-traffic" || !running) {
									continue
								}
								c := Case{Handler: k.handler, ID: k.id, OwnEntry: k.own, WebhookVariant: "shipped"}
								c.Webhook = webhookConfig("shipped", k.own)
								oldO := fixedBase(k, running, multi)
								if labelled {
									setLabel(oldO, lblWorkloadType, k.wtLabel)
								}
								newO := deepCopyObj(oldO)
								switch te {
								case "image":
									container0(newO)["image"] = "img:v2"
									c.TemplateChanged = true
								case "hash-label":
									setPath(newO, "other", "spec", "template", "metadata", "labels", hashLabel)
								case "quantity-respell":
									setPath(container0(newO), "1000m", "resources", "requests", "cpu")
								}
								if rid[0] != "" {
									setAnn(oldO, annRolloutID, rid[0])
								}
								if rid[1] != "" {
									setAnn(newO, annRolloutID, rid[1])
								}
								c.Edits = []string{"tmpl=" + te, fmt.Sprintf("rid=%q->%q", rid[0], rid[1]), "rollout=" + ro, fmt.Sprintf("running=%v", running), fmt.Sprintf("labelled=%v", labelled), fmt.Sprintf("multi-revision=%v", multi)}
								if ro != "none" {
									r := fixedRollout("r0", k.id, ro == "active-traffic")
									switch ro {
									case "deleting":
										ts := metav1.Unix(1700000000, 0)
										r.DeletionTimestamp, r.Finalizers = &ts, []string{"rollouts.kruise.io/rollout"}
									case "disabled":
										r.Spec.Disabled, r.Status.Phase = true, v1beta1.RolloutPhaseDisabled
									case "other-name":
										r.Spec.WorkloadRef.Name = "someone-else"
									case "other-namespace":
										r.Namespace = "other-ns"
									case "empty-strategy":
										r.Spec.Strategy.Canary = nil
									}
									c.Rollouts = []*v1beta1.Rollout{r}
								}
								if k.name == "Deployment" {
									yes, three, one := true, int32(3), int32(1)
									mk := func(name string, replicas *int32, image string) *apps.ReplicaSet {
										rs := &apps.ReplicaSet{TypeMeta: metav1.TypeMeta{APIVersion: "apps/v1", Kind: "ReplicaSet"},
											ObjectMeta: metav1.ObjectMeta{Name: name, Namespace: wlNS, Labels: map[string]string{"app": wlName, hashLabel: name},
												OwnerReferences: []metav1.OwnerReference{{APIVersion: "apps/v1", Kind: "Deployment", Name: wlName, UID: types.UID(wlUID), Controller: &yes}}},
											Spec: apps.ReplicaSetSpec{Replicas: replicas, Selector: &metav1.LabelSelector{MatchLabels: map[string]string{"app": wlName}}}}
										b, _ := json.Marshal(fixedTemplate())
										_ = json.Unmarshal(b, &rs.Spec.Template)
										rs.Spec.Template.Spec.Containers[0].Image = image
										return rs
									}
									if running {
										c.RSs = append(c.RSs, mk("rs-v1", &three, "img:v1"))
										if multi {
											c.RSs = append(c.RSs, mk("rs-v0", &one, "img:v0"))
										}
									}
								}
								c.Old, _ = json.Marshal(oldO)
								c.New, _ = json.Marshal(newO)
								out = append(out, c)
							}
						}
					}
				}
			}
		}
	}
	return out
}

func verdictOf(c Case) (verdict, bool) {
	if c.Handler == "unified" {
		return verdictUnified(c)
	}
	return verdictWorkload(c)
}

func TestC08DecisionTable(t *testing.T) {
	var rc Case
	if ok, _ := vlib.LoadReplay(chkTable, &rc); ok {
		v, _ := verdictOf(rc)
		run(t, chkTable, rc, v)
		return
	}
	cases := tableCases()
	var nt int64
	var samples []any
	held, unchanged := 0, 0
	for _, c := range cases {
		v, sel := verdictOf(c)
		if v.NT {
			nt++
			if len(samples) < 4 {
				samples = append(samples, c)
			}
		}
		switch {
		case len(v.Held) > 0 && !v.Unchanged:
			held++
		case len(v.Held) == 0:
			unchanged++
		}
		vlib.Class(chkTable, "kind="+c.ID.Kind+"/"+c.ID.Group, "verdict="+v.Class, fmt.Sprintf("own-selected=%v", sel), strings.Join(c.Edits[:2], ","))
		run(t, chkTable, c, v)
	}
	vlib.RecordBulk(chkTable, int64(len(cases)), nt, true, samples)
	vlib.Note(chkTable, fmt.Sprintf("grid cells: %d; strictly held: %d; strictly unchanged: %d", len(cases), held, unchanged))
	if held == 0 || unchanged == 0 {
		t.Fatalf("decision table degenerate: held=%d unchanged=%d", held, unchanged)
	}
}
