package p08

import (
	"encoding/json"
	"fmt"
	"strings"
	"testing"

	"github.com/openkruise/rollouts/api/v1beta1"
	apps "k8s.io/api/apps/v1"
	corev1 "k8s.io/api/core/v1"
	metav1 "k8s.io/apimachinery/pkg/apis/meta/v1"
	"k8s.io/apimachinery/pkg/types"
	"pgregory.net/rapid"

	"verifharness/vlib"
)

const chkWorkload = "c08-workload-handler"

var (
	idDeployment = ident{Group: "apps", Version: "v1", Kind: "Deployment", Resource: "deployments"}
	idCloneSet   = ident{Group: "apps.kruise.io", Version: "v1alpha1", Kind: "CloneSet", Resource: "clonesets"}
	idDaemonSet  = ident{Group: "apps.kruise.io", Version: "v1alpha1", Kind: "DaemonSet", Resource: "daemonsets"}
)

func baseMeta(id ident) obj {
	return obj{"name": wlName, "namespace": wlNS, "uid": wlUID, "generation": 3, "resourceVersion": "41", "creationTimestamp": "2023-05-01T00:00:00Z"}
}

// ---------- Deployment ----------

const (
	ipNone      = ""
	ipCanary    = "canary"
	ipPartition = "partition"
	ipBlueGreen = "bluegreen"
	ipEmpty     = "empty-marker"
	ipGarbage   = "garbage-strategy"
)

func gDeployment(t *rapid.T) (obj, string) {
	d := obj{
		"apiVersion": "apps/v1", "kind": "Deployment", "metadata": baseMeta(idDeployment),
		"spec": obj{
			"replicas":                rapid.SampledFrom([]int{0, 1, 1, 2, 3, 3, 5, 5, 5, 2}).Draw(t, "replicas"),
			"selector":                obj{"matchLabels": obj{"app": wlName}},
			"template":                baseTemplate(t),
			"revisionHistoryLimit":    10,
			"progressDeadlineSeconds": 600,
		},
		"status": obj{"replicas": 3, "updatedReplicas": 3, "readyReplicas": 3, "observedGeneration": 3},
	}
	applyMapShape(d, gLabelsShape(t, "labels-shape", false), "metadata", "labels")
	applyMapShape(d, gLabelsShape(t, "ann-shape", false), "metadata", "annotations")
	rolling := obj{"type": "RollingUpdate", "rollingUpdate": obj{"maxSurge": "25%", "maxUnavailable": "25%"}}
	recreate := obj{"type": "Recreate"}
	if rapid.IntRange(0, 3).Draw(t, "strategy-recreate") == 0 {
		setPath(d, recreate, "spec", "strategy")
	} else {
		setPath(d, rolling, "spec", "strategy")
	}
	if rapid.IntRange(0, 3).Draw(t, "paused") == 0 {
		setPath(d, true, "spec", "paused")
	}
	ip := rapid.SampledFrom([]string{ipNone, ipNone, ipNone, ipNone, ipNone, ipNone, ipCanary, ipCanary, ipPartition, ipPartition, ipBlueGreen, ipBlueGreen, ipEmpty, ipGarbage}).Draw(t, "in-progress")
	marker := `{"rolloutName":"r0"}`
	switch ip {
	case ipCanary:
		setAnn(d, annInProgress, marker)
		setPath(d, true, "spec", "paused")
	case ipPartition:
		setAnn(d, annInProgress, marker)
		setAnn(d, annDepStrategy, `{"rollingStyle":"Partition","rollingUpdate":{"maxUnavailable":"25%","maxSurge":"25%"},"partition":"20%"}`)
		setPath(d, true, "spec", "paused")
		setPath(d, recreate, "spec", "strategy")
	case ipBlueGreen:
		setAnn(d, annInProgress, marker)
		setAnn(d, annOrigStrategy, `{"maxSurge":"25%","maxUnavailable":"25%","progressDeadlineSeconds":600}`)
		setPath(d, obj{"type": "RollingUpdate", "rollingUpdate": obj{"maxSurge": "100%", "maxUnavailable": 0}}, "spec", "strategy")
		setPath(d, 100000, "spec", "minReadySeconds")
	case ipEmpty:
		setAnn(d, annInProgress, "")
	case ipGarbage:
		setAnn(d, annInProgress, marker)
		setAnn(d, annDepStrategy, `{"rollingStyle":`)
		setPath(d, true, "spec", "paused")
	}
	return d, ip
}

func gDeploymentEdits(t *rapid.T, newO obj, ip string) []string {
	var edits []string
	if rapid.IntRange(0, 4).Draw(t, "edit-replicas") == 0 {
		setPath(newO, rapid.SampledFrom([]int{0, 1, 4, 6}).Draw(t, "new-replicas"), "spec", "replicas")
		edits = append(edits, "replicas")
	}
	pausedP := 3
	if ip != ipNone {
		pausedP = 6
	}
	if rapid.IntRange(0, 9).Draw(t, "edit-paused") < pausedP {
		if boolAt(newO, "spec", "paused") {
			delPath(newO, "spec", "paused")
			edits = append(edits, "unpause")
		} else {
			setPath(newO, true, "spec", "paused")
			edits = append(edits, "pause")
		}
	}
	if rapid.IntRange(0, 4).Draw(t, "edit-strategy") == 0 {
		if strAt(newO, "spec", "strategy", "type") == "Recreate" {
			setPath(newO, obj{"type": "RollingUpdate", "rollingUpdate": obj{"maxSurge": "50%", "maxUnavailable": 1}}, "spec", "strategy")
			edits = append(edits, "strategy-rolling")
		} else {
			setPath(newO, obj{"type": "Recreate"}, "spec", "strategy")
			edits = append(edits, "strategy-recreate")
		}
	}
	switch {
	case strAt(newO, "metadata", "annotations", annInProgress) != "" && rapid.IntRange(0, 9).Draw(t, "edit-ip-remove") == 0:
		delPath(newO, "metadata", "annotations", annInProgress)
		edits = append(edits, "inprogress-removed")
	case ip == ipNone && rapid.IntRange(0, 14).Draw(t, "edit-ip-add") == 0:
		setAnn(newO, annInProgress, `{"rolloutName":"r1"}`)
		edits = append(edits, "inprogress-added")
	}
	return edits
}

func gReplicaSets(t *rapid.T, oldO, newO obj) []*apps.ReplicaSet {
	n := rapid.SampledFrom([]int{0, 1, 1, 1, 1, 1, 2, 2, 2, 3}).Draw(t, "replicasets")
	tmpl := func(o obj) corev1.PodTemplateSpec {
		var ts corev1.PodTemplateSpec
		v, _ := getPath(o, "spec", "template")
		b, _ := json.Marshal(v)
		_ = json.Unmarshal(b, &ts)
		return ts
	}
	var out []*apps.ReplicaSet
	for i := 0; i < n; i++ {
		l := fmt.Sprintf("rs%d-", i)
		rs := &apps.ReplicaSet{
			TypeMeta: metav1.TypeMeta{APIVersion: "apps/v1", Kind: "ReplicaSet"},
			ObjectMeta: metav1.ObjectMeta{
				Name: fmt.Sprintf("%s-rs%d", wlName, i), Namespace: wlNS,
				Labels:            map[string]string{"app": wlName, hashLabel: fmt.Sprintf("hash%d", i)},
				Annotations:       map[string]string{},
				CreationTimestamp: metav1.Unix(int64(1680000000+1000*i), 0),
			},
			Spec: apps.ReplicaSetSpec{Selector: &metav1.LabelSelector{MatchLabels: map[string]string{"app": wlName, hashLabel: fmt.Sprintf("hash%d", i)}}},
		}
		yes := true
		plain := rapid.IntRange(0, 9).Draw(t, l+"plain") < 6 // an ordinary live ReplicaSet of this Deployment
		ownerOpts := []string{"self", "self", "self", "self", "self", "self", "self", "other-uid", "none", "self-not-controller"}
		if plain {
			ownerOpts = []string{"self"}
		}
		switch rapid.SampledFrom(ownerOpts).Draw(t, l+"owner") {
		case "self":
			rs.OwnerReferences = []metav1.OwnerReference{{APIVersion: "apps/v1", Kind: "Deployment", Name: wlName, UID: types.UID(wlUID), Controller: &yes}}
		case "other-uid":
			rs.OwnerReferences = []metav1.OwnerReference{{APIVersion: "apps/v1", Kind: "Deployment", Name: wlName, UID: "uid-previous-incarnation", Controller: &yes}}
		case "self-not-controller":
			rs.OwnerReferences = []metav1.OwnerReference{{APIVersion: "apps/v1", Kind: "Deployment", Name: wlName, UID: types.UID(wlUID)}}
		}
		if !plain && rapid.IntRange(0, 7).Draw(t, l+"labels-off") == 0 {
			rs.Labels["app"] = "someone-else"
		}
		if !plain && rapid.IntRange(0, 9).Draw(t, l+"ns-off") == 0 {
			rs.Namespace = "other-ns"
		}
		r := int32(rapid.SampledFrom([]int{0, 1, 2, 3, 3}).Draw(t, l+"replicas"))
		if plain && r == 0 {
			r = 2
		}
		rs.Spec.Replicas = &r
		if !plain && rapid.IntRange(0, 7).Draw(t, l+"deleting") == 0 {
			ts := metav1.Unix(1700000000, 0)
			rs.DeletionTimestamp = &ts
			rs.Finalizers = []string{"foregroundDeletion"}
		}
		switch rapid.SampledFrom([]string{"old", "old", "new", "other"}).Draw(t, l+"template") {
		case "old":
			rs.Spec.Template = tmpl(oldO)
		case "new":
			rs.Spec.Template = tmpl(newO)
		default:
			rs.Spec.Template = tmpl(oldO)
			rs.Spec.Template.Spec.Containers[0].Image = "img:v0"
		}
		if rapid.IntRange(0, 3).Draw(t, l+"has-revision") > 0 {
			rs.Annotations["deployment.kubernetes.io/revision"] = fmt.Sprint(rapid.IntRange(1, 3).Draw(t, l+"revision"))
		}
		out = append(out, rs)
	}
	return out
}

func refActiveReplicaSets(c Case, newO obj) int {
	sel := strMapAt(newO, "spec", "selector", "matchLabels")
	uid := strAt(newO, "metadata", "uid")
	n := 0
	for _, rs := range c.RSs {
		ok := rs.Namespace == wlNS && rs.DeletionTimestamp.IsZero() && rs.Spec.Replicas != nil && *rs.Spec.Replicas > 0
		for k, v := range sel {
			if rs.Labels[k] != v {
				ok = false
			}
		}
		owned := false
		for _, o := range rs.OwnerReferences {
			if o.Controller != nil && *o.Controller && string(o.UID) == uid {
				owned = true
			}
		}
		if ok && owned {
			n++
		}
	}
	return n
}

// ---------- CloneSet / DaemonSet ----------

func gCloneSet(t *rapid.T) obj {
	cs := obj{
		"apiVersion": "apps.kruise.io/v1alpha1", "kind": "CloneSet", "metadata": baseMeta(idCloneSet),
		"spec": obj{
			"selector":       obj{"matchLabels": obj{"app": wlName}},
			"template":       baseTemplate(t),
			"updateStrategy": obj{"type": rapid.SampledFrom([]string{"ReCreate", "InPlaceIfPossible"}).Draw(t, "cs-type"), "maxUnavailable": "20%"},
		},
	}
	applyMapShape(cs, gLabelsShape(t, "labels-shape", true), "metadata", "labels")
	applyMapShape(cs, gLabelsShape(t, "ann-shape", true), "metadata", "annotations")
	r := rapid.SampledFrom([]int{-1, 0, 1, 1, 3, 3, 5, 5}).Draw(t, "replicas")
	if r >= 0 {
		setPath(cs, r, "spec", "replicas")
	} else {
		r = 1
	}
	switch rapid.SampledFrom([]string{"absent", "absent", "zero", "int", "pct", "full"}).Draw(t, "cs-partition") {
	case "zero":
		setPath(cs, 0, "spec", "updateStrategy", "partition")
	case "int":
		setPath(cs, 2, "spec", "updateStrategy", "partition")
	case "pct":
		setPath(cs, "50%", "spec", "updateStrategy", "partition")
	case "full":
		setPath(cs, "100%", "spec", "updateStrategy", "partition")
	}
	updated := r
	if r > 0 && rapid.IntRange(0, 2).Draw(t, "cs-multi-revision") == 0 {
		updated = r - 1
	}
	setPath(cs, obj{"replicas": r, "updatedReplicas": updated, "readyReplicas": r, "availableReplicas": r, "observedGeneration": 3, "updatedReadyReplicas": updated, "expectedUpdatedReplicas": r}, "status")
	if rapid.IntRange(0, 5).Draw(t, "cs-already-in-progress") == 0 {
		setAnn(cs, annInProgress, `{"rolloutName":"r0"}`)
	}
	return cs
}

func gDaemonSet(t *rapid.T) obj {
	ds := obj{
		"apiVersion": "apps.kruise.io/v1alpha1", "kind": "DaemonSet", "metadata": baseMeta(idDaemonSet),
		"spec": obj{
			"selector":      obj{"matchLabels": obj{"app": wlName}},
			"template":      baseTemplate(t),
			"burstReplicas": 250,
		},
	}
	applyMapShape(ds, gLabelsShape(t, "labels-shape", true), "metadata", "labels")
	applyMapShape(ds, gLabelsShape(t, "ann-shape", true), "metadata", "annotations")
	ru := obj{"rollingUpdateType": "Standard", "maxUnavailable": 1, "maxSurge": 0, "partition": rapid.SampledFrom([]int{0, 0, 3}).Draw(t, "ds-partition"), "paused": false}
	switch rapid.SampledFrom([]string{"rolling", "rolling", "rolling", "rolling", "rolling-bare", "ondelete", "ondelete", "ondelete-with-block"}).Draw(t, "ds-strategy") {
	case "rolling":
		setPath(ds, obj{"type": "RollingUpdate", "rollingUpdate": ru}, "spec", "updateStrategy")
	case "rolling-bare":
		setPath(ds, obj{"type": "RollingUpdate", "rollingUpdate": obj{}}, "spec", "updateStrategy")
	case "ondelete": // "rollingUpdate: present only if type = RollingUpdate" (kruise-api); Kruise defaulting adds the block for RollingUpdate only
		setPath(ds, obj{"type": "OnDelete"}, "spec", "updateStrategy")
	case "ondelete-with-block":
		setPath(ds, obj{"type": "OnDelete", "rollingUpdate": ru}, "spec", "updateStrategy")
	}
	desired := rapid.SampledFrom([]int{0, 1, 3, 3, 5}).Draw(t, "ds-desired")
	updated := desired
	if desired > 0 && rapid.IntRange(0, 2).Draw(t, "ds-multi-revision") == 0 {
		updated = desired - 1
	}
	setPath(ds, obj{"desiredNumberScheduled": desired, "currentNumberScheduled": desired, "updatedNumberScheduled": updated, "numberMisscheduled": 0, "numberReady": desired, "observedGeneration": 3, "daemonSetHash": "h"}, "status")
	return ds
}

// ---------- generator ----------

func genWorkload(t *rapid.T) Case {
	c := Case{Handler: "workload"}
	var oldO obj
	crd := true
	switch rapid.SampledFrom([]string{"Deployment", "Deployment", "Deployment", "CloneSet", "CloneSet", "DaemonSet", "DaemonSet"}).Draw(t, "kind") {
	case "Deployment":
		c.ID, c.OwnEntry, crd = idDeployment, "mdeployment.kb.io", false
		oldO, c.InProgress = gDeployment(t)
	case "CloneSet":
		c.ID, c.OwnEntry = idCloneSet, "mcloneset.kb.io"
		oldO = gCloneSet(t)
	default:
		c.ID, c.OwnEntry = idDaemonSet, "mdaemonset.kb.io"
		oldO = gDaemonSet(t)
	}
	gWebhook(t, &c)
	newO := deepCopyObj(oldO)
	c.Edits = append(c.Edits, gSelectionLabels(t, oldO, newO, strings.ToLower(c.ID.Kind), c.WebhookVariant)...)
	if c.ID.Kind == "Deployment" && rapid.IntRange(0, 19).Draw(t, "control-plane") == 0 {
		setLabel(newO, "control-plane", "controller-manager")
		c.Edits = append(c.Edits, "control-plane-label-added")
	}
	var te []string
	c.TemplateChanged, te = gTemplateEdits(t, newO, crd)
	c.Edits = append(c.Edits, te...)
	c.Edits = append(c.Edits, gRolloutID(t, oldO, newO)...)
	switch c.ID.Kind {
	case "Deployment":
		c.Edits = append(c.Edits, gDeploymentEdits(t, newO, c.InProgress)...)
	case "CloneSet":
		if rapid.IntRange(0, 4).Draw(t, "edit-replicas") == 0 {
			setPath(newO, rapid.SampledFrom([]int{0, 1, 4, 6}).Draw(t, "new-replicas"), "spec", "replicas")
			c.Edits = append(c.Edits, "replicas")
		}
		if rapid.IntRange(0, 5).Draw(t, "edit-partition") == 0 {
			setPath(newO, 0, "spec", "updateStrategy", "partition")
			c.Edits = append(c.Edits, "partition-zero")
		}
	case "DaemonSet":
		if _, has := getPath(newO, "spec", "updateStrategy", "rollingUpdate", "partition"); has && rapid.IntRange(0, 5).Draw(t, "edit-partition") == 0 {
			setPath(newO, 0, "spec", "updateStrategy", "rollingUpdate", "partition")
			c.Edits = append(c.Edits, "partition-zero")
		}
	}
	if rapid.IntRange(0, 4).Draw(t, "edit-annotation") == 0 {
		setAnn(newO, "user/note", "edited")
		c.Edits = append(c.Edits, "annotation-only")
	}
	if rapid.IntRange(0, 4).Draw(t, "edit-label") == 0 {
		setLabel(newO, "user/tier", "edited")
		c.Edits = append(c.Edits, "label-only")
	}
	if rapid.IntRange(0, 5).Draw(t, "edit-status") == 0 {
		setPath(newO, 9, "status", "observedGeneration")
		c.Edits = append(c.Edits, "status")
	}
	setPath(newO, 4, "metadata", "generation")
	c.Rollouts = gRollouts(t, c.ID, c.ID.Kind != "DaemonSet")
	if c.ID.Kind == "Deployment" {
		c.RSs = gReplicaSets(t, oldO, newO)
	}
	c.ListReverse = rapid.Bool().Draw(t, "list-reverse")
	c.Old, _ = json.Marshal(oldO)
	c.New, _ = json.Marshal(newO)

	// steer away from the input class of a listed finding so that the search continues behind it
	if v, _ := verdictWorkload(c); v.KnownClass != "" && knownOpen[v.KnownClass] {
		vlib.Excluded(chkWorkload, v.KnownClass)
		ensureMap(oldO, "spec", "updateStrategy", "rollingUpdate")
		ensureMap(newO, "spec", "updateStrategy", "rollingUpdate")
		c.Old, _ = json.Marshal(oldO)
		c.New, _ = json.Marshal(newO)
	}
	return c
}

// ---------- reference decision ----------

// verdictWorkload is the reference decision for Deployment / CloneSet / Advanced DaemonSet,
// written from the property statement; each clause says where its reading comes from.
func verdictWorkload(c Case) (verdict, bool) {
	oldO, newO := c.objs()
	sel := ownSelected(c, strMapAt(newO, "metadata", "labels"))
	ridOld, ridNew := strAt(oldO, "metadata", "annotations", annRolloutID), strAt(newO, "metadata", "annotations", annRolloutID)
	// release change: "its rollout-id changes or, when no rollout-id is used [on the submitted
	// object], its pod template changes"
	release := c.TemplateChanged
	if ridNew != "" {
		release = ridOld != ridNew
	}
	v := verdict{}
	weak := func() {
		if !sel {
			v.Unchanged = true
			v.Class = "unselected/" + v.Class
			v.NT = false
		}
	}

	if c.ID.Kind == "Deployment" && strAt(newO, "metadata", "annotations", annInProgress) != "" {
		// "an edit that would un-pause a Deployment in the middle of a canary- or partition-style
		// release is corrected"; a release change in the middle of a partition-style or blue-green
		// release is held back (advanced-deployment strategy paused / spec.paused).
		v.InProgress = true
		var st struct {
			RollingStyle string `json:"rollingStyle"`
		}
		_ = json.Unmarshal([]byte(strAt(newO, "metadata", "annotations", annDepStrategy)), &st)
		unpausing := !boolAt(newO, "spec", "paused")
		switch {
		case !sel:
			v.Class = "unselected/inprogress"
		case st.RollingStyle == "Partition":
			v.Class, v.MustPaused, v.MustStrategyPaused, v.NT = "inprogress-partition", true, release, unpausing || release
		case strAt(newO, "metadata", "annotations", annOrigStrategy) != "":
			v.Class, v.MustPaused, v.NT = "inprogress-bluegreen", release, release
		default:
			v.Class, v.MustPaused, v.NT = "inprogress-canary", true, unpausing
		}
		return v, sel
	}

	switch c.ID.Kind {
	case "Deployment":
		replicas, _ := numAt(newO, "spec", "replicas")
		active := refActiveReplicaSets(c, newO)
		switch {
		case replicas == 0 || active == 0:
			// "a workload with running replicas": nothing runs, nothing can be released unsupervised
			v.Unchanged, v.Class = true, "unchanged:not-running"
		case !release:
			v.Unchanged, v.Class = true, "unchanged:not-release"
		default:
			decide(c, &v, func(r *v1beta1.Rollout) string {
				if refHasTraffic(r) && active != 1 { // "with traffic routing configured, only while it runs a single revision"
					return "unchanged"
				}
				return "held"
			})
		}
	case "CloneSet":
		replicas, has := numAt(newO, "spec", "replicas")
		total, _ := numAt(newO, "status", "replicas")
		updated, _ := numAt(newO, "status", "updatedReplicas")
		switch {
		case has && replicas == 0:
			v.Unchanged, v.Class = true, "unchanged:not-running"
		case !release:
			v.Unchanged, v.Class = true, "unchanged:not-release"
		default:
			decide(c, &v, func(r *v1beta1.Rollout) string {
				if refHasTraffic(r) && total != updated {
					return "unchanged"
				}
				return "held"
			})
		}
	case "DaemonSet":
		desired, _ := numAt(newO, "status", "desiredNumberScheduled")
		updated, _ := numAt(newO, "status", "updatedNumberScheduled")
		onDelete := strAt(newO, "spec", "updateStrategy", "type") == "OnDelete"
		if !release {
			v.Unchanged, v.Class = true, "unchanged:not-release"
			break
		}
		decide(c, &v, func(r *v1beta1.Rollout) string {
			// The statement speaks of running replicas and, with traffic routing, a single revision;
			// for DaemonSets the webhook holds regardless, which is the safe side: both are accepted.
			// OnDelete: the DaemonSet controller never replaces a pod by itself (as for StatefulSets).
			if desired == 0 || onDelete || (refHasTraffic(r) && updated != desired) {
				return "either"
			}
			return "held"
		})
		if _, has := getPath(newO, "spec", "updateStrategy", "rollingUpdate"); !has && len(v.Held) > 0 {
			v.KnownClass = "c08-daemonset-nil-rollingupdate-panic"
		}
	}
	weak()
	v.NT = release && hasActiveRollout(c) // the property's non-trivial rule (plus in-progress un-pause above)
	return v, sel
}

func TestC08WorkloadHandler(t *testing.T) {
	var rc Case
	if ok, _ := vlib.LoadReplay(chkWorkload, &rc); ok {
		v, _ := verdictWorkload(rc)
		run(t, chkWorkload, rc, v)
		return
	}
	rapid.Check(t, func(t *rapid.T) {
		c := genWorkload(t)
		v, sel := verdictWorkload(c)
		vlib.Record(chkWorkload, shapeSig(c, v), v.NT, classesOf(c, v, sel), func() any { return c })
		run(t, chkWorkload, c, v)
	})
}
