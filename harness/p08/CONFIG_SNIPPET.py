{
    "level": "exploration",
    "engine": "E2",
    "technique": ("property-based testing (rapid): reference decision + frame condition over generated admission requests to the real "
                  "mutating workload webhooks; exhaustive enumeration of the finite decision grid"),
    "level_text": ("Generated-input search: per run tens of thousands (thorough: 1.6 M) of (old, new) workload pairs built by mutation "
                   "(Deployment, CloneSet, Advanced DaemonSet, native/Advanced StatefulSet, custom StatefulSet-like kind), each with a generated set "
                   "of Rollouts, ReplicaSets, MutatingWebhookConfiguration and in-progress state, are sent as raw AdmissionRequests through the real "
                   "WorkloadHandler.Handle / UnifiedWorkloadHandler.Handle (real Decoder, fake client). The response is compared with a reference "
                   "decision written from the property statement (held for an admissible Rollout / admitted unchanged / un-pause corrected), the "
                   "returned JSON patch is applied to the submitted object and must change nothing outside paused / partition / strategy / "
                   "in-progressing / stable-revision, and a panic, a denial or an inapplicable patch is a violation; failures shrink to a replay "
                   "file. A 4080-cell grid (kind x rollout-id pair x template edit x Rollout situation x running x label x revisions) is enumerated "
                   "exhaustively. One admission call is a pure function of request + store, so input generation with an explicit oracle is the "
                   "fitting level; absence of defects outside the generated shapes is not established."),
    "level_note": ("Trusted: the reference decision (clauses listed under assumptions), the harness's JSON accessors, evanphx/json-patch as the API "
                   "server's patch application, the fake client's List filtered by namespace/label selector (results sorted by the harness; both "
                   "orders explored). Whether the template changed is known by construction of the edit, not taken from the repository's "
                   "EqualIgnoreHash. 'exhaustive' applies to the decision-table sub-check only."),
    "rule": ("Generator: defaulted base object per kind (nil/empty label+annotation maps for CRD kinds, strategy blocks in every API-reachable "
             "shape, replicas 0..5, status counts, Deployment in-progress states canary / partition / blue-green / empty marker / garbage strategy "
             "annotation); new = old + drawn edits (template image/env/label/annotation, cosmetic template edits: pod-template-hash label, quantity "
             "respelling, empty map; rollout-id added/changed/removed/same in annotations; replicas, pause/un-pause, strategy type, partition, "
             "annotation-only, label-only, status-only, selector label added/removed, in-progress marker added/removed); 0..3 Rollouts (matching, "
             "other name/kind/group/namespace/version, unparseable apiVersion; active, deleting, disabled, spec/status disagreeing; partition, "
             "canary, blue-green, empty strategy; with/without traffic routing; first one biased to matching+active); 0..3 ReplicaSets (owner, "
             "labels, namespace, replicas, deleting, template, revision); webhook configuration shipped / unpatched / extra matchLabels / own entry "
             "missing / foreign. Non-trivial: release change and a matching active Rollout, or an in-progress un-pause / release; distinct by "
             "(handler, kind, edit set, Rollout-set shape, verdict class, webhook variant, in-progress state, #ReplicaSets)."),
    "assumptions": [
        "rollout-id is read where the webhook and its unit tests read it: workload ANNOTATIONS (the controller reads labels; known oddity, not asserted).",
        "release change := new rollout-id non-empty ? old id != new id : pod template changed semantically (pod-template-hash label, nil-vs-empty maps and quantity spelling ignored).",
        "running := spec.replicas != 0 (Deployment additionally: >= 1 live ReplicaSet it controls); not running => admitted unchanged (handler comment 'no need to enter rollout progressing'); DaemonSet with 0 desired pods: held or unchanged both accepted.",
        "active Rollout := same namespace, workloadRef group/kind/name equal, not deleting, not disabled; spec.disabled and status.phase==Disabled disagreeing: either reading accepted; a Rollout with neither canary nor blueGreen counts as none. Several candidates: any of them may be named (List order is unspecified).",
        "single revision with traffic routing: Deployment = exactly one live ReplicaSet, CloneSet = status.replicas == status.updatedReplicas; for DaemonSet / StatefulSet-like the webhook holds regardless and both results are accepted; update strategy OnDelete (StatefulSet-like, DaemonSet): both accepted.",
        "selected := the webhook entry routing to the handler selects the NEW object's labels under the stored MutatingWebhookConfiguration; if it does not (entry matched only the old object, or configuration changed meanwhile) 'unchanged' is additionally accepted and holding is not required, so a handler that ignored the selector is not detected.",
        "in-progress Deployment: partition style (strategy annotation rollingStyle=Partition) => admitted paused, and on a release change the strategy annotation paused; blue-green (original-strategy annotation) => paused on a release change; otherwise (canary style) => admitted paused. Other corrections (strategy type) are only checked by the frame.",
        "AdmissionRequest as an API server sends it: apiVersion/kind present in both raw objects, dryRun set, objectSelector never nil, the MutatingWebhookConfiguration exists; Deployment spec.replicas/strategy defaulted; CloneSet/DaemonSet/Advanced StatefulSet as left by Kruise defaulting (DaemonSet rollingUpdate present for type RollingUpdate only).",
        "Known finding excluded by construction and counted (c08-daemonset-nil-rollingupdate-panic): Advanced DaemonSet without spec.updateStrategy.rollingUpdate (type OnDelete) + release change + matching Rollout makes handleDaemonSet dereference nil.",
    ],
    "subchecks": [
        {"name": "c08-workload-handler", "pkg": "p08", "test": "TestC08WorkloadHandler", "quick": rp(48000, 8), "thorough": rp(800000, 16, timeout=1500)},
        {"name": "c08-unified-handler", "pkg": "p08", "test": "TestC08UnifiedHandler", "quick": rp(48000, 8), "thorough": rp(800000, 16, timeout=1500)},
        {"name": "c08-decision-table", "pkg": "p08", "test": "TestC08DecisionTable", "mode": "plain", "quick": rp(4080, 1), "thorough": rp(4080, 1)},
    ],
}
