// Package p08 holds the C08 check: "No unsupervised release: admission pauses every relevant
// change" (real WorkloadHandler / UnifiedWorkloadHandler of pkg/webhook/workload/mutating).
package p08

// knownOpen lists finding signatures whose input class the generators steer away from (counted
// with vlib.Excluded) so that the search continues behind a confirmed defect. Switch an entry to
// false (or delete it) to make the check fail on the defect again.
//
//   - c08-daemonset-nil-rollingupdate-panic: handleDaemonSet dereferences
//     spec.updateStrategy.rollingUpdate, which is absent for an Advanced DaemonSet of update
//     strategy type OnDelete ("Present only if type = RollingUpdate"); the webhook panics on every
//     release change of such a DaemonSet referenced by an active Rollout.
var knownOpen = map[string]bool{
	"c08-daemonset-nil-rollingupdate-panic": true,
}
