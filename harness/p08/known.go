// Package p08 holds the C08 check: "No unsupervised release: admission pauses every relevant
// change" (real WorkloadHandler / UnifiedWorkloadHandler of pkg/webhook/workload/mutating).
package p08

// knownOpen lists finding signatures whose input class the generators steer away from (counted
// with vlib.Excluded) so that the search continues behind a confirmed defect. Switch an entry to
// false (or delete it) to make the check fail on the defect again.
//
//   - c08-daemonset-nil-rollingupdate-panic: handleDaemonSet dereferences
//     spec.updateStrategy.rollingUpdate, which is absent for an Advanced DaemonSet of update
//     strategy type OnDelete ("Present only if type = RollingUpdate"); the webhook panics on every
//     release change of such a DaemonSet referenced by an active Rollout.
//   - c08-unified-zero-replicas-held: the "replicas == 0" guard of handleStatefulSetLikeWorkload is
//     dead on the real admission path: the Decoder fills an Unstructured with json.Unmarshal
//     (numbers are float64), util.GetReplicas reads spec.replicas with NestedInt64, gets a type
//     error and falls back to 1, so a StatefulSet scaled to zero is pushed into a rollout.
var knownOpen = map[string]bool{
	"c08-daemonset-nil-rollingupdate-panic": true,
	"c08-unified-zero-replicas-held":        true,
}
