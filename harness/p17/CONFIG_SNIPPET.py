{
    "level": "exploration",
    "engine": "E2",
    "technique": ("property-based testing (rapid): stateful machine (t.Repeat) around the real advanced deployment controller on client-go's "
                  "fake clientset, per-write reference oracles; plus exhaustive enumeration of the partition/surge arithmetic"),
    "level_text": ("Generated-history search: every case starts from 'one ReplicaSet, all pods available', then ~30 rapid-drawn actions "
                   "(real syncDeployment, pod creation/readiness/availability progress, availability flapping, partition raises, scale events, "
                   "new pod templates incl. rollback, pause toggles as the workload webhook sets them, re-initialisation, rollingUpdate edits) "
                   "are interleaved. Every ReplicaSet create/update the controller issues is intercepted together with a snapshot of all "
                   "ReplicaSets at that instant and checked against the four inequalities of the property, computed by an independent "
                   "reference (k8s rolling-update rounding, Kruise partition semantics); most cases end with a convergence phase (partition "
                   "covering all replicas, fair environment, bounded number of rounds). The arithmetic kernels (NewRSReplicasLimit, "
                   "NewRSNewReplicas) are enumerated exhaustively over a small domain. The invariants are inductive over histories, so "
                   "state-machine exploration with shrinking is the fitting level; it does not establish absence of violations."),
    "level_note": ("Trusted: the harness' model of the ReplicaSet controller/kubelet (an RS scaled down to v keeps min(available, v) available "
                   "pods: not-ready pods are deleted first), the reference arithmetic in c17_ref_test.go, and the notion of 'scale in flight' "
                   "(from a spec.replicas change until the next successful sync). Informer caches are refreshed before every sync (no stale-cache "
                   "schedules). In 'lag' cases ReplicaSet status may still count doomed pods; the availability inequality is then not asserted."),
    "rule": ("Initial Deployment: replicas 0..12, partition int/percent, maxSurge/maxUnavailable int/percent incl. 0 passed through the real "
             "SetDefaultDeploymentStrategy, paused or not, template v1 (no rollout yet) or v2; control markers as BatchRelease.Initialize + "
             "webhook leave them (paused, Recreate, control-info annotation, strategy annotation). Rules: sync (x6 weight), rsProgress "
             "(pod/ready/available, 1..4 steps), settle, settleAll, flapUnavailable, raisePartition (never lowers), scale(0..12), "
             "newTemplate (third revision or rollback, with/without the webhook's pause), togglePaused, reset (partition 0 + unpause, only after "
             "a template change = new BatchRelease), setRollingUpdate. Oracles on every controller write while no scale is in flight: O1 growth of "
             "new RS <= partition limit (when old pods exist); O2 shrink of old never leaves sum(old) < replicas - max(limit, new); O3 growth of "
             "new never makes total > replicas + maxSurge; O4 shrink of old that removes available pods never leaves < replicas - maxUnavailable "
             "available; O5 no panic, and partition covering all replicas + fair environment => new == replicas, old == 0 within 4n+12 rounds "
             "(also asserted after scale events). Non-trivial: a size-changing write happened while old and new ReplicaSets were both non-empty; "
             "distinct by hash of the scenario + action/write trace."),
    "assumptions": [
        "Listers are fresh at every sync; ReplicaSet writes never fail (no fault injection in this check).",
        "Partition is only raised, except through re-initialisation (partition 0, unpaused) after a pod-template change, as BatchRelease.Initialize does.",
        "O1 is not asserted when no old-revision pod exists (nothing to reserve; reachable only after a partition lowering).",
        "O4 counts min(status.available, spec) per ReplicaSet and is skipped when a status still counts more available pods than spec (lag cases).",
        "Scale-in-flight window: from a spec.replicas change to the end of the next successful sync; only no-panic and convergence are asserted inside.",
        "Listed findings (known.go): the case is 'excused' for exactly the finding's input class, counted in excluded_known; findings/*.json were written with the exclusion off.",
    ],
    "subchecks": [
        {"name": "c17-deployment-machine", "pkg": "p17", "test": "TestC17DeploymentMachine",
         "quick": rp(32000, 16, timeout=300), "thorough": rp(800000, 16, timeout=1500, steps=40)},
        {"name": "c17-arith", "pkg": "p17", "test": "TestC17Arith", "mode": "plain",
         "quick": rp(1, 1, timeout=120), "thorough": rp(1, 1, timeout=300)},
    ],
}
