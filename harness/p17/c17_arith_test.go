package p17

// c17-arith: exhaustive enumeration of the two arithmetic kernels of the advanced deployment
// controller against the reference in c17_ref_test.go:
//   - util.NewRSReplicasLimit(partition, deployment)  == refPartitionLimit
//   - util.NewRSNewReplicas(deployment, allRSs, newRS, strategy): never shrinks the new RS,
//     a growth stays within partition / spec.replicas / surge head-room and is maximal
//     (== refNewRSAllowedMax); with no other pod the new RS carries the whole Deployment.

import (
	"fmt"
	"testing"

	apps "k8s.io/api/apps/v1"
	metav1 "k8s.io/apimachinery/pkg/apis/meta/v1"
	"k8s.io/apimachinery/pkg/util/intstr"

	"github.com/openkruise/rollouts/api/v1alpha1"
	deploymentutil "github.com/openkruise/rollouts/pkg/controller/deployment/util"

	"verifharness/vlib"
)

const chkA = "c17-arith"

type ArithCase struct {
	Kind      string  `json:"kind"` // limit | newrs
	Replicas  int     `json:"replicas"`
	Partition string  `json:"partition"`
	IntType   bool    `json:"intType"` // partition is an integer (intstr.Int)
	MaxSurge  *string `json:"maxSurge,omitempty"`
	Old       []int   `json:"old,omitempty"`
	New       int     `json:"new,omitempty"`
}

func (c ArithCase) partition() intstr.IntOrString {
	if c.IntType {
		v, _, _ := parseIntOrPct(c.Partition)
		return intstr.FromInt(v)
	}
	return intstr.FromString(c.Partition)
}

func bareRS(name string, n int) *apps.ReplicaSet {
	return &apps.ReplicaSet{ObjectMeta: metav1.ObjectMeta{Name: name, Namespace: ns}, Spec: apps.ReplicaSetSpec{Replicas: int32p(int32(n))}}
}

func runArith(t vlib.TB, c ArithCase) {
	d := &apps.Deployment{ObjectMeta: metav1.ObjectMeta{Name: dName, Namespace: ns}, Spec: apps.DeploymentSpec{Replicas: int32p(int32(c.Replicas))}}
	part := c.partition()
	refPart := c.Partition
	if !c.IntType {
		if _, pct, ok := parseIntOrPct(c.Partition); !pct || !ok {
			refPart = "invalid" // a string that is not "<int>%" carries no partition
		}
	}
	L := refPartitionLimit(refPart, c.Replicas)
	switch c.Kind {
	case "limit":
		var got int32
		if p, msg := vlib.Guard(func() { got = deploymentutil.NewRSReplicasLimit(part, d) }); p {
			vlib.Fail(t, chkA, "limit-panic", c, "NewRSReplicasLimit panicked: %s", msg)
		}
		if int(got) != L {
			vlib.Fail(t, chkA, "limit-differs-from-reference", c, "NewRSReplicasLimit(%s, replicas=%d) = %d, reference %d", c.Partition, c.Replicas, got, L)
		}
	case "newrs":
		st := &v1alpha1.DeploymentStrategy{RollingStyle: v1alpha1.PartitionRollingStyle, Partition: part,
			RollingUpdate: &apps.RollingUpdateDeployment{MaxSurge: iosPtr(c.MaxSurge), MaxUnavailable: iosPtr(strp("1"))}}
		newRS := bareRS("new", c.New)
		var all []*apps.ReplicaSet
		total := c.New
		for i, o := range c.Old {
			all = append(all, bareRS(fmt.Sprintf("old-%d", i), o))
			total += o
		}
		all = append(all, newRS)
		var got int32
		var err error
		if p, msg := vlib.Guard(func() { got, err = deploymentutil.NewRSNewReplicas(d, all, newRS, st) }); p {
			vlib.Fail(t, chkA, "newrs-panic", c, "NewRSNewReplicas panicked: %s", msg)
		}
		if err != nil {
			vlib.Fail(t, chkA, "newrs-error", c, "NewRSNewReplicas error: %v", err)
		}
		S := refSurge(c.MaxSurge, strp("1"), c.Replicas)
		r := int(got)
		if total == c.New { // no other pod exists
			if r != c.Replicas {
				vlib.Fail(t, chkA, "newrs-sole-rs-not-full-size", c, "no old pods: new RS target %d, want spec.replicas %d", r, c.Replicas)
			}
			return
		}
		if r < c.New {
			vlib.Fail(t, chkA, "newrs-shrinks", c, "new RS target %d below its current size %d", r, c.New)
		}
		if r > c.New {
			if r > L {
				vlib.Fail(t, chkA, "newrs-above-partition", c, "new RS target %d above partition limit %d", r, L)
			}
			if r > c.Replicas {
				vlib.Fail(t, chkA, "newrs-above-replicas", c, "new RS target %d above spec.replicas %d", r, c.Replicas)
			}
			if total-c.New+r > c.Replicas+S {
				vlib.Fail(t, chkA, "newrs-exceeds-surge", c, "new RS target %d makes total %d > replicas+maxSurge %d", r, total-c.New+r, c.Replicas+S)
			}
		}
		if want := refNewRSAllowedMax(c.Replicas, L, S, c.New, total); r != want {
			vlib.Fail(t, chkA, "newrs-not-maximal", c, "new RS target %d, reference (largest admissible growth) %d [limit %d surge %d total %d]", r, want, L, S, total)
		}
	}
}

func strp(s string) *string { return &s }

func TestC17Arith(t *testing.T) {
	var rc ArithCase
	if ok, _ := vlib.LoadReplay(chkA, &rc); ok {
		runArith(t, rc)
		return
	}
	maxN, maxPct := 60, 130
	if vlib.Thorough() {
		maxN, maxPct = 400, 250
	}
	var evals, nt int64
	var samples []any
	// (a) partition limit
	odd := []string{"", "abc", "%", "1.5%", "-5%", "+5%", "050%", "100", "100 %"}
	for n := 0; n <= maxN; n++ {
		for v := -3; v <= n+3; v++ {
			runArith(t, ArithCase{Kind: "limit", Replicas: n, Partition: fmt.Sprint(v), IntType: true})
			evals++
		}
		for p := 0; p <= maxPct; p++ {
			c := ArithCase{Kind: "limit", Replicas: n, Partition: fmt.Sprintf("%d%%", p)}
			runArith(t, c)
			evals++
			if n > 1 && p > 0 && p < 100 {
				nt++
				if len(samples) < 3 && p == 34 && n%7 == 3 {
					samples = append(samples, c)
				}
			}
		}
		for _, s := range odd {
			runArith(t, ArithCase{Kind: "limit", Replicas: n, Partition: s})
			evals++
		}
	}
	vlib.Class(chkA, "limit")
	// (b) new ReplicaSet target
	nMax := 7
	if vlib.Thorough() {
		nMax = 11
	}
	surges := []*string{nil, strp("0"), strp("1"), strp("3"), strp("25%"), strp("100%")}
	for n := 0; n <= nMax; n++ {
		parts := []ArithCase{}
		for v := 0; v <= n+1; v++ {
			parts = append(parts, ArithCase{Partition: fmt.Sprint(v), IntType: true})
		}
		for _, p := range []string{"0%", "1%", "20%", "50%", "99%", "100%"} {
			parts = append(parts, ArithCase{Partition: p})
		}
		for _, pc := range parts {
			for _, ms := range surges {
				for nw := 0; nw <= n+1; nw++ {
					for o1 := 0; o1 <= n+3; o1++ {
						for o2 := 0; o2 <= 2; o2++ {
							c := ArithCase{Kind: "newrs", Replicas: n, Partition: pc.Partition, IntType: pc.IntType, MaxSurge: ms, New: nw, Old: []int{o1, o2}}
							runArith(t, c)
							evals++
							if o1+o2 > 0 && nw > 0 {
								nt++
								if len(samples) < 6 && n == 5 && nw == 2 && o1 == 4 && o2 == 1 {
									samples = append(samples, c)
								}
							}
						}
					}
				}
			}
		}
	}
	vlib.Class(chkA, "newrs")
	vlib.RecordBulk(chkA, evals, nt, true, samples)
}
