package p17

// Environment of the C17 check: the REAL advanced deployment controller
// (pkg/controller/deployment, built through the verif hooks) running against client-go's fake
// clientset. The harness plays API server defaults, ReplicaSet controller and kubelet; every
// ReplicaSet create/update issued by the controller is recorded together with a snapshot of all
// ReplicaSets at that instant.

import (
	"context"
	"encoding/json"
	"fmt"
	"io"
	"sort"
	"strconv"
	"testing"
	"time"

	apps "k8s.io/api/apps/v1"
	corev1 "k8s.io/api/core/v1"
	metav1 "k8s.io/apimachinery/pkg/apis/meta/v1"
	"k8s.io/apimachinery/pkg/runtime"
	"k8s.io/apimachinery/pkg/types"
	"k8s.io/apimachinery/pkg/util/intstr"
	"k8s.io/client-go/kubernetes/fake"
	appslisters "k8s.io/client-go/listers/apps/v1"
	k8stesting "k8s.io/client-go/testing"
	"k8s.io/client-go/tools/cache"
	"k8s.io/klog/v2"

	"github.com/openkruise/rollouts/api/v1alpha1"
	deployctrl "github.com/openkruise/rollouts/pkg/controller/deployment"
	"github.com/openkruise/rollouts/pkg/util"

	"verifharness/vlib"
)

func TestMain(m *testing.M) {
	klog.SetOutput(io.Discard)
	klog.LogToStderr(false)
	vlib.Main(m)
}

const (
	ns    = "default"
	dName = "demo"
	dUID  = types.UID("d-uid-0001")
)

var rsGVR = apps.SchemeGroupVersion.WithResource("replicasets")

// nullRecorder discards events (record.FakeRecorder blocks once its buffer is full).
type nullRecorder struct{}

func (nullRecorder) Event(runtime.Object, string, string, string)                  {}
func (nullRecorder) Eventf(runtime.Object, string, string, string, ...interface{}) {}
func (nullRecorder) AnnotatedEventf(runtime.Object, map[string]string, string, string, string, ...interface{}) {
}

// rsView is the harness' projection of one ReplicaSet.
type rsView struct {
	Name    string `json:"name"`
	Image   string `json:"image"`
	Spec    int32  `json:"spec"`
	R       int32  `json:"replicas"`
	Y       int32  `json:"ready"`
	A       int32  `json:"available"`
	Created int64  `json:"created"`
	// Desired: the desired-replicas annotation (-1 = absent). Used only to recognise the input
	// class of a listed finding, never by an oracle.
	Desired int `json:"desired"`
}

// rsWrite is one ReplicaSet create/update issued by the controller during a sync.
type rsWrite struct {
	Name   string   `json:"name"`
	Image  string   `json:"image"`
	Create bool     `json:"create,omitempty"`
	Old    int32    `json:"old"`
	New    int32    `json:"new"`
	Before []rsView `json:"before"` // all ReplicaSets immediately before this write
}

type world struct {
	kube      *fake.Clientset
	dIdx      cache.Indexer
	rsIdx     cache.Indexer
	rec       *deployctrl.ReconcileDeployment
	clock     int64
	uidSeq    int
	recording bool
	writes    []rsWrite
}

func viewOf(rs *apps.ReplicaSet) rsView {
	v := rsView{Name: rs.Name, R: rs.Status.Replicas, Y: rs.Status.ReadyReplicas, A: rs.Status.AvailableReplicas, Created: rs.CreationTimestamp.Unix()}
	if rs.Spec.Replicas != nil {
		v.Spec = *rs.Spec.Replicas
	}
	v.Desired = -1
	if a, ok := rs.Annotations["deployment.kubernetes.io/desired-replicas"]; ok {
		if x, err := strconv.Atoi(a); err == nil {
			v.Desired = x
		}
	}
	if len(rs.Spec.Template.Spec.Containers) > 0 {
		v.Image = rs.Spec.Template.Spec.Containers[0].Image
	}
	return v
}

func newWorld() *world {
	w := &world{clock: 1_700_000_000}
	w.kube = fake.NewSimpleClientset()
	w.dIdx = cache.NewIndexer(cache.MetaNamespaceKeyFunc, cache.Indexers{cache.NamespaceIndex: cache.MetaNamespaceIndexFunc})
	w.rsIdx = cache.NewIndexer(cache.MetaNamespaceKeyFunc, cache.Indexers{cache.NamespaceIndex: cache.MetaNamespaceIndexFunc})
	// API-server behaviour the fake tracker lacks (uid, creationTimestamp) + write recording.
	w.kube.PrependReactor("*", "replicasets", func(action k8stesting.Action) (bool, runtime.Object, error) {
		switch a := action.(type) {
		case k8stesting.CreateActionImpl:
			rs, ok := a.GetObject().(*apps.ReplicaSet)
			if !ok || a.GetSubresource() != "" {
				return false, nil, nil
			}
			if rs.UID == "" {
				w.uidSeq++
				rs.UID = types.UID(fmt.Sprintf("rs-uid-%04d", w.uidSeq))
			}
			if rs.CreationTimestamp.IsZero() {
				w.clock += 10
				rs.CreationTimestamp = metav1.NewTime(time.Unix(w.clock, 0))
			}
			rs.Generation = 1
			if w.recording {
				if _, err := w.kube.Tracker().Get(rsGVR, a.GetNamespace(), rs.Name); err != nil { // not AlreadyExists
					nv := viewOf(rs)
					w.writes = append(w.writes, rsWrite{Name: rs.Name, Image: nv.Image, Create: true, Old: 0, New: nv.Spec, Before: w.snapshotTracker()})
				}
			}
		case k8stesting.UpdateActionImpl:
			rs, ok := a.GetObject().(*apps.ReplicaSet)
			if !ok {
				return false, nil, nil
			}
			if w.recording {
				cur, err := w.kube.Tracker().Get(rsGVR, a.GetNamespace(), rs.Name)
				if err == nil {
					ov, nv := viewOf(cur.(*apps.ReplicaSet)), viewOf(rs)
					w.writes = append(w.writes, rsWrite{Name: rs.Name, Image: nv.Image, Old: ov.Spec, New: nv.Spec, Before: w.snapshotTracker()})
				}
			}
		}
		return false, nil, nil
	})
	w.rec = deployctrl.NewReconcilerForVerif(nil, w.kube, appslisters.NewDeploymentLister(w.dIdx), appslisters.NewReplicaSetLister(w.rsIdx), nullRecorder{})
	return w
}

// snapshotTracker reads all ReplicaSets straight from the object tracker (usable inside a
// reactor, where the clientset itself is locked). Sorted by (created, name).
func (w *world) snapshotTracker() []rsView {
	obj, err := w.kube.Tracker().List(rsGVR, apps.SchemeGroupVersion.WithKind("ReplicaSet"), ns)
	if err != nil {
		return nil
	}
	l, ok := obj.(*apps.ReplicaSetList)
	if !ok {
		return nil
	}
	out := make([]rsView, 0, len(l.Items))
	for i := range l.Items {
		out = append(out, viewOf(&l.Items[i]))
	}
	sortViews(out)
	return out
}

func sortViews(v []rsView) {
	sort.Slice(v, func(i, j int) bool {
		if v[i].Created != v[j].Created {
			return v[i].Created < v[j].Created
		}
		return v[i].Name < v[j].Name
	})
}

func (w *world) listRS() []*apps.ReplicaSet {
	l, err := w.kube.AppsV1().ReplicaSets(ns).List(context.TODO(), metav1.ListOptions{})
	if err != nil {
		panic(err)
	}
	out := make([]*apps.ReplicaSet, 0, len(l.Items))
	for i := range l.Items {
		out = append(out, &l.Items[i])
	}
	sort.Slice(out, func(i, j int) bool {
		if !out[i].CreationTimestamp.Equal(&out[j].CreationTimestamp) {
			return out[i].CreationTimestamp.Before(&out[j].CreationTimestamp)
		}
		return out[i].Name < out[j].Name
	})
	return out
}

func (w *world) views() []rsView {
	var out []rsView
	for _, rs := range w.listRS() {
		out = append(out, viewOf(rs))
	}
	return out
}

func (w *world) getD() *apps.Deployment {
	d, err := w.kube.AppsV1().Deployments(ns).Get(context.TODO(), dName, metav1.GetOptions{})
	if err != nil {
		panic(err)
	}
	return d
}

func (w *world) updateD(d *apps.Deployment, specChanged bool) {
	if specChanged {
		d.Generation++
	}
	if _, err := w.kube.AppsV1().Deployments(ns).Update(context.TODO(), d, metav1.UpdateOptions{}); err != nil {
		panic(err)
	}
}

func (w *world) rsByImage(image string) *apps.ReplicaSet {
	for _, rs := range w.listRS() {
		if viewOf(rs).Image == image {
			return rs
		}
	}
	return nil
}

// setRSStatus is the harness acting as ReplicaSet controller / kubelet.
func (w *world) setRSStatus(rs *apps.ReplicaSet, r, y, a int32) {
	rs.Status.Replicas, rs.Status.ReadyReplicas, rs.Status.AvailableReplicas = r, y, a
	rs.Status.FullyLabeledReplicas = r
	rs.Status.ObservedGeneration = rs.Generation
	if _, err := w.kube.AppsV1().ReplicaSets(ns).Update(context.TODO(), rs, metav1.UpdateOptions{}); err != nil {
		panic(err)
	}
}

// refreshListers makes the controller's informer caches equal to the store.
func (w *world) refreshListers() {
	d := w.getD()
	_ = w.dIdx.Replace([]interface{}{d}, "")
	rss := w.listRS()
	items := make([]interface{}, 0, len(rss))
	for _, rs := range rss {
		items = append(items, rs)
	}
	_ = w.rsIdx.Replace(items, "")
}

// sync runs one real syncDeployment on fresh caches; returns the recorded ReplicaSet writes.
func (w *world) sync() (controlled bool, writes []rsWrite, err error, panicMsg string) {
	w.refreshListers()
	d := w.getD()
	w.writes = nil
	w.recording = true
	p, msg := vlib.Guard(func() { controlled, err = w.rec.SyncForVerif(context.TODO(), d) })
	w.recording = false
	w.kube.ClearActions()
	if p {
		panicMsg = msg
	}
	return controlled, w.writes, err, panicMsg
}

// ---- object builders -------------------------------------------------------------------------

func podTemplate(image string) corev1.PodTemplateSpec {
	return corev1.PodTemplateSpec{
		ObjectMeta: metav1.ObjectMeta{Labels: map[string]string{"app": dName}},
		Spec: corev1.PodSpec{
			Containers:                    []corev1.Container{{Name: "main", Image: image, ImagePullPolicy: corev1.PullIfNotPresent, TerminationMessagePath: "/dev/termination-log", TerminationMessagePolicy: corev1.TerminationMessageReadFile}},
			RestartPolicy:                 corev1.RestartPolicyAlways,
			DNSPolicy:                     corev1.DNSClusterFirst,
			SchedulerName:                 "default-scheduler",
			SecurityContext:               &corev1.PodSecurityContext{},
			TerminationGracePeriodSeconds: int64p(30),
		},
	}
}

func int64p(v int64) *int64 { return &v }
func int32p(v int32) *int32 { return &v }

func strategyJSON(s v1alpha1.DeploymentStrategy) string {
	b, _ := json.Marshal(&s)
	return string(b)
}

// newDeployment builds the Deployment as the API server stores it once a partition-style
// BatchRelease has taken control (BatchRelease Initialize + workload webhook): paused, Recreate,
// control-info annotation, advanced-controller label, strategy annotation.
func newDeployment(n int32, image string, s v1alpha1.DeploymentStrategy) *apps.Deployment {
	ctrlRef := `{"apiVersion":"rollouts.kruise.io/v1beta1","kind":"BatchRelease","name":"demo","uid":"br-uid-0001","controller":true,"blockOwnerDeletion":true}`
	return &apps.Deployment{
		ObjectMeta: metav1.ObjectMeta{
			Name: dName, Namespace: ns, UID: dUID, Generation: 1,
			CreationTimestamp: metav1.NewTime(time.Unix(1_600_000_000, 0)),
			Labels:            map[string]string{"app": dName, v1alpha1.AdvancedDeploymentControlLabel: "true"},
			Annotations: map[string]string{
				util.BatchReleaseControlAnnotation:    ctrlRef,
				v1alpha1.DeploymentStrategyAnnotation: strategyJSON(s),
				"deployment.kubernetes.io/revision":   "1",
			},
		},
		Spec: apps.DeploymentSpec{
			Replicas:                int32p(n),
			Selector:                &metav1.LabelSelector{MatchLabels: map[string]string{"app": dName}},
			Template:                podTemplate(image),
			Strategy:                apps.DeploymentStrategy{Type: apps.RecreateDeploymentStrategyType},
			Paused:                  true,
			RevisionHistoryLimit:    int32p(10),
			ProgressDeadlineSeconds: int32p(600),
		},
	}
}

// stableRS builds the ReplicaSet the native controller left behind: full size, all pods
// available, desired/max-replicas annotations as the native controller writes them.
func (w *world) stableRS(d *apps.Deployment, image string, n, maxReplicas int32) *apps.ReplicaSet {
	tpl := podTemplate(image)
	hash := "stable" + image
	tpl.Labels[apps.DefaultDeploymentUniqueLabelKey] = hash
	return &apps.ReplicaSet{
		ObjectMeta: metav1.ObjectMeta{
			Name: dName + "-" + hash, Namespace: ns,
			Labels:          map[string]string{"app": dName, apps.DefaultDeploymentUniqueLabelKey: hash},
			OwnerReferences: []metav1.OwnerReference{*metav1.NewControllerRef(d, apps.SchemeGroupVersion.WithKind("Deployment"))},
			Annotations: map[string]string{
				"deployment.kubernetes.io/revision":         "1",
				"deployment.kubernetes.io/desired-replicas": fmt.Sprint(n),
				"deployment.kubernetes.io/max-replicas":     fmt.Sprint(maxReplicas),
			},
		},
		Spec: apps.ReplicaSetSpec{
			Replicas: int32p(n),
			Selector: &metav1.LabelSelector{MatchLabels: map[string]string{"app": dName, apps.DefaultDeploymentUniqueLabelKey: hash}},
			Template: tpl,
		},
		Status: apps.ReplicaSetStatus{Replicas: n, FullyLabeledReplicas: n, ReadyReplicas: n, AvailableReplicas: n, ObservedGeneration: 1},
	}
}

func parseIOS(s string) intstr.IntOrString { return intstr.Parse(s) }

func iosPtr(s *string) *intstr.IntOrString {
	if s == nil {
		return nil
	}
	v := intstr.Parse(*s)
	return &v
}

func ctx() context.Context { return context.TODO() }

var createOpts = metav1.CreateOptions{}
