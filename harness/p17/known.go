package p17

// knownOpen lists confirmed, still-open findings of C17 by signature. While an entry is true the
// generator marks the case as "excused" for exactly that finding's input class (counted with
// vlib.Excluded) so that the search continues behind it; the finding's own replay file in
// findings/ was written with the entry switched off and therefore still fails.
var knownOpen = map[string]bool{
	sigCreate:      true,
	sigPausedAvail: true,
}
