package p17

// Failure signatures of listed findings (stable identifiers, see findings/<sig>.json).
const (
	// the new ReplicaSet is created with 1 replica although neither partition nor surge admits a pod
	sigCreate = "new-rs-created-beyond-partition-or-surge"
	// a paused Deployment whose ReplicaSets do not sum to spec.replicas is rebalanced at once,
	// regardless of partition and availability
	sigPaused = "paused-rebalance-ignores-partition-or-availability"
	// the only active ReplicaSet is an old one that already has spec.replicas pods but a stale
	// desired-replicas annotation: every sync is a "scaling event", the rollout never starts
	sigStuck = "no-convergence-stale-desired-replicas"
)

// knownOpen lists confirmed, still-open findings of C17 by signature. While an entry is true the
// generator marks the case as "excused" for exactly that finding's input class (counted with
// vlib.Excluded) so that the search continues behind it; the finding's own replay file in
// findings/ was written with the entry switched off and therefore still fails.
var knownOpen = map[string]bool{
	sigCreate: true,
	sigPaused: true,
	sigStuck:  true,
}
