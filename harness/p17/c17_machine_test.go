package p17

// c17-deployment-machine: rapid state machine around the real advanced deployment controller.
//
// Oracles (property C17), evaluated on every ReplicaSet spec.replicas write the controller
// issues while no scale event is in flight:
//   O1  a write that grows the new RS never takes it above refPartitionLimit(partition, replicas)
//   O2  a write that shrinks an old RS never leaves sum(old) < replicas - max(limit, new)
//   O3  a write that grows the new RS never makes sum(all) > replicas + maxSurge
//   O4  a write that shrinks an old RS and thereby removes available pods never leaves fewer
//       than replicas - maxUnavailable pods available (availability at that instant; an RS
//       scaled to v keeps min(available, v) available pods: not-ready pods are deleted first)
//   O5  no panic; from any reached state, partition covering all replicas + fair environment
//       => new RS == replicas and every old RS == 0 within a bound.

import (
	"fmt"
	"os"
	"sort"
	"strings"
	"testing"

	apps "k8s.io/api/apps/v1"
	"pgregory.net/rapid"

	"github.com/openkruise/rollouts/api/v1alpha1"

	"verifharness/vlib"
)

const chkM = "c17-deployment-machine"

var debug = os.Getenv("VERIF_C17_DEBUG") != ""

type Action struct {
	K  string  `json:"k"`
	RS string  `json:"rs,omitempty"` // image of the ReplicaSet acted on / new template image
	P  string  `json:"p,omitempty"`  // progress kind (pod|ready|avail) or partition value
	N  int     `json:"n,omitempty"`  // count or replicas
	B  bool    `json:"b,omitempty"`
	S  *string `json:"s,omitempty"` // maxSurge (rolling)
	U  *string `json:"u,omitempty"` // maxUnavailable (rolling)
}

type Case struct {
	Replicas       int      `json:"replicas"`
	Partition      string   `json:"partition"`
	MaxSurge       *string  `json:"maxSurge"`
	MaxUnavailable *string  `json:"maxUnavailable"`
	Paused         bool     `json:"paused"`
	Image          string   `json:"image"` // deployment template when the controller takes over (v1 = no rollout yet)
	Lag            bool     `json:"lag"`   // ReplicaSet status may lag behind a scale-down (ready/available > spec)
	Actions        []Action `json:"actions"`
	Converge       string   `json:"converge,omitempty"` // "" or the all-covering partition used for the convergence phase
	Excused        []string `json:"excused,omitempty"`  // listed known findings whose input class is not asserted in this case
}

type machine struct {
	t vlib.TB
	c *Case
	w *world

	// model of the user-visible Deployment knobs (the store holds the same, encoded)
	n         int
	partition string
	ms, mu    *string
	paused    bool
	image     string
	inFlight  bool // a scale event has not been distributed by a sync yet
	// tplChanged: the pod template changed since the strategy was last (re)initialised. Only then
	// does a new BatchRelease re-initialise the strategy (partition back to 0): the property
	// quantifies over partition raises, so a lowering is generated only in that real flow.
	tplChanged bool

	excused map[string]bool
	cls     map[string]bool
	nt      bool
	trace   []string
	syncs   int
}

func sp(s *string) string {
	if s == nil {
		return "<nil>"
	}
	return *s
}

func (m *machine) strategy() v1alpha1.DeploymentStrategy {
	return v1alpha1.DeploymentStrategy{
		RollingStyle:  v1alpha1.PartitionRollingStyle,
		RollingUpdate: &apps.RollingUpdateDeployment{MaxSurge: iosPtr(m.ms), MaxUnavailable: iosPtr(m.mu)},
		Paused:        m.paused,
		Partition:     parseIOS(m.partition),
	}
}

func (m *machine) limit() int { return refPartitionLimit(m.partition, m.n) }
func (m *machine) surge() int { return refSurge(m.ms, m.mu, m.n) }
func (m *machine) unav() int  { return refUnavailable(m.ms, m.mu, m.n) }

func newMachine(t vlib.TB, c *Case) *machine {
	m := &machine{t: t, c: c, w: newWorld(), n: c.Replicas, partition: c.Partition, ms: c.MaxSurge, mu: c.MaxUnavailable,
		paused: c.Paused, image: c.Image, excused: map[string]bool{}, cls: map[string]bool{}}
	for _, s := range c.Excused {
		m.excused[s] = true
	}
	d := newDeployment(int32(c.Replicas), c.Image, m.strategy())
	if _, err := m.w.kube.AppsV1().Deployments(ns).Create(ctx(), d, createOpts); err != nil {
		panic(err)
	}
	// "one ReplicaSet, all available": what the native controller left behind.
	rs := m.w.stableRS(d, "v1", int32(c.Replicas), int32(c.Replicas+m.surge()))
	if _, err := m.w.kube.AppsV1().ReplicaSets(ns).Create(ctx(), rs, createOpts); err != nil {
		panic(err)
	}
	return m
}

func (m *machine) writeStrategy() {
	d := m.w.getD()
	d.Annotations[v1alpha1.DeploymentStrategyAnnotation] = strategyJSON(m.strategy())
	m.w.updateD(d, false)
}

func (m *machine) describe() string {
	return fmt.Sprintf("replicas=%d partition=%s(limit %d) maxSurge=%s(%d) maxUnavailable=%s(%d) paused=%v template=%s inFlight=%v",
		m.n, m.partition, m.limit(), sp(m.ms), m.surge(), sp(m.mu), m.unav(), m.paused, m.image, m.inFlight)
}

func fmtViews(vs []rsView) string {
	var b []string
	for _, v := range vs {
		b = append(b, fmt.Sprintf("%s[spec=%d pods=%d ready=%d avail=%d]", v.Image, v.Spec, v.R, v.Y, v.A))
	}
	return strings.Join(b, " ")
}

// ---- known-finding input classes ---------------------------------------------------------------

// inCreateLowerBoundClass: the next sync will create the new ReplicaSet although neither the
// partition nor the surge head-room admits a single new pod, and maxSurge resolves to 0 (the
// controller then forces the new ReplicaSet to 1 replica).
func (m *machine) inCreateLowerBoundClass(vs []rsView) bool {
	if m.paused || m.inFlight || m.n == 0 || m.surge() != 0 {
		return false
	}
	total := 0
	for _, v := range vs {
		if v.Image == m.image {
			return false
		}
		total += int(v.Spec)
	}
	return total > 0 && refNewRSAllowedMax(m.n, m.limit(), m.surge(), 0, total) == 0
}

// inPausedRebalanceClass: a paused Deployment (no scale event pending) whose ReplicaSets do not
// hold exactly spec.replicas pods in total (surge pods, or pods already taken down, of an
// interrupted rollout) while at least two of them are active: the controller's scale() then
// moves the total to spec.replicas at once, looking neither at the partition nor at availability.
func (m *machine) inPausedRebalanceClass(vs []rsView) bool {
	if !m.paused || m.inFlight {
		return false
	}
	total, active := 0, 0
	for _, v := range vs {
		total += int(v.Spec)
		if v.Spec > 0 {
			active++
		}
	}
	return active >= 2 && total != m.n
}

// staleStampStuck: exactly one ReplicaSet is active, it is an old one, it already has the size the
// Deployment asks for, but it was last written for a different Deployment size. (The controller
// then sees a "scaling event" on every sync, finds nothing to scale and never rolls.)
func staleStampStuck(vs []rsView, n int, image string) bool {
	var act []rsView
	for _, v := range vs {
		if v.Spec > 0 {
			act = append(act, v)
		}
	}
	if len(act) != 1 || act[0].Image == image || int(act[0].Spec) != n {
		return false
	}
	return act[0].Desired >= 0 && act[0].Desired != n
}

// ---- actions -----------------------------------------------------------------------------------

func (m *machine) apply(a Action) {
	switch a.K {
	case "sync":
		m.doSync()
	case "progress":
		rs := m.w.rsByImage(a.RS)
		if rs == nil {
			return
		}
		v := viewOf(rs)
		for i := 0; i < a.N; i++ {
			switch a.P {
			case "pod":
				switch {
				case v.R < v.Spec:
					v.R++
				case v.R > v.Spec: // delete one pod: not-ready first, then ready-but-unavailable, then available
					switch {
					case v.R > v.Y:
					case v.Y > v.A:
						v.Y--
					default:
						v.Y--
						v.A--
					}
					v.R--
				}
			case "ready":
				if v.Y < v.R {
					v.Y++
				}
			case "avail":
				if v.A < v.Y {
					v.A++
				}
			}
		}
		if !m.c.Lag {
			v = capView(v)
		}
		m.w.setRSStatus(rs, v.R, v.Y, v.A)
	case "flap":
		rs := m.w.rsByImage(a.RS)
		if rs == nil {
			return
		}
		v := viewOf(rs)
		for i := 0; i < a.N && v.A > 0; i++ {
			v.A--
			if a.B {
				v.Y--
			}
		}
		m.w.setRSStatus(rs, v.R, v.Y, v.A)
	case "settle":
		if rs := m.w.rsByImage(a.RS); rs != nil {
			s := *rs.Spec.Replicas
			m.w.setRSStatus(rs, s, s, s)
		}
	case "settleAll":
		m.settleAll()
	case "partition":
		m.partition = a.P
		m.writeStrategy()
	case "scale":
		if a.N != m.n {
			m.inFlight = true
		}
		m.n = a.N
		d := m.w.getD()
		d.Spec.Replicas = int32p(int32(a.N))
		m.w.updateD(d, true)
	case "template":
		m.image = a.RS
		m.tplChanged = true
		if a.B { // the workload webhook pauses the strategy when the revision changes mid-rollout
			m.paused = true
		}
		d := m.w.getD()
		d.Spec.Template = podTemplate(a.RS)
		d.Annotations[v1alpha1.DeploymentStrategyAnnotation] = strategyJSON(m.strategy())
		m.w.updateD(d, true)
	case "pause":
		m.paused = a.B
		m.writeStrategy()
	case "reset": // BatchRelease Initialize: fresh strategy, partition 0, not paused
		m.paused = false
		m.partition = "0"
		m.tplChanged = false
		m.writeStrategy()
	case "rolling":
		m.ms, m.mu = a.S, a.U
		m.writeStrategy()
	}
}

func capView(v rsView) rsView {
	if v.Y > v.Spec {
		v.Y = v.Spec
	}
	if v.Y > v.R {
		v.Y = v.R
	}
	if v.A > v.Y {
		v.A = v.Y
	}
	return v
}

func (m *machine) settleAll() {
	for _, rs := range m.w.listRS() {
		s := *rs.Spec.Replicas
		if rs.Status.Replicas != s || rs.Status.ReadyReplicas != s || rs.Status.AvailableReplicas != s {
			m.w.setRSStatus(rs, s, s, s)
		}
	}
}

func (m *machine) fail(sig, format string, args ...any) {
	vlib.Fail(m.t, chkM, sig, m.c, "%s\n  state: %s\n  trace: %s", fmt.Sprintf(format, args...), m.describe(), strings.Join(lastN(m.trace, 14), " | "))
}

func lastN(s []string, n int) []string {
	if len(s) > n {
		return s[len(s)-n:]
	}
	return s
}

func (m *machine) doSync() {
	m.syncs++
	before := m.w.views()
	if debug {
		defer func() {
			fmt.Printf("DEBUG sync#%d [%s]\n   before: %s\n   after:  %s\n   trace: %s\n", m.syncs, m.describe(), fmtViews(before), fmtViews(m.w.views()), strings.Join(lastN(m.trace, 4), " | "))
		}()
	}
	wasInFlight := m.inFlight
	staleAtStart := false
	oldActive, oldUnhealthy, newActive := 0, false, false
	for _, v := range before {
		if v.A > v.Spec {
			staleAtStart = true
		}
		if v.Spec > 0 && v.Image != m.image {
			oldActive++
			if v.A < v.Spec {
				oldUnhealthy = true
			}
		}
		if v.Spec > 0 && v.Image == m.image {
			newActive = true
		}
	}
	if !m.paused && !wasInFlight {
		if oldActive >= 2 {
			m.cls["sync-rolling-two-old-active"] = true
		}
		if oldActive >= 1 && newActive {
			m.cls["sync-rolling-old-and-new-active"] = true
			if oldUnhealthy {
				m.cls["sync-rolling-old-unhealthy"] = true
			}
		}
	}
	excuseCreate := m.excused[sigCreate] && m.inCreateLowerBoundClass(before)
	excusePaused := m.inPausedRebalanceClass(before)
	if m.paused {
		m.cls["sync-paused"] = true
	}
	if wasInFlight {
		m.cls["sync-scale-in-flight"] = true
	}
	if staleAtStart {
		m.cls["sync-stale-status"] = true
	}
	controlled, writes, err, pmsg := m.w.sync()
	if pmsg != "" {
		m.fail("sync-panic", "syncDeployment panicked (before: %s): %s", fmtViews(before), pmsg)
	}
	if !controlled {
		m.fail("harness-not-under-control", "controller factory refused the Deployment (harness error)")
	}
	if err != nil {
		m.cls["sync-error"] = true
		vlib.Note(chkM, "sync error: "+err.Error())
	} else {
		m.inFlight = false
	}
	m.checkWrites(writes, wasInFlight, staleAtStart, excuseCreate, excusePaused)
	if !m.c.Lag { // the ReplicaSet controller stops counting doomed pods at once
		for _, rs := range m.w.listRS() {
			v := viewOf(rs)
			if c := capView(v); c != v {
				m.w.setRSStatus(rs, c.R, c.Y, c.A)
			}
		}
	}
}

func (m *machine) checkWrites(writes []rsWrite, wasInFlight, stale, excuseCreate, inPausedClass bool) {
	n, L, S, U := m.n, m.limit(), m.surge(), m.unav()
	pfx := ""
	if m.paused {
		pfx = "paused-"
	}
	if len(writes) == 0 {
		m.trace = append(m.trace, "sync:-")
	}
	for _, wr := range writes {
		if wr.New == wr.Old {
			continue // annotation-only update
		}
		isNew := wr.Image == m.image
		curNew, oldSum, total := 0, 0, 0
		availBefore, availAfter := 0, 0
		for _, v := range wr.Before {
			spec := int(v.Spec)
			after := spec
			if v.Name == wr.Name {
				after = int(wr.New)
			}
			if v.Image == m.image {
				curNew = spec
			} else {
				oldSum += spec
			}
			total += spec
			availBefore += min(int(v.A), spec)
			availAfter += min(int(v.A), after)
		}
		d := int(wr.New) - int(wr.Old)
		totalAfter := total + d
		oldSumAfter := oldSum
		if !isNew {
			oldSumAfter += d
		}
		m.trace = append(m.trace, fmt.Sprintf("sync:%s %d->%d", wr.Image, wr.Old, wr.New))
		if (oldSum > 0 || oldSumAfter > 0) && (curNew > 0 || (isNew && wr.New > 0)) {
			m.nt = true
		}
		kind := "old"
		if isNew {
			kind = "new"
		}
		dir := "up"
		if d < 0 {
			dir = "down"
		}
		m.cls["write-"+kind+"-"+dir] = true
		if wr.Create {
			m.cls["write-create-new"] = true
		}
		if !isNew && d < 0 && availAfter == availBefore {
			m.cls["write-old-down-unhealthy-only"] = true
		}
		if wasInFlight {
			m.cls["write-during-scale"] = true
			continue
		}
		ctxs := fmt.Sprintf("write %s %d->%d (create=%v); ReplicaSets before: %s", wr.Image, wr.Old, wr.New, wr.Create, fmtViews(wr.Before))
		// violated reports a broken inequality; inside the paused-rebalance input class all four
		// inequalities share one signature (one root cause, one listed finding).
		violated := func(sig, format string, args ...any) {
			if inPausedClass {
				if m.excused[sigPaused] {
					vlib.Excluded(chkM, sigPaused)
					m.cls["excused-paused-rebalance"] = true
					return
				}
				m.fail(sigPaused, "["+sig+"] "+format+"; "+ctxs, args...)
			}
			m.fail(pfx+sig, format+"; "+ctxs, args...)
		}
		switch {
		case isNew && d > 0 && wr.Create:
			if (int(wr.New) > L && oldSum > 0) || totalAfter > n+S { // oldSum == 0: see below
				if excuseCreate && wr.New == 1 {
					vlib.Excluded(chkM, sigCreate)
					m.cls["excused-create-lower-bound"] = true
					continue
				}
				m.fail(sigCreate, "new ReplicaSet created with %d replicas: partition allows %d, replicas+maxSurge=%d, total after=%d; %s", wr.New, L, n+S, totalAfter, ctxs)
			}
		case isNew && d > 0:
			// With no old-revision pod left there is nothing the partition could keep back (missing
			// pods can only be created from the current template); that state is reachable only
			// through a partition lowering, which the property does not quantify over.
			if int(wr.New) > L && oldSum > 0 {
				violated("new-rs-above-partition", "new ReplicaSet grown to %d but the partition allows %d", wr.New, L)
			}
			if totalAfter > n+S {
				violated("new-rs-scale-up-exceeds-surge", "new ReplicaSet grown to %d: total %d > replicas+maxSurge=%d", wr.New, totalAfter, n+S)
			}
		case !isNew && d < 0:
			if reserve := n - max(L, curNew); oldSumAfter < reserve {
				violated("old-rs-below-partition-reserve", "old ReplicaSets shrunk to %d in total but the partition reserves %d for them (new=%d)", oldSumAfter, reserve, curNew)
			}
			if !stale && availAfter < availBefore && availAfter < n-U {
				violated("old-scale-down-breaks-min-available", "scale-down removes available old pods: %d -> %d available, minimum is replicas-maxUnavailable=%d", availBefore, availAfter, n-U)
			}
		}
	}
}

// converge: O5. Partition covering all replicas, not paused, fair environment.
func (m *machine) converge() {
	m.apply(Action{K: "partition", P: m.c.Converge})
	if m.paused {
		m.apply(Action{K: "pause", B: false})
	}
	if !partitionCoversAll(m.partition, m.n) {
		m.fail("harness-converge-partition", "converge partition %q does not cover %d replicas", m.partition, m.n)
	}
	bound := 4*m.n + 12
	done := func() (bool, []rsView) {
		vs := m.w.views()
		okNew := m.n == 0
		for _, v := range vs {
			if v.Image == m.image {
				okNew = int(v.Spec) == m.n && int(v.A) == m.n
			} else if v.Spec != 0 {
				return false, vs
			}
		}
		return okNew, vs
	}
	for i := 0; i < bound; i++ {
		m.doSync()
		m.settleAll()
		if ok, _ := done(); ok {
			m.cls["converged"] = true
			return
		}
	}
	_, vs := done()
	if staleStampStuck(vs, m.n, m.image) {
		m.fail(sigStuck, "partition %s covers all %d replicas but the controller never rolls: the only active ReplicaSet is an old one whose size already equals spec.replicas while it was last written for a Deployment of %d replicas, so every sync is taken for a scaling event with nothing to scale; after %d sync+settle rounds: %s", m.partition, m.n, activeDesired(vs), bound, fmtViews(vs))
	}
	m.fail("no-convergence", "partition %s covers all %d replicas but after %d sync+settle rounds: %s", m.partition, m.n, bound, fmtViews(vs))
}

func activeDesired(vs []rsView) int {
	for _, v := range vs {
		if v.Spec > 0 {
			return v.Desired
		}
	}
	return -1
}

// ---- generation ----------------------------------------------------------------------------------

var (
	partitionMenu = []string{"0", "1", "2", "3", "4", "5", "6", "8", "10", "12", "14", "0%", "1%", "10%", "20%", "25%", "34%", "50%", "75%", "90%", "99%", "100%"}
	surgeMenu     = []string{"", "0", "0", "1", "1", "2", "3", "6", "0%", "10%", "25%", "50%", "100%"}
	unavailMenu   = []string{"0", "1", "1", "2", "3", "6", "0%", "10%", "25%", "50%", "100%"}
	images        = []string{"v1", "v2", "v3"}
)

// drawRolling draws maxSurge/maxUnavailable and passes them through the real defaulting the
// webhook / BatchRelease apply before the annotation is written.
func drawRolling(t *rapid.T) (*string, *string) {
	s := v1alpha1.DeploymentStrategy{RollingStyle: v1alpha1.PartitionRollingStyle, RollingUpdate: &apps.RollingUpdateDeployment{}}
	if x := rapid.SampledFrom(surgeMenu).Draw(t, "maxSurge"); x != "" {
		s.RollingUpdate.MaxSurge = iosPtr(&x)
	}
	x := rapid.SampledFrom(unavailMenu).Draw(t, "maxUnavailable")
	s.RollingUpdate.MaxUnavailable = iosPtr(&x)
	v1alpha1.SetDefaultDeploymentStrategy(&s)
	var ms, mu *string
	if p := s.RollingUpdate.MaxSurge; p != nil {
		v := p.String()
		ms = &v
	}
	if p := s.RollingUpdate.MaxUnavailable; p != nil {
		v := p.String()
		mu = &v
	}
	return ms, mu
}

func genCase(t *rapid.T) *Case {
	c := &Case{}
	c.Replicas = rapid.OneOf(rapid.IntRange(0, 12), rapid.IntRange(3, 10)).Draw(t, "replicas")
	c.Partition = rapid.SampledFrom(partitionMenu).Draw(t, "partition")
	c.MaxSurge, c.MaxUnavailable = drawRolling(t)
	c.Paused = rapid.IntRange(0, 9).Draw(t, "paused") == 0
	c.Image = "v2"
	if rapid.IntRange(0, 4).Draw(t, "no-rollout-yet") == 0 {
		c.Image = "v1"
	}
	c.Lag = rapid.IntRange(0, 3).Draw(t, "lag") == 0
	switch rapid.IntRange(0, 4).Draw(t, "converge") {
	case 0, 1:
		c.Converge = "100%"
	case 2:
		c.Converge = "12"
	}
	for s, open := range knownOpen {
		if open {
			c.Excused = append(c.Excused, s)
		}
	}
	sort.Strings(c.Excused)
	return c
}

func (m *machine) pickRS(t *rapid.T, pred func(rsView) bool) rsView {
	var cand []rsView
	for _, v := range m.w.views() {
		if pred == nil || pred(v) {
			cand = append(cand, v)
		}
	}
	if len(cand) == 0 {
		t.Skip("no applicable ReplicaSet")
	}
	return cand[rapid.IntRange(0, len(cand)-1).Draw(t, "rs")]
}

func (m *machine) do(a Action) {
	m.c.Actions = append(m.c.Actions, a)
	if a.K != "sync" {
		m.trace = append(m.trace, shortAction(a))
	}
	m.apply(a)
}

func shortAction(a Action) string {
	switch a.K {
	case "progress":
		return fmt.Sprintf("progress(%s,%s,%d)", a.RS, a.P, a.N)
	case "flap":
		return fmt.Sprintf("flap(%s,%d,%v)", a.RS, a.N, a.B)
	case "settle", "template":
		return fmt.Sprintf("%s(%s,%v)", a.K, a.RS, a.B)
	case "partition":
		return "partition(" + a.P + ")"
	case "scale":
		return fmt.Sprintf("scale(%d)", a.N)
	case "pause":
		return fmt.Sprintf("pause(%v)", a.B)
	case "rolling":
		return fmt.Sprintf("rolling(%s,%s)", sp(a.S), sp(a.U))
	}
	return a.K
}

func (m *machine) actions() map[string]func(*rapid.T) {
	sync := func(t *rapid.T) { m.do(Action{K: "sync"}) }
	progress := func(t *rapid.T) {
		v := m.pickRS(t, func(v rsView) bool { return v.R != v.Spec || v.Y < v.R || v.A < v.Y })
		var kinds []string
		if v.R != v.Spec {
			kinds = append(kinds, "pod")
		}
		if v.Y < v.R {
			kinds = append(kinds, "ready")
		}
		if v.A < v.Y {
			kinds = append(kinds, "avail")
		}
		m.do(Action{K: "progress", RS: v.Image, P: rapid.SampledFrom(kinds).Draw(t, "kind"), N: rapid.IntRange(1, 4).Draw(t, "count")})
	}
	settle := func(t *rapid.T) {
		v := m.pickRS(t, func(v rsView) bool { return v.R != v.Spec || v.Y != v.Spec || v.A != v.Spec })
		m.do(Action{K: "settle", RS: v.Image})
	}
	return map[string]func(*rapid.T){
		"sync1": sync, "sync2": sync, "sync3": sync, "sync4": sync, "sync5": sync, "sync6": sync,
		"progress1": progress, "progress2": progress, "progress3": progress,
		"settle1": settle, "settle2": settle,
		"settleAll": func(t *rapid.T) { m.do(Action{K: "settleAll"}) },
		"flap1":     m.genFlap, "flap2": m.genFlap,
		"partition1": m.genRaise, "partition2": m.genRaise,
		"scale": func(t *rapid.T) {
			n := rapid.IntRange(0, 12).Draw(t, "replicas")
			if n == m.n {
				t.Skip("same size")
			}
			if m.excused[sigStuck] && staleStampStuck(m.w.views(), n, m.image) {
				vlib.Excluded(chkM, sigStuck)
				t.Skip("steered away from listed finding " + sigStuck)
			}
			m.cls["scale"] = true
			m.do(Action{K: "scale", N: n})
		},
		"template": func(t *rapid.T) {
			var cand []string
			for _, im := range images {
				if im != m.image {
					cand = append(cand, im)
				}
			}
			im := rapid.SampledFrom(cand).Draw(t, "image")
			if m.excused[sigStuck] && staleStampStuck(m.w.views(), m.n, im) {
				vlib.Excluded(chkM, sigStuck)
				t.Skip("steered away from listed finding " + sigStuck)
			}
			if m.w.rsByImage(im) != nil {
				m.cls["template-rollback"] = true
			} else {
				m.cls["template-new-revision"] = true
			}
			m.do(Action{K: "template", RS: im, B: rapid.Bool().Draw(t, "webhook-pauses")})
		},
		"pause": func(t *rapid.T) { m.do(Action{K: "pause", B: !m.paused}) },
		"reset": func(t *rapid.T) {
			if !m.tplChanged {
				t.Skip("a release is re-initialised only after a revision change")
			}
			m.cls["reset-after-revision-change"] = true
			m.do(Action{K: "reset"})
		},
		"rolling": func(t *rapid.T) {
			ms, mu := drawRolling(t)
			m.do(Action{K: "rolling", S: ms, U: mu})
		},
	}
}

func (m *machine) genFlap(t *rapid.T) {
	v := m.pickRS(t, func(v rsView) bool { return v.A > 0 })
	m.cls["flap"] = true
	m.do(Action{K: "flap", RS: v.Image, N: rapid.IntRange(1, 3).Draw(t, "count"), B: rapid.Bool().Draw(t, "not-ready")})
}

func (m *machine) genRaise(t *rapid.T) {
	cur := m.limit()
	var cand []string
	for _, p := range partitionMenu {
		if p != m.partition && refPartitionLimit(p, m.n) >= cur {
			cand = append(cand, p)
		}
	}
	if len(cand) == 0 {
		t.Skip("cannot raise")
	}
	m.do(Action{K: "partition", P: rapid.SampledFrom(cand).Draw(t, "partition")})
}

func (m *machine) finish() {
	vs := m.w.views()
	if len(vs) >= 3 {
		m.cls["three-replicasets"] = true
	}
	if m.c.Converge != "" {
		m.converge()
	}
}

func (m *machine) classes() []string {
	m.cls[fmt.Sprintf("lag-%v", m.c.Lag)] = true
	if strings.HasSuffix(m.c.Partition, "%") {
		m.cls["partition-percent"] = true
	} else {
		m.cls["partition-int"] = true
	}
	if refSurge(m.c.MaxSurge, m.c.MaxUnavailable, m.c.Replicas) == 0 {
		m.cls["initial-surge-0"] = true
	}
	if m.nt {
		m.cls["nontrivial"] = true
	}
	out := make([]string, 0, len(m.cls))
	for k := range m.cls {
		out = append(out, k)
	}
	return out
}

func runCase(t vlib.TB, c *Case) {
	acts := c.Actions
	cc := *c
	cc.Actions = nil
	m := newMachine(t, &cc)
	for _, a := range acts {
		m.do(a)
	}
	m.finish()
}

func TestC17DeploymentMachine(t *testing.T) {
	var rc Case
	if ok, _ := vlib.LoadReplay(chkM, &rc); ok {
		runCase(t, &rc)
		return
	}
	rapid.Check(t, func(t *rapid.T) {
		c := genCase(t)
		m := newMachine(t, c)
		t.Repeat(m.actions())
		m.finish()
		vlib.Record(chkM, fmt.Sprintf("%d|%s|%s|%s|%s", c.Replicas, c.Partition, sp(c.MaxSurge), sp(c.MaxUnavailable), strings.Join(m.trace, ";")), m.nt, m.classes(), func() any { return c })
	})
}
