package p17

// Reference arithmetic, written from the property statement and from the documented semantics
// of Kubernetes rolling updates and of the Kruise partition field -- NOT from deployment_util.go:
//
//   - maxSurge: absolute number, or percentage of spec.replicas rounded UP
//     (k8s API doc of RollingUpdateDeployment.maxSurge).
//   - maxUnavailable: absolute number, or percentage rounded DOWN; if both resolve to 0 the
//     rolling update may take 1 pod down (k8s "fenceposts" rule); it never exceeds spec.replicas
//     and is 0 for an empty Deployment.
//   - partition ("how many Pods should be updated during rollout"): absolute number, or
//     percentage of spec.replicas rounded UP, clamped to [0, replicas]; a percentage other than
//     "100%" never covers every pod of a Deployment with more than one replica (Kruise batch
//     semantics: only 100% means "all").

import (
	"strconv"
	"strings"
)

// parseIntOrPct: "7" -> (7,false,true); "30%" -> (30,true,true).
func parseIntOrPct(s string) (v int, pct bool, ok bool) {
	if strings.HasSuffix(s, "%") {
		n, err := strconv.Atoi(strings.TrimSuffix(s, "%"))
		if err != nil {
			return 0, true, false
		}
		return n, true, true
	}
	n, err := strconv.Atoi(s)
	if err != nil {
		return 0, false, false
	}
	return n, false, true
}

func ceilPct(p, n int) int {
	x := p * n
	if x <= 0 {
		return 0
	}
	return (x + 99) / 100
}

func floorPct(p, n int) int {
	x := p * n
	if x <= 0 {
		return 0
	}
	return x / 100
}

func clamp(x, lo, hi int) int {
	if x < lo {
		return lo
	}
	if x > hi {
		return hi
	}
	return x
}

// refPartitionLimit: the number of pods the partition allows to be of the new revision.
func refPartitionLimit(partition string, replicas int) int {
	v, pct, ok := parseIntOrPct(partition)
	if !ok {
		return 0 // an unreadable partition allows nothing
	}
	if !pct {
		return clamp(v, 0, replicas)
	}
	l := clamp(ceilPct(v, replicas), 0, replicas)
	if partition != "100%" && replicas > 1 && l > replicas-1 {
		l = replicas - 1
	}
	return l
}

// partitionCoversAll: the convergence clause of the property applies.
func partitionCoversAll(partition string, replicas int) bool {
	return refPartitionLimit(partition, replicas) >= replicas
}

func refSurgeRaw(maxSurge *string, replicas int) int {
	if maxSurge == nil {
		return 0
	}
	v, pct, ok := parseIntOrPct(*maxSurge)
	if !ok {
		return 0
	}
	if pct {
		return ceilPct(v, replicas)
	}
	if v < 0 {
		return 0
	}
	return v
}

func refUnavailRaw(maxUnavailable *string, replicas int) int {
	if maxUnavailable == nil {
		return 0
	}
	v, pct, ok := parseIntOrPct(*maxUnavailable)
	if !ok {
		return 0
	}
	if pct {
		return floorPct(v, replicas)
	}
	if v < 0 {
		return 0
	}
	return v
}

// refSurge / refUnavailable resolve the two rolling-update knobs together.
func refSurge(maxSurge, maxUnavailable *string, replicas int) int {
	return refSurgeRaw(maxSurge, replicas)
}

func refUnavailable(maxSurge, maxUnavailable *string, replicas int) int {
	if replicas == 0 {
		return 0
	}
	u := refUnavailRaw(maxUnavailable, replicas)
	if u == 0 && refSurgeRaw(maxSurge, replicas) == 0 {
		u = 1
	}
	if u > replicas {
		u = replicas
	}
	return u
}

// refNewRSAllowedMax: the largest size the new ReplicaSet may be scaled UP to in a rolling
// (non-scaling) step: bounded by the partition, by spec.replicas, and by the surge head-room
// left by all other pods. (It may already be larger; the controller never has to shrink it.)
func refNewRSAllowedMax(replicas, limit, surge, curNew, total int) int {
	m := limit
	if replicas < m {
		m = replicas
	}
	if room := curNew + (replicas + surge - total); room < m {
		m = room
	}
	if m < curNew {
		m = curNew
	}
	return m
}
