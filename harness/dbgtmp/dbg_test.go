//go:build verif

package dbgtmp

import (
	"encoding/json"
	"fmt"
	"os"
	"strings"
	"testing"

	"verifharness/sim"
)

func TestFaultTrace(t *testing.T) {
	data, err := os.ReadFile(os.Getenv("DEBUG_REPLAY"))
	if err != nil {
		t.Skip()
	}
	var rf struct {
		Case struct {
			S      sim.Scenario    `json:"scenario"`
			H      []sim.Action    `json:"history"`
			Faults []sim.FaultSpec `json:"faults"`
		} `json:"case"`
	}
	json.Unmarshal(data, &rf)
	r, _ := sim.NewRun(rf.Case.S)
	r.W.Build(rf.Case.S)
	r.W.InstallMonitors(rf.Case.S)
	r.W.Faults = sim.NewFaults(rf.Case.Faults...)
	for _, a := range rf.Case.H {
		r.Apply(a)
	}
	out := r.Complete(3000)
	fmt.Printf("outcome: %+v\n", out)
	for _, wr := range r.W.Writes {
		if wr.Actor != sim.ActorEnv && !strings.Contains(wr.String(), "patch Pod") {
			fmt.Println("  ", wr, sim.Brief(wr))
		}
	}
	fmt.Println("fault log:", r.W.FaultLog)
	fmt.Println(sim.DumpState(r))
}
