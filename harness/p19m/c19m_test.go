//go:build verif

// Package p19m: C19 isolation at the level of trafficrouting.Manager, with running grace
// timers. The closed-loop checks (p19) run in the zero-grace time mode, in which the grace
// expectations are never consulted; here two tenants in different namespaces use the SAME
// object names (stable Service, canary Service, Ingress) and different grace periods, their
// calls are interleaved, and time is advanced through the grace package's verif hook.
//
// Oracle (metamorphic, non-interference): everything tenant A observes - the (retry, error)
// result of each of its calls and its objects afterwards - is the same as in the run from which
// tenant B's calls have been deleted (clock ticks kept).
package p19m

import (
	"context"
	"encoding/json"
	"fmt"
	"os"
	"testing"
	"time"

	"pgregory.net/rapid"

	"github.com/openkruise/rollouts/api/v1beta1"
	"github.com/openkruise/rollouts/pkg/trafficrouting"
	"github.com/openkruise/rollouts/pkg/util/grace"
	corev1 "k8s.io/api/core/v1"
	netv1 "k8s.io/api/networking/v1"
	metav1 "k8s.io/apimachinery/pkg/apis/meta/v1"
	"k8s.io/apimachinery/pkg/runtime"
	"k8s.io/apimachinery/pkg/types"
	"k8s.io/apimachinery/pkg/util/intstr"
	clientgoscheme "k8s.io/client-go/kubernetes/scheme"
	"k8s.io/klog/v2"
	"sigs.k8s.io/controller-runtime/pkg/client"
	"sigs.k8s.io/controller-runtime/pkg/client/fake"

	"verifharness/vlib"
)

const chk = "c19-manager-isolation"

func TestMain(m *testing.M) {
	klog.LogToStderr(false)
	klog.SetOutput(nopWriter{})
	vlib.Main(m)
}

type nopWriter struct{}

func (nopWriter) Write(p []byte) (int, error) { return len(p), nil }

// op is one step of a history.
type op struct {
	Tenant int    `json:"tenant"` // 0 = A, 1 = B, -1 = clock
	Kind   string `json:"kind"`   // patch-stable | restore-stable | remove-canary | restore-gateway | tick
	Secs   int    `json:"secs,omitempty"`
}

type mCase struct {
	Grace [2]int `json:"grace"` // grace period seconds of tenant A and B
	Ops   []op   `json:"ops"`
}

var namespaces = [2]string{"team-a", "team-b"}

func scheme() *runtime.Scheme {
	s := runtime.NewScheme()
	_ = clientgoscheme.AddToScheme(s)
	_ = v1beta1.AddToScheme(s)
	return s
}

func pathType() *netv1.PathType { p := netv1.PathTypePrefix; return &p }

func objects() []client.Object {
	var out []client.Object
	for i, ns := range namespaces {
		out = append(out,
			&corev1.Service{ObjectMeta: metav1.ObjectMeta{Namespace: ns, Name: "app", UID: types.UID(fmt.Sprintf("svc-uid-%d", i))},
				Spec: corev1.ServiceSpec{Selector: map[string]string{"app": "demo"}, Ports: []corev1.ServicePort{{Port: 80, TargetPort: intstr.FromInt(80)}}}},
			&corev1.Service{ObjectMeta: metav1.ObjectMeta{Namespace: ns, Name: "app-canary", UID: types.UID(fmt.Sprintf("csvc-uid-%d", i))},
				Spec: corev1.ServiceSpec{Selector: map[string]string{"app": "demo", "pod-template-hash": "new"}, Ports: []corev1.ServicePort{{Port: 80, TargetPort: intstr.FromInt(80)}}}},
			&netv1.Ingress{ObjectMeta: metav1.ObjectMeta{Namespace: ns, Name: "web", Annotations: map[string]string{"kubernetes.io/ingress.class": "nginx"}},
				Spec: netv1.IngressSpec{Rules: []netv1.IngressRule{{Host: "a.example", IngressRuleValue: netv1.IngressRuleValue{HTTP: &netv1.HTTPIngressRuleValue{
					Paths: []netv1.HTTPIngressPath{{Path: "/", PathType: pathType(), Backend: netv1.IngressBackend{Service: &netv1.IngressServiceBackend{Name: "app", Port: netv1.ServiceBackendPort{Number: 80}}}}}}}}}}},
			&netv1.Ingress{ObjectMeta: metav1.ObjectMeta{Namespace: ns, Name: "web-canary", Annotations: map[string]string{"kubernetes.io/ingress.class": "nginx", "nginx.ingress.kubernetes.io/canary": "true", "nginx.ingress.kubernetes.io/canary-weight": "20"}},
				Spec: netv1.IngressSpec{Rules: []netv1.IngressRule{{Host: "a.example", IngressRuleValue: netv1.IngressRuleValue{HTTP: &netv1.HTTPIngressRuleValue{
					Paths: []netv1.HTTPIngressPath{{Path: "/", PathType: pathType(), Backend: netv1.IngressBackend{Service: &netv1.IngressServiceBackend{Name: "app-canary", Port: netv1.ServiceBackendPort{Number: 80}}}}}}}}}}},
		)
	}
	return out
}

func ctxFor(tenant int, graceSecs int) *trafficrouting.TrafficRoutingContext {
	return &trafficrouting.TrafficRoutingContext{
		Key:              fmt.Sprintf("Rollout(%s/demo)", namespaces[tenant]),
		Namespace:        namespaces[tenant],
		ObjectRef:        []v1beta1.TrafficRoutingRef{{Service: "app", GracePeriodSeconds: int32(graceSecs), Ingress: &v1beta1.IngressTrafficRouting{ClassType: "nginx", Name: "web"}}},
		Strategy:         v1beta1.TrafficRoutingStrategy{Traffic: nil},
		OwnerRef:         metav1.OwnerReference{APIVersion: "rollouts.kruise.io/v1beta1", Kind: "Rollout", Name: "demo", UID: types.UID(fmt.Sprintf("rollout-uid-%d", tenant))},
		RevisionLabelKey: "pod-template-hash", StableRevision: "old", CanaryRevision: "new",
		LastUpdateTime:             &metav1.Time{Time: time.Now()},
		CanaryServiceSelectorPatch: map[string]string{"pod-template-hash": "new"},
	}
}

type obs struct {
	Results []string
	Final   string
}

// run executes the ops (only those of the listed tenants, ticks always) and returns what tenant 0 saw.
func run(c mCase, tenants map[int]bool) obs {
	grace.ResetExpectations()
	cli := fake.NewClientBuilder().WithScheme(scheme()).WithObjects(objects()...).Build()
	m := trafficrouting.NewTrafficRoutingManager(cli)
	var o obs
	for _, p := range c.Ops {
		if p.Kind == "tick" {
			grace.ShiftForVerif(time.Duration(p.Secs) * time.Second)
			continue
		}
		if !tenants[p.Tenant] {
			continue
		}
		tc := ctxFor(p.Tenant, c.Grace[p.Tenant])
		var retry bool
		var err error
		switch p.Kind {
		case "patch-stable":
			retry, err = m.PatchStableService(tc)
		case "restore-stable":
			retry, err = m.RestoreStableService(tc)
		case "remove-canary":
			retry, err = m.RemoveCanaryService(tc)
		case "restore-gateway":
			retry, err = m.RestoreGateway(tc)
		}
		if p.Tenant == 0 {
			o.Results = append(o.Results, fmt.Sprintf("%s retry=%v err=%v", p.Kind, retry, err != nil))
		}
	}
	// tenant A's objects
	final := map[string]any{}
	svc := &corev1.Service{}
	if err := cli.Get(context.TODO(), client.ObjectKey{Namespace: namespaces[0], Name: "app"}, svc); err == nil {
		final["stable-selector"] = svc.Spec.Selector
	}
	final["canary-service-exists"] = cli.Get(context.TODO(), client.ObjectKey{Namespace: namespaces[0], Name: "app-canary"}, &corev1.Service{}) == nil
	ing := &netv1.Ingress{}
	if err := cli.Get(context.TODO(), client.ObjectKey{Namespace: namespaces[0], Name: "web-canary"}, ing); err == nil {
		final["canary-ingress"] = ing.Annotations
	} else {
		final["canary-ingress"] = "gone"
	}
	b, _ := json.Marshal(final)
	o.Final = string(b)
	return o
}

func check(t vlib.TB, c mCase) (nontrivial bool, classes []string) {
	both := run(c, map[int]bool{0: true, 1: true})
	alone := run(c, map[int]bool{0: true})
	if len(both.Results) != len(alone.Results) {
		vlib.Fail(t, chk, "harness-length", c, "harness error")
	}
	waited := false
	for i := range both.Results {
		if both.Results[i] != alone.Results[i] {
			vlib.Fail(t, chk, "c19-tenant-b-changes-what-tenant-a-observes", c, "call #%d of tenant A (namespace %s) returns %q when tenant B (namespace %s, same object names) runs its calls in between, and %q when B does nothing",
				i, namespaces[0], both.Results[i], namespaces[1], alone.Results[i])
		}
		if len(both.Results[i]) > 0 && contains(both.Results[i], "retry=true") {
			waited = true
		}
	}
	if both.Final != alone.Final {
		vlib.Fail(t, chk, "c19-tenant-b-changes-tenant-a-objects", c, "tenant A's objects end as %s with tenant B active and as %s without", both.Final, alone.Final)
	}
	bOps := 0
	for _, p := range c.Ops {
		if p.Tenant == 1 {
			bOps++
		}
	}
	if waited {
		classes = append(classes, "tenant-a-waited-on-a-grace-timer")
	}
	if c.Grace[0] != c.Grace[1] {
		classes = append(classes, "different-grace-periods")
	}
	return waited && bOps > 0, classes
}

func contains(s, sub string) bool {
	for i := 0; i+len(sub) <= len(s); i++ {
		if s[i:i+len(sub)] == sub {
			return true
		}
	}
	return false
}

func TestC19ManagerIsolation(t *testing.T) {
	var rc mCase
	if ok, _ := vlib.LoadReplay(chk, &rc); ok {
		check(t, rc)
		return
	}
	_ = os.Getenv
	kinds := []string{"patch-stable", "restore-stable", "remove-canary", "restore-gateway"}
	rapid.Check(t, func(t *rapid.T) {
		c := mCase{Grace: [2]int{rapid.SampledFrom([]int{0, 1, 3, 5}).Draw(t, "grace-a"), rapid.SampledFrom([]int{0, 1, 3, 5}).Draw(t, "grace-b")}}
		n := rapid.IntRange(2, 24).Draw(t, "ops")
		for i := 0; i < n; i++ {
			switch rapid.IntRange(0, 4).Draw(t, "who") {
			case 0:
				c.Ops = append(c.Ops, op{Tenant: -1, Kind: "tick", Secs: rapid.SampledFrom([]int{1, 2, 3, 6}).Draw(t, "secs")})
			case 1, 2:
				c.Ops = append(c.Ops, op{Tenant: 0, Kind: rapid.SampledFrom(kinds).Draw(t, "kind-a")})
			default:
				c.Ops = append(c.Ops, op{Tenant: 1, Kind: rapid.SampledFrom(kinds).Draw(t, "kind-b")})
			}
		}
		nt, cls := check(t, c)
		sig, _ := json.Marshal(c)
		vlib.Record(chk, string(sig), nt, cls, func() any { return c })
	})
}
