// C04 / C10 (E3): exhaustive enumeration of the finalising task chains of both release managers.
package pchains

import (
	"fmt"
	"testing"

	"github.com/openkruise/rollouts/api/v1beta1"
	rolloutctrl "github.com/openkruise/rollouts/pkg/controller/rollout"

	"verifharness/vlib"
)

func TestMain(m *testing.M) { vlib.Main(m) }

type next func(reason string, cur v1beta1.FinalisingStepType) v1beta1.FinalisingStepType

var reasons = []string{v1beta1.FinaliseReasonSuccess, v1beta1.FinaliseReasonRollback, v1beta1.FinaliseReasonContinuous, v1beta1.FinaliseReasonDisalbed, v1beta1.FinaliseReasonDelete, "", "SomethingUnknown"}

var allTasks = []v1beta1.FinalisingStepType{
	v1beta1.FinalisingStepRouteTrafficToNew, v1beta1.FinalisingStepRouteTrafficToStable, v1beta1.FinalisingStepRestoreStableService,
	v1beta1.FinalisingStepRemoveCanaryService, v1beta1.FinalisingStepResumeWorkload, v1beta1.FinalisingStepReleaseWorkloadControl,
	v1beta1.FinalisingStepTypeEnd, v1beta1.FinalisingStepWaitEndless, "FinalisingStepTypeGateway", "bogus",
}

type chainCase struct {
	Manager string   `json:"manager"`
	Reason  string   `json:"reason"`
	Start   string   `json:"start"`
	Chain   []string `json:"chain"`
}

func follow(f next, reason string, start v1beta1.FinalisingStepType) ([]v1beta1.FinalisingStepType, bool) {
	var chain []v1beta1.FinalisingStepType
	cur := start
	for i := 0; i < 64; i++ {
		n := f(reason, cur)
		if n == v1beta1.FinalisingStepTypeEnd {
			return chain, true
		}
		chain = append(chain, n)
		cur = n
	}
	return chain, false
}

func pos(chain []v1beta1.FinalisingStepType, t v1beta1.FinalisingStepType) int {
	for i, x := range chain {
		if x == t {
			return i
		}
	}
	return -1
}

func strs(c []v1beta1.FinalisingStepType) []string {
	out := make([]string, len(c))
	for i, x := range c {
		out[i] = string(x)
	}
	return out
}

// enumerate checks every (manager, reason, start) chain and returns counts.
func enumerate(t *testing.T, check string, judge func(c chainCase, chain []v1beta1.FinalisingStepType, fromStart bool) (string, string)) {
	managers := map[string]next{"canary": rolloutctrl.NextCanaryTaskForVerif, "bluegreen": rolloutctrl.NextBlueGreenTaskForVerif}
	var evals, nt int64
	var samples []any
	for _, mname := range []string{"canary", "bluegreen"} {
		f := managers[mname]
		for _, reason := range reasons {
			starts := append([]v1beta1.FinalisingStepType{""}, allTasks...)
			for _, start := range starts {
				chain, terminated := follow(f, reason, start)
				c := chainCase{Manager: mname, Reason: reason, Start: string(start), Chain: strs(chain)}
				evals++
				if !terminated {
					vlib.Fail(t, check, "chain-does-not-terminate", c, "task chain does not reach END within 64 steps: %v", c)
				}
				seen := map[v1beta1.FinalisingStepType]bool{}
				for _, x := range chain {
					if seen[x] {
						vlib.Fail(t, check, "chain-repeats-task", c, "task %s visited twice: %v", x, c)
					}
					seen[x] = true
				}
				if start == "" {
					nt++
					if len(samples) < 6 {
						samples = append(samples, c)
					}
				}
				if sig, msg := judge(c, chain, start == ""); sig != "" {
					vlib.Fail(t, check, sig, c, "%s: %v", msg, c)
				}
			}
		}
	}
	vlib.RecordBulk(check, evals, nt, true, samples)
}

// C04: "Routes are withdrawn before the Service they point to is removed, and the stable Service
// is un-pinned before the last stable pod is replaced."
func TestC04TaskChains(t *testing.T) {
	enumerate(t, "c04-task-chains", func(c chainCase, chain []v1beta1.FinalisingStepType, fromStart bool) (string, string) {
		if !fromStart {
			return "", ""
		}
		gw, rm := pos(chain, v1beta1.FinalisingStepRouteTrafficToStable), pos(chain, v1beta1.FinalisingStepRemoveCanaryService)
		if rm >= 0 && (gw < 0 || gw > rm) {
			return "canary-service-removed-before-routes-withdrawn", fmt.Sprintf("RemoveCanaryService (pos %d) is not preceded by RouteTrafficToStable (pos %d)", rm, gw)
		}
		if c.Reason != v1beta1.FinaliseReasonRollback {
			rs, resume := pos(chain, v1beta1.FinalisingStepRestoreStableService), pos(chain, v1beta1.FinalisingStepResumeWorkload)
			if resume >= 0 && (rs < 0 || rs > resume) {
				return "workload-resumed-before-stable-service-unpinned", fmt.Sprintf("ResumeWorkload (pos %d) is not preceded by RestoreStableService (pos %d)", resume, rs)
			}
		}
		for _, must := range []v1beta1.FinalisingStepType{v1beta1.FinalisingStepRouteTrafficToStable, v1beta1.FinalisingStepRestoreStableService, v1beta1.FinalisingStepRemoveCanaryService, v1beta1.FinalisingStepResumeWorkload, v1beta1.FinalisingStepReleaseWorkloadControl} {
			if pos(chain, must) < 0 {
				return "chain-misses-task", fmt.Sprintf("chain never runs %s", must)
			}
		}
		return "", ""
	})
}

// C10: "all traffic is returned to the stable version before the new-revision pods are removed
// or the workload is handed back": every rollback chain starts with RouteTrafficToStable.
func TestC10TaskChains(t *testing.T) {
	enumerate(t, "c10-task-chains", func(c chainCase, chain []v1beta1.FinalisingStepType, fromStart bool) (string, string) {
		if !fromStart || c.Reason != v1beta1.FinaliseReasonRollback {
			return "", ""
		}
		if len(chain) == 0 || chain[0] != v1beta1.FinalisingStepRouteTrafficToStable {
			return "rollback-chain-does-not-start-with-route-to-stable", "first task of the rollback chain is not RouteTrafficToStable"
		}
		gw := pos(chain, v1beta1.FinalisingStepRouteTrafficToStable)
		for _, later := range []v1beta1.FinalisingStepType{v1beta1.FinalisingStepResumeWorkload, v1beta1.FinalisingStepReleaseWorkloadControl, v1beta1.FinalisingStepRemoveCanaryService} {
			if p := pos(chain, later); p >= 0 && p < gw {
				return "rollback-hands-back-before-traffic-to-stable", fmt.Sprintf("%s precedes RouteTrafficToStable", later)
			}
		}
		return "", ""
	})
}
