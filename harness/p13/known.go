package p13

import (
	"os"
	"strings"
)

// knownOpen lists the signatures of confirmed genuine defects of /repo that are still open.
// While a signature is listed the generator (or, where the class cannot be avoided without
// losing the rest of the domain, the one sub-assertion concerned) steers away from exactly that
// input class and counts it with vlib.Excluded. A replay (VERIF_REPLAY) always runs strict;
// VERIF_NO_EXCLUDE=all (or a comma separated list of signatures) switches exclusions off, which
// is how a proposed repair is verified.
var knownOpen = map[string]bool{
	// C13. buildCanaryHeaderHttpRoutes indexes matches[k] while ranging over nonPathMatches: with a
	// path match listed before a header/query match the generated canary rule lacks the header
	// condition. Steering: generated strategies list the non-path matches first.
	sigMixedTooWide: false, // repaired by a fix: commit in /repo (see known_findings.json)
	// C13. buildCanaryHeaderHttpRoutes skips (drops) every rule that carries a canary backendRef,
	// also the user's rule that a previous weight step split. Steering: no match step once a
	// rule carries a canary ref next to other backends.
	sigMatchDropsCanaryRef: false, // repaired by a fix: commit in /repo (see known_findings.json)
	// C13. Finalise drops every rule without backendRefs, also the user's RequestRedirect rule.
	// Tolerance: the absence of a backend-less user rule after Finalise (only that).
	sigFinaliseBackendless: false, // repaired by a fix: commit in /repo (see known_findings.json)
	// C13. Finalise sets the stable weight to 1 whatever the user wrote: stable 50 / legacy 50
	// becomes stable 1 / legacy 50. Tolerance: the traffic-share comparison of such a rule (only that).
	sigFinaliseShare: true,
	// C13. getServiceBackendRef ignores namespace and group: a backendRef to Service
	// other-ns/<stable name> is treated as the stable Service. Steering: shape not generated.
	sigForeignNs: true,
	// C07 (b). A strategy header/query match naming a header that a match of the stable rule
	// already names yields a generated match with a duplicate name; the Gateway API admission
	// webhook rejects the update on every reconcile. Steering: colliding names are renamed.
	sigDuplicateName: true,
}

func open(sig string) bool {
	if os.Getenv("VERIF_REPLAY") != "" {
		return false
	}
	if off := os.Getenv("VERIF_NO_EXCLUDE"); off != "" {
		if off == "all" || off == "1" {
			return false
		}
		for _, s := range strings.Split(off, ",") {
			if s == sig {
				return false
			}
		}
	}
	return knownOpen[sig]
}
