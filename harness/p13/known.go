package p13

import "os"

// knownOpen lists the signatures of confirmed genuine defects of /repo that are still open.
// While a signature is listed the generator (or, where the class cannot be avoided without
// losing the rest of the domain, the one sub-assertion concerned) steers away from exactly that
// input class and counts it with vlib.Excluded. A replay (VERIF_REPLAY) and VERIF_NO_EXCLUDE=1
// always run strict.
var knownOpen = map[string]bool{
	sigMatchDropsCanaryRef: true,
	sigFinaliseShare:       true,
	sigFinaliseBackendless: true,
}

func open(sig string) bool {
	if os.Getenv("VERIF_NO_EXCLUDE") != "" || os.Getenv("VERIF_REPLAY") != "" {
		return false
	}
	return knownOpen[sig]
}
