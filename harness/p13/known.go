package p13

import (
	"os"
	"strings"
)

// knownOpen lists the signatures of confirmed genuine defects of /repo that are still open.
// While a signature is listed the generator (or, where the class cannot be avoided without
// losing the rest of the domain, the one sub-assertion concerned) steers away from exactly that
// input class and counts it with vlib.Excluded. A replay (VERIF_REPLAY) always runs strict;
// VERIF_NO_EXCLUDE=all (or a comma separated list of signatures) switches exclusions off, which
// is how a proposed repair is verified.
var knownOpen = map[string]bool{
	sigMatchDropsCanaryRef: true,
	sigFinaliseShare:       true,
	sigDuplicateName:       true,
	sigForeignNs:           true,
	sigMixedTooWide:        true,
	sigFinaliseBackendless: true,
}

func open(sig string) bool {
	if os.Getenv("VERIF_REPLAY") != "" {
		return false
	}
	if off := os.Getenv("VERIF_NO_EXCLUDE"); off != "" {
		if off == "all" || off == "1" {
			return false
		}
		for _, s := range strings.Split(off, ",") {
			if s == sig {
				return false
			}
		}
	}
	return knownOpen[sig]
}
