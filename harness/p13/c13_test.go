// C13: Gateway API routes: exact split, narrow matches, clean restore.
// C07 (b): provider fixed point for the gateway provider (c07_test.go).
package p13

import (
	"context"
	"encoding/json"
	"flag"
	"fmt"
	"io"
	"reflect"
	"testing"

	"github.com/openkruise/rollouts/api/v1beta1"
	"github.com/openkruise/rollouts/pkg/trafficrouting/network"
	"github.com/openkruise/rollouts/pkg/trafficrouting/network/gateway"
	metav1 "k8s.io/apimachinery/pkg/apis/meta/v1"
	"k8s.io/apimachinery/pkg/runtime"
	"k8s.io/apimachinery/pkg/types"
	"k8s.io/klog/v2"
	"pgregory.net/rapid"
	"sigs.k8s.io/controller-runtime/pkg/client/fake"
	gw "sigs.k8s.io/gateway-api/apis/v1beta1"

	"verifharness/vlib"
)

func TestMain(m *testing.M) {
	fs := flag.NewFlagSet("klog", flag.ContinueOnError)
	klog.InitFlags(fs)
	_ = fs.Set("logtostderr", "false")
	_ = fs.Set("alsologtostderr", "false")
	_ = fs.Set("stderrthreshold", "FATAL")
	klog.SetOutput(io.Discard)
	vlib.Main(m)
}

const chkC13 = "c13-gateway"

// failure signatures (kinds of failure; the input-class specific ones are what
// known_findings.json lists)
const (
	sigMixedTooWide        = "match-too-wide-path-match-before-header-match"
	sigMatchDropsCanaryRef = "match-step-drops-rule-with-canary-ref"
	sigFinaliseBackendless = "finalise-drops-backendless-rule"
	sigFinaliseShare       = "finalise-stable-share-changed"
	sigDuplicateName       = "ensure-rejected-duplicate-match-name"
	sigForeignNs           = "foreign-namespace-service-treated-as-stable"
)

var scheme = func() *runtime.Scheme {
	s := runtime.NewScheme()
	if err := gw.AddToScheme(s); err != nil {
		panic(err)
	}
	return s
}()

// ---------- environment: real provider on the API-server model ----------

type env struct {
	api  *apiClient
	prov network.NetworkProvider
}

func newEnv(rules []gw.HTTPRouteRule) *env {
	spec := (&gw.HTTPRouteSpec{Rules: rules}).DeepCopy()
	route := &gw.HTTPRoute{ObjectMeta: metav1.ObjectMeta{Namespace: nsName, Name: routeName}, Spec: *spec}
	defaultHTTPRoute(route)
	api := &apiClient{Client: fake.NewClientBuilder().WithScheme(scheme).WithObjects(route).Build()}
	name := routeName
	prov, err := gateway.NewGatewayTrafficRouting(api, gateway.Config{
		Key: nsName + "/rollout-demo", Namespace: nsName, CanaryService: canarySvc, StableService: stableSvc,
		TrafficConf: &v1beta1.GatewayTrafficRouting{HTTPRouteName: &name},
	})
	if err != nil {
		panic(err)
	}
	return &env{api: api, prov: prov}
}

func (e *env) rules() []gw.HTTPRouteRule {
	var r gw.HTTPRoute
	if err := e.api.Client.Get(context.TODO(), types.NamespacedName{Namespace: nsName, Name: routeName}, &r); err != nil {
		panic(err)
	}
	return r.Spec.Rules
}

func (s Step) strategy() *v1beta1.TrafficRoutingStrategy {
	out := &v1beta1.TrafficRoutingStrategy{}
	if s.Traffic != nil {
		v := *s.Traffic
		out.Traffic = &v
	}
	for i := range s.Matches {
		out.Matches = append(out.Matches, *s.Matches[i].DeepCopy())
	}
	return out
}

type callResult struct {
	done   bool
	calls  int
	err    error
	panic_ string
}

// ensure calls EnsureRoutes as DoTrafficRouting does (a fresh strategy per reconcile) until it
// reports done, at most max times.
func (e *env) ensure(s Step, max int) callResult {
	var r callResult
	for r.calls < max {
		r.calls++
		p, msg := vlib.Guard(func() { r.done, r.err = e.prov.EnsureRoutes(context.TODO(), s.strategy()) })
		if p {
			r.panic_ = msg
			return r
		}
		if r.err != nil || r.done {
			return r
		}
	}
	return r
}

// finalise calls Finalise as RestoreGateway does, until it reports "not modified".
func (e *env) finalise(max int) (modifiedLast bool, calls int, err error, panicMsg string) {
	for calls < max {
		calls++
		p, msg := vlib.Guard(func() { modifiedLast, err = e.prov.Finalise(context.TODO()) })
		if p {
			return false, calls, nil, msg
		}
		if err != nil || !modifiedLast {
			return
		}
	}
	return
}

func js(v any) string {
	b, _ := json.Marshal(v)
	return string(b)
}

// ---------- oracles ----------

type violation struct {
	sig string
	msg string
}

func vio(sig, format string, a ...any) *violation { return &violation{sig, fmt.Sprintf(format, a...)} }

// checkWeightStep: "every HTTPRoute rule that targets the stable Service gives the canary
// Service weight w and the stable Service weight 100-w and leaves any other backend of the rule
// untouched ... Rules that do not reference the stable Service are never altered."
func checkWeightStep(pre, post []gw.HTTPRouteRule, w int32) *violation {
	// A rule whose only backend is the canary Service is a generated rule of an earlier match
	// step (or a leftover of an earlier rollout), not a rule the user wrote: a weight step must
	// remove it, otherwise matching requests keep going to the canary at 100% although the step
	// configures only a weight ("steps never accumulate"; C03: the canary share equals exactly
	// the step's value).
	var kept []gw.HTTPRouteRule
	for _, r := range pre {
		if len(r.BackendRefs) == 1 && isSvc(r.BackendRefs[0], canarySvc) {
			continue
		}
		kept = append(kept, r)
	}
	for i, r := range post {
		if len(r.BackendRefs) == 1 && isSvc(r.BackendRefs[0], canarySvc) {
			return vio("weight-step-keeps-generated-canary-rule", "weight step %d%%: rule %d routes only to the canary Service (generated by an earlier match step) and is still present\nafter=%s", w, i, js(post))
		}
	}
	pre = kept
	if len(pre) != len(post) {
		return vio("weight-rule-count-changed", "weight step %d%%: %d rules before, %d after\nbefore=%s\nafter=%s", w, len(pre), len(post), js(pre), js(post))
	}
	for i := range pre {
		a, b := pre[i], post[i]
		if !refsService(a, stableSvc) {
			if !reflect.DeepEqual(a, b) {
				sig := "weight-unrelated-rule-altered"
				if providerSees(a, stableSvc) {
					sig = sigForeignNs
				}
				return vio(sig, "weight step %d%%: rule %d does not reference Service %s/%s but was altered\nbefore=%s\nafter=%s", w, i, nsName, stableSvc, js(a), js(b))
			}
			continue
		}
		if !reflect.DeepEqual(a.Matches, b.Matches) || !reflect.DeepEqual(a.Filters, b.Filters) {
			return vio("weight-rule-conditions-altered", "weight step %d%%: matches/filters of rule %d changed\nbefore=%s\nafter=%s", w, i, js(a), js(b))
		}
		var otherA, otherB []gw.HTTPBackendRef
		var stA, stB, caA, caB []gw.HTTPBackendRef
		split := func(refs []gw.HTTPBackendRef, other, st, ca *[]gw.HTTPBackendRef) {
			for _, r := range refs {
				switch {
				case isSvc(r, stableSvc):
					*st = append(*st, r)
				case isSvc(r, canarySvc):
					*ca = append(*ca, r)
				default:
					*other = append(*other, r)
				}
			}
		}
		split(a.BackendRefs, &otherA, &stA, &caA)
		split(b.BackendRefs, &otherB, &stB, &caB)
		if !reflect.DeepEqual(otherA, otherB) {
			return vio("weight-other-backend-altered", "weight step %d%%: a backend of rule %d other than stable/canary changed\nbefore=%s\nafter=%s", w, i, js(a.BackendRefs), js(b.BackendRefs))
		}
		if len(stB) != 1 || !sameExceptWeight(stA[0], stB[0]) || stB[0].Weight == nil || *stB[0].Weight != 100-w {
			return vio("weight-stable-wrong", "weight step %d%%: rule %d stable backend must be the same ref with weight %d\nbefore=%s\nafter=%s", w, i, 100-w, js(a.BackendRefs), js(b.BackendRefs))
		}
		if len(caB) != 1 || caB[0].Weight == nil || *caB[0].Weight != w {
			return vio("weight-canary-wrong", "weight step %d%%: rule %d must have exactly one canary backend with weight %d\nbefore=%s\nafter=%s", w, i, w, js(a.BackendRefs), js(b.BackendRefs))
		}
		if len(caA) > 0 {
			if !sameExceptWeight(caA[0], caB[0]) {
				return vio("weight-canary-wrong", "weight step %d%%: rule %d existing canary ref changed beyond its weight\nbefore=%s\nafter=%s", w, i, js(a.BackendRefs), js(b.BackendRefs))
			}
		} else {
			want := *stA[0].DeepCopy()
			want.Name = canarySvc
			if !sameExceptWeight(want, caB[0]) {
				return vio("weight-canary-wrong", "weight step %d%%: rule %d new canary ref must be the stable ref renamed (port, namespace, filters kept)\nbefore=%s\nafter=%s", w, i, js(a.BackendRefs), js(b.BackendRefs))
			}
		}
	}
	return nil
}

func hasCanaryRef(r gw.HTTPRouteRule) bool { return refsService(r, canarySvc) }

// checkMatchStep: "each generated canary rule accepts only requests that satisfy one of the
// user's matches (header and query matches combined with the original rule's own conditions,
// path matches standalone as documented), and the original rules are kept. Rules that do not
// reference the stable Service are never altered".
func checkMatchStep(pre, post []gw.HTTPRouteRule, matches []v1beta1.HttpRouteMatch) *violation {
	var userPre []gw.HTTPRouteRule
	for _, r := range pre {
		if !canaryOnly(r) {
			userPre = append(userPre, r)
		}
	}
	idx, rest := alignSubsequence(userPre, post, func(u, p gw.HTTPRouteRule) bool {
		if !hasCanaryRef(u) {
			return reflect.DeepEqual(u, p)
		}
		// a rule that still carries a canary ref from a weight step: it must survive; whether the
		// canary ref / the stable weight is kept is not specified
		return !canaryOnly(p) && sameRuleModuloCanaryAndStableWeight(u, p)
	})
	for i, j := range idx {
		if j >= 0 {
			continue
		}
		u := userPre[i]
		sig := "match-user-rule-lost"
		if hasCanaryRef(u) {
			sig = sigMatchDropsCanaryRef
		} else if !refsService(u, stableSvc) && providerSees(u, stableSvc) {
			sig = sigForeignNs
		}
		return vio(sig, "match step: rule %s of the route is not kept unchanged (and in order)\nbefore=%s\nafter=%s", js(u), js(pre), js(post))
	}
	var stableRules []gw.HTTPRouteRule
	for _, r := range userPre {
		if refsService(r, stableSvc) {
			stableRules = append(stableRules, r)
		}
	}
	if len(rest) == 0 {
		return nil
	}
	ub := newUniBuilder()
	for _, r := range pre {
		for _, m := range r.Matches {
			ub.addMatch(m)
		}
	}
	for _, r := range post {
		for _, m := range r.Matches {
			ub.addMatch(m)
		}
	}
	for _, m := range matches {
		ub.addMatch(strategyMatchAsRouteMatch(m))
	}
	u := ub.build()
	sm := newStrategyModel(u, matches)
	cOrigins := make([][]cmatch, len(stableRules))
	for k := range stableRules {
		cOrigins[k] = u.compileAll(stableRules[k].Matches)
	}
	for _, j := range rest {
		g := post[j]
		if !canaryOnly(g) {
			sig := "match-generated-rule-not-canary-only"
			if !refsService(g, stableSvc) && providerSees(g, stableSvc) {
				sig = sigForeignNs
			}
			return vio(sig, "match step: rule %d after the step is neither a kept rule nor a canary-only rule: %s\nbefore=%s\nafter=%s", j, js(g), js(pre), js(post))
		}
		cg := u.compileAll(g.Matches)
		ok := false
		var cex request
		if len(stableRules) == 0 {
			ok, cex = sm.narrow(cg, nil)
		}
		for k := range stableRules {
			good, c := sm.narrow(cg, cOrigins[k])
			if good {
				ok = true
				break
			}
			if k == 0 {
				cex = c
			}
		}
		if !ok {
			sig := "match-canary-rule-too-wide"
			if pathBeforeNonPath(matches) {
				sig = sigMixedTooWide
			}
			return vio(sig, "match step: generated canary rule %d accepts request %s, which satisfies none of the strategy matches %s (header/query matches combined with a stable rule's own matches)\ncanary rule=%s\nbefore=%s", j, js(cex), js(matches), js(g), js(pre))
		}
	}
	return nil
}

// checkFinalise: "finalising removes every canary reference and generated rule while keeping
// every rule the user wrote." orig is the route before the first step. A rule the user wrote is
// kept when it is present with its matches, filters and non-canary backends and still splits
// its traffic as written (a sole stable backend with weight 1 routes exactly like weight 100;
// stable 1 / legacy 50 does not route like stable 50 / legacy 50).
func checkFinalise(orig, post []gw.HTTPRouteRule, check string) *violation {
	for j, r := range post {
		if hasCanaryRef(r) {
			return vio("finalise-canary-ref-left", "after Finalise rule %d still references the canary Service: %s", j, js(r))
		}
	}
	var user []gw.HTTPRouteRule
	for _, r := range orig {
		if canaryOnly(r) {
			continue // a leftover generated rule, not a rule the user wrote
		}
		user = append(user, r)
	}
	idx, rest := alignSubsequence(user, post, sameRuleModuloCanaryAndStableWeight)
	for i, j := range idx {
		if j >= 0 {
			continue
		}
		sig := "finalise-user-rule-lost"
		if len(user[i].BackendRefs) == 0 {
			sig = sigFinaliseBackendless
			if open(sig) {
				vlib.Excluded(check, sig)
				continue
			}
		} else if !refsService(user[i], stableSvc) && providerSees(user[i], stableSvc) {
			sig = sigForeignNs
		}
		return vio(sig, "after Finalise the user's rule %s is not present (same matches, filters and non-canary backends, in order)\noriginal=%s\nafter=%s", js(user[i]), js(orig), js(post))
	}
	if len(rest) > 0 {
		return vio("finalise-extra-rule", "after Finalise rule %d is not one of the user's rules: %s\noriginal=%s\nafter=%s", rest[0], js(post[rest[0]]), js(orig), js(post))
	}
	for i, j := range idx {
		if j < 0 {
			continue
		}
		a, b := withoutCanary(user[i].BackendRefs), post[j].BackendRefs
		if sameDistribution(a, b) {
			continue
		}
		if open(sigFinaliseShare) {
			vlib.Excluded(check, sigFinaliseShare)
			continue
		}
		return vio(sigFinaliseShare, "after Finalise the user's rule %d splits traffic differently from what the user wrote (weights are proportions)\noriginal backends=%s\nafter=%s", i, js(a), js(b))
	}
	return nil
}

// ---------- the property ----------

func runC13(t vlib.TB, c Case) {
	e := newEnv(c.Rules)
	orig := e.rules()
	for si, st := range c.Steps {
		pre := e.rules()
		r := e.ensure(st, 6)
		if r.panic_ != "" {
			vlib.Fail(t, chkC13, "ensure-panic", c, "step %d: EnsureRoutes panicked: %s", si, r.panic_)
		}
		if r.err != nil {
			// C13 makes no claim about a step the provider cannot apply (see c07-fixedpoint-gateway)
			vlib.Class(chkC13, "step-not-applied")
			return
		}
		if !r.done {
			// never reporting done is c07-fixedpoint-gateway's business; the route is still judged
			vlib.Class(chkC13, "step-never-reported-done")
		}
		post := e.rules()
		var v *violation
		if st.isMatch() {
			v = checkMatchStep(pre, post, st.Matches)
		} else {
			v = checkWeightStep(pre, post, st.weight())
		}
		if v != nil {
			vlib.Fail(t, chkC13, v.sig, c, "step %d (%s): %s", si, js(st), v.msg)
		}
	}
	_, _, err, pmsg := e.finalise(4)
	if pmsg != "" {
		vlib.Fail(t, chkC13, "finalise-panic", c, "Finalise panicked: %s", pmsg)
	}
	if err != nil {
		vlib.Class(chkC13, "finalise-error")
		return
	}
	if v := checkFinalise(orig, e.rules(), chkC13); v != nil {
		vlib.Fail(t, chkC13, v.sig, c, "%s", v.msg)
	}
	e.api.Writes = 0
	var modified bool
	p, msg := vlib.Guard(func() { modified, err = e.prov.Finalise(context.TODO()) })
	if p {
		vlib.Fail(t, chkC13, "finalise-panic", c, "second Finalise panicked: %s", msg)
	}
	if err != nil || modified || e.api.Writes != 0 {
		vlib.Fail(t, chkC13, "finalise-not-idempotent", c, "a further Finalise must report not-modified without writing: modified=%v err=%v writes=%d", modified, err, e.api.Writes)
	}
}

func caseSig(c Case) string { return js(c) }

func TestC13Gateway(t *testing.T) {
	var rc Case
	if ok, _ := vlib.LoadReplay(chkC13, &rc); ok {
		runC13(t, rc)
		return
	}
	rapid.Check(t, func(t *rapid.T) {
		c, nt, classes := genCase(t, chkC13)
		vlib.Record(chkC13, caseSig(c), nt, classes, func() any { return c })
		runC13(t, c)
	})
}
