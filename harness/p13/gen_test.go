package p13

// gen_test.go: the shared generator of C13 / C07(b)-gateway cases: an HTTPRoute as an API
// server would hand it out (CRD defaults applied, admitted by the gateway-api webhook) and a
// sequence of traffic strategies as the Rollout traffic manager passes them to the provider.

import (
	"fmt"
	"strings"

	"github.com/openkruise/rollouts/api/v1beta1"
	"pgregory.net/rapid"
	gw "sigs.k8s.io/gateway-api/apis/v1beta1"

	"verifharness/vlib"
)

// Step is one TrafficRoutingStrategy as DoTrafficRouting hands it to EnsureRoutes: Traffic is
// "N%" (validated by the Rollout webhook; RouteAllTrafficToNewVersion uses "100%"), Matches as
// the Rollout CRD stores them (defaults applied); never both empty (manager returns early).
type Step struct {
	Traffic *string                  `json:"traffic,omitempty"`
	Matches []v1beta1.HttpRouteMatch `json:"matches,omitempty"`
}

func (s Step) isMatch() bool { return len(s.Matches) > 0 }

func (s Step) weight() int32 {
	var w int32
	fmt.Sscanf(strings.TrimSuffix(*s.Traffic, "%"), "%d", &w)
	return w
}

// Case: the property is a pure function of it.
type Case struct {
	Rules []gw.HTTPRouteRule `json:"rules"`
	Steps []Step             `json:"steps"`
}

func ptr[T any](v T) *T { return &v }

// oneIn is true with probability about 1/n (rapid biases integer draws towards the bounds, so
// the event is a middle value).
func oneIn(t *rapid.T, l string, n int) bool {
	return rapid.IntRange(0, n-1).Draw(t, l) == n/2
}

// ---------- route ----------

var (
	routeHdrNames = []string{"x-env", "x-canary", "X-Env"}
	stratHdrNames = []string{"x-canary", "X-Canary", "x-env", "User-Agent"}
	queryNames    = []string{"user", "ver"}
)

func gPath(t *rapid.T, l string, allowDefault bool) *gw.HTTPPathMatch {
	lo := 1
	if allowDefault {
		lo = 0
	}
	switch rapid.IntRange(lo, 5).Draw(t, l+"-kind") {
	case 0:
		return &gw.HTTPPathMatch{Type: ptr(gw.PathMatchPathPrefix), Value: ptr("/")}
	case 1, 2:
		return &gw.HTTPPathMatch{Type: ptr(gw.PathMatchExact), Value: ptr(rapid.SampledFrom([]string{"/api", "/shop", "/api/v2"}).Draw(t, l+"-exact"))}
	case 3, 4:
		return &gw.HTTPPathMatch{Type: ptr(gw.PathMatchPathPrefix), Value: ptr(rapid.SampledFrom([]string{"/api", "/shop", "/api/v2", "/"}).Draw(t, l+"-prefix"))}
	}
	return &gw.HTTPPathMatch{Type: ptr(gw.PathMatchRegularExpression), Value: ptr(rapid.SampledFrom([]string{"/re/[a-z]+", "/api/v[0-9]"}).Draw(t, l+"-regex"))}
}

func gHeaders(t *rapid.T, l string, pool []string, min, max int) []gw.HTTPHeaderMatch {
	n := rapid.IntRange(min, max).Draw(t, l+"-n")
	var out []gw.HTTPHeaderMatch
	seen := map[string]bool{}
	for i := 0; i < n; i++ {
		name := rapid.SampledFrom(pool).Draw(t, l+"-name")
		if seen[strings.ToLower(name)] {
			continue // the webhook rejects a header matched twice (case-insensitive)
		}
		seen[strings.ToLower(name)] = true
		h := gw.HTTPHeaderMatch{Name: gw.HTTPHeaderName(name)}
		if oneIn(t, l+"-type", 4) {
			h.Type, h.Value = ptr(gw.HeaderMatchRegularExpression), "a.*"
		} else {
			h.Type, h.Value = ptr(gw.HeaderMatchExact), rapid.SampledFrom([]string{"true", "a"}).Draw(t, l+"-val")
		}
		out = append(out, h)
	}
	return out
}

func gQuery(t *rapid.T, l string, min, max int) []gw.HTTPQueryParamMatch {
	n := rapid.IntRange(min, max).Draw(t, l+"-n")
	var out []gw.HTTPQueryParamMatch
	seen := map[string]bool{}
	for i := 0; i < n; i++ {
		name := rapid.SampledFrom(queryNames).Draw(t, l+"-name")
		if seen[name] {
			continue
		}
		seen[name] = true
		q := gw.HTTPQueryParamMatch{Name: gw.HTTPHeaderName(name)}
		if oneIn(t, l+"-type", 4) {
			q.Type, q.Value = ptr(gw.QueryParamMatchRegularExpression), "b.*"
		} else {
			q.Type, q.Value = ptr(gw.QueryParamMatchExact), rapid.SampledFrom([]string{"1", "beta"}).Draw(t, l+"-val")
		}
		out = append(out, q)
	}
	return out
}

func gRouteMatch(t *rapid.T, l string) gw.HTTPRouteMatch {
	m := gw.HTTPRouteMatch{Path: gPath(t, l+"-path", true)}
	if oneIn(t, l+"-hashdr", 3) {
		m.Headers = gHeaders(t, l+"-hdr", routeHdrNames, 1, 2)
	}
	if oneIn(t, l+"-hasq", 4) {
		m.QueryParams = gQuery(t, l+"-q", 1, 2)
	}
	switch rapid.IntRange(0, 5).Draw(t, l+"-method") {
	case 0:
		m.Method = ptr(gw.HTTPMethodGet)
	case 1:
		m.Method = ptr(gw.HTTPMethodPost)
	}
	return m
}

type backendKind int

const (
	bStable backendKind = iota
	bCanary
	bForeign
	bForeign2
	bNonService // other group/kind, deliberately NAMED like the stable Service
	bStableOtherNs
)

func gBackend(t *rapid.T, l string, k backendKind) gw.HTTPBackendRef {
	ref := gw.HTTPBackendRef{}
	ref.Group, ref.Kind = ptr(gw.Group("")), ptr(gw.Kind("Service"))
	ref.Port = ptr(gw.PortNumber(rapid.SampledFrom([]int{80, 8080}).Draw(t, l+"-port")))
	ref.Weight = ptr(int32(rapid.SampledFrom([]int{0, 1, 1, 1, 50, 50, 100, 100, 100}).Draw(t, l+"-weight")))
	switch k {
	case bStable:
		ref.Name = stableSvc
	case bCanary:
		ref.Name = canarySvc
	case bForeign:
		ref.Name = "legacy"
	case bForeign2:
		ref.Name = "other"
		if rapid.Bool().Draw(t, l+"-ns") {
			ref.Namespace = ptr(gw.Namespace(otherNs))
		}
	case bNonService:
		ref.Group, ref.Kind = ptr(gw.Group("multicluster.x-k8s.io")), ptr(gw.Kind("ServiceImport"))
		ref.Name = gw.ObjectName(rapid.SampledFrom([]string{stableSvc, "imported"}).Draw(t, l+"-nsname"))
		if rapid.Bool().Draw(t, l+"-noport") {
			ref.Port = nil
		}
	case bStableOtherNs:
		ref.Name = stableSvc
		ref.Namespace = ptr(gw.Namespace(otherNs))
	}
	if oneIn(t, l+"-filter", 10) {
		ref.Filters = []gw.HTTPRouteFilter{{Type: gw.HTTPRouteFilterRequestHeaderModifier,
			RequestHeaderModifier: &gw.HTTPHeaderFilter{Set: []gw.HTTPHeader{{Name: "x-backend", Value: "b"}}}}}
	}
	return ref
}

type shape struct {
	name  string
	kinds []backendKind
}

var (
	shapeNone = shape{"none", nil}
	shapes    = []shape{
		{"S", []backendKind{bStable}}, {"S", []backendKind{bStable}}, {"S", []backendKind{bStable}}, {"S", []backendKind{bStable}},
		{"S+F", []backendKind{bStable, bForeign}}, {"S+F", []backendKind{bStable, bForeign}}, {"S+F+F", []backendKind{bStable, bForeign, bForeign2}},
		{"S+N", []backendKind{bStable, bNonService}},
		{"F", []backendKind{bForeign}}, {"F", []backendKind{bForeign2}}, {"F+F", []backendKind{bForeign, bForeign2}},
		{"F+N", []backendKind{bForeign, bNonService}}, {"N", []backendKind{bNonService}},
		{"C", []backendKind{bCanary}},
		{"Sx", []backendKind{bStableOtherNs}}, {"Sx+F", []backendKind{bStableOtherNs, bForeign}},
		shapeNone, shapeNone, shapeNone,
	}
	// rules that carry a (leftover) canary ref next to other backends
	mixedShapes = []shape{
		{"S+C", []backendKind{bStable, bCanary}}, {"S+C", []backendKind{bStable, bCanary}}, {"S+C+F", []backendKind{bStable, bCanary, bForeign}},
		{"C+F", []backendKind{bCanary, bForeign}},
	}
)

func gFilters(t *rapid.T, l string, backendless bool) []gw.HTTPRouteFilter {
	redirect := gw.HTTPRouteFilter{Type: gw.HTTPRouteFilterRequestRedirect,
		RequestRedirect: &gw.HTTPRequestRedirectFilter{Scheme: ptr("https"), StatusCode: ptr(301)}}
	if backendless && !oneIn(t, l+"-noredirect", 4) {
		return []gw.HTTPRouteFilter{redirect} // the usual reason for a rule without backends
	}
	cands := []gw.HTTPRouteFilter{
		{Type: gw.HTTPRouteFilterRequestHeaderModifier, RequestHeaderModifier: &gw.HTTPHeaderFilter{
			Set: []gw.HTTPHeader{{Name: "x-added", Value: "1"}}, Remove: []string{"x-gone"}}},
		{Type: gw.HTTPRouteFilterURLRewrite, URLRewrite: &gw.HTTPURLRewriteFilter{Hostname: ptr(gw.PreciseHostname("internal.example.com"))}},
		{Type: gw.HTTPRouteFilterRequestMirror, RequestMirror: &gw.HTTPRequestMirrorFilter{BackendRef: gw.BackendObjectReference{
			Group: ptr(gw.Group("")), Kind: ptr(gw.Kind("Service")), Name: "mirror", Port: ptr(gw.PortNumber(80))}}},
		{Type: gw.HTTPRouteFilterResponseHeaderModifier, ResponseHeaderModifier: &gw.HTTPHeaderFilter{
			Add: []gw.HTTPHeader{{Name: "x-resp", Value: "r"}}}},
	}
	n := rapid.SampledFrom([]int{0, 0, 0, 1, 1, 2}).Draw(t, l+"-n")
	var out []gw.HTTPRouteFilter
	used := map[gw.HTTPRouteFilterType]bool{}
	for i := 0; i < n; i++ {
		f := rapid.SampledFrom(cands).Draw(t, l+"-f")
		if used[f.Type] {
			continue
		}
		used[f.Type] = true
		out = append(out, *f.DeepCopy())
	}
	return out
}

func gRule(t *rapid.T, l string, sh shape) gw.HTTPRouteRule {
	var rule gw.HTTPRouteRule
	nm := rapid.SampledFrom([]int{1, 1, 2, 2, 3}).Draw(t, l+"-nmatch")
	for i := 0; i < nm; i++ {
		rule.Matches = append(rule.Matches, gRouteMatch(t, fmt.Sprintf("%s-m%d", l, i)))
	}
	rule.Filters = gFilters(t, l+"-filters", len(sh.kinds) == 0)
	if len(sh.kinds) > 0 {
		order := rapid.Permutation(sh.kinds).Draw(t, l+"-order")
		for i, k := range order {
			rule.BackendRefs = append(rule.BackendRefs, gBackend(t, fmt.Sprintf("%s-b%d", l, i), k))
		}
	}
	return rule
}

func maxRules() int {
	if vlib.Thorough() {
		return 8
	}
	return 5
}

func gRules(t *rapid.T, classes *[]string) []gw.HTTPRouteRule {
	sizes := []int{3, 2, 4, 2, 5, 3, 1, 4}
	if vlib.Thorough() {
		sizes = append(sizes, 6, 7, 8)
	}
	n := rapid.SampledFrom(sizes).Draw(t, "nrules")
	var rules []gw.HTTPRouteRule
	for i := 0; i < n; i++ {
		sh := rapid.SampledFrom(shapes).Draw(t, fmt.Sprintf("r%d-shape", i))
		// bias: the first rule targets stable, the second does not (the frame condition needs both)
		if i < 2 && rapid.IntRange(0, 9).Draw(t, fmt.Sprintf("r%d-bias", i)) < 7 {
			for tries := 0; tries < 8 && (sh.kinds != nil && sh.kinds[0] == bStable) != (i == 0); tries++ {
				sh = rapid.SampledFrom(shapes).Draw(t, fmt.Sprintf("r%d-shape%d", i, tries))
			}
		}
		if oneIn(t, fmt.Sprintf("r%d-mixed", i), 16) {
			sh = rapid.SampledFrom(mixedShapes).Draw(t, fmt.Sprintf("r%d-mixedshape", i))
		}
		if open(sigForeignNs) && (sh.name == "Sx" || sh.name == "Sx+F") {
			vlib.Excluded(currentCheck, sigForeignNs)
			sh = shape{"F", []backendKind{bForeign2}}
		}
		*classes = append(*classes, "rule-shape="+sh.name)
		rules = append(rules, gRule(t, fmt.Sprintf("r%d", i), sh))
	}
	rules = rapid.Permutation(rules).Draw(t, "rule-order")
	if err := validateRules(rules); err != nil {
		panic("harness bug: generated route is not admitted by the gateway-api webhook: " + err.Error())
	}
	return rules
}

// ---------- strategy ----------

func gStrategyMatch(t *rapid.T, l string) v1beta1.HttpRouteMatch {
	var m v1beta1.HttpRouteMatch
	kind := rapid.SampledFrom([]int{0, 0, 0, 0, 1, 1, 2, 2, 3, 3, 3, 3, 4, 4, 5, 6}).Draw(t, l+"-kind")
	if kind == 3 || kind == 4 || kind == 5 {
		m.Path = gPath(t, l+"-path", false)
	}
	if kind == 0 || kind == 2 || kind == 4 || kind == 5 {
		m.Headers = gHeaders(t, l+"-hdr", stratHdrNames, 1, 2)
	}
	if kind == 1 || kind == 2 || kind == 5 {
		m.QueryParams = gQuery(t, l+"-q", 1, 2)
	}
	return m
}

func maxStrategyMatches() int {
	if vlib.Thorough() {
		return 5
	}
	return 3
}

func gStrategyMatches(t *rapid.T, l string) []v1beta1.HttpRouteMatch {
	n := rapid.IntRange(1, maxStrategyMatches()).Draw(t, l+"-n")
	var out []v1beta1.HttpRouteMatch
	for i := 0; i < n; i++ {
		out = append(out, gStrategyMatch(t, fmt.Sprintf("%s-%d", l, i)))
	}
	return out
}

// providerSeesStable mirrors which rules the provider treats as stable rules (kind Service
// and the name, whatever namespace / group) — only used to predict where it adds canary refs.
func providerSees(rule gw.HTTPRouteRule, name string) bool {
	for _, r := range rule.BackendRefs {
		if r.Kind != nil && *r.Kind == "Service" && string(r.Name) == name {
			return true
		}
	}
	return false
}

// pathBeforeNonPath: some path match precedes some non-path match in the list.
func pathBeforeNonPath(ms []v1beta1.HttpRouteMatch) bool {
	seenPath := false
	for _, m := range ms {
		if m.Path != nil {
			seenPath = true
		} else if seenPath {
			return true
		}
	}
	return false
}

func stableRuleNames(rules []gw.HTTPRouteRule) (hdr map[string]bool, q map[string]bool) {
	hdr, q = map[string]bool{}, map[string]bool{}
	for _, r := range rules {
		if !providerSees(r, stableSvc) {
			continue
		}
		for _, m := range r.Matches {
			for _, h := range m.Headers {
				hdr[strings.ToLower(string(h.Name))] = true
			}
			for _, p := range m.QueryParams {
				q[string(p.Name)] = true
			}
		}
	}
	return
}

// collides: a non-path strategy match names a header / query parameter that a match of a
// stable rule already names (the provider appends both into one generated match).
func collides(ms []v1beta1.HttpRouteMatch, rules []gw.HTTPRouteRule) bool {
	hdr, q := stableRuleNames(rules)
	for _, m := range ms {
		if m.Path != nil {
			continue
		}
		for _, h := range m.Headers {
			if hdr[strings.ToLower(string(h.Name))] {
				return true
			}
		}
		for _, p := range m.QueryParams {
			if q[string(p.Name)] {
				return true
			}
		}
	}
	return false
}

func maxSteps() int {
	if vlib.Thorough() {
		return 8
	}
	return 5
}

func gSteps(t *rapid.T, rules []gw.HTTPRouteRule, classes *[]string) []Step {
	lens := []int{2, 3, 2, 4, 3, 1, 5, 2}
	if vlib.Thorough() {
		lens = append(lens, 6, 7, 8)
	}
	n := rapid.SampledFrom(lens).Draw(t, "nsteps")
	// does some rule carry a canary ref next to other backends right now?
	mixed := false
	anyStable := false
	for _, r := range rules {
		if providerSees(r, canarySvc) && !canaryOnly(r) {
			mixed = true
		}
		if providerSees(r, stableSvc) {
			anyStable = true
		}
	}
	// most sequences follow the usual plan "matches first, then weights" (with deviations)
	switchAt := 0
	if n >= 2 && rapid.SampledFrom([]bool{true, true, true, false}).Draw(t, "switch-inner") {
		switchAt = rapid.IntRange(1, n-1).Draw(t, "switch-at")
	} else {
		switchAt = rapid.SampledFrom([]int{n, 0}).Draw(t, "switch-end")
	}
	var steps []Step
	for i := 0; i < n; i++ {
		l := fmt.Sprintf("s%d", i)
		kinds := []string{"m", "m", "m", "m", "m", "m", "wm", "w", "w"}
		if i >= switchAt {
			kinds = []string{"w", "w", "w", "w", "w", "w", "w", "m", "wm"}
		}
		kind := rapid.SampledFrom(kinds).Draw(t, l+"-kind")
		if kind != "w" && mixed && open(sigMatchDropsCanaryRef) {
			vlib.Excluded(currentCheck, sigMatchDropsCanaryRef)
			kind = "w"
		}
		var st Step
		if kind == "w" || kind == "wm" {
			w := rapid.OneOf(rapid.SampledFrom([]int{0, 1, 20, 50, 99, 100}), rapid.IntRange(0, 100)).Draw(t, l+"-weight")
			st.Traffic = ptr(fmt.Sprintf("%d%%", w))
		}
		if kind == "m" || kind == "wm" {
			st.Matches = gStrategyMatches(t, l+"-matches")
			if pathBeforeNonPath(st.Matches) && anyStable && open(sigMixedTooWide) {
				vlib.Excluded(currentCheck, sigMixedTooWide)
				var non, path []v1beta1.HttpRouteMatch
				for _, m := range st.Matches {
					if m.Path == nil {
						non = append(non, m)
					} else {
						path = append(path, m)
					}
				}
				st.Matches = append(non, path...)
			}
			if collides(st.Matches, rules) && open(sigDuplicateName) {
				vlib.Excluded(currentCheck, sigDuplicateName)
				hdr, q := stableRuleNames(rules)
				for mi := range st.Matches {
					if st.Matches[mi].Path != nil {
						continue
					}
					for hi := range st.Matches[mi].Headers {
						if hdr[strings.ToLower(string(st.Matches[mi].Headers[hi].Name))] {
							st.Matches[mi].Headers[hi].Name = gw.HTTPHeaderName(fmt.Sprintf("x-release-%d", hi))
						}
					}
					for qi := range st.Matches[mi].QueryParams {
						if q[string(st.Matches[mi].QueryParams[qi].Name)] {
							st.Matches[mi].QueryParams[qi].Name = gw.HTTPHeaderName(fmt.Sprintf("rel%d", qi))
						}
					}
				}
			}
		}
		if !st.isMatch() && anyStable {
			mixed = true // a weight step puts a canary ref next to the stable ref
		}
		steps = append(steps, st)
	}
	return steps
}

func strategyClass(ms []v1beta1.HttpRouteMatch) string {
	var p, h, q, e bool
	for _, m := range ms {
		switch {
		case m.Path != nil:
			p = true
		case len(m.Headers) > 0 && len(m.QueryParams) > 0:
			h, q = true, true
		case len(m.Headers) > 0:
			h = true
		case len(m.QueryParams) > 0:
			q = true
		default:
			e = true
		}
	}
	switch {
	case p && (h || q || e):
		if pathBeforeNonPath(ms) {
			return "matches=mixed-path-first"
		}
		return "matches=mixed-nonpath-first"
	case p:
		return "matches=path-only"
	case h && q:
		return "matches=header+query"
	case h:
		return "matches=header-only"
	case q:
		return "matches=query-only"
	}
	return "matches=empty-match"
}

// currentCheck names the sub-check the generator is drawing for (Excluded counters).
var currentCheck = chkC13

func genCase(t *rapid.T, check string) (Case, bool, []string) {
	currentCheck = check
	var classes []string
	c := Case{}
	c.Rules = gRules(t, &classes)
	c.Steps = gSteps(t, c.Rules, &classes)

	stable, nonStable := 0, 0
	for _, r := range c.Rules {
		if refsService(r, stableSvc) {
			stable++
		} else {
			nonStable++
		}
	}
	nw, nm := 0, 0
	seq := ""
	for _, s := range c.Steps {
		if s.isMatch() {
			nm++
			seq += "m"
			classes = append(classes, strategyClass(s.Matches))
			if s.Traffic != nil {
				classes = append(classes, "step=matches+traffic")
			}
		} else {
			nw++
			seq += "w"
			switch s.weight() {
			case 0:
				classes = append(classes, "weight=0")
			case 100:
				classes = append(classes, "weight=100")
			default:
				classes = append(classes, "weight=1..99")
			}
		}
	}
	classes = append(classes, fmt.Sprintf("rules=%d", len(c.Rules)), fmt.Sprintf("stable-rules=%d", min(stable, 3)), fmt.Sprintf("steps=%d", len(c.Steps)))
	if len(seq) <= 3 {
		classes = append(classes, "seq="+seq)
	}
	if nw > 0 && nm > 0 {
		classes = append(classes, "seq-both-kinds")
	}
	nt := len(c.Rules) >= 2 && nonStable >= 1 && stable >= 1 && nw > 0 && nm > 0
	return c, nt, classes
}
