# Snippet for /verif/checks_config.py (uses rp() defined there).
# 1. CHECKS["C13"] = C13
# 2. append C07_GATEWAY_SUBCHECK to CHECKS["C07"]["subchecks"]
# 3. merge KNOWN_FINDINGS into /verif/known_findings.json "findings"

C13 = {
    "level": "exploration",
    "engine": "E2",
    "technique": ("property-based testing (rapid): the real Gateway API provider (NewGatewayTrafficRouting / EnsureRoutes / Finalise) on a "
                  "controller-runtime fake client that applies HTTPRoute CRD defaulting and the real gateway-api admission validation; oracle = "
                  "request-level reference model of HTTPRoute matching over a finite request universe + frame conditions + finalise round trip"),
    "level_text": ("Generated-input search: tens of thousands of admitted HTTPRoutes (1..5 rules, 1..3 matches each, filters, backend-less rules, "
                   "stable / leftover-canary / foreign / other-kind / other-namespace backends, weights 0/1/50/100) x strategy sequences (1..5 steps mixing "
                   "weight N% and match lists of path / header / query matchers in any order, matches+traffic steps) are driven through the real provider, "
                   "every EnsureRoutes repeated until it reports done, then Finalise. After every step the stored HTTPRoute is judged against the "
                   "property: exact 100-w / w split with every other backend and every unrelated rule byte-identical; user rules kept by a match step; "
                   "every generated canary rule canary-only and, for every request of a finite universe built from the constants of route and strategy, "
                   "accepted only if the request satisfies a strategy match (path matches standalone, header/query matches together with a match of a "
                   "stable rule); after Finalise no canary reference, no generated rule, every user rule present and splitting traffic as written; a "
                   "further Finalise reports not-modified without writing. The provider is a pure function of (stored route, strategy), so input "
                   "generation with a reference model is the fitting level; absence of defects is not established."),
    "level_note": ("Trusted: the harness's evaluator of Gateway API matching (Exact / PathPrefix by path element / regular expressions via Go regexp, "
                   "case-insensitive header names, first entry wins), the classification 'rule the user wrote' = not canary-only, and the API-server "
                   "model (fake client + v0.7.1 CRD defaults + sigs.k8s.io/gateway-api/apis/v1beta1/validation). Completeness of the generated canary "
                   "rules (every request satisfying a strategy match reaches canary) is not part of the statement and is not asserted."),
    "rule": ("rapid generators: HTTPRoute rules from backend shapes {S, S+F, S+F+F, S+N, S+C, S+C+F, F, F+F, F+N, N, C, C+F, Sx (stable name in another "
             "namespace), none} in drawn order with weights {0,1,50,100}, ports, backend filters; matches from path Exact/PathPrefix/RegularExpression x "
             "0..2 headers x 0..2 query params x method; 0..2 rule filters (RequestRedirect on backend-less rules); strategies: 'N%' (0..100), match "
             "lists (header-only, query-only, header+query, path-only, path+header(+query), empty match; 1..3 matches) and matches+traffic; sequences "
             "biased to 'matches first, then weights' with deviations. Non-trivial: >= 2 rules with >= 1 referencing and >= 1 not referencing the "
             "stable Service, and a sequence containing a weight step and a match step; distinct by hash of the whole case."),
    "assumptions": [
        "HTTPRoute as an API server hands it out: CRD defaults applied (kind Service, group \"\", weight 1, path PathPrefix '/', matcher type Exact), >= 1 match per rule, admitted by gateway-api's validating webhook (Service backends carry a port, a header / query parameter named once per match).",
        "Strategies as DoTrafficRouting passes them: traffic 'N%' with 0 <= N <= 100 (Rollout webhook), matches with Rollout-CRD defaults applied, never both empty, matches take precedence when both are set; a header named once (case-insensitively) inside one strategy match.",
        "Canary Service name = <stable>-canary (Rollout controller). The TrafficRouting-CR configuration where canary == stable Service is outside the statement (probe: a match step then deletes every rule of that Service).",
        "A rule whose backends are all the canary Service is treated as a generated (leftover) rule, every other rule of the initial route as a rule the user wrote.",
        "Finalise oracle compares traffic shares (weights as proportions), so a sole stable backend rewritten to weight 1 is not a difference.",
    ],
    "subchecks": [
        {"name": "c13-gateway", "pkg": "p13", "test": "TestC13Gateway",
         "quick": rp(48000, 16, timeout=600), "thorough": rp(320000, 16, timeout=1500, shrinktime="120s")},
    ],
}

# C07 (b), gateway provider: after EnsureRoutes returned true the next call with the same strategy
# writes nothing and returns true; calls until true <= 3 (an error on every call is a livelock);
# Finalise reports not-modified by the 2nd call and a further call writes nothing.
C07_GATEWAY_SUBCHECK = {"name": "c07-fixedpoint-gateway", "pkg": "p13", "test": "TestC07FixedPointGateway",
                        "quick": rp(32000, 16, timeout=600), "thorough": rp(160000, 16, timeout=1500, shrinktime="120s")}

C07_GATEWAY_ASSUMPTIONS = [
    "Gateway provider fixed point: same generator and API-server model as C13 (fake client + HTTPRoute CRD defaults + real gateway-api admission validation); writes counted on Create/Update/Patch/Delete and sub-resource writes.",
]

KNOWN_FINDINGS = [
    {"property": "C13", "sig": "match-too-wide-path-match-before-header-match",
     "replay": "harness/p13/findings/match-too-wide-path-match-before-header-match.json",
     "description": ("gateway buildCanaryHeaderHttpRoutes indexes matches[k] while ranging over nonPathMatches: for step matches [path /api, header x-canary=true] "
                     "the generated canary rule gets matches [Exact /api, <original rule's match unchanged>], i.e. it accepts every request of the original rule "
                     "and the header condition is lost. Reachable: step.matches is not validated. Fix: nonPathMatches[k] "
                     "(proposed-fix-match-too-wide-path-match-before-header-match.diff).")},
    {"property": "C13", "sig": "match-step-drops-rule-with-canary-ref",
     "replay": "harness/p13/findings/match-step-drops-rule-with-canary-ref.json",
     "description": ("gateway buildCanaryHeaderHttpRoutes skips every rule carrying a canary backendRef: steps [{traffic: 20%}, {matches: [...]}] delete the user's "
                     "rule (route left without rules, Finalise cannot restore it). Reachable: the controller applies each step's strategy without a restore in between.")},
    {"property": "C13", "sig": "finalise-drops-backendless-rule",
     "replay": "harness/p13/findings/finalise-drops-backendless-rule.json",
     "description": "gateway Finalise drops every rule without backendRefs, so a RequestRedirect rule of the same HTTPRoute is deleted when any rollout finishes."},
    {"property": "C13", "sig": "finalise-stable-share-changed",
     "replay": "harness/p13/findings/finalise-stable-share-changed.json",
     "description": ("gateway Finalise sets the stable backend's weight to 1 whatever the user wrote: stable 50 / legacy 50 becomes stable 1 / legacy 50 (2% / 98%). "
                     "No small repair: the original weight is overwritten by the weight step and stored nowhere.")},
    {"property": "C13", "sig": "foreign-namespace-service-treated-as-stable",
     "replay": "harness/p13/findings/foreign-namespace-service-treated-as-stable.json",
     "description": ("gateway getServiceBackendRef compares kind and name only: a backendRef to Service other-ns/<stable name> (or another API group) is split as if it were "
                     "the stable Service and gets a canary ref into the other namespace.")},
    {"property": "C07", "sig": "ensure-rejected-duplicate-match-name",
     "replay": "harness/p13/findings/ensure-rejected-duplicate-match-name.json",
     "description": ("gateway match step appends the strategy's header/query matchers to the stable rule's own: when both name the same header (rule matches x-env=a, step matches "
                     "x-env=true) the generated match names it twice, the Gateway API admission webhook rejects the update and EnsureRoutes fails on every reconcile.")},
]
