// Package p13 holds the checks of property C13 (Gateway API provider) and the gateway part of
// C07 (b) (provider fixed point).
//
// apiserver.go: the small model of the API server the provider talks to. It is the
// controller-runtime fake client plus what a real API server adds for HTTPRoute writes and the
// provider can observe: the gateway-api admission webhook (the REAL
// sigs.k8s.io/gateway-api/apis/v1beta1/validation code), CRD structural defaulting of the
// HTTPRoute schema (v0.7.1), and a write log.
package p13

import (
	"context"
	"fmt"

	apierrors "k8s.io/apimachinery/pkg/api/errors"
	"k8s.io/apimachinery/pkg/runtime/schema"
	"sigs.k8s.io/controller-runtime/pkg/client"
	gw "sigs.k8s.io/gateway-api/apis/v1beta1"
	gwvalidation "sigs.k8s.io/gateway-api/apis/v1beta1/validation"
)

// apiClient wraps a client.Client: counts writes, applies HTTPRoute admission on Update/Create.
type apiClient struct {
	client.Client
	Writes   int      // Create/Update/Patch/Delete/DeleteAllOf + sub-resource writes
	Rejected []string // admission rejections (message of each)
}

func (c *apiClient) admit(obj client.Object) error {
	r, ok := obj.(*gw.HTTPRoute)
	if !ok {
		return nil
	}
	defaultHTTPRoute(r)
	if errs := gwvalidation.ValidateHTTPRoute(r); len(errs) > 0 {
		msg := errs.ToAggregate().Error()
		c.Rejected = append(c.Rejected, msg)
		return apierrors.NewInvalid(schema.GroupKind{Group: gw.GroupName, Kind: "HTTPRoute"}, r.Name, errs)
	}
	return nil
}

func (c *apiClient) Create(ctx context.Context, obj client.Object, opts ...client.CreateOption) error {
	c.Writes++
	if err := c.admit(obj); err != nil {
		return err
	}
	return c.Client.Create(ctx, obj, opts...)
}

func (c *apiClient) Update(ctx context.Context, obj client.Object, opts ...client.UpdateOption) error {
	c.Writes++
	if err := c.admit(obj); err != nil {
		return err
	}
	return c.Client.Update(ctx, obj, opts...)
}

func (c *apiClient) Patch(ctx context.Context, obj client.Object, patch client.Patch, opts ...client.PatchOption) error {
	c.Writes++
	return c.Client.Patch(ctx, obj, patch, opts...)
}

func (c *apiClient) Delete(ctx context.Context, obj client.Object, opts ...client.DeleteOption) error {
	c.Writes++
	return c.Client.Delete(ctx, obj, opts...)
}

func (c *apiClient) DeleteAllOf(ctx context.Context, obj client.Object, opts ...client.DeleteAllOfOption) error {
	c.Writes++
	return c.Client.DeleteAllOf(ctx, obj, opts...)
}

type countingSub struct {
	client.SubResourceWriter
	c *apiClient
}

func (s countingSub) Create(ctx context.Context, obj client.Object, sub client.Object, opts ...client.SubResourceCreateOption) error {
	s.c.Writes++
	return s.SubResourceWriter.Create(ctx, obj, sub, opts...)
}
func (s countingSub) Update(ctx context.Context, obj client.Object, opts ...client.SubResourceUpdateOption) error {
	s.c.Writes++
	return s.SubResourceWriter.Update(ctx, obj, opts...)
}
func (s countingSub) Patch(ctx context.Context, obj client.Object, patch client.Patch, opts ...client.SubResourcePatchOption) error {
	s.c.Writes++
	return s.SubResourceWriter.Patch(ctx, obj, patch, opts...)
}

func (c *apiClient) Status() client.SubResourceWriter {
	return countingSub{c.Client.Status(), c}
}

// defaultHTTPRoute applies the defaults of the HTTPRoute CRD schema (gateway-api v0.7.1,
// config/crd/standard) in place, as the API server does on every write and read.
func defaultHTTPRoute(r *gw.HTTPRoute) {
	for i := range r.Spec.Rules {
		defaultRule(&r.Spec.Rules[i])
	}
}

func defaultRule(rule *gw.HTTPRouteRule) {
	if rule.Matches == nil {
		rule.Matches = []gw.HTTPRouteMatch{{}}
	}
	for j := range rule.Matches {
		defaultMatch(&rule.Matches[j])
	}
	for j := range rule.Filters {
		defaultFilter(&rule.Filters[j])
	}
	for j := range rule.BackendRefs {
		ref := &rule.BackendRefs[j]
		defaultBackendObjRef(&ref.BackendObjectReference)
		if ref.Weight == nil {
			one := int32(1)
			ref.Weight = &one
		}
		for k := range ref.Filters {
			defaultFilter(&ref.Filters[k])
		}
	}
}

func defaultBackendObjRef(b *gw.BackendObjectReference) {
	if b.Group == nil {
		g := gw.Group("")
		b.Group = &g
	}
	if b.Kind == nil {
		k := gw.Kind("Service")
		b.Kind = &k
	}
}

func defaultFilter(f *gw.HTTPRouteFilter) {
	if f.RequestRedirect != nil && f.RequestRedirect.StatusCode == nil {
		c := 302
		f.RequestRedirect.StatusCode = &c
	}
	if f.RequestMirror != nil {
		defaultBackendObjRef(&f.RequestMirror.BackendRef)
	}
}

func defaultMatch(m *gw.HTTPRouteMatch) {
	if m.Path == nil {
		m.Path = &gw.HTTPPathMatch{}
	}
	if m.Path.Type == nil {
		t := gw.PathMatchPathPrefix
		m.Path.Type = &t
	}
	if m.Path.Value == nil {
		v := "/"
		m.Path.Value = &v
	}
	for k := range m.Headers {
		if m.Headers[k].Type == nil {
			t := gw.HeaderMatchExact
			m.Headers[k].Type = &t
		}
	}
	for k := range m.QueryParams {
		if m.QueryParams[k].Type == nil {
			t := gw.QueryParamMatchExact
			m.QueryParams[k].Type = &t
		}
	}
}

func validateRules(rules []gw.HTTPRouteRule) error {
	r := &gw.HTTPRoute{Spec: gw.HTTPRouteSpec{Rules: rules}}
	if errs := gwvalidation.ValidateHTTPRoute(r); len(errs) > 0 {
		return fmt.Errorf("%s", errs.ToAggregate().Error())
	}
	return nil
}
