package p13

// C07 (b), gateway provider: "Every traffic provider reaches a fixed point: re-applying the
// same step changes nothing and reports done". After EnsureRoutes has once returned true the
// next call with the same strategy performs zero writes and returns true; the number of calls
// until true is <= 3; Finalise reaches "not modified" within 3 calls and a further Finalise
// reports not-modified without writing.

import (
	"context"
	"strings"
	"testing"

	"pgregory.net/rapid"

	"verifharness/vlib"
)

const chkC07 = "c07-fixedpoint-gateway"

func runC07(t vlib.TB, c Case) {
	e := newEnv(c.Rules)
	for si, st := range c.Steps {
		r := e.ensure(st, 3)
		if r.panic_ != "" {
			vlib.Fail(t, chkC07, "ensure-panic", c, "step %d: EnsureRoutes panicked: %s", si, r.panic_)
		}
		if r.err != nil {
			sig := "ensure-error"
			if len(e.api.Rejected) > 0 && strings.Contains(e.api.Rejected[len(e.api.Rejected)-1], "multiple times") {
				sig = sigDuplicateName
			}
			// an error that persists is a livelock: the same call is repeated by every reconcile
			r2 := e.ensure(st, 1)
			if r2.err != nil {
				vlib.Fail(t, chkC07, sig, c, "step %d (%s): EnsureRoutes fails on every call, the step can never report done: %v", si, js(st), r2.err)
			}
			vlib.Fail(t, chkC07, "ensure-transient-error", c, "step %d (%s): EnsureRoutes returned an error without any injected fault: %v", si, js(st), r.err)
		}
		if !r.done {
			vlib.Fail(t, chkC07, "ensure-not-converging", c, "step %d (%s): EnsureRoutes has not returned true after %d calls\nroute=%s", si, js(st), r.calls, js(e.rules()))
		}
		before := js(e.rules())
		e.api.Writes = 0
		r = e.ensure(st, 1)
		if r.panic_ != "" {
			vlib.Fail(t, chkC07, "ensure-panic", c, "step %d: EnsureRoutes panicked when re-applied: %s", si, r.panic_)
		}
		if r.err != nil || !r.done || e.api.Writes != 0 || js(e.rules()) != before {
			vlib.Fail(t, chkC07, "ensure-not-fixed-point", c, "step %d (%s): re-applying the step after it reported done: done=%v err=%v writes=%d\nroute before=%s\nroute after=%s", si, js(st), r.done, r.err, e.api.Writes, before, js(e.rules()))
		}
	}
	modified, calls, err, pmsg := e.finalise(3)
	if pmsg != "" {
		vlib.Fail(t, chkC07, "finalise-panic", c, "Finalise panicked: %s", pmsg)
	}
	if err != nil {
		vlib.Fail(t, chkC07, "finalise-error", c, "Finalise returned an error without any injected fault: %v", err)
	}
	if modified {
		vlib.Fail(t, chkC07, "finalise-not-converging", c, "Finalise still reports modified after %d calls\nroute=%s", calls, js(e.rules()))
	}
	if calls > 2 {
		vlib.Fail(t, chkC07, "finalise-second-call-modifies", c, "the second Finalise must report not-modified, it took %d calls", calls)
	}
	before := js(e.rules())
	e.api.Writes = 0
	p, msg := vlib.Guard(func() { modified, err = e.prov.Finalise(context.TODO()) })
	if p {
		vlib.Fail(t, chkC07, "finalise-panic", c, "Finalise panicked when repeated: %s", msg)
	}
	if err != nil || modified || e.api.Writes != 0 || js(e.rules()) != before {
		vlib.Fail(t, chkC07, "finalise-not-fixed-point", c, "repeated Finalise: modified=%v err=%v writes=%d", modified, err, e.api.Writes)
	}
}

func TestC07FixedPointGateway(t *testing.T) {
	var rc Case
	if ok, _ := vlib.LoadReplay(chkC07, &rc); ok {
		runC07(t, rc)
		return
	}
	rapid.Check(t, func(t *rapid.T) {
		c, _, classes := genCase(t, chkC07)
		// non-trivial for the fixed point: some step has to change the route
		nt := false
		for _, r := range c.Rules {
			if providerSees(r, stableSvc) || providerSees(r, canarySvc) {
				nt = true
			}
		}
		vlib.Record(chkC07, caseSig(c), nt, classes, func() any { return c })
		runC07(t, c)
	})
}
