package p14

import (
	"fmt"
	"os"
	"reflect"
	"sort"
	"strings"

	"github.com/openkruise/rollouts/api/v1beta1"
	corev1 "k8s.io/api/core/v1"
	netv1 "k8s.io/api/networking/v1"
	metav1 "k8s.io/apimachinery/pkg/apis/meta/v1"
	"pgregory.net/rapid"
	gatewayv1beta1 "sigs.k8s.io/gateway-api/apis/v1beta1"

	"verifharness/vlib"
)

// Case is one scenario: a stable Ingress as an API server would hand it out, the provider
// configuration the traffic-routing manager would build, and the sequence of step strategies.
type Case struct {
	Class     string `json:"class"`     // spec...ingress.classType ("" means nginx)
	ScriptSrc string `json:"scriptSrc"` // "file" | "configmap" | "configmap-otherkey"
	StableSvc string `json:"stableSvc"`
	CanarySvc string `json:"canarySvc"`
	Stable    *netv1.Ingress                   `json:"stable"`
	Steps     []v1beta1.TrafficRoutingStrategy `json:"steps"`
}

const ns = "ns1"

func effClass(c string) string {
	if c == "" {
		return "nginx"
	}
	return c
}

// annotation prefix a class script writes its canary keys under
func classPrefix(class string) string {
	if effClass(class) == "aliyun-alb" {
		return "alb.ingress.kubernetes.io"
	}
	return "nginx.ingress.kubernetes.io"
}

func gBool(t *rapid.T, l string) bool { return rapid.Bool().Draw(t, l) }

// chance returns true with probability about pct/100; shrinking moves towards false.
func chance(t *rapid.T, pct int, l string) bool { return rapid.IntRange(0, 99).Draw(t, l) >= 100-pct }

func pick[T any](t *rapid.T, l string, xs ...T) T { return rapid.SampledFrom(xs).Draw(t, l) }

func gSubset(t *rapid.T, l string, pool []string, vals []string) map[string]string {
	m := map[string]string{}
	for _, k := range pool {
		if gBool(t, l+"-has") {
			m[k] = pick(t, l+"-val", vals...)
		}
	}
	return m
}

// gAnnotations draws the annotations of the stable Ingress. kind is recorded for the histogram.
func gAnnotations(t *rapid.T, chk, class string) (map[string]string, string) {
	kind := pick(t, "ann-kind", "none", "unrelated", "canary-looking", "class-specific", "mixed")
	if kind == "none" && effClass(class) == "mse" && knownOpen[sigMseNilAnnotations] {
		vlib.Excluded(chk, sigMseNilAnnotations)
		kind = "unrelated"
	}
	p := classPrefix(class)
	unrelated := []string{"kubernetes.io/ingress.class", "example.com/owner", "kubectl.kubernetes.io/last-applied-configuration", "1"}
	canaryLooking := []string{
		p + "/canary", p + "/canary-weight", p + "/canary-by-header", p + "/canary-by-header-value",
		p + "/canary-by-header-pattern", p + "/canary-by-cookie", p + "/canary-weight-total",
	}
	var specific []string
	switch effClass(class) {
	case "mse":
		canaryLooking = append(canaryLooking, "mse.ingress.kubernetes.io/canary-by-query", "mse.ingress.kubernetes.io/canary-by-query-value",
			"nginx.ingress.kubernetes.io/canary-by-query", "nginx.ingress.kubernetes.io/canary-by-query-pattern",
			"mse.ingress.kubernetes.io/request-header-control-update")
		specific = []string{"mse.ingress.kubernetes.io/service-subset", "mse.ingress.kubernetes.io/subset-labels"}
	case "aliyun-alb":
		specific = []string{"alb.ingress.kubernetes.io/order", "alb.ingress.kubernetes.io/listen-ports"}
	case "higress":
		specific = []string{"higress.io/destination", "nginx.ingress.kubernetes.io/rewrite-target"}
	default:
		specific = []string{"nginx.ingress.kubernetes.io/rewrite-target", "nginx.ingress.kubernetes.io/use-regex"}
	}
	vals := []string{"true", "30", "x", "{\"a\":1}", "v1", "5"}
	var m map[string]string
	switch kind {
	case "none":
		return nil, kind
	case "unrelated":
		m = gSubset(t, "ann-u", unrelated, vals)
	case "canary-looking":
		m = gSubset(t, "ann-c", canaryLooking, vals)
	case "class-specific":
		m = gSubset(t, "ann-s", specific, vals)
	default:
		m = gSubset(t, "ann-m", append(append(append([]string{}, unrelated[:2]...), canaryLooking[:5]...), specific...), vals)
	}
	if len(m) == 0 {
		// an API server never returns an empty annotations map; make the kind non-empty instead
		switch kind {
		case "unrelated":
			m[unrelated[0]] = "x"
		case "canary-looking":
			m[canaryLooking[1]] = "30"
		default:
			m[specific[0]] = "v1"
		}
	}
	return m, kind
}

// gBackend draws a backend; inPath tells whether it belongs to a rule path (buildCanaryIngress
// only walks rule paths, the default backend is never looked at).
func gBackend(t *rapid.T, chk, stable string, inPath bool, hist *[]string) netv1.IngressBackend {
	k := pick(t, "backend-kind", "stable", "stable", "stable", "other", "other", "resource")
	if k == "resource" && inPath && knownOpen[sigResourceBackend] {
		vlib.Excluded(chk, sigResourceBackend)
		k = "other"
	}
	*hist = append(*hist, k)
	if k == "resource" {
		g := "k8s.example.com"
		return netv1.IngressBackend{Resource: &corev1.TypedLocalObjectReference{APIGroup: &g, Kind: "StorageBucket", Name: "static-assets"}}
	}
	name := stable
	if k == "other" {
		name = pick(t, "other-svc", "other", stable+"-canary", stable+"2")
	}
	b := netv1.IngressBackend{Service: &netv1.IngressServiceBackend{Name: name}}
	if gBool(t, "port-named") {
		b.Service.Port.Name = pick(t, "port-name", "http", "web")
	} else {
		b.Service.Port.Number = int32(pick(t, "port-num", 80, 8080, 443))
	}
	return b
}

// gIngress draws a networking.k8s.io/v1 Ingress admitted by API validation: a rule may lack the
// http section (host-only rule), a path backend is exactly one of service / resource, pathType
// is set, spec has a default backend or at least one rule.
func gIngress(t *rapid.T, chk, class, stable string) (*netv1.Ingress, []string) {
	var cls []string
	ing := &netv1.Ingress{
		TypeMeta:   metav1.TypeMeta{APIVersion: "networking.k8s.io/v1", Kind: "Ingress"},
		ObjectMeta: metav1.ObjectMeta{Namespace: ns, Name: pick(t, "ing-name", "web", "shop-ing")},
	}
	var akind string
	ing.Annotations, akind = gAnnotations(t, chk, class)
	cls = append(cls, "ann="+akind)
	switch pick(t, "labels", "none", "one", "two") {
	case "one":
		ing.Labels = map[string]string{"app": "web"}
	case "two":
		ing.Labels = map[string]string{"app": "web", "team": "a"}
	}
	if gBool(t, "class-name") {
		cn := effClass(class)
		ing.Spec.IngressClassName = &cn
	}
	var bk []string
	nrules := rapid.IntRange(0, 4).Draw(t, "rules")
	if nrules == 0 || chance(t, 25, "default-backend") {
		b := gBackend(t, chk, stable, false, &bk)
		ing.Spec.DefaultBackend = &b
		cls = append(cls, "default-backend="+bk[0])
		bk = nil
	}
	for i, n := 0, rapid.IntRange(0, 2).Draw(t, "tls"); i < n; i++ {
		ing.Spec.TLS = append(ing.Spec.TLS, netv1.IngressTLS{Hosts: []string{pick(t, "tls-host", "a.example.com", "*.foo.com")}, SecretName: fmt.Sprintf("tls-%d", i)})
	}
	if len(ing.Spec.TLS) > 0 {
		cls = append(cls, "tls")
	}
	noHTTP, stablePaths := 0, 0
	for i := 0; i < nrules; i++ {
		r := netv1.IngressRule{Host: pick(t, "host", "", "a.example.com", "b.example.com", "*.foo.com")}
		hasHTTP := !chance(t, 15, "rule-without-http")
		if !hasHTTP && knownOpen[sigNoHTTP] {
			vlib.Excluded(chk, sigNoHTTP)
			hasHTTP = true
		}
		if !hasHTTP {
			noHTTP++
			if r.Host == "" { // a rule with neither host nor http is pointless but admitted; keep it rare
				r.Host = "c.example.com"
			}
		} else {
			r.HTTP = &netv1.HTTPIngressRuleValue{}
			for j, np := 0, rapid.IntRange(1, 3).Draw(t, "paths"); j < np; j++ {
				pt := pick(t, "path-type", netv1.PathTypePrefix, netv1.PathTypeExact, netv1.PathTypeImplementationSpecific)
				pth := pick(t, "path", "/", "/api", "/v2/x")
				if pt == netv1.PathTypeImplementationSpecific && chance(t, 20, "empty-path") {
					pth = ""
				}
				p := netv1.HTTPIngressPath{Path: pth, PathType: &pt, Backend: gBackend(t, chk, stable, true, &bk)}
				if bk[len(bk)-1] == "stable" {
					stablePaths++
				}
				r.HTTP.Paths = append(r.HTTP.Paths, p)
			}
		}
		ing.Spec.Rules = append(ing.Spec.Rules, r)
	}
	cls = append(cls, fmt.Sprintf("rules=%d", nrules))
	if noHTTP > 0 {
		cls = append(cls, "has-rule-without-http")
	}
	seen := map[string]bool{}
	for _, k := range bk {
		if !seen[k] {
			seen[k] = true
			cls = append(cls, "path-backend="+k)
		}
	}
	if len(seen) > 1 {
		cls = append(cls, "mixed-backends")
	}
	switch {
	case stablePaths == 0:
		cls = append(cls, "stable-paths=0")
	case stablePaths == 1:
		cls = append(cls, "stable-paths=1")
	default:
		cls = append(cls, "stable-paths>=2")
	}
	return ing, cls
}

var (
	hExact = gatewayv1beta1.HeaderMatchExact
	hRegex = gatewayv1beta1.HeaderMatchRegularExpression
	qExact = gatewayv1beta1.QueryParamMatchExact
	qRegex = gatewayv1beta1.QueryParamMatchRegularExpression
)

func gHeader(t *rapid.T, kind string) gatewayv1beta1.HTTPHeaderMatch {
	switch kind {
	case "cookie":
		return gatewayv1beta1.HTTPHeaderMatch{Type: &hExact, Name: "canary-by-cookie", Value: pick(t, "cookie", "user_from_hz", "beta")}
	case "header-regex":
		return gatewayv1beta1.HTTPHeaderMatch{Type: &hRegex, Name: gatewayv1beta1.HTTPHeaderName(pick(t, "hname", "user-agent", "X-Canary")), Value: pick(t, "hregex", "^mobile.*", ".*(Android|iPhone).*", "a b")}
	}
	return gatewayv1beta1.HTTPHeaderMatch{Type: &hExact, Name: gatewayv1beta1.HTTPHeaderName(pick(t, "hname", "user-agent", "X-Canary")), Value: pick(t, "hval", "pc", "true", "v2", "q\"uo te", "üñ")}
}

func gQuery(t *rapid.T, regex bool) gatewayv1beta1.HTTPQueryParamMatch {
	if regex {
		return gatewayv1beta1.HTTPQueryParamMatch{Type: &qRegex, Name: gatewayv1beta1.HTTPHeaderName(pick(t, "qname", "user_id", "ver")), Value: pick(t, "qregex", "^1.*", "[a-c]+")}
	}
	return gatewayv1beta1.HTTPQueryParamMatch{Type: &qExact, Name: gatewayv1beta1.HTTPHeaderName(pick(t, "qname", "user_id", "ver")), Value: pick(t, "qval", "123", "beta")}
}

// stepKind names the annotation families a step drives; it feeds the histogram and the
// non-trivial rule (two different kinds in one sequence).
func stepKind(s *v1beta1.TrafficRoutingStrategy) string {
	var k []string
	if s.Traffic != nil {
		k = append(k, "weight")
	}
	set := map[string]bool{}
	for _, m := range s.Matches {
		if len(m.Headers) > 0 {
			h := m.Headers[0]
			switch {
			case h.Name == "canary-by-cookie":
				set["cookie"] = true
			case h.Type != nil && *h.Type == hRegex:
				set["hregex"] = true
			default:
				set["hexact"] = true
			}
		}
		if len(m.QueryParams) > 0 {
			if q := m.QueryParams[0]; q.Type != nil && *q.Type == qRegex {
				set["qregex"] = true
			} else {
				set["qexact"] = true
			}
		}
	}
	ks := make([]string, 0, len(set))
	for x := range set {
		ks = append(ks, x)
	}
	sort.Strings(ks)
	k = append(k, ks...)
	if s.RequestHeaderModifier != nil {
		k = append(k, "modifier")
	}
	return strings.Join(k, "+")
}

func hasQuery(s *v1beta1.TrafficRoutingStrategy) bool {
	for _, m := range s.Matches {
		if len(m.QueryParams) > 0 {
			return true
		}
	}
	return false
}

// gStep draws one step strategy the manager would hand to the provider (traffic set or at least
// one match; header type defaulted by the CRD; names/values within the CRD's patterns), using
// only the match kinds the class script supports: aliyun-alb and higress read headers[1] of every
// match, nginx ignores query parameters, mse understands headers, cookies and query parameters
// and is the only script reading requestHeaderModifier (its `set` list).
func gStep(t *rapid.T, chk, class string, last bool, prevModifier bool) v1beta1.TrafficRoutingStrategy {
	ec := effClass(class)
	var s v1beta1.TrafficRoutingStrategy
	shape := pick(t, "step-shape", "weight", "weight", "match", "match", "match", "weight+match")
	if shape != "match" {
		w := pick(t, "weight", 1, 5, 20, 50, 100, 100, -1, -2)
		if w == -1 {
			w = rapid.IntRange(1, 100).Draw(t, "weight-any")
		} else if w == -2 {
			w = 0 // admitted for blue-green steps and TrafficRouting objects
		}
		tr := fmt.Sprintf("%d%%", w)
		s.Traffic = &tr
	}
	if shape != "weight" {
		for i, n := 0, pick(t, "matches", 1, 1, 1, 2); i < n; i++ {
			var m v1beta1.HttpRouteMatch
			kinds := []string{"header-exact", "header-regex", "cookie"}
			if ec == "mse" {
				kinds = append(kinds, "query-exact", "query-regex", "header+query", "query-exact", "query-regex")
			} else if ec == "nginx" {
				kinds = append(kinds, "query-exact") // tolerated (ignored) by nginx.lua
			}
			mk := pick(t, "match-kind", kinds...)
			if strings.Contains(mk, "query") && ec == "mse" && !last && knownOpen[sigMseQuery] {
				vlib.Excluded(chk, sigMseQuery)
				mk = pick(t, "match-kind-noquery", "header-exact", "header-regex", "cookie")
			}
			switch mk {
			case "query-exact":
				m.QueryParams = append(m.QueryParams, gQuery(t, false))
			case "query-regex":
				m.QueryParams = append(m.QueryParams, gQuery(t, true))
			case "header+query":
				m.Headers = append(m.Headers, gHeader(t, pick(t, "hq-h", "header-exact", "header-regex", "cookie")))
				m.QueryParams = append(m.QueryParams, gQuery(t, gBool(t, "hq-q-regex")))
			default:
				m.Headers = append(m.Headers, gHeader(t, mk))
				if chance(t, 20, "second-header") {
					h2 := gHeader(t, "header-exact")
					if h2.Name != m.Headers[0].Name {
						m.Headers = append(m.Headers, h2)
					}
				}
			}
			s.Matches = append(s.Matches, m)
		}
	}
	pm := 15
	if ec == "mse" {
		pm = 45
	}
	wantMod := chance(t, pm, "modifier")
	if ec == "mse" && prevModifier && !wantMod && knownOpen[sigMseHeaderControl] {
		vlib.Excluded(chk, sigMseHeaderControl)
		wantMod = true
	}
	if wantMod {
		f := &gatewayv1beta1.HTTPHeaderFilter{}
		for i, n := 0, pick(t, "mod-set", 1, 1, 2); i < n; i++ {
			f.Set = append(f.Set, gatewayv1beta1.HTTPHeader{Name: gatewayv1beta1.HTTPHeaderName(fmt.Sprintf("%s%d", pick(t, "mod-name", "x-env", "X-Gray"), i)), Value: pick(t, "mod-val", "gray", "canary v2")})
		}
		if chance(t, 15, "mod-add") {
			f.Add = []gatewayv1beta1.HTTPHeader{{Name: "x-added", Value: "1"}}
		}
		if chance(t, 15, "mod-remove") {
			f.Remove = []string{"x-old"}
		}
		s.RequestHeaderModifier = f
	}
	return s
}

func gCase(t *rapid.T, chk string) (Case, []string) {
	var c Case
	c.Class = pick(t, "class", "nginx", "mse", "aliyun-alb", "higress", "mse", "", "mse", "aliyun-alb", "higress", "nginx")
	c.ScriptSrc = pick(t, "script-src", "file", "file", "file", "configmap", "configmap-otherkey")
	c.StableSvc = pick(t, "stable-svc", "web", "echo")
	c.CanarySvc = c.StableSvc + "-canary"
	if chance(t, 10, "canary-is-stable") { // OnlyTrafficRouting / disableGenerateCanaryService
		c.CanarySvc = c.StableSvc
	}
	var cls []string
	c.Stable, cls = gIngress(t, chk, c.Class, c.StableSvc)
	cls = append(cls, "class="+effClass(c.Class), "script="+c.ScriptSrc)
	if c.Class == "" {
		cls = append(cls, "class-defaulted")
	}
	if c.CanarySvc == c.StableSvc {
		cls = append(cls, "canary-svc==stable-svc")
	}
	n := pick(t, "steps", 1, 2, 2, 3, 3, 4, 5, 6)
	prevMod := false
	for i := 0; i < n; i++ {
		s := gStep(t, chk, c.Class, i == n-1, prevMod)
		prevMod = prevMod || s.RequestHeaderModifier != nil
		c.Steps = append(c.Steps, s)
	}
	cls = append(cls, stepClasses(c.Steps)...)
	return c, cls
}

func stepClasses(steps []v1beta1.TrafficRoutingStrategy) []string {
	cls := []string{fmt.Sprintf("steps=%d", len(steps))}
	seen := map[string]bool{}
	add := func(s string) {
		if !seen[s] {
			seen[s] = true
			cls = append(cls, s)
		}
	}
	for i := range steps {
		k := stepKind(&steps[i])
		add("kind:" + base(k))
		for _, f := range []string{"cookie", "hexact", "hregex", "qexact", "qregex", "modifier"} {
			if strings.Contains(k, f) {
				add("has:" + f)
			}
		}
		if steps[i].Traffic != nil && len(steps[i].Matches) > 0 {
			add("has:weight-and-matches")
		}
		if len(steps[i].Matches) > 1 {
			add("has:two-matches")
		}
		if steps[i].Traffic != nil && *steps[i].Traffic == "0%" {
			add("has:weight-zero")
		}
		if i > 0 {
			p := stepKind(&steps[i-1])
			if base(p) != base(k) {
				add("tr:" + base(p) + "->" + base(k))
			} else if p != k {
				add("tr:same-family-different-kind")
			}
			pm, km := steps[i-1].RequestHeaderModifier, steps[i].RequestHeaderModifier
			switch {
			case pm != nil && km == nil:
				add("tr-mod:on->off")
			case pm == nil && km != nil:
				add("tr-mod:off->on")
			case pm != nil && km != nil && !reflect.DeepEqual(pm, km):
				add("tr-mod:changed")
			}
		}
	}
	return cls
}

// base maps a step kind to its dominant annotation family: query > header > weight.
func base(k string) string {
	switch {
	case strings.Contains(k, "qexact") || strings.Contains(k, "qregex"):
		return "query"
	case strings.Contains(k, "hexact") || strings.Contains(k, "hregex") || strings.Contains(k, "cookie"):
		return "header"
	}
	return "weight"
}

// nonTrivial is the NT rule of DESIGN C14: a sequence with two different step kinds.
func nonTrivial(c *Case) bool {
	kinds := map[string]bool{}
	for i := range c.Steps {
		kinds[stepKind(&c.Steps[i])] = true
	}
	return len(kinds) >= 2
}

// scriptFile reads the working-tree script of a class (cwd is the repository root).
func scriptFile(class string) (string, error) {
	b, err := os.ReadFile("lua_configuration/trafficrouting_ingress/" + effClass(class) + ".lua")
	return string(b), err
}
