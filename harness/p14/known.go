// Package p14 holds the checks of property C14 (canary Ingress reflects the current step only)
// and the ingress part of C07(b) (provider fixed point).
package p14

import (
	"os"
	"strings"
)

// Signatures of confirmed genuine defects of the current /repo that are still open. While a
// signature is listed here the generator steers away from exactly that input class (counted with
// vlib.Excluded) so that the search continues behind the defect. Replays bypass the generator, so
// findings/<sig>.json keeps reproducing the failure. Remove an entry once the defect is repaired.
const (
	// buildCanaryIngress dereferences rule.HTTP of a rule without an http section (host-only rule).
	sigNoHTTP = "build-panic-rule-without-http"
	// buildCanaryIngress dereferences path.backend.service of a path with a resource backend.
	sigResourceBackend = "build-panic-resource-backend"
	// mse.lua sets nginx.../canary-by-query* but clears mse.../canary-by-query*: a query match of
	// an earlier step stays on the canary Ingress.
	sigMseQuery = "history-mse-query"
	// mse.lua never clears mse.../request-header-control-update: the header modifier of an earlier
	// step stays on the canary Ingress.
	sigMseHeaderControl = "history-mse-header-control"
	// mse.lua indexes obj.annotations unconditionally: a stable Ingress without annotations makes
	// every EnsureRoutes fail with a Lua error, the canary Ingress is never created.
	sigMseNilAnnotations = "mse-nil-annotations-error"
)

var knownOpen = map[string]bool{
	sigNoHTTP:            false, // repaired by a "fix:" commit in /repo, see /verif/known_findings.json
	sigResourceBackend:   false, // repaired by a "fix:" commit in /repo, see /verif/known_findings.json
	sigMseQuery:          false, // repaired by a "fix:" commit in /repo, see /verif/known_findings.json
	sigMseHeaderControl:  false, // repaired by a "fix:" commit in /repo, see /verif/known_findings.json
	sigMseNilAnnotations: false, // repaired by a "fix:" commit in /repo, see /verif/known_findings.json
}

// P14_NO_EXCLUDE=all or a comma-separated list of signatures switches exclusions off for one run
// (used to re-confirm a finding and to validate a repair before the entry is removed).
func init() {
	v := os.Getenv("P14_NO_EXCLUDE")
	if v == "" {
		return
	}
	for _, s := range strings.Split(v, ",") {
		if s == "all" {
			for k := range knownOpen {
				knownOpen[k] = false
			}
		}
		knownOpen[strings.TrimSpace(s)] = false
	}
}
