package p14

import (
	"context"
	"encoding/json"
	"fmt"
	"io"
	"reflect"
	"regexp"
	"sort"
	"strings"
	"testing"

	"github.com/openkruise/rollouts/api/v1beta1"
	"github.com/openkruise/rollouts/pkg/trafficrouting/network"
	"github.com/openkruise/rollouts/pkg/trafficrouting/network/ingress"
	"github.com/openkruise/rollouts/pkg/util"
	"github.com/openkruise/rollouts/pkg/util/configuration"
	corev1 "k8s.io/api/core/v1"
	netv1 "k8s.io/api/networking/v1"
	apierrors "k8s.io/apimachinery/pkg/api/errors"
	metav1 "k8s.io/apimachinery/pkg/apis/meta/v1"
	"k8s.io/apimachinery/pkg/runtime"
	"k8s.io/apimachinery/pkg/types"
	"k8s.io/klog/v2"
	"pgregory.net/rapid"
	"sigs.k8s.io/controller-runtime/pkg/client"
	"sigs.k8s.io/controller-runtime/pkg/client/fake"

	"verifharness/vlib"
)

func TestMain(m *testing.M) {
	klog.SetOutput(io.Discard)
	klog.LogToStderr(false)
	vlib.Main(m)
}

const chkC14 = "c14-ingress"

var scheme = func() *runtime.Scheme {
	s := runtime.NewScheme()
	_ = corev1.AddToScheme(s)
	_ = netv1.AddToScheme(s)
	return s
}()

// countingClient counts the write requests the provider sends.
type countingClient struct {
	client.Client
	writes int
}

func (c *countingClient) Create(ctx context.Context, obj client.Object, opts ...client.CreateOption) error {
	c.writes++
	return c.Client.Create(ctx, obj, opts...)
}
func (c *countingClient) Update(ctx context.Context, obj client.Object, opts ...client.UpdateOption) error {
	c.writes++
	return c.Client.Update(ctx, obj, opts...)
}
func (c *countingClient) Patch(ctx context.Context, obj client.Object, patch client.Patch, opts ...client.PatchOption) error {
	c.writes++
	return c.Client.Patch(ctx, obj, patch, opts...)
}
func (c *countingClient) Delete(ctx context.Context, obj client.Object, opts ...client.DeleteOption) error {
	c.writes++
	return c.Client.Delete(ctx, obj, opts...)
}
func (c *countingClient) DeleteAllOf(ctx context.Context, obj client.Object, opts ...client.DeleteAllOfOption) error {
	c.writes++
	return c.Client.DeleteAllOf(ctx, obj, opts...)
}
func (c *countingClient) Status() client.SubResourceWriter {
	c.writes++ // the ingress provider has no business with status sub-resources
	return c.Client.Status()
}

// env is one simulated cluster holding the stable Ingress (and the optional ConfigMap).
type env struct {
	chk  string
	c    *Case
	cli  *countingClient
	conf ingress.Config
}

func newEnv(chk string, c *Case) (*env, error) {
	objs := []client.Object{c.Stable.DeepCopy()}
	switch c.ScriptSrc {
	case "configmap", "configmap-otherkey":
		script, err := scriptFile(c.Class)
		if err != nil {
			return nil, err
		}
		key := fmt.Sprintf("%s.%s", configuration.LuaTrafficRoutingIngressTypePrefix, effClass(c.Class))
		if c.ScriptSrc == "configmap-otherkey" {
			key = configuration.LuaTrafficRoutingIngressTypePrefix + ".some-other-class"
		}
		objs = append(objs, &corev1.ConfigMap{
			ObjectMeta: metav1.ObjectMeta{Namespace: util.GetRolloutNamespace(), Name: configuration.RolloutConfigurationName},
			Data:       map[string]string{key: script},
		})
	}
	cli := &countingClient{Client: fake.NewClientBuilder().WithScheme(scheme).WithObjects(objs...).Build()}
	ctl := true
	return &env{chk: chk, c: c, cli: cli, conf: ingress.Config{
		Key:           ns + "/rollout-demo",
		Namespace:     ns,
		CanaryService: c.CanarySvc,
		StableService: c.StableSvc,
		TrafficConf:   &v1beta1.IngressTrafficRouting{ClassType: c.Class, Name: c.Stable.Name},
		OwnerRef: metav1.OwnerReference{APIVersion: "rollouts.kruise.io/v1beta1", Kind: "Rollout", Name: "rollout-demo",
			UID: types.UID("6f3c7a1e-0000-4000-8000-000000000001"), Controller: &ctl, BlockOwnerDeletion: &ctl},
	}}, nil
}

// provider builds a new provider per call, as trafficrouting.Manager does.
func (e *env) provider() (network.NetworkProvider, error) {
	return ingress.NewIngressTrafficRouting(e.cli, e.conf)
}

func (e *env) canaryName() string { return e.c.Stable.Name + "-canary" }

func (e *env) get(name string) (*netv1.Ingress, error) {
	ing := &netv1.Ingress{}
	err := e.cli.Client.Get(context.TODO(), types.NamespacedName{Namespace: ns, Name: name}, ing)
	if apierrors.IsNotFound(err) {
		return nil, nil
	}
	return ing, err
}

// stableBytes is the stored stable Ingress including resourceVersion (the fake client bumps it on
// every write, also on a no-op one).
func (e *env) stableBytes() string {
	ing, err := e.get(e.c.Stable.Name)
	if err != nil || ing == nil {
		return fmt.Sprintf("<stable ingress missing: %v>", err)
	}
	b, _ := json.Marshal(ing)
	return string(b)
}

// snapshot serialises every Ingress of the store (sorted by name).
func (e *env) snapshot() string {
	l := &netv1.IngressList{}
	if err := e.cli.Client.List(context.TODO(), l); err != nil {
		return "<list failed: " + err.Error() + ">"
	}
	sort.Slice(l.Items, func(i, j int) bool { return l.Items[i].Name < l.Items[j].Name })
	b, _ := json.Marshal(l.Items)
	return string(b)
}

// panicSig names the first construct of the stable Ingress that buildCanaryIngress cannot handle.
func panicSig(c *Case) string {
	for _, r := range c.Stable.Spec.Rules {
		if r.HTTP == nil {
			return sigNoHTTP
		}
		for _, p := range r.HTTP.Paths {
			if p.Backend.Service == nil {
				return sigResourceBackend
			}
		}
	}
	return "provider-panic"
}

func errorSig(c *Case, err error) string {
	if effClass(c.Class) == "mse" && len(c.Stable.Annotations) == 0 && strings.Contains(err.Error(), "index") {
		return sigMseNilAnnotations
	}
	return "ensure-routes-error"
}

type failFn func(sig, format string, args ...any)

var (
	reGoroutine = regexp.MustCompile(`goroutine \d+`)
)

// stablePanic reduces a Guard message to the panic value and the frames of the code under test,
// without goroutine numbers, addresses and argument values: rapid only shrinks a failure whose
// message is the same when the case is executed again.
func stablePanic(msg string) string {
	lines := strings.Split(msg, "\n")
	out := []string{lines[0]}
	for i := 1; i+1 < len(lines); i++ {
		fn := strings.TrimSpace(lines[i])
		if !strings.Contains(fn, "openkruise/rollouts/") {
			continue
		}
		if j := strings.LastIndex(fn, "("); j > 0 {
			fn = fn[:j]
		}
		loc := strings.TrimSpace(lines[i+1])
		if j := strings.Index(loc, " +0x"); j > 0 {
			loc = loc[:j]
		}
		out = append(out, "  "+fn+" "+loc)
	}
	return reGoroutine.ReplaceAllString(strings.Join(out, "\n"), "goroutine")
}

// ensureOnce performs one guarded EnsureRoutes call and asserts the stable Ingress is untouched.
func (e *env) ensureOnce(fail failFn, s *v1beta1.TrafficRoutingStrategy, where string) bool {
	before := e.stableBytes()
	var done bool
	var err error
	strategy := s.DeepCopy() // the manager passes a pointer into its context; the case stays pristine
	for attempt := 0; ; attempt++ {
		if p, msg := vlib.Guard(func() {
			var prov network.NetworkProvider
			if prov, err = e.provider(); err == nil {
				done, err = prov.EnsureRoutes(context.TODO(), strategy)
			}
		}); p {
			fail(panicSig(e.c), "%s: EnsureRoutes panicked: %s", where, stablePanic(msg))
		}
		// the Lua manager gives a script one second of wall-clock time; on an overloaded machine a
		// stalled process may exceed it. The script runs before any write, so the call is repeated.
		if err != nil && attempt < 20 && strings.Contains(err.Error(), "context deadline exceeded") {
			vlib.Note(e.chk, "Lua wall-clock timeout hit (machine overloaded); call repeated")
			continue
		}
		break
	}
	if err != nil {
		fail(errorSig(e.c, err), "%s: EnsureRoutes failed: %v", where, err)
	}
	if after := e.stableBytes(); after != before {
		fail("stable-ingress-modified", "%s: EnsureRoutes changed the stable Ingress:\n before=%s\n after =%s", where, before, after)
	}
	return done
}

const maxCalls = 3

// ensure drives one step to its fixed point and returns the number of calls it took.
func (e *env) ensure(fail failFn, s *v1beta1.TrafficRoutingStrategy, where string) int {
	for i := 1; i <= maxCalls+1; i++ {
		if e.ensureOnce(fail, s, fmt.Sprintf("%s call %d", where, i)) {
			return i
		}
	}
	fail("ensure-routes-never-done", "%s: EnsureRoutes did not report done within %d calls of the same strategy", where, maxCalls+1)
	return -1
}

// wantRules is the structure oracle: the stable-Service paths of the stable Ingress, in order,
// re-targeted to the canary Service; rules without such paths are absent.
func wantRules(c *Case) []netv1.IngressRule {
	out := []netv1.IngressRule{}
	for _, r := range c.Stable.Spec.Rules {
		if r.HTTP == nil {
			continue
		}
		var paths []netv1.HTTPIngressPath
		for _, p := range r.HTTP.Paths {
			if p.Backend.Service == nil || p.Backend.Service.Name != c.StableSvc {
				continue
			}
			q := *p.DeepCopy()
			q.Backend.Service.Name = c.CanarySvc
			paths = append(paths, q)
		}
		if len(paths) > 0 {
			out = append(out, netv1.IngressRule{Host: r.Host, IngressRuleValue: netv1.IngressRuleValue{HTTP: &netv1.HTTPIngressRuleValue{Paths: paths}}})
		}
	}
	return out
}

func js(v any) string {
	b, _ := json.Marshal(v)
	return string(b)
}

func annDiff(a, b map[string]string) (keys []string) {
	for k, v := range a {
		if w, ok := b[k]; !ok || w != v {
			keys = append(keys, k)
		}
	}
	for k := range b {
		if _, ok := a[k]; !ok {
			keys = append(keys, k)
		}
	}
	sort.Strings(keys)
	return
}

// historySig classifies a history-dependence failure by class script and annotation family.
func historySig(class string, keys []string) string {
	fam := "other"
	for _, k := range keys {
		if strings.Contains(k, "canary-by-query") {
			fam = "query"
			break
		}
		if strings.Contains(k, "request-header-control") {
			fam = "header-control"
		}
	}
	if fam == "other" && len(keys) > 0 {
		fam = keys[0][strings.LastIndex(keys[0], "/")+1:]
	}
	return "history-" + effClass(class) + "-" + fam
}

func runC14(t vlib.TB, c *Case) {
	fail := func(sig, format string, args ...any) { vlib.Fail(t, chkC14, sig, c, format, args...) }
	e, err := newEnv(chkC14, c)
	if err != nil {
		t.Fatalf("harness: %v", err)
	}
	want := wantRules(c)
	for k := range c.Steps {
		s := &c.Steps[k]
		where := fmt.Sprintf("step %d/%d (%s)", k+1, len(c.Steps), stepKind(s))
		e.ensure(fail, s, where)
		canary, err := e.get(e.canaryName())
		if err != nil {
			t.Fatalf("harness: %v", err)
		}
		if canary == nil {
			// only a 0% step on a cluster without canary Ingress may leave it absent
			if s.Traffic == nil || *s.Traffic != "0%" {
				fail("canary-ingress-missing", "%s: EnsureRoutes reported done but there is no canary Ingress %s", where, e.canaryName())
			}
			continue
		}
		// (1) structure
		if canary.Namespace != ns || canary.Name != c.Stable.Name+"-canary" {
			fail("canary-ingress-identity", "%s: canary Ingress is %s/%s", where, canary.Namespace, canary.Name)
		}
		if got := canary.Spec.Rules; !(len(got) == 0 && len(want) == 0) && js(got) != js(want) {
			fail("canary-rules-structure", "%s: canary Ingress rules are not the stable-Service paths re-targeted to %q:\n got =%s\n want=%s", where, c.CanarySvc, js(got), js(want))
		}
		// (2) history independence: same stable Ingress, same class, only this step
		if k > 0 {
			f, err := newEnv(chkC14, c)
			if err != nil {
				t.Fatalf("harness: %v", err)
			}
			f.ensure(fail, s, where+" [fresh]")
			fresh, err := f.get(f.canaryName())
			if err != nil {
				t.Fatalf("harness: %v", err)
			}
			if fresh == nil {
				continue // 0% entered first creates nothing; nothing to compare with
			}
			if !reflect.DeepEqual(canary.Annotations, fresh.Annotations) {
				keys := annDiff(canary.Annotations, fresh.Annotations)
				fail(historySig(c.Class, keys), "%s: canary annotations depend on earlier steps (differing keys %v):\n after the sequence=%s\n entered first     =%s", where, keys, js(canary.Annotations), js(fresh.Annotations))
			}
		}
	}
	// (4) Finalise deletes the canary Ingress; the second call reports unmodified
	existed, err := e.get(e.canaryName())
	if err != nil {
		t.Fatalf("harness: %v", err)
	}
	for call := 1; call <= 2; call++ {
		before := e.stableBytes()
		var modified bool
		if p, msg := vlib.Guard(func() {
			var prov network.NetworkProvider
			if prov, err = e.provider(); err == nil {
				modified, err = prov.Finalise(context.TODO())
			}
		}); p {
			fail("finalise-panic", "Finalise call %d panicked: %s", call, stablePanic(msg))
		}
		if err != nil {
			fail("finalise-error", "Finalise call %d failed: %v", call, err)
		}
		if after := e.stableBytes(); after != before {
			fail("stable-ingress-modified", "Finalise call %d changed the stable Ingress:\n before=%s\n after =%s", call, before, after)
		}
		left, err := e.get(e.canaryName())
		if err != nil {
			t.Fatalf("harness: %v", err)
		}
		if left != nil {
			fail("finalise-canary-left", "canary Ingress still present after Finalise call %d: %s", call, js(left))
		}
		if wantMod := call == 1 && existed != nil; modified != wantMod {
			fail("finalise-modified-flag", "Finalise call %d reported modified=%v, expected %v (canary Ingress existed before the first call: %v)", call, modified, wantMod, existed != nil)
		}
	}
}

func TestC14Ingress(t *testing.T) {
	var rc Case
	if ok, _ := vlib.LoadReplay(chkC14, &rc); ok {
		runC14(t, &rc)
		return
	}
	rapid.Check(t, func(t *rapid.T) {
		c, cls := gCase(t, chkC14)
		vlib.Record(chkC14, js(c), nonTrivial(&c), cls, func() any { return c })
		runC14(t, &c)
	})
}
