# Snippet for /verif/checks_config.py (format of CHECKS["C20"]).
# CHECKS["C14"] is the dict below. The sub-check "c07-fixedpoint-ingress" (listed separately at the
# bottom) belongs into CHECKS["C07"]["subchecks"] (part (b), provider fixed point, ingress provider).
{
    "level": "exploration",
    "engine": "E2",
    "technique": ("property-based testing (rapid): model oracle for the canary Ingress structure, metamorphic "
                  "history-independence relation (sequence vs. fresh store), invariants on the fake API store"),
    "level_text": ("Generated-input search on the real ingress provider (NewIngressTrafficRouting / EnsureRoutes / Finalise) with the "
                   "working-tree Lua scripts of all four built-in classes against a controller-runtime fake client: tens of thousands of "
                   "generated stable Ingresses x step sequences per run. After every step (driven to its fixed point) the canary Ingress is "
                   "compared with a model (stable-Service paths, in order, re-targeted), its annotations with those of a fresh store that "
                   "enters only this step, and the stored stable Ingress with its bytes before the call; Finalise must delete the canary "
                   "Ingress and then report unmodified. A panic, an error or any difference is a violation, shrunk by rapid. The property "
                   "quantifies over unbounded Ingress shapes and step histories, so input generation with explicit oracles is the fitting "
                   "level; absence of defects is not established."),
    "level_note": ("Trusted: the fake client as a stand-in for the API server (merge-patch semantics, resourceVersion bump on every write; it "
                   "does not validate objects), the harness model of 'stable-Service paths re-targeted', and the reading of the "
                   "networking.k8s.io/v1 validation rules (host-only rules and resource backends are admitted). Five confirmed defects are "
                   "steered around by construction (known.go) and kept as replay files in harness/p14/findings/."),
    "rule": ("rapid generator: Ingress with 0..4 rules (host or none; http section present or absent), 1..3 paths per rule with backend in "
             "{stable Service, other Service, resource}, port by name or number, all three pathTypes, optional default backend / TLS / "
             "labels / ingressClassName, annotations in {none, unrelated, user-set canary-looking keys of the class, class-specific keys such "
             "as mse service-subset, mixed}; class in {nginx, '' (defaulted), aliyun-alb, higress, mse}; script taken from the working tree "
             "directly or through the kruise-rollout-configuration ConfigMap (with / without the class key); canary Service = stable-canary "
             "or = stable; 1..6 steps, each weight 'N%' (incl. 100%, rarely 0%), and/or 1..2 matches of the kinds the class script supports "
             "(header exact / regex, canary-by-cookie pseudo-header, query exact / regex and header+query for mse, ignored query for nginx), "
             "optional requestHeaderModifier with a non-empty set list. Oracles: (1) canary rules == model; (2) annotations after s1..sk == "
             "annotations after fresh sk; (3) stored stable Ingress byte-identical (incl. resourceVersion) after every call; (4) Finalise "
             "deletes, reports modified iff it existed, second call unmodified; (5) no panic / error; a step reports done within 4 calls. "
             "Non-trivial: the sequence contains two different step kinds; distinct by hash of the whole case."),
    "assumptions": [
        "networking.k8s.io/v1 validation admits rules without an http section and path backends of kind resource; an Ingress has a default backend or at least one rule; annotations are nil or non-empty (an API server never returns an empty map).",
        "Strategies are those trafficrouting.Manager hands to a provider: traffic set or at least one match; header/query match type defaulted to Exact by the CRD; names within the CRD pattern; values non-empty.",
        "Only match kinds a class script supports are generated: aliyun-alb.lua and higress.lua index match.headers[1] unconditionally (a query-only match is a Lua error there), mse.lua needs requestHeaderModifier.set to be present (add/remove-only modifiers raise a Lua error) - both are outside the property's quantifier and were not counted as findings.",
        "Traffic '0%' (admitted for blue-green steps and TrafficRouting objects) entered on a store without canary Ingress creates nothing; the history comparison is skipped when the fresh side has no canary Ingress.",
        "The Lua manager's 1 s wall-clock limit can fire on an overloaded machine; such a call made no write and is repeated (noted in the statistics).",
        "While a defect signature is listed in harness/p14/known.go the generator avoids exactly its input class: rules without http, resource backends, mse: query matches before the last step, mse: modifier followed by a step without modifier, mse: stable Ingress without annotations (env P14_NO_EXCLUDE=all switches this off).",
    ],
    "subchecks": [
        {"name": "c14-ingress", "pkg": "p14", "test": "TestC14Ingress", "quick": rp(16000, 16, timeout=600), "thorough": rp(320000, 16, timeout=1500)},
    ],
}

# --- to be appended to CHECKS["C07"]["subchecks"] -------------------------------------------------
# oracle: after EnsureRoutes has returned true (within <= 3 calls), two further calls with the same
# strategy send zero write requests (counting client wrapper), leave the serialised store (all
# Ingresses incl. resourceVersion) unchanged and return true; Finalise calls 2 and 3 send no write and
# report not-modified. Same generator as c14-ingress. Non-trivial: >= 2 steps.
C07_INGRESS_SUBCHECK = {"name": "c07-fixedpoint-ingress", "pkg": "p14", "test": "TestC07FixedPointIngress",
                        "quick": rp(12000, 16, timeout=600), "thorough": rp(200000, 16, timeout=1500)}
