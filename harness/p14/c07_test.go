package p14

import (
	"context"
	"fmt"
	"testing"

	"github.com/openkruise/rollouts/pkg/trafficrouting/network"
	"pgregory.net/rapid"

	"verifharness/vlib"
)

// C07 (b) for the ingress provider: once EnsureRoutes has returned true, the next call with the
// same strategy sends no write request, leaves the store untouched and returns true again; a step
// needs at most three calls; the second Finalise sends no write and reports not-modified.
const chkC07 = "c07-fixedpoint-ingress"

func runC07(t vlib.TB, c *Case) {
	fail := func(sig, format string, args ...any) { vlib.Fail(t, chkC07, sig, c, format, args...) }
	e, err := newEnv(chkC07, c)
	if err != nil {
		t.Fatalf("harness: %v", err)
	}
	for k := range c.Steps {
		s := &c.Steps[k]
		where := fmt.Sprintf("step %d/%d (%s)", k+1, len(c.Steps), stepKind(s))
		calls := 0
		for done := false; !done; {
			if calls == maxCalls {
				fail("fixedpoint-calls-exceeded", "%s: EnsureRoutes still not done after %d calls with the same strategy", where, calls)
			}
			calls++
			done = e.ensureOnce(fail, s, fmt.Sprintf("%s call %d", where, calls))
		}
		// fixed point: one (two in the thorough tier) more call changes nothing
		for extra := 1; extra <= 2; extra++ {
			snap, w := e.snapshot(), e.cli.writes
			done := e.ensureOnce(fail, s, fmt.Sprintf("%s repeat %d", where, extra))
			if n := e.cli.writes - w; n != 0 {
				fail("fixedpoint-extra-write", "%s: EnsureRoutes sent %d write request(s) after it had reported done", where, n)
			}
			if after := e.snapshot(); after != snap {
				fail("fixedpoint-store-changed", "%s: store changed by an EnsureRoutes call after done:\n before=%s\n after =%s", where, snap, after)
			}
			if !done {
				fail("fixedpoint-done-revoked", "%s: EnsureRoutes reported done, then not done for the same strategy without any change", where)
			}
		}
	}
	for call := 1; call <= 3; call++ {
		snap, w := e.snapshot(), e.cli.writes
		var modified bool
		if p, msg := vlib.Guard(func() {
			var prov network.NetworkProvider
			if prov, err = e.provider(); err == nil {
				modified, err = prov.Finalise(context.TODO())
			}
		}); p {
			fail("finalise-panic", "Finalise call %d panicked: %s", call, stablePanic(msg))
		}
		if err != nil {
			fail("finalise-error", "Finalise call %d failed: %v", call, err)
		}
		if call == 1 {
			continue
		}
		if modified {
			fail("fixedpoint-finalise-modified-again", "Finalise call %d reported modified again", call)
		}
		if n := e.cli.writes - w; n != 0 || e.snapshot() != snap {
			fail("fixedpoint-finalise-extra-write", "Finalise call %d sent %d write request(s) / changed the store after the first call had finished", call, n)
		}
	}
}

func TestC07FixedPointIngress(t *testing.T) {
	var rc Case
	if ok, _ := vlib.LoadReplay(chkC07, &rc); ok {
		runC07(t, &rc)
		return
	}
	rapid.Check(t, func(t *rapid.T) {
		c, cls := gCase(t, chkC07)
		// non-trivial: at least one step has to change an existing canary Ingress
		vlib.Record(chkC07, js(c), len(c.Steps) >= 2, cls, func() any { return c })
		runC07(t, &c)
	})
}
