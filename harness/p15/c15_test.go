package p15

// C15 "Custom (Lua) network resources: stateless apply, exact restore": the real custom network
// provider against the fake store; oracles (1) statelessness, (2) exact restore, (3) Istio split
// semantics / reference model of the generated scripts, (4) no panic.

import (
	"fmt"
	"math"
	"reflect"
	"strconv"
	"strings"
	"testing"

	"github.com/openkruise/rollouts/api/v1beta1"
	"k8s.io/apimachinery/pkg/runtime"
	"pgregory.net/rapid"

	"verifharness/vlib"
)

const chkC15 = "c15-custom"

const maxCalls = 4

func strategyWeight(s *v1beta1.TrafficRoutingStrategy) (w int, set bool) {
	if s.Traffic == nil {
		return 100, false // the provider passes -1, every script treats it as 100 / 0
	}
	n, err := strconv.Atoi(strings.TrimSuffix(*s.Traffic, "%"))
	if err != nil {
		panic("harness: generated traffic " + *s.Traffic)
	}
	return n, true
}

func asMap(v interface{}) map[string]interface{} { m, _ := v.(map[string]interface{}); return m }
func asList(v interface{}) []interface{}         { l, _ := v.([]interface{}); return l }

func hostOf(route interface{}) string {
	h, _ := asMap(asMap(route)["destination"])["host"].(string)
	if i := strings.Index(h, "."); i >= 0 {
		h = h[:i]
	}
	return h
}

func canaryDestination(stable, canary string) map[string]interface{} {
	if stable == canary {
		return map[string]interface{}{"host": stable, "subset": "canary"}
	}
	return map[string]interface{}{"host": canary}
}

// looseEq compares modulo what cannot survive a Lua table: empty containers == null == absent,
// numbers are doubles.
func looseEq(a, b interface{}) bool { return cjFloat(a, true) == cjFloat(b, true) }

// checkIstio is oracle (3) for one VirtualService after a successful step.
func checkIstio(origSpec, curSpec interface{}, s *v1beta1.TrafficRoutingStrategy, stable, canary string) (sig, msg string) {
	exp := asMap(runtime.DeepCopyJSONValue(origSpec))
	cur := asMap(curSpec)
	if exp == nil || cur == nil {
		return "custom-istio-spec-lost", fmt.Sprintf("spec is not an object any more: %s", cj(curSpec, false))
	}
	w, _ := strategyWeight(s)
	if k := len(s.Matches); k > 0 {
		oh, ch := asList(exp["http"]), asList(cur["http"])
		if len(ch) != len(oh)+k {
			return "custom-istio-matches-rule-count", fmt.Sprintf("%d matches on %d http rules gave %d rules", k, len(oh), len(ch))
		}
		for i := 0; i < k; i++ {
			rt := asList(asMap(ch[i])["route"])
			if len(rt) != 1 || !looseEq(asMap(rt[0])["destination"], canaryDestination(stable, canary)) {
				return "custom-istio-matches-canary-destination", fmt.Sprintf("inserted rule %d does not route to the canary only: %s", i, cj(ch[i], false))
			}
			if asMap(ch[i])["match"] == nil {
				return "custom-istio-matches-without-match", fmt.Sprintf("inserted rule %d has no match: %s", i, cj(ch[i], false))
			}
		}
		vlib.Class(chkC15, "istio:matches-step-checked")
		exp["http"] = append(append([]interface{}{}, ch[:k]...), oh...)
		if !looseEq(exp, cur) {
			return "custom-istio-matches-touched-other", fmt.Sprintf("a matches step changed more than inserting %d rules in front:\n want %s\n got  %s", k, cjFloat(exp, true), cjFloat(cur, true))
		}
		return "", ""
	}
	for _, proto := range []string{"http", "tcp", "tls"} {
		rules, crules := asList(exp[proto]), asList(cur[proto])
		if len(rules) != len(crules) {
			return "custom-istio-rule-count", fmt.Sprintf("%s: %d rules became %d", proto, len(rules), len(crules))
		}
		for i := range rules {
			rule := asMap(rules[i])
			if _, has := rule["match"]; has {
				vlib.Class(chkC15, "istio:match-rule-untouched-checked")
				continue // must stay untouched
			}
			route := asList(rule["route"])
			m := 0
			for _, r := range route {
				if hostOf(r) == stable {
					m++
				}
			}
			switch {
			case m == 0: // other hosts: untouched
				vlib.Class(chkC15, "istio:other-host-rule-untouched-checked")
			case m == 1 && len(route) == 1:
				vlib.Class(chkC15, "istio:single-stable-split-checked-"+proto)
				r0 := asMap(route[0])
				sw := float64(100 - w)
				if ow, ok := r0["weight"]; ok {
					var f float64
					switch x := ow.(type) {
					case int64:
						f = float64(x)
					case float64:
						f = x
					}
					sw = math.Floor(f * float64(100-w) / 100)
				}
				r0["weight"] = sw
				rule["route"] = []interface{}{r0, map[string]interface{}{"destination": canaryDestination(stable, canary), "weight": float64(w)}}
			default:
				vlib.Class(chkC15, "istio:multi-destination-rule-not-asserted")
				rules[i] = crules[i] // several destinations including stable: nothing claimed
			}
		}
	}
	if !looseEq(exp, cur) {
		return "custom-istio-weight-split", fmt.Sprintf("weight step %d%% (stable %q canary %q):\n want %s\n got  %s", w, stable, canary, cjFloat(exp, true), cjFloat(cur, true))
	}
	return "", ""
}

// applyOps is the reference model of the generated script family.
func applyOps(orig proj, ops []ScriptOp, s *v1beta1.TrafficRoutingStrategy, canary string) proj {
	w, _ := strategyWeight(s)
	out := proj{Spec: runtime.DeepCopyJSONValue(orig.Spec), Labels: map[string]string{}, Annotations: map[string]string{}}
	for k, v := range orig.Labels {
		out.Labels[k] = v
	}
	for k, v := range orig.Annotations {
		out.Annotations[k] = v
	}
	for _, op := range ops {
		switch op.Op {
		case "setWeight", "setStable", "append", "countMatches":
			spec := asMap(out.Spec)
			if spec == nil {
				spec = map[string]interface{}{}
				out.Spec = spec
			}
			t := spec
			for _, seg := range op.Path[:len(op.Path)-1] {
				n := asMap(t[seg])
				if n == nil {
					n = map[string]interface{}{}
					t[seg] = n
				}
				t = n
			}
			last := op.Path[len(op.Path)-1]
			switch op.Op {
			case "setWeight":
				t[last] = float64(w)
			case "setStable":
				t[last] = float64(100 - w)
			case "countMatches":
				t[last] = float64(len(s.Matches))
			case "append":
				t[last] = append(append([]interface{}{}, asList(t[last])...), map[string]interface{}{"name": canary, "weight": float64(w)})
			}
		case "setAnnoOnMatch":
			if len(s.Matches) > 0 {
				out.Annotations[op.Key] = strconv.Itoa(len(s.Matches))
			}
		case "setAnno", "setLabel":
			v := strconv.Itoa(w)
			if op.Value == "service" {
				v = canary
			}
			if op.Op == "setAnno" {
				out.Annotations[op.Key] = v
			} else {
				out.Labels[op.Key] = v
			}
		}
	}
	return out
}

func strMapEq(a, b map[string]string) bool {
	if len(a) == 0 && len(b) == 0 {
		return true
	}
	return reflect.DeepEqual(a, b)
}

// errClass names the reason of a tolerated EnsureRoutes error for the class histogram.
func errClass(err error) string {
	m := err.Error()
	switch {
	case isLuaDeadline(err):
		return "step-error:lua-deadline-of-1s-exceeded-on-busy-machine"
	case strings.Contains(m, "to ipairs"):
		return "step-error:vs-rule-without-route-and-match"
	case strings.Contains(m, "to insert"):
		return "step-error:script-inserts-into-missing-list"
	case strings.Contains(m, "cannot encode"):
		return "step-error:lua-table-not-encodable"
	}
	if len(m) > 60 {
		m = m[:60]
	}
	return "step-error:other:" + m
}

func failPanic(t vlib.TB, chk string, c *Case, where string, r callResult) {
	if r.panicked {
		vlib.Fail(t, chk, "custom-panic-"+where, c, "%s panicked: %s", where, r.pmsg)
	}
}

// checkRestored is oracle (2) for ref j.
func checkRestored(t vlib.TB, c *Case, w *world, j int, when string) {
	u, err := w.get(j)
	if err != nil {
		vlib.Fail(t, chkC15, "custom-restore-object-lost", c, "%s: object %d cannot be read: %v", when, j, err)
	}
	got, want := project(u.Object), project(c.original(j))
	if got.HasSnapshot {
		vlib.Fail(t, chkC15, "custom-restore-snapshot-left", c, "%s: object %d still carries the snapshot annotation", when, j)
	}
	if !strMapEq(got.Labels, want.Labels) {
		vlib.Fail(t, chkC15, "custom-restore-labels", c, "%s: object %d labels %v, the user had %v", when, j, got.Labels, want.Labels)
	}
	if !strMapEq(got.Annotations, want.Annotations) {
		vlib.Fail(t, chkC15, "custom-restore-annotations", c, "%s: object %d annotations %v, the user had %v", when, j, got.Annotations, want.Annotations)
	}
	if a, b := cj(got.Spec, false), cj(want.Spec, false); a != b {
		sig := "custom-restore-spec"
		if cjFloat(got.Spec, false) == cjFloat(want.Spec, false) {
			sig = sigRestoreInt64
		}
		vlib.Fail(t, chkC15, sig, c, "%s: object %d spec not restored:\n user had %s\n now      %s", when, j, b, a)
	}
}

func runC15(t vlib.TB, c *Case) {
	A := newWorld(chkC15, c, false)
	r := A.initialize()
	failPanic(t, chkC15, c, "initialize", r)
	if r.err != nil {
		vlib.Fail(t, chkC15, "custom-initialize-error", c, "Initialize failed although every object and script exists: %v", r.err)
	}
	for i := range c.Strategies {
		s := &c.Strategies[i]
		_, ra := A.ensureToFixpoint(s, maxCalls)
		failPanic(t, chkC15, c, "ensureroutes", ra)
		if ra.err != nil {
			vlib.Class(chkC15, "step-error", errClass(ra.err))
		} else {
			vlib.Class(chkC15, "step-ok")
			if !ra.done {
				vlib.Class(chkC15, "step-no-fixpoint-within-4-calls")
			}
		}
		// (1) statelessness: a fresh world that only ever sees step i
		if i > 0 {
			// one call writes the step's configuration; whether a second call would write
			// again is the fixed-point sub-check's business
			B := newWorld(chkC15, c, false)
			rb := B.ensure(s)
			failPanic(t, chkC15, c, "ensureroutes", rb)
			if (ra.err != nil) != (rb.err != nil) && !isLuaDeadline(ra.err) && !isLuaDeadline(rb.err) {
				vlib.Fail(t, chkC15, "custom-stateless-error-divergence", c, "step %d: after the history error=%v, on a fresh object error=%v", i, ra.err, rb.err)
			}
			if ra.err == nil && rb.err == nil {
				for j := range c.Refs {
					ua, ea := A.get(j)
					ub, eb := B.get(j)
					if ea != nil || eb != nil {
						vlib.Fail(t, chkC15, "custom-stateless-object-lost", c, "step %d object %d: %v / %v", i, j, ea, eb)
					}
					pa, pb := project(ua.Object), project(ub.Object)
					if x, y := pa.strict(), pb.strict(); x != y {
						part := "spec"
						if !strMapEq(pa.Labels, pb.Labels) {
							part = "labels"
						} else if !strMapEq(pa.Annotations, pb.Annotations) {
							part = "annotations"
						}
						vlib.Fail(t, chkC15, "custom-stateless-"+part, c, "step %d object %d depends on the step history:\n after s1..s%d: %s\n fresh s%d only: %s", i, j, i+1, x, i+1, y)
					}
				}
			}
		}
		if ra.err != nil {
			continue
		}
		// (3) what the step wrote is f(original, step)
		for j, ref := range c.Refs {
			u, err := A.get(j)
			if err != nil {
				vlib.Fail(t, chkC15, "custom-object-lost", c, "step %d object %d: %v", i, j, err)
			}
			cur, orig := project(u.Object), project(c.original(j))
			if !cur.HasSnapshot {
				vlib.Fail(t, chkC15, "custom-snapshot-missing", c, "step %d object %d carries no snapshot annotation after a successful EnsureRoutes", i, j)
			}
			switch ref.Family {
			case "vs":
				if sig, msg := checkIstio(orig.Spec, cur.Spec, s, c.Stable, c.Canary); sig != "" {
					vlib.Fail(t, chkC15, sig, c, "step %d object %d: %s", i, j, msg)
				}
				if !strMapEq(cur.Labels, orig.Labels) || !strMapEq(cur.Annotations, orig.Annotations) {
					vlib.Fail(t, chkC15, "custom-istio-metadata-touched", c, "step %d object %d: labels/annotations changed by the VirtualService script", i, j)
				}
			case "generic":
				exp := applyOps(orig, ref.Ops, s, c.Canary)
				if !looseEq(exp.Spec, cur.Spec) || !strMapEq(exp.Labels, cur.Labels) || !strMapEq(exp.Annotations, cur.Annotations) {
					vlib.Fail(t, chkC15, "custom-generic-script-effect", c, "step %d object %d is not script(original, step):\n want spec=%s labels=%v annotations=%v\n got  spec=%s labels=%v annotations=%v",
						i, j, cjFloat(exp.Spec, true), exp.Labels, exp.Annotations, cjFloat(cur.Spec, true), cur.Labels, cur.Annotations)
				}
			}
		}
	}

	// (2) Finalise
	switch c.FinFault {
	case "missing":
		A.delete(c.FinRef)
	case "updateErr":
		A.cli.failName = c.Refs[c.FinRef].Name
		rf := A.finalise()
		failPanic(t, chkC15, c, "finalise", rf)
		if A.cli.failCount > 0 && rf.err == nil {
			vlib.Fail(t, chkC15, "custom-finalise-error-swallowed", c, "the restore of object %d failed but Finalise reported no error", c.FinRef)
		}
		for j := range c.Refs {
			if j != c.FinRef {
				checkRestored(t, c, A, j, fmt.Sprintf("after a Finalise in which object %d failed", c.FinRef))
			}
		}
		A.cli.failName = ""
	}
	settled := false
	for n := 0; n < 3; n++ {
		rf := A.finalise()
		failPanic(t, chkC15, c, "finalise", rf)
		if rf.err != nil {
			vlib.Fail(t, chkC15, "custom-finalise-error", c, "Finalise failed: %v", rf.err)
		}
		if !rf.done {
			settled = true
			break
		}
	}
	if !settled {
		vlib.Fail(t, chkC15, "custom-finalise-never-settles", c, "Finalise still reports modified after 3 calls")
	}
	for j := range c.Refs {
		if c.FinFault == "missing" && j == c.FinRef {
			continue
		}
		checkRestored(t, c, A, j, "after Finalise")
	}
}

func TestC15Custom(t *testing.T) {
	var rc Case
	if ok, _ := vlib.LoadReplay(chkC15, &rc); ok {
		runC15(t, &rc)
		return
	}
	rapid.Check(t, func(t *rapid.T) {
		c := genCase(t, genOpts{check: chkC15, finFaults: true})
		vlib.Record(chkC15, c.sig(), c.nonTrivial(), c.Classes, func() any { return c })
		runC15(t, c)
	})
}
