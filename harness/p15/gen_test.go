package p15

// Generators: unstructured VirtualService / DestinationRule objects for the built-in Istio
// scripts, generic custom resources with generated well-behaved scripts (template family), and
// strategy sequences as pkg/trafficrouting/manager.go hands them to the provider.

import (
	"encoding/json"
	"fmt"
	"sort"
	"strings"

	"github.com/openkruise/rollouts/api/v1beta1"
	"pgregory.net/rapid"
	gatewayv1beta1 "sigs.k8s.io/gateway-api/apis/v1beta1"

	"verifharness/vlib"
)

type M = map[string]interface{}
type L = []interface{}

type genCtx struct {
	t       *rapid.T
	check   string
	stable  string
	canary  string
	classes map[string]bool
	empties int // empty containers put below some spec
}

func (g *genCtx) cls(s string) { g.classes[s] = true }

// pct is true with probability of about p percent (granularity 5 %). rapid's integer generators
// are deliberately biased towards small values, SampledFrom is close to uniform; false comes
// first so that shrinking moves towards "feature absent".
func (g *genCtx) pct(label string, p int) bool {
	k := (p + 2) / 5
	if k == 0 && p > 0 {
		k = 1
	}
	return rapid.SampledFrom(pctSlots[:]).Draw(g.t, label) >= 20-k
}

var pctSlots = func() (a [20]int) {
	for i := range a {
		a[i] = i
	}
	return
}()

func pick[T any](g *genCtx, label string, xs ...T) T {
	return rapid.SampledFrom(xs).Draw(g.t, label)
}

var strPool = []string{"a", "v1", "prod", "x-y.z", "5s", "", "héllo", "<&>", "a\"b", "1e3", "true", "null"}

// strMapOrNil: absent (nil) or 1..2 entries; an API server never returns an empty metadata map.
func (g *genCtx) strMapOrNil(label string, pAbsent int) interface{} {
	if g.pct(label+"-absent", pAbsent) {
		return nil
	}
	m := M{}
	for i, n := 0, rapid.IntRange(1, 2).Draw(g.t, label+"-n"); i < n; i++ {
		k := pick(g, label+"-k", "app", "team", "example.com/owner", "k8s.io/x", "tier")
		m[k] = pick(g, label+"-v", strPool...)
	}
	return m
}

func (g *genCtx) meta(name string) M {
	md := M{"name": name, "namespace": testNS}
	if l := g.strMapOrNil("labels", 45); l != nil {
		md["labels"] = l
	} else {
		g.cls("nil-labels")
	}
	if a := g.strMapOrNil("annotations", 45); a != nil {
		md["annotations"] = a
	} else {
		g.cls("nil-annotations")
	}
	return md
}

// emptyOr returns an empty container with probability p (counted), otherwise v.
func (g *genCtx) emptyOr(label string, p int, empty, v interface{}) interface{} {
	if g.pct(label+"-empty", p) {
		g.empties++
		return empty
	}
	return v
}

// ------------------------------------------------------------------------------------------
// VirtualService

func (g *genCtx) host(label string, stablePct int) string {
	if g.pct(label+"-stable", stablePct) {
		return pick(g, label+"-form", g.stable, g.stable, g.stable+"."+testNS+".svc.cluster.local", g.stable+"."+testNS)
	}
	return pick(g, label+"-other", "other", "other.ns.svc.cluster.local", g.stable+"x", "x"+g.stable, g.stable+"-v2."+testNS)
}

func (g *genCtx) destination(label, host string) M {
	d := M{"host": host}
	if g.pct(label+"-subset", 30) {
		d["subset"] = pick(g, label+"-subsetv", "v1", "base", "stable")
	}
	if g.pct(label+"-port", 20) {
		d["port"] = M{"number": int64(pick(g, label+"-portn", 80, 8080, 443))}
	}
	return d
}

func (g *genCtx) routeList(label string) L {
	n := pick(g, label+"-nroutes", 1, 1, 1, 1, 2, 2, 3)
	var out L
	switch n {
	case 1:
		h := g.host(label+"-h", 70)
		r := M{"destination": g.destination(label+"-d", h)}
		if g.pct(label+"-w100", 35) {
			r["weight"] = int64(100)
		}
		if g.pct(label+"-rh", 15) {
			r["headers"] = g.emptyOr(label+"-rh", 60, M{}, M{"response": M{"add": M{"x-served-by": "a"}}})
		}
		out = L{r}
	default:
		ws := [][]int64{{50, 50}, {90, 10}, {1, 99}, {100, 0}}
		if n == 3 {
			ws = [][]int64{{34, 33, 33}, {80, 10, 10}, {98, 1, 1}}
		}
		w := ws[rapid.IntRange(0, len(ws)-1).Draw(g.t, label+"-wset")]
		withW := g.pct(label+"-withw", 85)
		for i := 0; i < n; i++ {
			h := g.host(fmt.Sprintf("%s-h%d", label, i), 50)
			r := M{"destination": g.destination(fmt.Sprintf("%s-d%d", label, i), h)}
			if withW {
				r["weight"] = w[i]
			}
			out = append(out, r)
		}
		g.cls("vs-multi-destination-rule")
	}
	return out
}

func (g *genCtx) httpMatch(label string) interface{} {
	if g.pct(label+"-emptylist", 8) {
		g.empties++
		return L{}
	}
	var out L
	for i, n := 0, rapid.IntRange(1, 2).Draw(g.t, label+"-n"); i < n; i++ {
		m := M{}
		switch pick(g, label+"-kind", "uri", "headers", "both", "emptyhdr") {
		case "uri":
			m["uri"] = M{pick(g, label+"-ut", "prefix", "exact", "regex"): pick(g, label+"-uv", "/", "/api", "/v1/.*")}
		case "headers":
			m["headers"] = M{"x-user": M{"exact": "tester"}}
		case "both":
			m["uri"] = M{"prefix": "/"}
			m["headers"] = M{"cookie": M{"regex": ".*canary.*"}}
		case "emptyhdr":
			m["uri"] = M{"prefix": "/e"}
			m["headers"] = M{}
			g.empties++
		}
		out = append(out, m)
	}
	return out
}

func (g *genCtx) httpRule(label string) M {
	r := M{}
	if g.pct(label+"-name", 30) {
		r["name"] = pick(g, label+"-namev", "primary", "r1", "default")
	}
	hasMatch := g.pct(label+"-match", 35)
	if hasMatch {
		r["match"] = g.httpMatch(label + "-m")
		g.cls("vs-match-rule")
	}
	// a rule without route (redirect / directResponse) is admitted by Istio; without a match it
	// makes the built-in script fail (ipairs(nil)) -- an error, tolerated, kept rare.
	if g.pct(label+"-noroute", 6) {
		r["redirect"] = M{"uri": "/new", "authority": "example.com"}
		if hasMatch {
			g.cls("vs-noroute-rule-with-match")
		} else {
			g.cls("vs-noroute-rule-without-match")
		}
	} else {
		r["route"] = g.routeList(label + "-r")
	}
	if g.pct(label+"-timeout", 25) {
		r["timeout"] = pick(g, label+"-timeoutv", "5s", "0.5s", "1m")
	}
	if g.pct(label+"-retries", 20) {
		r["retries"] = M{"attempts": int64(rapid.IntRange(0, 5).Draw(g.t, label+"-attempts")), "perTryTimeout": "2s", "retryOn": "gateway-error,connect-failure"}
	}
	if g.pct(label+"-fault", 12) {
		r["fault"] = M{"delay": M{"percentage": M{"value": pick(g, label+"-faultv", 0.1, 0.5, 12.5, 99.9)}, "fixedDelay": "5s"}}
	}
	if g.pct(label+"-headers", 20) {
		r["headers"] = g.emptyOr(label+"-headers", 50, M{}, M{"request": M{"set": M{"x-env": "prod"}, "remove": L{"x-debug"}}})
	}
	if g.pct(label+"-cors", 8) {
		r["corsPolicy"] = M{"allowOrigins": g.emptyOr(label+"-cors", 50, L{}, L{M{"exact": "https://example.com"}}), "allowCredentials": false, "maxAge": "24h"}
	}
	return r
}

func (g *genCtx) l4Rule(label string, tls bool) M {
	r := M{}
	if tls || g.pct(label+"-match", 35) {
		if tls {
			r["match"] = L{M{"port": int64(443), "sniHosts": L{pick(g, label+"-sni", "a.example.com", "*.example.com")}}}
		} else {
			r["match"] = L{M{"port": int64(pick(g, label+"-port", 3306, 27017))}}
		}
		g.cls("vs-match-rule")
	}
	r["route"] = g.routeList(label + "-r")
	return r
}

func (g *genCtx) virtualService(name string) M {
	spec := M{}
	spec["hosts"] = g.emptyOr("vs-hosts", 6, L{}, L{pick(g, "vs-host", "*", "example.com", g.stable)})
	switch pick(g, "vs-gateways", "absent", "absent", "one", "empty", "mesh") {
	case "one":
		spec["gateways"] = L{"nginx-gateway"}
	case "mesh":
		spec["gateways"] = L{"mesh", "istio-system/gw"}
	case "empty":
		spec["gateways"] = L{}
		g.empties++
	}
	if g.pct("vs-exportTo", 15) {
		spec["exportTo"] = g.emptyOr("vs-exportTo", 50, L{}, L{"."})
	}
	// http present in most objects (the matches strategy needs spec.http)
	if g.pct("vs-http", 95) {
		var rules L
		for i, n := 0, pick(g, "vs-nhttp", 0, 1, 1, 1, 2, 2, 3); i < n; i++ {
			rules = append(rules, g.httpRule(fmt.Sprintf("http%d", i)))
		}
		if rules == nil {
			rules = L{}
			g.empties++
		}
		spec["http"] = rules
	} else {
		g.cls("vs-no-http")
	}
	if g.pct("vs-tcp", 25) {
		var rules L
		for i, n := 0, rapid.IntRange(1, 2).Draw(g.t, "vs-ntcp"); i < n; i++ {
			rules = append(rules, g.l4Rule(fmt.Sprintf("tcp%d", i), false))
		}
		spec["tcp"] = rules
		g.cls("vs-tcp")
	}
	if g.pct("vs-tls", 15) {
		var rules L
		for i, n := 0, rapid.IntRange(1, 2).Draw(g.t, "vs-ntls"); i < n; i++ {
			rules = append(rules, g.l4Rule(fmt.Sprintf("tls%d", i), true))
		}
		spec["tls"] = rules
		g.cls("vs-tls")
	}
	return M{"apiVersion": "networking.istio.io/" + pick(g, "vs-version", "v1alpha3", "v1beta1"), "kind": "VirtualService", "metadata": g.meta(name), "spec": spec}
}

// ------------------------------------------------------------------------------------------
// DestinationRule

func (g *genCtx) destinationRule(name string) M {
	spec := M{"host": g.stable}
	if g.pct("dr-subsets", 95) {
		var subs L
		for i, n := 0, rapid.IntRange(0, 3).Draw(g.t, "dr-nsub"); i < n; i++ {
			s := M{"name": pick(g, "dr-subname", "base", "v1", "stable", "v2")}
			s["labels"] = g.emptyOr(fmt.Sprintf("dr-sublabels%d", i), 15, M{}, M{"version": pick(g, "dr-ver", "base", "v1")})
			if g.pct("dr-subtp", 15) {
				s["trafficPolicy"] = M{"loadBalancer": M{"simple": "ROUND_ROBIN"}}
			}
			subs = append(subs, s)
		}
		if subs == nil {
			subs = L{}
			g.empties++
		}
		spec["subsets"] = subs
	} else {
		g.cls("dr-no-subsets") // the built-in script fails on it (table.insert(nil, ..)): an error, tolerated
	}
	if g.pct("dr-tp", 30) {
		spec["trafficPolicy"] = g.emptyOr("dr-tp", 40, M{}, M{"connectionPool": M{"tcp": M{"maxConnections": int64(100)}}, "outlierDetection": M{"consecutive5xxErrors": int64(7), "interval": "30s"}})
	}
	return M{"apiVersion": "networking.istio.io/" + pick(g, "dr-version", "v1alpha3", "v1beta1"), "kind": "DestinationRule", "metadata": g.meta(name), "spec": spec}
}

// ------------------------------------------------------------------------------------------
// generic kinds + generated scripts

// Field names the generated scripts write to carry a fixed JSON type in generated specs, so a
// generated script is well-behaved on every generated object: weight*: number, canary/cfg: map,
// backends/routes: list of maps.
func (g *genCtx) value(label string, depth int) interface{} {
	kinds := []string{"str", "str", "int", "float", "bool", "bigint"}
	if depth > 0 {
		kinds = append(kinds, "map", "map", "list", "list", "emptymap", "emptylist")
	}
	switch pick(g, label+"-kind", kinds...) {
	case "str":
		return pick(g, label+"-s", strPool...)
	case "int":
		return int64(rapid.IntRange(-3, 1000).Draw(g.t, label+"-i"))
	case "float":
		return pick(g, label+"-f", 0.5, 0.25, 99.9, -1.5, 1e-7, 1.5e21)
	case "bool":
		return g.pct(label+"-b", 50)
	case "bigint":
		if knownOpen[sigRestoreInt64] {
			vlib.Excluded(g.check, sigRestoreInt64)
			return int64(9007199254740992) // 2^53: the largest magnitude every float64 trip keeps
		}
		g.cls("int64-beyond-2^53")
		return pick(g, label+"-big", int64(9007199254740993), int64(-9007199254740993), int64(9223372036854775807), int64(1234567890123456789))
	case "map":
		return g.genericMap(label, depth-1)
	case "list":
		var out L
		for i, n := 0, rapid.IntRange(1, 3).Draw(g.t, label+"-n"); i < n; i++ {
			out = append(out, g.value(fmt.Sprintf("%s-%d", label, i), depth-1))
		}
		return out
	case "emptymap":
		g.empties++
		return M{}
	case "emptylist":
		g.empties++
		return L{}
	}
	return nil
}

func (g *genCtx) genericMap(label string, depth int) M {
	m := M{}
	for i, n := 0, rapid.IntRange(0, 4).Draw(g.t, label+"-nkeys"); i < n; i++ {
		k := pick(g, fmt.Sprintf("%s-k%d", label, i), "a", "b", "hosts", "name", "enabled", "weight", "stableWeight", "canary", "cfg", "backends", "routes", "matches", "1", "x.y/z")
		switch k {
		case "weight", "stableWeight", "matches":
			m[k] = int64(rapid.IntRange(0, 100).Draw(g.t, label+"-"+k))
		case "canary", "cfg":
			if depth > 0 {
				m[k] = g.genericMap(label+"-"+k, depth-1)
			} else {
				m[k] = M{}
			}
			if len(m[k].(M)) == 0 {
				g.empties++
			}
		case "backends", "routes":
			var out L
			for j, nn := 0, rapid.IntRange(0, 2).Draw(g.t, label+"-"+k+"-n"); j < nn; j++ {
				out = append(out, M{"name": pick(g, label+"-bn", g.stable, "other"), "weight": int64(rapid.IntRange(0, 100).Draw(g.t, label+"-bw"))})
			}
			if out == nil {
				out = L{}
				g.empties++
			}
			m[k] = out
		default:
			m[k] = g.value(fmt.Sprintf("%s-v%d", label, i), depth)
		}
	}
	if len(m) == 0 {
		g.empties++ // counted where it is embedded too; only a statistic
	}
	return m
}

var genericKinds = []struct{ apiVersion, kind string }{
	{"example.com/v1", "TrafficPolicy"},
	{"split.smi-spec.io/v1alpha4", "TrafficSplit"},
	{"gateway.example.io/v1beta2", "Route"},
}

func (g *genCtx) generic(name, apiVersion, kind string) M {
	obj := M{"apiVersion": apiVersion, "kind": kind, "metadata": g.meta(name)}
	switch {
	case g.pct("gen-nospec", 10):
		g.cls("no-spec")
	case g.pct("gen-emptyspec", 8):
		obj["spec"] = M{}
		g.empties++
		g.cls("empty-spec")
	default:
		obj["spec"] = g.genericMap("spec", 2)
	}
	if g.pct("gen-status", 20) {
		obj["status"] = M{"observedGeneration": int64(3)}
	}
	return obj
}

func (g *genCtx) scriptOps() []ScriptOp {
	n := pick(g, "ops-n", 1, 1, 2, 2, 3)
	var ops []ScriptOp
	used := map[string]bool{}
	for i := 0; i < n; i++ {
		var op ScriptOp
		switch pick(g, fmt.Sprintf("op%d", i), "setWeight", "setWeight", "setStable", "append", "append", "setAnno", "setAnnoOnMatch", "setLabel", "countMatches", "identity") {
		case "setWeight":
			op = ScriptOp{Op: "setWeight", Path: pick(g, "op-path", []string{"weight"}, []string{"canary", "weight"}, []string{"cfg", "canary", "weight"})}
		case "setStable":
			op = ScriptOp{Op: "setStable", Path: pick(g, "op-spath", []string{"stableWeight"}, []string{"cfg", "stableWeight"})}
		case "append":
			op = ScriptOp{Op: "append", Path: pick(g, "op-apath", []string{"backends"}, []string{"routes"}, []string{"cfg", "routes"})}
		case "setAnno":
			op = ScriptOp{Op: "setAnno", Key: pick(g, "op-akey", "example.com/canary-weight", "app", "team"), Value: pick(g, "op-aval", "weight", "service")}
		case "setAnnoOnMatch":
			// step-dependent: written only by steps that carry matches, so a later weight step's
			// output omits it (steps must not accumulate)
			op = ScriptOp{Op: "setAnnoOnMatch", Key: pick(g, "op-mkey", "example.com/canary-by-header", "team")}
		case "setLabel":
			op = ScriptOp{Op: "setLabel", Key: pick(g, "op-lkey", "canary", "app", "tier"), Value: pick(g, "op-lval", "weight", "service")}
		case "countMatches":
			op = ScriptOp{Op: "countMatches", Path: []string{"matches"}}
		default:
			op = ScriptOp{Op: "identity"}
		}
		id := op.Op + "|" + strings.Join(op.Path, ".") + "|" + op.Key
		if used[id] {
			continue
		}
		used[id] = true
		ops = append(ops, op)
		g.cls("script-op=" + op.Op)
	}
	return ops
}

// luaPath emits code that walks to the parent table of path below `spec`, creating intermediate
// tables, and returns the Lua expression of the parent and the last key.
func luaPath(b *strings.Builder, path []string) (parent, last string) {
	b.WriteString("local t = d.spec\n")
	for _, seg := range path[:len(path)-1] {
		fmt.Fprintf(b, "if type(t[%q]) ~= \"table\" then t[%q] = {} end\nt = t[%q]\n", seg, seg, seg)
	}
	return "t", path[len(path)-1]
}

func renderScript(ops []ScriptOp) string {
	var b strings.Builder
	b.WriteString("local d = obj.data\n")
	b.WriteString("local w = obj.canaryWeight\nlocal sw = obj.stableWeight\nif w == -1 then w = 100 sw = 0 end\n")
	for _, op := range ops {
		b.WriteString("do\n")
		switch op.Op {
		case "setWeight", "setStable", "append", "countMatches":
			b.WriteString("if d.spec == nil then d.spec = {} end\n")
			p, last := luaPath(&b, op.Path)
			switch op.Op {
			case "setWeight":
				fmt.Fprintf(&b, "%s[%q] = w\n", p, last)
			case "setStable":
				fmt.Fprintf(&b, "%s[%q] = sw\n", p, last)
			case "countMatches":
				fmt.Fprintf(&b, "local n = 0\nif obj.matches ~= nil then n = #obj.matches end\n%s[%q] = n\n", p, last)
			case "append":
				fmt.Fprintf(&b, "if type(%s[%q]) ~= \"table\" then %s[%q] = {} end\n", p, last, p, last)
				fmt.Fprintf(&b, "table.insert(%s[%q], {name = obj.canaryService, weight = w})\n", p, last)
			}
		case "setAnno", "setLabel":
			f := "annotations"
			if op.Op == "setLabel" {
				f = "labels"
			}
			v := "tostring(w)"
			if op.Value == "service" {
				v = "obj.canaryService"
			}
			fmt.Fprintf(&b, "if d.%s == nil then d.%s = {} end\nd.%s[%q] = %s\n", f, f, f, op.Key, v)
		case "setAnnoOnMatch":
			fmt.Fprintf(&b, "if obj.matches ~= nil and #obj.matches > 0 then\nif d.annotations == nil then d.annotations = {} end\nd.annotations[%q] = tostring(#obj.matches)\nend\n", op.Key)
		case "identity":
		}
		b.WriteString("end\n")
	}
	b.WriteString("return d\n")
	return b.String()
}

// ------------------------------------------------------------------------------------------
// strategies

func (g *genCtx) headerMatches(label string, n int) []gatewayv1beta1.HTTPHeaderMatch {
	var out []gatewayv1beta1.HTTPHeaderMatch
	names := []string{"user-agent", "x-canary", "cookie", "name"}
	for i := 0; i < n; i++ {
		ty := pick(g, label+"-type", gatewayv1beta1.HeaderMatchExact, gatewayv1beta1.HeaderMatchRegularExpression)
		out = append(out, gatewayv1beta1.HTTPHeaderMatch{Type: &ty, Name: gatewayv1beta1.HTTPHeaderName(names[(i+rapid.IntRange(0, 3).Draw(g.t, label+"-name"))%4]), Value: pick(g, label+"-value", "pc", ".*demo", "true", "a=b")})
	}
	// listType=map on name: names are unique
	seen := map[gatewayv1beta1.HTTPHeaderName]bool{}
	var uniq []gatewayv1beta1.HTTPHeaderMatch
	for _, h := range out {
		if !seen[h.Name] {
			seen[h.Name] = true
			uniq = append(uniq, h)
		}
	}
	return uniq
}

func (g *genCtx) strategy(i int) v1beta1.TrafficRoutingStrategy {
	l := fmt.Sprintf("s%d", i)
	var s v1beta1.TrafficRoutingStrategy
	kind := pick(g, l+"-kind", "weight", "weight", "weight", "matches", "matches", "both")
	if kind == "weight" || kind == "both" {
		n := pick(g, l+"-w", 0, 1, 5, 10, 20, 33, 50, 67, 99, 100, 100, -1)
		if n < 0 {
			n = rapid.IntRange(0, 100).Draw(g.t, l+"-wr")
		}
		tr := fmt.Sprintf("%d%%", n)
		s.Traffic = &tr
	}
	if kind == "matches" || kind == "both" {
		for j, n := 0, rapid.IntRange(1, 2).Draw(g.t, l+"-nm"); j < n; j++ {
			var m v1beta1.HttpRouteMatch
			lj := fmt.Sprintf("%s-m%d", l, j)
			shape := pick(g, lj+"-shape", "headers", "headers", "path", "query", "headers+path", "headers+query")
			if strings.Contains(shape, "headers") {
				m.Headers = g.headerMatches(lj+"-h", rapid.IntRange(1, 2).Draw(g.t, lj+"-nh"))
			}
			if strings.Contains(shape, "path") {
				ty := pick(g, lj+"-pt", gatewayv1beta1.PathMatchExact, gatewayv1beta1.PathMatchPathPrefix, gatewayv1beta1.PathMatchRegularExpression)
				v := pick(g, lj+"-pv", "/", "/api", "/v[0-9]+")
				m.Path = &gatewayv1beta1.HTTPPathMatch{Type: &ty, Value: &v}
			}
			if strings.Contains(shape, "query") {
				ty := pick(g, lj+"-qt", gatewayv1beta1.QueryParamMatchExact, gatewayv1beta1.QueryParamMatchRegularExpression)
				m.QueryParams = []gatewayv1beta1.HTTPQueryParamMatch{{Type: &ty, Name: "user", Value: pick(g, lj+"-qv", "tester", "t.*")}}
			}
			s.Matches = append(s.Matches, m)
		}
		if g.pct(l+"-rhm", 35) {
			f := &gatewayv1beta1.HTTPHeaderFilter{}
			if g.pct(l+"-rhm-set", 70) {
				f.Set = []gatewayv1beta1.HTTPHeader{{Name: "header-foo", Value: "bar"}}
			}
			if g.pct(l+"-rhm-add", 30) {
				f.Add = []gatewayv1beta1.HTTPHeader{{Name: "x-added", Value: "1"}}
			}
			if g.pct(l+"-rhm-remove", 30) {
				f.Remove = []string{"x-debug"}
			}
			if len(f.Set)+len(f.Add)+len(f.Remove) == 0 {
				// An empty requestHeaderModifier is an empty Lua table that the VirtualService
				// script turns into headers.request = {} -> null; only interesting with pruning.
				f.Set = []gatewayv1beta1.HTTPHeader{{Name: "header-foo", Value: "bar"}}
			}
			s.RequestHeaderModifier = f
			g.cls("strategy-header-modifier")
		}
	}
	g.cls("strategy=" + kind)
	return s
}

// ------------------------------------------------------------------------------------------
// whole case

type genOpts struct {
	check     string
	finFaults bool
	pruning   bool
}

func genCase(t *rapid.T, o genOpts) *Case {
	g := &genCtx{t: t, check: o.check, classes: map[string]bool{}}
	g.stable = pick(g, "stable", "svc", "echoserver", "svc-demo")
	if g.pct("canary-same", 20) {
		g.canary = g.stable
		g.cls("canary==stable")
	} else {
		g.canary = g.stable + "-canary"
	}
	c := &Case{Stable: g.stable, Canary: g.canary, Scripts: map[string]string{}, Pruning: o.pruning}
	nrefs := pick(g, "nrefs", 1, 1, 1, 2, 2, 3)
	usedGeneric := map[int]bool{}
	for i := 0; i < nrefs; i++ {
		name := fmt.Sprintf("obj%d", i)
		fam := pick(g, fmt.Sprintf("family%d", i), "vs", "vs", "vs", "dr", "generic", "generic", "generic")
		var obj M
		r := Ref{Name: name, Family: fam}
		before := g.empties
		switch fam {
		case "vs":
			obj = g.virtualService(name)
		case "dr":
			obj = g.destinationRule(name)
		default:
			// one script per (group, kind): a second object of the same kind reuses it
			k := rapid.IntRange(0, len(genericKinds)-1).Draw(t, "generic-kind")
			gk := genericKinds[k]
			obj = g.generic(name, gk.apiVersion, gk.kind)
			key := scriptKey(gk.apiVersion, gk.kind)
			if !usedGeneric[k] {
				usedGeneric[k] = true
				ops := g.scriptOps()
				c.Scripts[key] = renderScript(ops)
				r.Ops = ops
			} else {
				for _, pr := range c.Refs {
					if pr.APIVersion == gk.apiVersion && pr.Kind == gk.kind {
						r.Ops = pr.Ops
					}
				}
			}
		}
		if o.pruning && knownOpen[sigPrunedLivelock] && g.empties > before {
			// steer away from exactly the input class of the listed finding: an empty
			// container below spec under a null-pruning API server
			vlib.Excluded(o.check, sigPrunedLivelock)
			if ns, empty := stripEmpties(obj["spec"]); empty {
				delete(obj, "spec")
			} else {
				obj["spec"] = ns
			}
			if fam == "vs" {
				spec, _ := obj["spec"].(M)
				if spec == nil {
					spec = M{}
					obj["spec"] = spec
				}
				if _, ok := spec["hosts"]; !ok {
					spec["hosts"] = L{"*"}
				}
			}
			g.empties = before
		}
		if g.empties > before {
			g.cls("empty-container")
		}
		r.APIVersion, r.Kind = obj["apiVersion"].(string), obj["kind"].(string)
		raw, err := json.Marshal(obj)
		if err != nil {
			t.Fatalf("harness: marshal generated object: %v", err)
		}
		r.Object = raw
		c.Refs = append(c.Refs, r)
		g.cls("family=" + fam)
	}
	g.cls(fmt.Sprintf("refs=%d", nrefs))
	// a ConfigMap without data for the built-in kinds is the normal installation
	nsteps := pick(g, "nsteps", 1, 2, 2, 3, 3, 4, 5)
	for i := 0; i < nsteps; i++ {
		c.Strategies = append(c.Strategies, g.strategy(i))
	}
	if g.pct("final-100", 30) { // RouteAllTrafficToNewVersion: traffic 100%, no matches
		tr := "100%"
		c.Strategies[len(c.Strategies)-1] = v1beta1.TrafficRoutingStrategy{Traffic: &tr}
		g.cls("final-route-all")
	}
	g.cls(fmt.Sprintf("steps=%d", len(c.Strategies)))
	if o.finFaults {
		switch pick(g, "fin-fault", "", "", "", "missing", "updateErr") {
		case "missing":
			c.FinFault, c.FinRef = "missing", rapid.IntRange(0, nrefs-1).Draw(t, "fin-ref")
		case "updateErr":
			c.FinFault, c.FinRef = "updateErr", rapid.IntRange(0, nrefs-1).Draw(t, "fin-ref")
		}
		g.cls("finalise-fault=" + c.FinFault)
	}
	for k := range g.classes {
		c.Classes = append(c.Classes, k)
	}
	sort.Strings(c.Classes)
	return c
}

// stripEmpties returns v without empty containers (recursively, bottom-up: a container that
// becomes empty is removed from its parent too) and whether v itself ended up empty.
func stripEmpties(v interface{}) (interface{}, bool) {
	switch x := v.(type) {
	case M:
		for k, e := range x {
			if ne, empty := stripEmpties(e); empty {
				delete(x, k)
			} else {
				x[k] = ne
			}
		}
		return x, len(x) == 0
	case L:
		out := L{}
		for _, e := range x {
			if ne, empty := stripEmpties(e); !empty {
				out = append(out, ne)
			}
		}
		return out, len(out) == 0
	}
	return v, false
}

func (c *Case) hasClass(s string) bool {
	for _, k := range c.Classes {
		if k == s {
			return true
		}
	}
	return false
}

func (c *Case) sig() string {
	b, _ := json.Marshal(struct {
		R []Ref
		S interface{}
		F string
		N int
		C string
		P bool
	}{c.Refs, c.Strategies, c.FinFault, c.FinRef, c.Canary, c.Pruning})
	return string(b)
}

// nonTrivial is the NT rule of C15: >= 2 steps and >= 1 object with an empty container or a nil
// metadata map.
func (c *Case) nonTrivial() bool {
	return len(c.Strategies) >= 2 && (c.hasClass("empty-container") || c.hasClass("nil-labels") || c.hasClass("nil-annotations") || c.hasClass("no-spec"))
}
