package p15

// The modelled API server of the C15 / C07(b) component checks: a controller-runtime fake client
// holding the generated unstructured objects plus the kruise-rollout-configuration ConfigMap,
// wrapped by countingClient (write counter, one-shot Update fault, optional null pruning), and the
// JSON normalisation every comparison goes through.

import (
	"context"
	"encoding/json"
	"errors"
	"flag"
	"fmt"
	"io"
	"math"
	"os"
	"sort"
	"strconv"
	"strings"
	"testing"

	"github.com/openkruise/rollouts/api/v1beta1"
	custom "github.com/openkruise/rollouts/pkg/trafficrouting/network/customNetworkProvider"
	"github.com/openkruise/rollouts/pkg/util"
	"github.com/openkruise/rollouts/pkg/util/configuration"
	corev1 "k8s.io/api/core/v1"
	metav1 "k8s.io/apimachinery/pkg/apis/meta/v1"
	"k8s.io/apimachinery/pkg/apis/meta/v1/unstructured"
	"k8s.io/apimachinery/pkg/runtime"
	"k8s.io/apimachinery/pkg/types"
	"k8s.io/klog/v2"
	"sigs.k8s.io/controller-runtime/pkg/client"
	"sigs.k8s.io/controller-runtime/pkg/client/fake"

	"verifharness/vlib"
)

const testNS = "ns"

var scheme = runtime.NewScheme()

func TestMain(m *testing.M) {
	_ = os.Unsetenv("POD_NAMESPACE") // util.GetRolloutNamespace() must be the default "kruise-rollout"
	fs := flag.NewFlagSet("klog", flag.ContinueOnError)
	klog.InitFlags(fs)
	_ = fs.Set("logtostderr", "false")
	_ = fs.Set("alsologtostderr", "false")
	_ = fs.Set("stderrthreshold", "FATAL") // errors of the provider are expected noise here
	klog.SetOutput(io.Discard)
	_ = corev1.AddToScheme(scheme)
	vlib.Main(m)
}

// ---------------------------------------------------------------------------------------------
// Case: everything a run is a pure function of.

// Ref is one generated network object. Object is the JSON text of the whole unstructured object
// (kept as raw bytes so that a replay file reproduces int64 values exactly).
type Ref struct {
	APIVersion string          `json:"apiVersion"`
	Kind       string          `json:"kind"`
	Name       string          `json:"name"`
	Family     string          `json:"family"` // vs | dr | generic
	Object     json.RawMessage `json:"object"`
	Ops        []ScriptOp      `json:"ops,omitempty"` // generic kinds: the template ops of its script (model)
}

// ScriptOp is one template instance of a generated well-behaved script.
type ScriptOp struct {
	Op    string   `json:"op"`             // setWeight | setStable | append | setAnno | setAnnoOnMatch | setLabel | countMatches | identity
	Path  []string `json:"path,omitempty"` // field path below spec (setWeight/setStable/append/countMatches)
	Key   string   `json:"key,omitempty"`  // annotation / label key
	Value string   `json:"value,omitempty"`
}

type Case struct {
	Stable     string                           `json:"stable"`
	Canary     string                           `json:"canary"`
	Refs       []Ref                            `json:"refs"`
	Scripts    map[string]string                `json:"scripts,omitempty"` // ConfigMap data
	Strategies []v1beta1.TrafficRoutingStrategy `json:"strategies"`
	FinFault   string                           `json:"finFault,omitempty"` // "" | missing | updateErr
	FinRef     int                              `json:"finRef,omitempty"`
	Pruning    bool                             `json:"pruning,omitempty"` // null-pruning API server (C07b thorough)
	Classes    []string                         `json:"classes,omitempty"`
	originals  []map[string]interface{}         // decoded lazily
}

func scriptKey(apiVersion, kind string) string {
	group := strings.Split(apiVersion, "/")[0]
	return fmt.Sprintf("%s.%s.%s", configuration.LuaTrafficRoutingCustomTypePrefix, kind, group)
}

// ---------------------------------------------------------------------------------------------
// countingClient

type countingClient struct {
	client.Client
	writes    int
	pruning   bool
	failName  string // Update of the object with this name fails while set
	failCount int
}

var errInjected = errors.New("injected update failure")

// pruneNulls removes null-valued map entries recursively, as the structural-schema pruning of a
// CustomResource does for fields that are neither nullable nor defaulted
// (apiextensions-apiserver: defaulting.PruneNonNullableNullsWithoutDefaults). Array items are
// visited but never removed, as there.
func pruneNulls(x interface{}) {
	switch v := x.(type) {
	case map[string]interface{}:
		for k, e := range v {
			if e == nil {
				delete(v, k)
			} else {
				pruneNulls(e)
			}
		}
	case []interface{}:
		for _, e := range v {
			pruneNulls(e)
		}
	}
}

func (c *countingClient) Update(ctx context.Context, obj client.Object, opts ...client.UpdateOption) error {
	c.writes++
	if c.failName != "" && obj.GetName() == c.failName {
		c.failCount++
		return errInjected
	}
	if u, ok := obj.(*unstructured.Unstructured); ok && c.pruning {
		cp := u.DeepCopy()
		pruneNulls(cp.Object)
		if err := c.Client.Update(ctx, cp, opts...); err != nil {
			return err
		}
		u.Object = cp.Object // a real client decodes the server's response into obj
		return nil
	}
	return c.Client.Update(ctx, obj, opts...)
}

func (c *countingClient) Create(ctx context.Context, obj client.Object, opts ...client.CreateOption) error {
	c.writes++
	return c.Client.Create(ctx, obj, opts...)
}

func (c *countingClient) Patch(ctx context.Context, obj client.Object, patch client.Patch, opts ...client.PatchOption) error {
	c.writes++
	return c.Client.Patch(ctx, obj, patch, opts...)
}

func (c *countingClient) Delete(ctx context.Context, obj client.Object, opts ...client.DeleteOption) error {
	c.writes++
	return c.Client.Delete(ctx, obj, opts...)
}

func (c *countingClient) DeleteAllOf(ctx context.Context, obj client.Object, opts ...client.DeleteAllOfOption) error {
	c.writes++
	return c.Client.DeleteAllOf(ctx, obj, opts...)
}

type countingStatus struct {
	client.SubResourceWriter
	c *countingClient
}

func (s countingStatus) Update(ctx context.Context, obj client.Object, opts ...client.SubResourceUpdateOption) error {
	s.c.writes++
	return s.SubResourceWriter.Update(ctx, obj, opts...)
}

func (s countingStatus) Patch(ctx context.Context, obj client.Object, patch client.Patch, opts ...client.SubResourcePatchOption) error {
	s.c.writes++
	return s.SubResourceWriter.Patch(ctx, obj, patch, opts...)
}

func (c *countingClient) Status() client.SubResourceWriter {
	return countingStatus{c.Client.Status(), c}
}

// ---------------------------------------------------------------------------------------------
// world

type world struct {
	cli  *countingClient
	c    *Case
	chk  string
	refs []v1beta1.ObjectRef
}

func decodeObject(raw json.RawMessage) (*unstructured.Unstructured, error) {
	u := &unstructured.Unstructured{}
	if err := u.UnmarshalJSON(raw); err != nil { // k8s json: integers stay int64
		return nil, err
	}
	return u, nil
}

func (c *Case) original(i int) map[string]interface{} {
	if c.originals == nil {
		c.originals = make([]map[string]interface{}, len(c.Refs))
	}
	if c.originals[i] == nil {
		u, err := decodeObject(c.Refs[i].Object)
		if err != nil {
			panic(fmt.Sprintf("harness: cannot decode generated object %d: %v", i, err))
		}
		c.originals[i] = u.Object
	}
	return c.originals[i]
}

func newWorld(chk string, c *Case, pruning bool) *world {
	inner := fake.NewClientBuilder().WithScheme(scheme).Build()
	cm := &corev1.ConfigMap{ObjectMeta: metav1.ObjectMeta{Namespace: util.GetRolloutNamespace(), Name: custom.LuaConfigMap}, Data: map[string]string{}}
	keys := make([]string, 0, len(c.Scripts))
	for k := range c.Scripts {
		keys = append(keys, k)
	}
	sort.Strings(keys)
	for _, k := range keys {
		cm.Data[k] = c.Scripts[k]
	}
	if err := inner.Create(context.TODO(), cm); err != nil {
		panic("harness: create configmap: " + err.Error())
	}
	w := &world{cli: &countingClient{Client: inner, pruning: pruning}, c: c, chk: chk}
	for i, r := range c.Refs {
		u, err := decodeObject(r.Object)
		if err != nil {
			panic(fmt.Sprintf("harness: decode object %d: %v", i, err))
		}
		if err := inner.Create(context.TODO(), u); err != nil {
			panic(fmt.Sprintf("harness: create object %d: %v", i, err))
		}
		w.refs = append(w.refs, v1beta1.ObjectRef{APIVersion: r.APIVersion, Kind: r.Kind, Name: r.Name})
	}
	return w
}

// provider builds a new provider for every call, as pkg/trafficrouting/manager.go does.
func (w *world) provider() (p interface {
	Initialize(context.Context) error
	EnsureRoutes(context.Context, *v1beta1.TrafficRoutingStrategy) (bool, error)
	Finalise(context.Context) (bool, error)
}) {
	np, err := custom.NewCustomController(w.cli, custom.Config{
		Key:                          "ns/rollout",
		RolloutNs:                    testNS,
		CanaryService:                w.c.Canary,
		StableService:                w.c.Stable,
		TrafficConf:                  w.refs,
		DisableGenerateCanaryService: w.c.Canary == w.c.Stable,
	})
	if err != nil {
		panic("harness: NewCustomController: " + err.Error())
	}
	return np
}

type callResult struct {
	done     bool
	err      error
	panicked bool
	pmsg     string
}

func (w *world) initialize() callResult {
	var r callResult
	r.panicked, r.pmsg = vlib.Guard(func() { r.err = w.provider().Initialize(context.TODO()) })
	return r
}

// isLuaDeadline: luamanager gives every script a wall-clock deadline of one second. On a busy
// machine a stalled process can exceed it; that is an artefact of the test machine, not a result
// of the input, so such a call is simply made again (as the controller would on its next
// reconcile; the script runs before any object is updated).
func isLuaDeadline(err error) bool {
	return err != nil && strings.Contains(err.Error(), "context deadline exceeded")
}

func (w *world) ensure(s *v1beta1.TrafficRoutingStrategy) callResult {
	var r callResult
	for attempt := 0; attempt < 6; attempt++ {
		r = callResult{}
		sc := s.DeepCopy() // the manager hands the provider its own copy of the step's strategy
		r.panicked, r.pmsg = vlib.Guard(func() { r.done, r.err = w.provider().EnsureRoutes(context.TODO(), sc) })
		if !isLuaDeadline(r.err) {
			break
		}
		vlib.Class(w.chk, "lua-deadline-exceeded-call-repeated")
	}
	return r
}

func (w *world) finalise() callResult {
	var r callResult
	r.panicked, r.pmsg = vlib.Guard(func() { r.done, r.err = w.provider().Finalise(context.TODO()) })
	return r
}

// ensureToFixpoint repeats EnsureRoutes until it reports done (at most max calls).
// Returns the number of calls made and the last result.
func (w *world) ensureToFixpoint(s *v1beta1.TrafficRoutingStrategy, max int) (int, callResult) {
	var r callResult
	for n := 1; n <= max; n++ {
		r = w.ensure(s)
		if r.panicked || r.err != nil || r.done {
			return n, r
		}
	}
	return max, r
}

func (w *world) get(i int) (*unstructured.Unstructured, error) {
	r := w.refs[i]
	u := &unstructured.Unstructured{}
	u.SetAPIVersion(r.APIVersion)
	u.SetKind(r.Kind)
	err := w.cli.Client.Get(context.TODO(), types.NamespacedName{Namespace: testNS, Name: r.Name}, u)
	return u, err
}

func (w *world) delete(i int) {
	u, err := w.get(i)
	if err == nil {
		_ = w.cli.Client.Delete(context.TODO(), u)
	}
}

// ---------------------------------------------------------------------------------------------
// normalisation

// canon turns a decoded JSON tree into a canonical one: numbers become canonical strings tagged
// "#<n>", null-valued map entries are dropped (a structural API server prunes them; the fake
// keeps them). With loose=true empty maps / empty lists are treated like null as well (they do not
// survive a trip through a Lua table); inside lists they are kept as null so positions are stable.
// floats=true additionally folds every number to float64 (used only to classify a difference as
// an int64 precision loss).
func canon(v interface{}, loose, floats bool) interface{} {
	switch x := v.(type) {
	case nil:
		return nil
	case bool, string:
		return x
	case int:
		return num(float64(x), int64(x), true, floats)
	case int32:
		return num(float64(x), int64(x), true, floats)
	case int64:
		return num(float64(x), x, true, floats)
	case float64:
		return num(x, 0, false, floats)
	case float32:
		return num(float64(x), 0, false, floats)
	case json.Number:
		if i, err := strconv.ParseInt(string(x), 10, 64); err == nil {
			return num(float64(i), i, true, floats)
		}
		f, _ := x.Float64()
		return num(f, 0, false, floats)
	case map[string]interface{}:
		out := map[string]interface{}{}
		for k, e := range x {
			ce := canon(e, loose, floats)
			if ce == nil {
				continue
			}
			out[k] = ce
		}
		if loose && len(out) == 0 {
			return nil
		}
		return out
	case []interface{}:
		out := make([]interface{}, 0, len(x))
		for _, e := range x {
			out = append(out, canon(e, loose, floats))
		}
		if loose && len(out) == 0 {
			return nil
		}
		return out
	case map[string]string:
		if len(x) == 0 {
			return nil
		}
		out := map[string]interface{}{}
		for k, e := range x {
			out[k] = e
		}
		return out
	}
	return fmt.Sprintf("?%T:%v", v, v)
}

func num(f float64, i int64, isInt, floats bool) string {
	if isInt && !floats {
		return "#" + strconv.FormatInt(i, 10)
	}
	if !floats && f == math.Trunc(f) && math.Abs(f) < 9e15 {
		return "#" + strconv.FormatInt(int64(f), 10)
	}
	return "#" + strconv.FormatFloat(f, 'g', -1, 64)
}

func cj(v interface{}, loose bool) string {
	b, _ := json.Marshal(canon(v, loose, false))
	return string(b)
}

func cjFloat(v interface{}, loose bool) string {
	b, _ := json.Marshal(canon(v, loose, true))
	return string(b)
}

// projection of an object the property talks about: spec, labels, annotations without the snapshot.
type proj struct {
	Spec        interface{}
	Labels      map[string]string
	Annotations map[string]string
	HasSnapshot bool
}

func project(obj map[string]interface{}) proj {
	u := &unstructured.Unstructured{Object: obj}
	p := proj{Spec: obj["spec"], Labels: u.GetLabels()}
	ann := u.GetAnnotations()
	if _, ok := ann[custom.OriginalSpecAnnotation]; ok {
		p.HasSnapshot = true
	}
	if len(ann) > 0 {
		p.Annotations = map[string]string{}
		for k, v := range ann {
			if k != custom.OriginalSpecAnnotation {
				p.Annotations[k] = v
			}
		}
	}
	return p
}

func (p proj) strict() string {
	return "spec=" + cj(p.Spec, false) + " labels=" + cj(p.Labels, false) + " annotations=" + cj(p.Annotations, false)
}

func (p proj) strictFloat() string {
	return "spec=" + cjFloat(p.Spec, false) + " labels=" + cj(p.Labels, false) + " annotations=" + cj(p.Annotations, false)
}
