package p15

import (
	"os"
	"strings"
)

// Signatures of confirmed genuine defects this package found. While a signature is listed as open
// the generators steer away from exactly its input class (counted with vlib.Excluded) so that the
// search continues behind it; findings/<sig>.json holds the minimal replay.
const (
	// restoreObject / EnsureRoutes decode the snapshot annotation with encoding/json into
	// interface{}: integers become float64, so an int64 beyond 2^53 below spec is not restored
	// exactly by Finalise.
	sigRestoreInt64 = "custom-restore-int64-precision"
	// An empty list / map below spec becomes null in the Lua output; a structural-schema API
	// server prunes the null on write, compareAndUpdateObject then sees a difference on every
	// call: EnsureRoutes writes forever and never reports done.
	sigPrunedLivelock = "custom-fixpoint-null-pruned-livelock"
)

var knownOpen = map[string]bool{
	sigRestoreInt64:   false, // repaired by a "fix:" commit in /repo, see /verif/known_findings.json
	sigPrunedLivelock: false, // repaired by a "fix:" commit in /repo, see /verif/known_findings.json
}

// VERIF_P15_IGNORE_KNOWN=all | <sig>[,<sig>...] switches the listed exclusions off (used to confirm
// that a finding still reproduces, or that a repair of /repo removes it).
func init() {
	v := os.Getenv("VERIF_P15_IGNORE_KNOWN")
	if v == "" {
		return
	}
	for k := range knownOpen {
		if v == "all" || strings.Contains(","+v+",", ","+k+",") {
			delete(knownOpen, k)
		}
	}
}
