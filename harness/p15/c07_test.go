package p15

// C07(b) provider fixed point for the custom (Lua) provider: once EnsureRoutes has returned true
// the next call with the same strategy performs zero writes and returns true; at most 3 calls
// until true; the second Finalise reports not-modified without writing. In the thorough tier half
// of the cases run against a null-pruning store (a structural-schema API server drops null-valued
// fields of a custom resource on write).

import (
	"testing"

	"pgregory.net/rapid"

	"verifharness/vlib"
)

const chkC07 = "c07-fixedpoint-custom"

func runC07(t vlib.TB, c *Case) {
	w := newWorld(chkC07, c, c.Pruning)
	r := w.initialize()
	failPanic(t, chkC07, c, "initialize", r)
	if r.err != nil {
		vlib.Fail(t, chkC07, "custom-initialize-error", c, "Initialize failed although every object and script exists: %v", r.err)
	}
	if w.cli.writes != 0 {
		vlib.Fail(t, chkC07, "custom-initialize-writes", c, "Initialize performed %d writes", w.cli.writes)
	}
	mode := ""
	if c.Pruning {
		mode = " (null-pruning API server)"
	}
	for i := range c.Strategies {
		s := &c.Strategies[i]
		calls, re := w.ensureToFixpoint(s, 3)
		failPanic(t, chkC07, c, "ensureroutes", re)
		if re.err != nil {
			vlib.Class(chkC07, "step-error", errClass(re.err))
			continue
		}
		if !re.done {
			sig := "custom-fixpoint-not-reached"
			if c.Pruning {
				sig = sigPrunedLivelock
			}
			vlib.Fail(t, chkC07, sig, c, "step %d: EnsureRoutes has not reported done after %d calls with the same strategy%s (%d writes so far)", i, calls, mode, w.cli.writes)
		}
		vlib.Class(chkC07, "step-ok")
		before := w.cli.writes
		again := w.ensure(s)
		failPanic(t, chkC07, c, "ensureroutes", again)
		if isLuaDeadline(again.err) {
			vlib.Class(chkC07, "step-error", errClass(again.err))
			continue
		}
		if again.err != nil {
			vlib.Fail(t, chkC07, "custom-fixpoint-error-after-done", c, "step %d: EnsureRoutes returned true, the next identical call failed: %v", i, again.err)
		}
		if n := w.cli.writes - before; n != 0 || !again.done {
			sig := "custom-fixpoint-extra-write"
			if c.Pruning {
				sig = sigPrunedLivelock
			}
			vlib.Fail(t, chkC07, sig, c, "step %d: after EnsureRoutes returned true the next identical call performed %d writes and returned %v%s", i, n, again.done, mode)
		}
	}
	f1 := w.finalise()
	failPanic(t, chkC07, c, "finalise", f1)
	if f1.err != nil {
		vlib.Fail(t, chkC07, "custom-finalise-error", c, "Finalise failed: %v", f1.err)
	}
	before := w.cli.writes
	f2 := w.finalise()
	failPanic(t, chkC07, c, "finalise", f2)
	if f2.err != nil || f2.done || w.cli.writes != before {
		vlib.Fail(t, chkC07, "custom-finalise-not-idempotent", c, "second Finalise: modified=%v err=%v writes=%d%s", f2.done, f2.err, w.cli.writes-before, mode)
	}
}

func TestC07FixedpointCustom(t *testing.T) {
	var rc Case
	if ok, _ := vlib.LoadReplay(chkC07, &rc); ok {
		runC07(t, &rc)
		return
	}
	rapid.Check(t, func(t *rapid.T) {
		pruning := false
		if vlib.Thorough() {
			pruning = rapid.Bool().Draw(t, "null-pruning")
		}
		c := genCase(t, genOpts{check: chkC07, pruning: pruning})
		if pruning {
			c.Classes = append(c.Classes, "store=null-pruning")
		} else {
			c.Classes = append(c.Classes, "store=plain")
		}
		vlib.Record(chkC07, c.sig(), len(c.Strategies) >= 1, c.Classes, func() any { return c })
		runC07(t, c)
	})
}
