{
    # ---- CHECKS["C15"] ------------------------------------------------------------------------
    "level": "exploration",
    "engine": "E2",
    "technique": ("property-based testing (rapid): metamorphic (history vs. fresh), round-trip (apply ... Finalise) and reference-model "
                  "oracles over generated unstructured objects, generated Lua scripts and strategy sequences"),
    "level_text": ("Generated-input search on the real custom (Lua) network provider (NewCustomController / Initialize / EnsureRoutes / Finalise, a new "
                   "provider per call as the traffic manager builds it) against a controller-runtime fake client holding 1..3 generated objects. "
                   "Per case: a sequence of 1..5 strategies, each repeated to its fixed point, is applied; after every step the objects are compared "
                   "with a fresh world that only ever saw that step (statelessness), with a Go reference model of the script (Istio split semantics "
                   "for VirtualService, the template semantics for generated scripts); after Finalise spec / labels / annotations must equal the "
                   "generated originals and the snapshot annotation must be gone, also when one ref is missing or its restore fails. "
                   "The provider is a function of (stored objects, strategy), so input generation with these oracles is the fitting level; "
                   "absence of defects is not established."),
    "level_note": ("Trusted: the fake client as API server (objects are JSON round-tripped on every read), the JSON normalisation used for comparison "
                   "(null == absent everywhere; for 'what a step wrote' additionally empty container == absent and numbers compared as doubles, "
                   "because nothing else survives a Lua table; restore and statelessness compare empties and int64 exactly), the Go model of the "
                   "VirtualService script's claimed behaviour and of the generated script templates. EnsureRoutes errors (script fails on the "
                   "object: match-less http rule without route, matches step on a VirtualService without http, DestinationRule without subsets) "
                   "are tolerated and counted (step-error:* classes); rules with several destinations that include the stable host are not "
                   "asserted by oracle (3) (the property only speaks about single-stable-destination routes)."),
    "rule": ("rapid generators: VirtualService (http/tcp/tls rules with 1..3 destinations, short and FQDN stable hosts, other hosts, rules with match, "
             "timeouts/retries/fault/cors extras, empty lists and maps at many places), DestinationRule (0..3 subsets, empty labels / trafficPolicy), "
             "generic kinds of three API groups with nested specs (strings, ints, floats, bools, maps, lists, empty containers, absent / empty spec, "
             "int64 beyond 2^53 unless excluded) and a script composed from the templates setWeight / setStable / append / setAnno / setLabel / "
             "countMatches / identity placed in the kruise-rollout-configuration ConfigMap; labels / annotations absent or 1..2 entries; "
             "canary service '<stable>-canary' or == stable; strategies 'N%' (0..100), 1..2 matches (headers / path / queryParams, CRD-defaulted types), "
             "optional requestHeaderModifier, optional final 100% step; Finalise fault none / ref deleted / restore of one ref fails once. "
             "Oracles: no panic; statelessness (s1..sk vs fresh sk: spec, labels, annotations minus snapshot); Istio split {stable: 100-w, canary: w} "
             "or subset form, match rules and other hosts untouched, matches steps only insert canary-only rules in front; generic objects == "
             "script(original, step); exact restore for every ref. Non-trivial: >= 2 steps and >= 1 object with an empty container, nil labels / "
             "annotations or no spec; distinct by hash of objects + strategies + fault."),
    "assumptions": [
        "Objects are what an API server returns: metadata.labels / annotations absent or non-empty (never {}), no null values, integers as int64.",
        "Strategies as pkg/trafficrouting/manager.go passes them: traffic 'N%' with 0 <= N <= 100 and/or >= 1 match (never both empty); header/path/query match types set (CRD defaults).",
        "A null-valued field is treated as absent in every comparison (a structural-schema API server prunes it; the fake client keeps it).",
        "luamanager's 1 s wall-clock script deadline can fire on a saturated machine; such a call is repeated (class lua-deadline-exceeded-call-repeated).",
        "Generated scripts are well-behaved by construction: the fields they write have a fixed JSON type in every generated spec.",
    ],
    "subchecks": [
        {"name": "c15-custom", "pkg": "p15", "test": "TestC15Custom",
         "quick": rp(16000, 16, timeout=900), "thorough": rp(160000, 16, timeout=1800)},
    ],

    # ---- to be merged into CHECKS["C07"]["subchecks"] (provider fixed point, DESIGN C07 part (b), custom provider) ---------------
    "for_C07": {
        "subchecks": [
            {"name": "c07-fixedpoint-custom", "pkg": "p15", "test": "TestC07FixedpointCustom",
             "quick": rp(16000, 16, timeout=900), "thorough": rp(160000, 16, timeout=1800)},
        ],
        "rule_fragment": ("custom (Lua) provider: same generators as c15-custom; per strategy EnsureRoutes is called until it reports done (<= 3 calls), "
                          "then once more: zero writes (counted by a wrapping client) and done again; second Finalise: not modified, zero writes. "
                          "Thorough tier: half of the cases run on a null-pruning store (null-valued fields dropped on write and in the response, "
                          "as apiextensions-apiserver's PruneNonNullableNullsWithoutDefaults does for a structural schema)."),
        "assumptions": [
            "null-pruning store: every field is assumed non-nullable and without default in the resource's CRD schema (true for list/map fields of Istio's CRDs).",
        ],
    },

    # ---- proposed /verif/known_findings.json entries (both confirmed by replay; fixes in /tmp/agent-15/proposed-fix-<sig>.diff) ---
    "known_findings": [
        {"property": "C07", "sig": "custom-fixpoint-null-pruned-livelock", "check": "c07-fixedpoint-custom",
         "replay": "harness/p15/findings/custom-fixpoint-null-pruned-livelock.json",
         "description": ("custom provider: an empty list/map anywhere below spec (e.g. VirtualService spec.gateways: []) becomes an empty Lua table, "
                         "luamanager.Encode emits null for it, a structural-schema API server prunes the null on write, so compareAndUpdateObject "
                         "(DumpJSON(stored spec) vs DumpJSON(script output)) differs on every call: EnsureRoutes updates the object on every "
                         "reconcile and never returns done -> the rollout never leaves the step's traffic routing.")},
        {"property": "C15", "sig": "custom-restore-int64-precision", "check": "c15-custom",
         "replay": "harness/p15/findings/custom-restore-int64-precision.json",
         "description": ("custom provider: restoreObject decodes the snapshot annotation with encoding/json into interface{} (numbers -> float64); an "
                         "integer field beyond 2^53 below spec (e.g. 9007199254740993) is written back as a different number by Finalise.")},
    ],
}
