module verifharness

go 1.23

require (
	github.com/openkruise/rollouts v0.0.0
	k8s.io/apimachinery v0.26.3
	pgregory.net/rapid v1.3.0
	sigs.k8s.io/gateway-api v0.7.1
)

require (
	github.com/go-logr/logr v1.2.3 // indirect
	github.com/gogo/protobuf v1.3.2 // indirect
	github.com/google/gofuzz v1.1.0 // indirect
	github.com/json-iterator/go v1.1.12 // indirect
	github.com/modern-go/concurrent v0.0.0-20180306012644-bacd9c7ef1dd // indirect
	github.com/modern-go/reflect2 v1.0.2 // indirect
	golang.org/x/net v0.7.0 // indirect
	golang.org/x/text v0.7.0 // indirect
	gopkg.in/inf.v0 v0.9.1 // indirect
	gopkg.in/yaml.v2 v2.4.0 // indirect
	k8s.io/api v0.26.3 // indirect
	k8s.io/klog/v2 v2.100.1 // indirect
	k8s.io/utils v0.0.0-20221128185143-99ec85e7a448 // indirect
	sigs.k8s.io/controller-runtime v0.14.6 // indirect
	sigs.k8s.io/json v0.0.0-20220713155537-f223a00ba0e2 // indirect
	sigs.k8s.io/structured-merge-diff/v4 v4.2.3 // indirect
)

replace github.com/openkruise/rollouts => /repo
