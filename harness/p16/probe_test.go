package p16

import (
	"encoding/json"
	"fmt"
	"os"
	"testing"
	"time"

	"github.com/openkruise/rollouts/pkg/util/luamanager"
	"k8s.io/apimachinery/pkg/apis/meta/v1/unstructured"
)

func TestProbe(t *testing.T) {
	script := os.Getenv("PROBE_SCRIPT")
	var in map[string]interface{}
	if s := os.Getenv("PROBE_INPUT"); s != "" {
		if err := json.Unmarshal([]byte(s), &in); err != nil {
			t.Fatal(err)
		}
	}
	m := &luamanager.LuaManager{}
	t0 := time.Now()
	l, err := m.RunLuaScript(&unstructured.Unstructured{Object: in}, script)
	fmt.Printf("elapsed=%v err=%.300v\n", time.Since(t0), err)
	if err == nil {
		rv := l.Get(-1)
		fmt.Printf("type=%s\n", rv.Type())
		b, e := luamanager.Encode(rv)
		fmt.Printf("json=%s err=%v\n", b, e)
	}
}
