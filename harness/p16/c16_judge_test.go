package p16

import (
	"encoding/json"
	"fmt"
	"io"
	"os"
	"sort"
	"strings"
	"testing"
	"time"

	"k8s.io/klog/v2"

	"verifharness/vlib"
)

func TestMain(m *testing.M) {
	klog.SetOutput(io.Discard)
	klog.LogToStderr(false)
	if os.Getenv("VERIF_C16_WORKER") == "1" {
		workerMain() // never returns
	}
	var err error
	if pool, err = newPool(); err != nil {
		fmt.Fprintf(os.Stderr, "c16: cannot set up worker pool: %v\n", err)
		os.Exit(2)
	}
	// native fuzzing writes crashers to ./testdata/fuzz/<Target>; nothing may be written below
	// /repo, so a fuzzing run (coordinator and its fuzz workers) moves to $VERIF_OUT first.
	// (package init of pkg/util, which needs cwd=/repo, has already run.)
	fuzzing, fuzzWorker := false, false
	for _, a := range os.Args[1:] {
		if strings.HasPrefix(a, "-test.fuzz=") || a == "-test.fuzz" {
			fuzzing = true
		}
		if strings.HasPrefix(a, "-test.fuzzworker") {
			fuzzWorker = true
		}
	}
	if fuzzing || fuzzWorker {
		_ = os.Chdir(vlib.OutDir())
	}
	code := m.Run()
	if fuzzing && !fuzzWorker && !judgeSuspects() && code == 0 {
		code = 1
	}
	pool.close()
	vlib.Flush()
	os.Exit(code)
}

// Case is one executed case of any C16 sub-check; the verdict is a pure function of it (and of
// the code under test).
type Case struct {
	Name    string `json:"name,omitempty"`
	Mode    string `json:"mode"`
	Script  string `json:"script"` // may contain @SENTINEL@ (path of the sentinel directory)
	Input   string `json:"input"`  // JSON object
	NumKind string `json:"num_kind"`
	// expectations of corpus entries (empty = only the generic oracles)
	Expect      string `json:"expect,omitempty"`       // "error" | "table"
	ErrContains string `json:"err_contains,omitempty"` // substring of the error text
	JSONEquals  string `json:"json_equals,omitempty"`  // exact result
	// round-trip oracle
	RoundTrip string `json:"round_trip,omitempty"` // "", "value" (result == N(want)), "text" (result.s is JSON text of want)
	Want      string `json:"want,omitempty"`       // JSON of the expected value before normalisation
	Fuzz      bool   `json:"fuzz,omitempty"`
}

func (c *Case) request() Request {
	r := Request{Mode: c.Mode, Script: c.Script, Input: c.Input, NumKind: c.NumKind, Probe: true}
	if r.Mode == "" {
		r.Mode = modeRaw
	}
	if c.Fuzz {
		var skip []string
		for _, g := range forbiddenGlobals {
			if strings.Contains(c.Script, g) {
				skip = append(skip, g)
			}
		}
		r.SkipGlb = strings.Join(skip, ",")
	}
	return r
}

func tooSlow(r *Result) bool {
	return r.Resp != nil && time.Duration(r.Resp.WallNs) > slowBound && time.Duration(r.Resp.CPUNs) > slowCPU
}

func describeTiming(r *Result) string {
	if r.Hang {
		return fmt.Sprintf("no answer after %.1fs (worker CPU %.1fs), killed", r.Wall.Seconds(), r.KillCPU.Seconds())
	}
	if r.Resp != nil {
		return fmt.Sprintf("returned after %.2fs wall / %.2fs CPU", float64(r.Resp.WallNs)/1e9, float64(r.Resp.CPUNs)/1e9)
	}
	return "worker died: " + r.Exit
}

// timingSig names the kind of a confirmed hang / slowness from all runs of the case.
func timingSig(runs []*Result) string {
	anyHang := false
	for _, r := range runs {
		if r.Resp != nil {
			for _, f := range r.Resp.ErrFlags {
				if f == "tailcall" {
					return sigTailcallSlow
				}
			}
		}
	}
	for _, r := range runs {
		if r.Hang {
			anyHang = true
			switch stuckWhere(r.Stderr) {
			case "pattern-match":
				return sigPatternHang
			case "traceback":
				return sigTailcallSlow
			}
		}
	}
	if anyHang {
		return "hang"
	}
	return "too-slow"
}

// bombOnly: every hung run was stuck allocating the array part of a table.
func bombOnly(runs []*Result) bool {
	n := 0
	for _, r := range runs {
		if r.Hang {
			if stuckWhere(r.Stderr) != "array-fill" {
				return false
			}
			n++
		}
	}
	return n > 0
}

// verdict of judge, used by the fuzz target to tolerate listed findings
type verdict struct {
	sig string
	msg string
}

// evaluate applies all oracles to a case whose first execution gave res. Re-runs (hang / slow
// confirmation, crash confirmation) happen here, sequentially. Returns nil when the case holds.
func evaluate(chk string, c *Case, res *Result) *verdict {
	req := c.request()
	// ---- oracle 1: bounded return. Timing only ever decides "hang / too slow", and only when
	// three further runs in fresh workers all exceed the bound as well.
	if res.Hang || tooSlow(res) {
		first := res
		runs := []*Result{res}
		all := []string{describeTiming(res)}
		confirmed := true
		for i := 0; i < confirmRuns; i++ {
			r := pool.run(req, true)
			all = append(all, describeTiming(r))
			runs = append(runs, r)
			if !(r.Hang || tooSlow(r)) {
				confirmed = false
				res = r
				break
			}
			first = r
		}
		if confirmed && bombOnly(runs) {
			vlib.Class(chk, "out-of-scope:memory-bomb")
			vlib.Note(chk, "hang inside the nil-fill of a table's array part (t[n] = v with a huge n allocates up to 1 GiB: memory bomb, outside the property): "+clip(c.Script, 300, 0))
			return nil
		}
		if confirmed {
			sig := timingSig(runs)
			where := ""
			if first.Hang {
				where = "\nstuck in:\n" + dumpExcerpt(first.Stderr)
			} else {
				where = "\nerror returned: " + clip(first.Resp.Err, 300, 200)
			}
			return &verdict{sig, fmt.Sprintf("the call did not return within the bound (VM deadline 1 s, bound %v; hang = no answer after %v with >= %v CPU) in %d of %d runs: %s%s",
				slowBound, hangWall, hangCPU, confirmRuns+1, confirmRuns+1, strings.Join(all, "; "), where)}
		}
		vlib.Class(chk, "timing:unconfirmed-slow-run")
		vlib.Note(chk, "a slow run was not confirmed by re-runs (loaded machine): "+strings.Join(all, "; "))
		if res.Hang || tooSlow(res) { // cannot happen
			return nil
		}
	}
	// ---- oracle 2: no crash of the process, no escaping panic
	if res.Died {
		kind := deathKind(res)
		// only the byte-level fuzzer can produce memory / nesting bombs; everywhere else the
		// generators keep them out by construction, so there a dead worker is a crashed controller
		if kind != "crash" && c.Fuzz {
			vlib.Class(chk, "out-of-scope:"+kind)
			vlib.Note(chk, "worker died of a "+kind+" (outside the property): "+clip(c.Script, 200, 0))
			return nil
		}
		r2 := pool.run(req, true)
		if r2.Died && (deathKind(r2) == "crash" || !c.Fuzz) {
			return &verdict{"process-crash", fmt.Sprintf("the script crashed the process (%s), twice:\n%s", r2.Exit, clip(r2.Stderr, 3000, 1000))}
		}
		vlib.Note(chk, "a worker died once but not on re-run ("+res.Exit+"): "+clip(res.Stderr, 400, 200))
		res = r2
		if res.Resp == nil {
			return nil
		}
	}
	rp := res.Resp
	if rp.BadInput != "" {
		return &verdict{"harness-error", "harness problem: " + rp.BadInput}
	}
	if rp.Panic != "" {
		if strings.Contains(rp.Panic, "nil pointer dereference") && strings.Contains(rp.Panic, "executeLuaForCanary") {
			return &verdict{sigNilReturn, "the value the providers read with l.Get(-1) is a Go-nil LValue and returnValue.Type() panics (nil pointer dereference in executeLuaForCanary):\n" + clip(rp.Panic, 1800, 0)}
		}
		return &verdict{"panic-escaped", "a panic escaped RunLuaScript / Get / Encode (recovered by the harness):\n" + rp.Panic}
	}
	// ---- oracle 3: a table result or an error
	switch rp.Outcome {
	case "table":
		if !json.Valid([]byte(rp.JSON)) && rp.JSONLen == len(rp.JSON) {
			return &verdict{"result-not-json", "Encode returned bytes that are not JSON: " + clip(rp.JSON, 300, 100)}
		}
	case "error":
	default:
		return &verdict{"no-outcome", "neither a table nor an error: " + rp.Outcome}
	}
	// ---- oracle 4: no escape, judged by effects
	if len(rp.MarkerIn) > 0 {
		return &verdict{sigFileLeak, fmt.Sprintf("content of a file of the sentinel directory reached the script: marker found in %v (result=%s error=%s)",
			rp.MarkerIn, clip(rp.JSON, 200, 0), clip(rp.Err, 300, 0))}
	}
	if len(res.NewFiles) > 0 {
		return &verdict{"file-created", fmt.Sprintf("the sentinel directory was modified: %v", res.NewFiles)}
	}
	if len(rp.Globals) > 0 {
		var names, others []string
		for n := range rp.Globals {
			names = append(names, n)
		}
		sort.Strings(names)
		for _, n := range names {
			if n == "dofile" || n == "loadfile" || n == "require" {
				if isOpen(sigLoaders) {
					continue
				}
			}
			others = append(others, n)
		}
		if len(others) < len(names) {
			vlib.Excluded(chk, sigLoaders)
		}
		if len(others) > 0 {
			onlyLoaders := true
			for _, n := range others {
				if n != "dofile" && n != "loadfile" && n != "require" {
					onlyLoaders = false
				}
			}
			sig := sigLoaders
			if !onlyLoaders {
				var x []string
				for _, n := range others {
					if n != "dofile" && n != "loadfile" && n != "require" {
						x = append(x, n)
					}
				}
				sig = "forbidden-global-" + strings.Join(x, "-")
			}
			return &verdict{sig, fmt.Sprintf("globals that must be nil inside the sandbox are reachable: %v", rp.Globals)}
		}
	}
	// ---- corpus expectations. The VM deadline is wall time: on a starved machine a harmless
	// script can run into it. Such a run is repeated before its outcome is held against it.
	if v := expectationVerdict(c, res); v != nil {
		for i := 0; v != nil && i < confirmRuns && hasFlag(res.Resp, "deadline") && !strings.Contains(c.ErrContains, "deadline"); i++ {
			vlib.Class(chk, "timing:deadline-under-load-rerun")
			r := pool.run(req, true)
			if r.Resp == nil {
				break
			}
			res = r
			v = expectationVerdict(c, res)
		}
		if v != nil {
			return v
		}
		rp = res.Resp
	}
	// ---- oracle 5: round trip (identity scripts need microseconds; a deadline error means the
	// worker was starved, so the run is repeated)
	for i := 0; c.RoundTrip != "" && hasFlag(rp, "deadline") && i < confirmRuns; i++ {
		vlib.Class(chk, "timing:deadline-under-load-rerun")
		if r := pool.run(req, true); r.Resp != nil {
			rp = r.Resp
		}
	}
	if c.RoundTrip != "" {
		if v := roundTripVerdict(c, rp); v != nil {
			return v
		}
	}
	return nil
}

func hasFlag(rp *Response, f string) bool {
	if rp == nil {
		return false
	}
	for _, x := range rp.ErrFlags {
		if x == f {
			return true
		}
	}
	return false
}

func expectationVerdict(c *Case, res *Result) *verdict {
	rp := res.Resp
	if c.Expect != "" && c.Expect != rp.Outcome {
		return &verdict{"corpus-expectation", fmt.Sprintf("%s: expected outcome %q, got %q (json=%s err=%s) (%s)", c.Name, c.Expect, rp.Outcome, clip(rp.JSON, 200, 0), clip(rp.Err, 300, 0), describeTiming(res))}
	}
	if c.ErrContains != "" && !strings.Contains(rp.Err, c.ErrContains) {
		return &verdict{"corpus-expectation", fmt.Sprintf("%s: expected an error containing %q, got outcome=%s err=%s", c.Name, c.ErrContains, rp.Outcome, clip(rp.Err, 300, 0))}
	}
	if c.JSONEquals != "" && rp.JSON != c.JSONEquals {
		return &verdict{"corpus-expectation", fmt.Sprintf("%s: expected result %s, got outcome=%s json=%s err=%s (%s)", c.Name, c.JSONEquals, rp.Outcome, clip(rp.JSON, 300, 0), clip(rp.Err, 300, 0), describeTiming(res))}
	}
	return nil
}

// outcomeClass summarises a response for the class histogram.
func outcomeClass(res *Result) string {
	switch {
	case res.Hang:
		return "outcome:hang"
	case res.Died:
		return "outcome:died"
	case res.Resp == nil:
		return "outcome:none"
	}
	rp := res.Resp
	if rp.Outcome == "table" {
		if rp.JSON == "null" {
			return "outcome:table-empty"
		}
		return "outcome:table"
	}
	switch rp.ErrStage {
	case "type":
		return "outcome:error-not-a-table:" + rp.RetType
	case "encode":
		return "outcome:error-encode"
	}
	for _, f := range rp.ErrFlags {
		switch f {
		case "deadline":
			return "outcome:error-deadline"
		case "syntax":
			return "outcome:error-syntax"
		case "stackoverflow":
			return "outcome:error-stackoverflow"
		}
	}
	return "outcome:error-runtime"
}

// check runs one case through a pooled worker and fails the test on a violation.
func check(t vlib.TB, chk string, c *Case) *Result {
	res := pool.run(c.request(), false)
	vlib.Class(chk, outcomeClass(res))
	if v := evaluate(chk, c, res); v != nil {
		vlib.Fail(t, chk, v.sig, c, "%s", v.msg)
	}
	return res
}
