package p16

// Worker side: the test binary re-executed with VERIF_C16_WORKER=1. It reads length-prefixed
// JSON requests on fd 3 and answers on fd 4 (stdout is /dev/null because Lua's print and
// _printregs write there; stderr carries Go crash output and SIGQUIT goroutine dumps).
// One request = one call sequence of the code under test, exactly as the providers do it:
// RunLuaScript -> l.Get(-1) -> type test -> Encode (mode "raw"), or the real ingress provider
// (NewIngressTrafficRouting + EnsureRoutes on a fake client, script in the ConfigMap; mode
// "ingress").

import (
	"bufio"
	"context"
	"encoding/binary"
	"encoding/json"
	"fmt"
	"io"
	"math"
	"os"
	"runtime/debug"
	"runtime/metrics"
	"sort"
	"strings"
	"syscall"
	"time"

	"github.com/openkruise/rollouts/api/v1beta1"
	"github.com/openkruise/rollouts/pkg/trafficrouting/network/ingress"
	"github.com/openkruise/rollouts/pkg/util/luamanager"
	lua "github.com/yuin/gopher-lua"
	corev1 "k8s.io/api/core/v1"
	netv1 "k8s.io/api/networking/v1"
	metav1 "k8s.io/apimachinery/pkg/apis/meta/v1"
	"k8s.io/apimachinery/pkg/apis/meta/v1/unstructured"
	"k8s.io/apimachinery/pkg/runtime"
	"k8s.io/apimachinery/pkg/types"
	"sigs.k8s.io/controller-runtime/pkg/client/fake"
	gatewayv1beta1 "sigs.k8s.io/gateway-api/apis/v1beta1"
)

const (
	modeRaw     = "raw"
	modeIngress = "ingress"
	maxFrame    = 64 << 20
	memLimit    = 3 << 30 // worker kills itself above this heap size (memory bombs are out of scope)
	exitMemBomb = 77
)

var forbiddenGlobals = []string{"os", "io", "package", "require", "debug", "dofile", "loadfile"}

// Request is one script execution.
type Request struct {
	Mode    string `json:"mode"`
	Script  string `json:"script"`             // final text (sentinel placeholder already substituted)
	Input   string `json:"input"`              // JSON object handed to the script as `obj`
	NumKind string `json:"num_kind"`           // Go type of integral numbers in obj: float64|int64|int|int32
	Marker  string `json:"marker"`             // content marker of the sentinel files
	Probe   bool   `json:"probe,omitempty"`    // also report VM state (globals) after the run
	SkipGlb string `json:"skip_glb,omitempty"` // comma list of forbidden globals the script text itself mentions (fuzz)
}

// Response is what the worker observed.
type Response struct {
	Outcome   string            `json:"outcome"`   // "table" (Encode succeeded) | "error"
	ErrStage  string            `json:"err_stage"` // run | type | encode | provider
	RetType   string            `json:"ret_type"`
	JSON      string            `json:"json"`
	JSONLen   int               `json:"json_len"`
	Err       string            `json:"err"` // head and tail of the error text
	ErrLen    int               `json:"err_len"`
	ErrFlags  []string          `json:"err_flags"` // deadline | tailcall | syntax | stackoverflow
	Panic     string            `json:"panic"`
	WallNs    int64             `json:"wall_ns"`
	CPUNs     int64             `json:"cpu_ns"`
	Globals   map[string]string `json:"globals"` // forbidden global -> Lua type, non-nil ones only
	MarkerIn  []string          `json:"marker_in"`
	Done      bool              `json:"done"` // ingress mode: EnsureRoutes' bool
	BadInput  string            `json:"bad_input,omitempty"`
	StateSize int               `json:"state_size"`
}

func cpuNow() int64 {
	var ru syscall.Rusage
	if err := syscall.Getrusage(syscall.RUSAGE_SELF, &ru); err != nil {
		return 0
	}
	return ru.Utime.Nano() + ru.Stime.Nano()
}

func readFrame(r io.Reader) ([]byte, error) {
	var hdr [4]byte
	if _, err := io.ReadFull(r, hdr[:]); err != nil {
		return nil, err
	}
	n := binary.BigEndian.Uint32(hdr[:])
	if n > maxFrame {
		return nil, fmt.Errorf("frame of %d bytes", n)
	}
	buf := make([]byte, n)
	if _, err := io.ReadFull(r, buf); err != nil {
		return nil, err
	}
	return buf, nil
}

func writeFrame(w io.Writer, data []byte) error {
	var hdr [4]byte
	binary.BigEndian.PutUint32(hdr[:], uint32(len(data)))
	if _, err := w.Write(hdr[:]); err != nil {
		return err
	}
	_, err := w.Write(data)
	return err
}

// workerMain never returns.
func workerMain() {
	// GOTRACEBACK=crash makes a SIGQUIT dump show the goroutine that runs the script even when it
	// is on another thread; no core files
	_ = syscall.Setrlimit(syscall.RLIMIT_CORE, &syscall.Rlimit{Cur: 0, Max: 0})
	debug.SetMaxStack(256 << 20) // nesting bombs die early; a stack overflow is never counted as a violation
	if d := os.Getenv("VERIF_C16_WORKER_DIR"); d != "" {
		_ = os.Chdir(d) // relative dofile("payload.lua") attempts resolve inside the sentinel directory
	}
	fmt.Fprint(os.Stderr, readyLine)
	go memWatchdog()
	in := bufio.NewReaderSize(os.NewFile(3, "req"), 1<<16)
	out := os.NewFile(4, "resp")
	for {
		data, err := readFrame(in)
		if err != nil {
			os.Exit(0)
		}
		var req Request
		if err := json.Unmarshal(data, &req); err != nil {
			fmt.Fprintf(os.Stderr, "C16-WORKER: bad request: %v\n", err)
			os.Exit(3)
		}
		resp := serve(&req)
		b, err := json.Marshal(resp)
		if err != nil {
			b, _ = json.Marshal(&Response{Outcome: "error", BadInput: "unmarshalable response: " + err.Error()})
		}
		if err := writeFrame(out, b); err != nil {
			os.Exit(0)
		}
	}
}

func memWatchdog() {
	s := []metrics.Sample{{Name: "/memory/classes/heap/objects:bytes"}}
	for {
		time.Sleep(20 * time.Millisecond)
		metrics.Read(s)
		if s[0].Value.Kind() == metrics.KindUint64 && s[0].Value.Uint64() > memLimit {
			fmt.Fprintf(os.Stderr, "C16-WORKER: memory limit exceeded (%d bytes live): memory bomb, out of scope\n", s[0].Value.Uint64())
			os.Exit(exitMemBomb)
		}
	}
}

// convertNums turns integral float64 values into the Go integer type unstructured content
// carries (the API machinery decodes JSON integers to int64).
func convertNums(v interface{}, kind string) interface{} {
	switch x := v.(type) {
	case float64:
		if kind == "float64" || kind == "" || x != math.Trunc(x) || math.Abs(x) >= 1<<53 {
			return x
		}
		switch kind {
		case "int64":
			return int64(x)
		case "int":
			return int(x)
		case "int32":
			if math.Abs(x) < 1<<31 {
				return int32(x)
			}
			return int64(x)
		}
		return x
	case []interface{}:
		for i := range x {
			x[i] = convertNums(x[i], kind)
		}
		return x
	case map[string]interface{}:
		for k := range x {
			x[k] = convertNums(x[k], kind)
		}
		return x
	}
	return v
}

func clip(s string, head, tail int) string {
	if len(s) <= head+tail+16 {
		return s
	}
	return s[:head] + fmt.Sprintf(" …[%d bytes]… ", len(s)-head-tail) + s[len(s)-tail:]
}

func errFlags(e string) []string {
	var f []string
	if strings.Contains(e, "context deadline exceeded") {
		f = append(f, "deadline")
	}
	if strings.Contains(e, "(tailcall): ?") {
		f = append(f, "tailcall")
	}
	if strings.Contains(e, "parse error") || strings.Contains(e, "syntax error") || strings.Contains(e, "near '") && strings.Contains(e, "line:") {
		f = append(f, "syntax")
	}
	if strings.Contains(e, "stack overflow") {
		f = append(f, "stackoverflow")
	}
	return f
}

const nilReturnNote = "RunLuaScript succeeded but l.Get(-1) is a Go-nil LValue; the real ingress provider run on the same script:"

func guard(f func()) (msg string) {
	defer func() {
		if r := recover(); r != nil {
			msg = fmt.Sprintf("panic: %v\n%s", r, clip(string(debug.Stack()), 6000, 0))
		}
	}()
	f()
	return ""
}

func serve(req *Request) *Response {
	resp := &Response{Globals: map[string]string{}}
	var in map[string]interface{}
	if req.Input != "" {
		if err := json.Unmarshal([]byte(req.Input), &in); err != nil {
			resp.Outcome, resp.BadInput = "error", "input is not a JSON object: "+err.Error()
			return resp
		}
	}
	if in == nil {
		in = map[string]interface{}{}
	}
	in = convertNums(in, req.NumKind).(map[string]interface{})
	switch req.Mode {
	case modeIngress:
		serveIngress(req, in, resp)
	default:
		serveRaw(req, in, resp)
	}
	return resp
}

func hasMarker(s, marker string) bool { return marker != "" && strings.Contains(s, marker) }

func serveRaw(req *Request, in map[string]interface{}, resp *Response) {
	m := &luamanager.LuaManager{}
	obj := &unstructured.Unstructured{Object: in}
	var (
		l       *lua.LState
		err     error
		rv      lua.LValue
		encoded []byte
		encErr  error
		ran     bool
		nilRV   bool
	)
	c0, t0 := cpuNow(), time.Now()
	resp.Panic = guard(func() {
		// the providers' sequence (ingress.go / custom_network_provider.go executeLuaForCanary)
		l, err = m.RunLuaScript(obj, req.Script)
		if err != nil {
			return
		}
		ran = true
		rv = l.Get(-1)
		if rv == nil {
			// a Go-nil LValue: what happens next is decided by the real provider code below
			nilRV = true
			return
		}
		if rv.Type() == lua.LTTable {
			encoded, encErr = luamanager.Encode(rv)
		}
	})
	resp.WallNs, resp.CPUNs = int64(time.Since(t0)), cpuNow()-c0
	if nilRV {
		// l.Get(-1) handed out a Go-nil LValue. Let the REAL provider (same script) show what the
		// controller does with it.
		probe := &Response{Globals: map[string]string{}}
		serveIngress(req, in, probe)
		if probe.Panic != "" {
			resp.Panic = nilReturnNote + "\n" + probe.Panic
		} else {
			rv = lua.LNil
		}
	}
	var errText string
	switch {
	case resp.Panic != "":
		resp.Outcome = "error"
	case !ran:
		resp.Outcome, resp.ErrStage = "error", "run"
		errText = err.Error()
	case rv.Type() != lua.LTTable:
		resp.Outcome, resp.ErrStage, resp.RetType = "error", "type", rv.Type().String()
		errText = fmt.Sprintf("expect table output from Lua script, not %s", rv.Type().String())
	case encErr != nil:
		resp.Outcome, resp.ErrStage, resp.RetType = "error", "encode", "table"
		errText = encErr.Error()
	default:
		resp.Outcome, resp.RetType = "table", "table"
		resp.JSONLen = len(encoded)
		resp.JSON = clip(string(encoded), 1<<20, 0)
		if hasMarker(string(encoded), req.Marker) {
			resp.MarkerIn = append(resp.MarkerIn, "result")
		}
	}
	resp.ErrLen = len(errText)
	resp.Err = clip(errText, 1500, 500)
	resp.ErrFlags = errFlags(errText)
	if hasMarker(errText, req.Marker) {
		resp.MarkerIn = append(resp.MarkerIn, "error")
	}
	if l != nil {
		if p := guard(func() { inspectState(l, req, resp) }); p != "" {
			resp.BadInput = "state inspection failed: " + p
		}
	}
}

// inspectState looks at the (closed) VM the call returned: forbidden globals and marker
// strings anywhere in the global table (bounded walk).
func inspectState(l *lua.LState, req *Request, resp *Response) {
	skip := map[string]bool{}
	for _, s := range strings.Split(req.SkipGlb, ",") {
		if s != "" {
			skip[s] = true
		}
	}
	g, ok := l.Get(lua.GlobalsIndex).(*lua.LTable)
	if !ok || g == nil {
		return
	}
	for _, name := range forbiddenGlobals {
		if skip[name] {
			continue
		}
		// raw access: the VM is closed, metamethods of _G must not run
		if v := g.RawGetString(name); v != lua.LNil {
			resp.Globals[name] = v.Type().String()
		}
	}
	seen := map[*lua.LTable]bool{}
	budget := 20000
	found := ""
	var walk func(path string, v lua.LValue, depth int)
	walk = func(path string, v lua.LValue, depth int) {
		if found != "" || budget <= 0 {
			return
		}
		budget--
		switch x := v.(type) {
		case lua.LString:
			if hasMarker(string(x), req.Marker) {
				found = path
			}
		case *lua.LTable:
			if seen[x] || depth > 6 {
				return
			}
			seen[x] = true
			x.ForEach(func(k, val lua.LValue) {
				ks := k.String()
				if len(ks) > 40 {
					ks = ks[:40]
				}
				walk(path+"."+ks, k, depth+1)
				walk(path+"."+ks, val, depth+1)
			})
		}
	}
	walk("_G", g, 0)
	resp.StateSize = 20000 - budget
	if found != "" {
		resp.MarkerIn = append(resp.MarkerIn, "state:"+found)
	}
}

// ---- ingress provider path ----

var ingressScheme = func() *runtime.Scheme {
	s := runtime.NewScheme()
	_ = corev1.AddToScheme(s)
	_ = netv1.AddToScheme(s)
	return s
}()

func strMap(v interface{}) map[string]string {
	m, ok := v.(map[string]interface{})
	if !ok {
		return nil
	}
	out := map[string]string{}
	for k, x := range m {
		if s, ok := x.(string); ok && len(k) > 0 && len(k) < 64 {
			out[k] = s
		}
	}
	return out
}

// serveIngress drives ingress.NewIngressTrafficRouting + EnsureRoutes: the script comes from the
// kruise-rollout-configuration ConfigMap, the stable ingress and an existing canary ingress are
// fixtures; annotations of the canary ingress come from obj.annotations when that is a map of
// strings.
func serveIngress(req *Request, in map[string]interface{}, resp *Response) {
	ann := strMap(in["annotations"])
	if ann == nil {
		ann = map[string]string{}
	}
	ann["kubernetes.io/ingress.class"] = "nginx"
	pt := netv1.PathTypePrefix
	rules := []netv1.IngressRule{{Host: "a.example.com", IngressRuleValue: netv1.IngressRuleValue{HTTP: &netv1.HTTPIngressRuleValue{Paths: []netv1.HTTPIngressPath{{
		Path: "/", PathType: &pt, Backend: netv1.IngressBackend{Service: &netv1.IngressServiceBackend{Name: "stable", Port: netv1.ServiceBackendPort{Number: 80}}}}}}}}}
	stable := &netv1.Ingress{ObjectMeta: metav1.ObjectMeta{Namespace: "ns", Name: "ing", Annotations: ann}, Spec: netv1.IngressSpec{Rules: rules}}
	canaryAnn := map[string]string{}
	for k, v := range ann {
		canaryAnn[k] = v
	}
	canaryAnn["nginx.ingress.kubernetes.io/canary"] = "true"
	canaryAnn["nginx.ingress.kubernetes.io/canary-weight"] = "0"
	canary := &netv1.Ingress{ObjectMeta: metav1.ObjectMeta{Namespace: "ns", Name: "ing-canary", Annotations: canaryAnn}, Spec: netv1.IngressSpec{Rules: rules}}
	cm := &corev1.ConfigMap{ObjectMeta: metav1.ObjectMeta{Namespace: "kruise-rollout", Name: "kruise-rollout-configuration"},
		Data: map[string]string{"lua.traffic.routing.ingress.nginx": req.Script}}
	cli := fake.NewClientBuilder().WithScheme(ingressScheme).WithObjects(stable, canary, cm).Build()
	traffic := "20%"
	strategy := &v1beta1.TrafficRoutingStrategy{Traffic: &traffic}
	if _, ok := in["matches"]; ok {
		ht := gatewayv1beta1.HeaderMatchExact
		strategy = &v1beta1.TrafficRoutingStrategy{Matches: []v1beta1.HttpRouteMatch{{Headers: []gatewayv1beta1.HTTPHeaderMatch{{Type: &ht, Name: "user_id", Value: "123456"}}}},
			RequestHeaderModifier: &gatewayv1beta1.HTTPHeaderFilter{Set: []gatewayv1beta1.HTTPHeader{{Name: "gray", Value: "blue"}}}}
	}
	var (
		done bool
		err  error
	)
	c0, t0 := cpuNow(), time.Now()
	resp.Panic = guard(func() {
		p, e := ingress.NewIngressTrafficRouting(cli, ingress.Config{Key: "ns/r", Namespace: "ns", CanaryService: "canary", StableService: "stable",
			TrafficConf: &v1beta1.IngressTrafficRouting{Name: "ing", ClassType: "nginx"}, OwnerRef: metav1.OwnerReference{APIVersion: "rollouts.kruise.io/v1beta1", Kind: "Rollout", Name: "r", UID: "u"}})
		if e != nil {
			err = e
			return
		}
		done, err = p.EnsureRoutes(context.TODO(), strategy)
	})
	resp.WallNs, resp.CPUNs = int64(time.Since(t0)), cpuNow()-c0
	resp.Done = done
	if resp.Panic != "" {
		resp.Outcome = "error"
		return
	}
	if err != nil {
		resp.Outcome, resp.ErrStage = "error", "provider"
		e := err.Error()
		resp.ErrLen, resp.Err, resp.ErrFlags = len(e), clip(e, 1500, 500), errFlags(e)
		if hasMarker(e, req.Marker) {
			resp.MarkerIn = append(resp.MarkerIn, "error")
		}
		return
	}
	got := &netv1.Ingress{}
	if e := cli.Get(context.TODO(), types.NamespacedName{Namespace: "ns", Name: "ing-canary"}, got); e != nil {
		resp.BadInput = "canary ingress vanished: " + e.Error()
	}
	keys := make([]string, 0, len(got.Annotations))
	for k := range got.Annotations {
		keys = append(keys, k)
	}
	sort.Strings(keys)
	b, _ := json.Marshal(got.Annotations)
	resp.Outcome, resp.RetType, resp.JSON, resp.JSONLen = "table", "table", clip(string(b), 1<<20, 0), len(b)
	if hasMarker(string(b), req.Marker) {
		resp.MarkerIn = append(resp.MarkerIn, "result")
	}
}
