# CHECKS["C16"] for /verif/checks_config.py (format of CHECKS["C20"]; rp(checks, shards, **kw)).
{
    "level": "exploration",
    "engine": "E2 + native fuzz",
    "technique": ("property-based testing (rapid): grammar-based Lua program generator, deterministic hostile corpus and JSON-like "
                  "value generator against luamanager.RunLuaScript / Encode and the real ingress provider, executed in killable "
                  "worker processes; native go fuzzing over script bytes as an extra (thorough)"),
    "level_text": ("Generated-input search over an unbounded input language (Lua programs a cluster admin can put into the ConfigMap): "
                   "every script runs in a child worker process through the providers' call sequence RunLuaScript -> Get(-1) -> Encode "
                   "(and, for a share of the cases, through ingress.NewIngressTrafficRouting + EnsureRoutes on a fake client with the "
                   "script in the ConfigMap). Violations: no answer within 5 s / more than 3 s measured in the worker (confirmed by 3 "
                   "re-runs in fresh workers and by consumed CPU time), a panic or a dead worker, a result that is neither a table nor "
                   "an error, any effect of an escape (marker of sentinel files in result/error/VM state, forbidden global non-nil, "
                   "sentinel directory modified), identity round trip differing from the input under the documented normaliser. "
                   "Failing programs are shrunk by rapid. Absence of defects is not established."),
    "level_note": ("Trusted: the worker protocol and the hang detector of the harness (wall time AND worker CPU time, re-runs); the "
                   "normaliser of the round-trip oracle (numbers are float64 with |x| < 2^53; null / absent map entry / empty container "
                   "are the same value); the raw call sequence mirrors executeLuaForCanary of both providers (a Go-nil return value is "
                   "handed to the real ingress provider to see what the controller does). Byte-level fuzzing runs without coverage "
                   "guidance (scripts execute in child processes and ./check builds without -fuzz instrumentation)."),
    "rule": ("(i) 208 hostile scripts (16 are the minimal inputs of listed findings, skipped while those are open) x {raw call sequence, ingress provider}: 20 non-terminating scripts (pcall-swallowed "
             "deadline, callbacks from gsub/sort/metamethods, growing tables/strings), recursion, error values of every type, wrong "
             "return types, cyclic/sparse/mixed tables, os/io/package/debug/require/dofile/loadfile/load/setfenv/string-metatable "
             "attempts against a sentinel directory, library edge arguments, malformed and backtracking patterns, state bleed between "
             "calls; each with its expected outcome. (ii) rapid grammar generator, <= 60 AST nodes: locals, assignments, table writes, "
             "if/while/repeat/for/for-in, function definitions and calls, recursion templates, pcall/xpcall, metatables, pattern calls "
             "on bounded subjects, json, load/loadstring, escape attempts, API sweeps, 2 % text mutations, 3 % programs with exactly one "
             "unbounded construct (15 kinds), input object of depth <= 3, 12 % through the ingress provider. (iii) rapid JSON-like trees "
             "(depth <= 5, ints < 2^53 as int64/int/int32/float64, floats, unicode/escape strings, null map entries, empty containers) "
             "through 7 identity scripts. (iv) go fuzz over script bytes <= 4 KiB seeded with (i) and the shipped scripts. Memory and "
             "nesting bombs are kept out by construction (strings <= 4096 bytes, literal repetition/loop bounds, integer table keys "
             "< 1000, expression depth <= 4). Non-trivial: program with >= 1 loop or call in reachable code (distinct by AST shape); "
             "value of depth >= 2 with >= 2 non-empty containers."),
    "assumptions": [
        "Scripts reach the VM exactly as the providers pass them: ConfigMap text, obj built by runtime.DefaultUnstructuredConverter (integers are int64).",
        "Time bounds: VM deadline is 1 s; 'too slow' = > 3 s wall and > 2.5 s CPU inside the worker, 'hang' = no answer after 5 s with >= 3 s worker CPU (or 40 s without CPU); both only count when 3 re-runs in fresh workers agree.",
        "Memory and nesting bombs are outside the property (statement): not generated; in the fuzz target a worker dying of one (heap > 3 GiB, Go stack > 256 MiB, nil-fill of a table's array part) is counted, not reported. E.g. `t[6e7] = 1` allocates 1 GiB and takes ~5 s inside one VM instruction.",
        "Round trip: null list elements are outside the quantifier (a Lua sequence cannot hold nil: [1,null,3] comes back as [1,3]); json.decode(json.encode(x)) inside a script is only asserted for values without an empty container inside a list ([[]] comes back as []).",
        "load / loadstring compile strings inside the VM and are not an escape; escape is judged by effects on the sentinel directory and by the forbidden globals os, io, package, require, debug, dofile, loadfile.",
        "Listed findings are excluded by construction while open (p16/known.go): dofile/loadfile on existing files and the three loader names in the globals oracle; pattern calls with worst-case backtracking paths C(n+k+1,k+1) > 2e6 (n = subject bound, k = quantified items) and gsub on subjects > 4096 bytes (hang-string-library-call); unbounded tail recursion; xpcall whose message handler can raise (raising handler, tostring/print of the error object, or call-stack overflow in the same program).",
    ],
    "subchecks": [
        {"name": "c16-fuzz", "pkg": "p16", "test": "FuzzC16Script", "mode": "fuzz", "thorough_only": True,
         "quick": rp(1, 1), "thorough": rp(1, 1, fuzztime="180s", parallel=8, timeout=420)},
        {"name": "c16-hostile-corpus", "pkg": "p16", "test": "TestC16HostileCorpus", "mode": "plain",
         "quick": rp(1, 1, timeout=400), "thorough": rp(1, 1, timeout=400)},
        {"name": "c16-generated-programs", "pkg": "p16", "test": "TestC16GeneratedPrograms",
         "quick": rp(24000, 12, timeout=600), "thorough": rp(140000, 14, timeout=1200)},
        {"name": "c16-roundtrip", "pkg": "p16", "test": "TestC16RoundTrip",
         "quick": rp(60000, 3, timeout=300), "thorough": rp(400000, 4, timeout=900)},
    ],
}
