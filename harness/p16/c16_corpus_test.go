package p16

// c16-hostile-corpus: a deterministic list of hostile scripts, each run through the raw call
// sequence and through the real ingress provider.

import (
	"fmt"
	"os"
	"strings"
	"sync"
	"testing"

	"verifharness/vlib"
)

const chkCorpus = "c16-hostile-corpus"

type corpusEntry struct {
	name   string
	script string
	input  string
	expect string // "", "error", "table"
	errHas string
	json   string
	known  string // signature of the listed finding this entry is the minimal input of
	slow   bool   // runs into the 1 s deadline
	noIngr bool   // expectation only meaningful in raw mode
}

const corpusInput = `{"annotations":{"kubernetes.io/ingress.class":"nginx","k":"v"},"weight":"20","matches":[{"headers":[{"name":"user_id","value":"123456","type":"Exact"}]}],"canaryService":"canary","n":3,"list":[1,2,3],"nested":{"a":{"b":{"c":"deep"}}},"s":"aaaaaaaaaaaaaaaaaaaaaaaaaaaaaa"}`

func corpus() []corpusEntry {
	S := sentinelPlaceholder
	es := []corpusEntry{
		// ---- non-termination: all must end with the deadline error after ~1 s
		{name: "while-true", script: `while true do end`, expect: "error", errHas: "context deadline exceeded", slow: true},
		{name: "while-true-work", script: `local i = 0 while true do i = i + 1 end return {i}`, expect: "error", errHas: "context deadline exceeded", slow: true},
		{name: "repeat-until-false", script: `repeat local x = 1 until false`, expect: "error", errHas: "context deadline exceeded", slow: true},
		{name: "for-huge", script: `for i = 1, 1e18 do end return {}`, expect: "error", errHas: "context deadline exceeded", slow: true},
		{name: "for-math-huge", script: `local n = 0 for i = 1, math.huge do n = n + i end return {n}`, expect: "error", errHas: "context deadline exceeded", slow: true},
		{name: "for-zero-step", script: `for i = 0, 0, 0 do end return {}`, expect: "error", errHas: "context deadline exceeded", slow: true},
		{name: "goto-loop", script: `::top:: goto top`, expect: "error"},
		{name: "pcall-swallows-deadline", script: `while true do pcall(function() while true do end end) end`, expect: "error", errHas: "context deadline exceeded", slow: true},
		{name: "pcall-error-loop", script: `while true do pcall(error, "x") end`, expect: "error", errHas: "context deadline exceeded", slow: true},
		{name: "xpcall-handler-loops", script: `xpcall(function() error("x") end, function(e) while true do end end) return {}`, expect: "error", slow: true},
		{name: "metamethod-index-loop", script: `local t = setmetatable({}, {__index = function(t, k) while true do end end}) return {t.x}`, expect: "error", errHas: "context deadline exceeded", slow: true},
		{name: "gsub-callback-loops", script: `return {string.gsub("abc", ".", function(c) while true do end end)}`, expect: "error", errHas: "context deadline exceeded", slow: true},
		{name: "sort-comparator-loops", script: `local t = {3, 2, 1} table.sort(t, function(a, b) while true do end end) return t`, expect: "error", errHas: "context deadline exceeded", slow: true},
		{name: "tostring-metamethod-loops", script: `return {tostring(setmetatable({}, {__tostring = function() while true do end end}))}`, expect: "error", errHas: "context deadline exceeded", slow: true},
		{name: "growing-table-loop", script: `local t = {} while true do t[#t + 1] = #t end`, expect: "error", errHas: "context deadline exceeded", slow: true},
		{name: "growing-string-loop", script: `local s = "" while true do s = s .. "x" end`, expect: "error", errHas: "context deadline exceeded", slow: true},
		{name: "pairs-insert-during-traversal", script: `local t = {1, 2, 3} for k in pairs(t) do t[k + 3] = 1 end return {}`, slow: true},
		{name: "binary-pcall-recursion", script: `local function f() pcall(f) pcall(f) end f() return {}`, expect: "error", slow: true},
		{name: "load-loop", script: `local f = loadstring("while true do end") f() return {}`, expect: "error", errHas: "context deadline exceeded", slow: true},
		{name: "loop-in-main-chunk-of-load", script: `return {pcall(load(function() return nil end))}`},
		{name: "mutual-recursion-loop", script: `local a, b function a() local x = b() return x end function b() local ok = pcall(a) return ok end while true do a() end`, expect: "error", slow: true},
		{name: "tailcall-loop", script: `function f() return f() end return f()`, expect: "error", errHas: "context deadline exceeded", slow: true, known: sigTailcallSlow},
		{name: "tailcall-loop-local", script: `local function f(n) return f(n + 1) end return f(1)`, expect: "error", errHas: "context deadline exceeded", slow: true, known: sigTailcallSlow},
		{name: "tailcall-bounded", script: `local function f(n, acc) if n == 0 then return acc end return f(n - 1, acc + 1) end return {f(20000, 0)}`, expect: "table", json: `[20000]`, noIngr: true},
		// ---- recursion
		{name: "stack-recursion", script: `function f() f() end f()`, expect: "error", errHas: "stack overflow"},
		{name: "stack-recursion-value", script: `local function f(n) return 1 + f(n + 1) end return {f(1)}`, expect: "error", errHas: "stack overflow"},
		{name: "index-metamethod-recursion", script: `local t = setmetatable({}, {__index = function(t, k) return t[k] end}) return {t.x}`, expect: "error"},
		{name: "index-chain", script: `local t = {} for i = 1, 200 do t = setmetatable({}, {__index = t}) end return {t.x}`},
		{name: "index-self-chain", script: `local t = {} setmetatable(t, {__index = t}) return {t.x}`},
		{name: "newindex-recursion", script: `local t = setmetatable({}, {__newindex = function(t, k, v) t[k] = v end}) t.x = 1 return {}`, expect: "error"},
		{name: "concat-metamethod-recursion", script: `local mt = {} mt.__concat = function(a, b) return a .. b end local t = setmetatable({}, mt) return {t .. "x"}`, expect: "error"},
		{name: "tostring-recursion", script: `local t = setmetatable({}, {__tostring = function(s) return tostring(s) end}) return {tostring(t)}`, expect: "error"},
		{name: "deep-bounded-recursion", script: `local function f(n) if n == 0 then return 0 end return 1 + f(n - 1) end return {f(150)}`, expect: "table", json: `[150]`, noIngr: true},
		// ---- errors
		{name: "error-string", script: `error("boom")`, expect: "error", errHas: "boom"},
		{name: "error-table", script: `error({code = 1})`, expect: "error"},
		{name: "error-nil", script: `error(nil)`, expect: "error"},
		{name: "error-no-arg", script: `error()`, expect: "error"},
		{name: "error-function", script: `error(function() end)`, expect: "error"},
		{name: "error-tostring-fails", script: `error(setmetatable({}, {__tostring = function() error("x") end}))`, expect: "error"},
		{name: "error-tostring-returns-number", script: `error(setmetatable({}, {__tostring = function() return 1 end}))`, expect: "error"},
		{name: "error-level", script: `local function f() error("lvl", 2) end f()`, expect: "error", errHas: "lvl"},
		{name: "error-huge-level", script: `error("lvl", 1e9)`, expect: "error"},
		{name: "error-negative-level", script: `error("lvl", -5)`, expect: "error"},
		{name: "assert-false", script: `assert(false)`, expect: "error", errHas: "assertion failed"},
		{name: "assert-table-message", script: `assert(nil, {1})`, expect: "error"},
		{name: "nil-index", script: `local x = nil return {x.y}`, expect: "error"},
		{name: "nil-call", script: `local x = nil x()`, expect: "error"},
		{name: "arith-on-table", script: `return {{} + 1}`, expect: "error"},
		{name: "compare-mixed", script: `return {1 < "x"}`, expect: "error"},
		{name: "syntax-error", script: `return {`, expect: "error"},
		{name: "syntax-error-garbage", script: "\x00\x01\xff\xfe = = =", expect: "error"},
		{name: "unfinished-string", script: `return {"abc`, expect: "error"},
		{name: "unfinished-long-comment", script: `--[[ never closed`},
		{name: "binary-chunk-header", script: "\x1bLua\x51\x00\x01\x04\x08\x04\x08\x00", expect: "error"},
		{name: "empty-script", script: ``, expect: "error", errHas: "expect table output", noIngr: true}, // the provider falls back to the shipped script
		{name: "only-comment", script: `-- nothing`, expect: "error"},
		{name: "xpcall-handler-errors", script: `return {xpcall(function() error("a") end, function(e) error("b") end)}`},
		{name: "xpcall-handler-errors-on-vm-error", script: `xpcall(function() local x = nil x.f = 1 end, error) return {1}`, known: sigNilReturn},
		{name: "xpcall-handler-errors-on-call-nil", script: `local ok, e = xpcall(function() local x = nil x() end, function(m) error(m) end) return {tostring(ok), tostring(e)}`, known: sigNilReturn},
		{name: "pcall-returns", script: `return {pcall(error)}`},
		{name: "error-in-gsub-callback", script: `return {pcall(string.gsub, "abc", ".", function() error("cb") end)}`},
		{name: "error-in-sort-comparator", script: `local t = {3, 1, 2} return {pcall(table.sort, t, function(a, b) error("cmp") end)}`},
		{name: "invalid-order-function", script: `local t = {} for i = 1, 100 do t[i] = i % 7 end table.sort(t, function(a, b) return true end) return t`},
		// ---- wrong return types
		{name: "return-nothing", script: `return`, expect: "error", errHas: "expect table output"},
		{name: "return-nil", script: `return nil`, expect: "error", errHas: "not nil"},
		{name: "return-number", script: `return 1`, expect: "error", errHas: "not number"},
		{name: "return-string", script: `return "x"`, expect: "error", errHas: "not string"},
		{name: "return-boolean", script: `return true`, expect: "error", errHas: "not boolean"},
		{name: "return-function", script: `return function() end`, expect: "error", errHas: "not function"},
		{name: "return-userdata", script: `return newproxy(true)`, expect: "error", errHas: "not userdata"},
		{name: "return-builtin", script: `return print`, expect: "error", errHas: "not function"},
		{name: "return-multiple-last-not-table", script: `return {}, 1`, expect: "error", errHas: "not number"},
		{name: "return-many", script: `return 1, 2, 3, {a = "b"}`, expect: "table", json: `{"a":"b"}`, noIngr: true},
		{name: "return-too-many", script: `local t = {} for i = 1, 100000 do t[i] = i end return unpack(t)`, expect: "error"},
		{name: "return-cyclic", script: `local t = {} t.t = t return t`, expect: "error", errHas: "recursively nested"},
		{name: "return-cyclic-array", script: `local t = {} t[1] = t return t`, expect: "error", errHas: "recursively nested"},
		{name: "return-cyclic-deep", script: `local a, b, c = {}, {}, {} a.b = b b.c = c c.a = a return {x = {y = a}}`, expect: "error", errHas: "recursively nested"},
		{name: "return-sparse", script: `return {[1] = 1, [3] = 3}`, expect: "error", errHas: "sparse"},
		{name: "return-sparse-huge", script: `return {[1] = 1, [1e15] = 2}`, expect: "error"},
		{name: "return-mixed-keys", script: `return {1, 2, a = 1}`, expect: "error", errHas: "mixed or invalid key"},
		{name: "return-bool-key", script: `return {[true] = 1}`, expect: "error", errHas: "mixed or invalid key"},
		{name: "return-table-key", script: `return {[{}] = 1}`, expect: "error", errHas: "mixed or invalid key"},
		{name: "return-float-key", script: `return {[1.5] = 1}`, expect: "error"},
		{name: "return-zero-key", script: `return {[0] = 1}`, expect: "error"},
		{name: "return-negative-key", script: `return {[-1] = 1}`, expect: "error"},
		{name: "return-function-value", script: `return {f = function() end}`, expect: "error", errHas: "cannot encode function"},
		{name: "return-userdata-value", script: `return {u = newproxy()}`, expect: "error", errHas: "cannot encode userdata"},
		{name: "return-nan", script: `return {0 / 0}`, expect: "error"},
		{name: "return-inf", script: `return {1 / 0, -1 / 0}`, expect: "error"},
		{name: "return-huge-number", script: `return {1e308 * 10}`, expect: "error"},
		{name: "return-with-metatable", script: `return setmetatable({a = 1}, {__index = function() error("x") end, __newindex = error, __len = error, __pairs = error})`, expect: "table", json: `{"a":1}`, noIngr: true},
		{name: "return-proxy-table", script: `return setmetatable({}, {__index = {a = 1}})`, expect: "table", json: `null`, noIngr: true},
		{name: "return-deep-nesting", script: `local t = {} local c = t for i = 1, 500 do c.n = {} c = c.n end return t`},
		{name: "return-wide", script: `local t = {} for i = 1, 20000 do t[i] = i end return t`},
		{name: "return-wide-map", script: `local t = {} for i = 1, 20000 do t["k" .. i] = "v" end return t`},
		{name: "return-shared-subtable", script: `local s = {1} return {a = s, b = s}`},
		{name: "return-invalid-utf8", script: "return {s = \"\\255\\254\\0\\1\"}"},
		{name: "return-reverse-built-array", script: `local t = {} for i = 5, 1, -1 do t[i] = i end return t`},
		{name: "return-obj", script: `return obj`, expect: "table"},
		{name: "return-obj-field", script: `return obj.annotations`, expect: "table"},
		// ---- escape attempts: libraries that must not exist
		{name: "sandbox-globals-are-nil", script: `return {os = type(os), io = type(io), package = type(package), debug = type(debug), coroutine = type(coroutine), channel = type(channel)}`,
			expect: "table", json: `{"channel":"nil","coroutine":"nil","debug":"nil","io":"nil","os":"nil","package":"nil"}`, noIngr: true},
		{name: "os-execute", script: `os.execute("touch ` + S + `/pwned") return {}`, expect: "error"},
		{name: "os-execute-guarded", script: `if os then os.execute("touch ` + S + `/pwned") os.remove("` + S + `/secret.txt") os.rename("` + S + `/payload.lua", "` + S + `/moved") end return {}`, expect: "table"},
		{name: "os-getenv", script: `return {pcall(function() return os.getenv("HOME") end)}`},
		{name: "os-exit", script: `pcall(function() os.exit(3) end) return {}`, expect: "table"},
		{name: "io-open-write", script: `pcall(function() local f = io.open("` + S + `/created.txt", "w") f:write("x") f:close() end) return {}`, expect: "table"},
		{name: "io-open-read", script: `local ok, r = pcall(function() local f = io.open("` + S + `/secret.txt") local s = f:read("*a") f:close() return s end) return {r = tostring(r)}`, expect: "table"},
		{name: "io-popen", script: `local ok, r = pcall(function() return io.popen("cat ` + S + `/secret.txt"):read("*a") end) return {r = tostring(r)}`, expect: "table"},
		{name: "io-lines", script: `local ok, r = pcall(function() local o = {} for l in io.lines("` + S + `/secret.txt") do o[#o + 1] = l end return o end) return {r = tostring(r)}`, expect: "table"},
		{name: "debug-getregistry", script: `local ok, r = pcall(function() return debug.getregistry() end) return {ok = ok}`, expect: "table", json: `{"ok":false}`, noIngr: true},
		{name: "debug-sethook", script: `pcall(function() debug.sethook(function() end, "l") end) return {}`, expect: "table"},
		{name: "package-loadlib", script: `return {pcall(function() return package.loadlib("/lib/x86_64-linux-gnu/libc.so.6", "system") end)}`},
		{name: "package-path", script: `pcall(function() package.path = "` + S + `/?.lua" end) return {pcall(require, "payload")}`},
		{name: "require-payload", script: `local ok, r = pcall(require, "payload") return {ok = ok, r = tostring(r), g = tostring(c16_payload_ran)}`, expect: "table"},
		{name: "require-with-fake-package", script: `package = {path = "` + S + `/?.lua", loaded = {}, loaders = {}, preload = {}} local ok, r = pcall(require, "payload") package = nil return {ok = ok, r = tostring(r), g = tostring(c16_payload_ran)}`, expect: "table"},
		{name: "require-os", script: `local ok, m = pcall(require, "os") if ok and type(m) == "table" and m.execute then m.execute("touch ` + S + `/pwned") end return {}`, expect: "table"},
		{name: "module-call", script: `pcall(module, "evil") return {}`},
		{name: "module-seeall", script: `pcall(function() module("evil", package.seeall) end) return {}`},
		{name: "coroutine-pingpong", script: `local ok = pcall(function() local co = coroutine.wrap(function() while true do coroutine.yield() end end) while true do co() end end) return {ok = ok}`, expect: "table", json: `{"ok":false}`, noIngr: true},
		{name: "channel-make", script: `local ok = pcall(function() local c = channel.make() c:receive() end) return {ok = ok}`, expect: "table", json: `{"ok":false}`, noIngr: true},
		// ---- escape attempts through the base library's file loaders
		{name: "dofile-payload", script: `return dofile("` + S + `/payload.lua")`, known: sigFileLeak},
		{name: "dofile-payload-relative", script: `local ok, r = pcall(dofile, "payload.lua") return {r = r, g = c16_payload_ran}`, known: sigFileLeak},
		{name: "dofile-sets-global", script: `pcall(dofile, "` + S + `/payload.lua") return {}`, known: sigFileLeak},
		{name: "loadfile-payload", script: `local f = loadfile("` + S + `/payload.lua") if f then return f() end return {}`, known: sigFileLeak},
		{name: "loadfile-leaks-through-parse-error", script: `local f, e = loadfile("` + S + `/secret.txt") return {e = tostring(e)}`, known: sigFileLeak},
		{name: "dofile-leaks-through-error", script: `dofile("` + S + `/secret.txt")`, known: sigFileLeak},
		{name: "dofile-stdin", script: `return {pcall(dofile)}`},
		{name: "dofile-missing", script: `return {pcall(dofile, "` + S + `/missing.lua")}`},
		{name: "dofile-directory", script: `return {pcall(dofile, "` + S + `")}`},
		{name: "loadfile-missing", script: `local ok, f = pcall(loadfile, "/nonexistent/x.lua") return {f = tostring(f)}`, expect: "table"},
		{name: "loadfile-missing-dir", script: `local ok, f = pcall(loadfile, "` + S + `/missing/zero") return {f = tostring(f)}`, expect: "table"},
		{name: "file-loader-globals-are-nil", script: `return {dofile = type(dofile), loadfile = type(loadfile), require = type(require)}`,
			expect: "table", json: `{"dofile":"nil","loadfile":"nil","require":"nil"}`, noIngr: true, known: sigLoaders},
		// ---- in-VM code loading is not an escape, but must stay inside the sandbox
		{name: "load-string", script: `return {loadstring("return 1 + 1")()}`, expect: "table", json: `[2]`, noIngr: true},
		{name: "load-sees-no-os", script: `return {loadstring("return type(os)")()}`, expect: "table", json: `["nil"]`, noIngr: true},
		{name: "load-bytecode", script: "return {pcall(loadstring, \"\\27Lua\")}"},
		{name: "load-syntax-error", script: `local f, e = loadstring("return {") return {f = tostring(f), e = e}`, expect: "table"},
		{name: "load-function-reader", script: `local n = 0 local f = load(function() n = n + 1 if n == 1 then return "return {1}" end return nil end) return f()`},
		{name: "load-reader-errors", script: `return {pcall(load, function() error("r") end)}`},
		{name: "load-reader-returns-table", script: `return {pcall(load, function() return {} end)}`},
		{name: "string-dump", script: `return {pcall(string.dump, function() end)}`},
		{name: "getfenv-walk", script: `local e = getfenv(0) local n = 0 for k, v in pairs(e) do n = n + 1 end return {n = n, same = (e == _G)}`, expect: "table"},
		{name: "getfenv-levels", script: `local r = {} for i = 0, 10 do r[#r + 1] = tostring(pcall(getfenv, i)) end return r`, expect: "table"},
		{name: "setfenv-empty-global", script: `setfenv(0, {}) return {}`},
		{name: "setfenv-empty-local", script: `setfenv(1, {}) return {}`},
		{name: "setfenv-builtin", script: `return {pcall(setfenv, print, {})}`},
		{name: "setfenv-huge-level", script: `return {pcall(setfenv, 1e9, {})}`},
		{name: "rawset-globals", script: `rawset(_G, "os", nil) rawset(_G, "x", 1) return {x = x}`, expect: "table"},
		{name: "globals-metatable", script: `setmetatable(_G, {__index = function(t, k) return k end, __newindex = function() error("ro") end}) return {a = undefined_name}`},
		{name: "clear-globals", script: `for k in pairs(_G) do _G[k] = nil end return {}`},
		{name: "string-metatable-hijack", script: `getmetatable("").__index = function(s, k) return function() return "hijacked" end end return {r = ("x"):upper()}`, expect: "table"},
		{name: "string-metatable-remove", script: `getmetatable("").__index = nil return {pcall(function() return ("x"):upper() end)}`},
		{name: "string-lib-replace", script: `string.find = function() return "replaced" end string.rep = nil return {string.find("a", "a")}`, expect: "table"},
		{name: "obj-metatable", script: `setmetatable(obj, {__index = function() error("trap") end, __newindex = function() error("trap") end}) return obj`},
		{name: "obj-mutate", script: `obj.annotations = nil obj.x = obj return obj`, expect: "error", errHas: "recursively nested"},
		{name: "obj-replace", script: `obj = 1 return {}`, expect: "table"},
		{name: "obj-missing-field", script: `return {obj.no.such.field}`, expect: "error"},
		{name: "newproxy-gc", script: `local p = newproxy(true) getmetatable(p).__gc = function() while true do end end p = nil collectgarbage() collectgarbage("collect") return {}`},
		{name: "newproxy-index", script: `local p = newproxy(true) getmetatable(p).__index = function(u, k) return k end return {p.hello}`},
		{name: "collectgarbage-options", script: `local r = {} for _, o in ipairs({"stop", "restart", "collect", "count", "step", "setpause", "setstepmul", "bogus"}) do r[#r + 1] = tostring(pcall(collectgarbage, o, 1)) end return r`},
		{name: "print-and-printregs", script: `print("hello", nil, {}, print) _printregs() return {}`, expect: "table"},
		{name: "print-tostring-error", script: `return {pcall(print, setmetatable({}, {__tostring = function() error("x") end}))}`},
		{name: "unpack-huge", script: `return {pcall(unpack, {}, 1, 1e7)}`},
		{name: "unpack-negative", script: `return {pcall(unpack, {1, 2}, -1e7, 2)}`},
		{name: "select-huge", script: `return {pcall(select, 1e9, 1)}`},
		{name: "select-negative", script: `return {pcall(select, -5, 1)}`},
		{name: "tonumber-bases", script: `local r = {} for _, b in ipairs({-1, 0, 1, 2, 36, 37, 99, 1e9}) do r[#r + 1] = tostring(pcall(tonumber, "zz", b)) end return r`},
		{name: "tonumber-odd", script: `return {tostring(tonumber("0x")), tostring(tonumber("1e")), tostring(tonumber("  12  ")), tostring(tonumber("0x1p4")), tostring(tonumber({})), tostring(tonumber("1", 10.5))}`},
		{name: "tostring-odd", script: `return {tostring(nil), tostring(1e308), tostring(-0), tostring(0 / 0), tostring(print):sub(1, 8), tostring(2 ^ 63), tostring(1e15), tostring(0.1)}`, expect: "table"},
		{name: "next-invalid-key", script: `return {pcall(next, {}, "nokey")}`},
		{name: "rawget-non-table", script: `return {pcall(rawget, "s", 1), pcall(rawset, 1, 1, 1), pcall(rawequal)}`},
		{name: "setmetatable-protected", script: `local t = setmetatable({}, {__metatable = "locked"}) return {pcall(setmetatable, t, {}), getmetatable(t)}`},
		{name: "ipairs-metamethod", script: `local t = setmetatable({}, {__index = function(t, i) return i end}) local n = 0 for i, v in ipairs(t) do n = n + 1 if n > 1000 then break end end return {n = n}`},
		// ---- math / table / string library edge cases (Go code reached from scripts)
		{name: "math-edges", script: `return {pcall(math.random, 0), pcall(math.random, -1), pcall(math.random, 1e30), pcall(math.random, 2, 1), pcall(math.floor, "x"), pcall(math.fmod, 1, 0), pcall(math.ldexp, 1, 1e9), pcall(math.max), pcall(math.min), pcall(math.randomseed, 0 / 0), pcall(math.frexp, 0 / 0), pcall(math.modf, 1 / 0)}`},
		{name: "math-int-conversion", script: `return {pcall(string.rep, "x", 0 / 0), pcall(string.rep, "x", -1 / 0), pcall(string.sub, "abc", 0 / 0, 1 / 0), pcall(string.byte, "abc", -1e300, 1e300), pcall(string.char, 1e300), pcall(table.concat, {}, "", 1 / 0, 0 / 0)}`},
		{name: "modulo-zero", script: `return {tostring(1 % 0), tostring(-1 % 0), tostring(1 % (1 / 0)), tostring(5 % -3), tostring(2 ^ 0.5), tostring((-8) ^ (1 / 3))}`, expect: "table"},
		{name: "table-insert-edges", script: `local t = {1, 2, 3} return {pcall(table.insert, t, 1e9, "x"), pcall(table.insert, t, -5, "x"), pcall(table.insert, t, 0, "x"), pcall(table.insert, t), pcall(table.insert, t, 1, 2, 3), pcall(table.insert, nil, 1)}`},
		{name: "table-remove-edges", script: `local t = {1, 2, 3} return {pcall(table.remove, t, 1e9), pcall(table.remove, t, -1), pcall(table.remove, t, 0), pcall(table.remove, {}), pcall(table.remove, t, 0 / 0)}`},
		{name: "table-concat-edges", script: `return {pcall(table.concat, {1, {}, 3}), pcall(table.concat, {1, 2}, {}, 1, 2), pcall(table.concat, {"a"}, ",", 1, 1e9), pcall(table.concat, {"a"}, ",", -1e9, 1)}`},
		{name: "table-sort-edges", script: `return {pcall(table.sort, {3, "a", {}}), pcall(table.sort, {1, 2}, "notfn"), pcall(table.sort, {1, 0 / 0, 3, 0 / 0, 2}), pcall(table.sort, setmetatable({}, {__lt = error}))}`},
		{name: "table-maxn-getn", script: `local t = {[1e15] = 1, [-3] = 2, [2.5] = 3} return {table.maxn(t), table.getn(t), #t}`},
		{name: "table-array-holes", script: `local t = {1, 2, 3, nil, 5, nil, nil, 8} t[#t + 1] = 9 t[20] = 1 table.remove(t, 1) return {#t}`},
		{name: "string-format-edges", script: `local r = {} for _, f in ipairs({"%d", "%5.2f", "%s", "%q", "%x", "%c", "%y", "%", "%%", "%99999999999d", "%-+ #0d", "%.99f", "%*d", "%1$s", "%s%s%s", "%i", "%u", "%e", "%g", "%o", "%X", "%5s", "%.3s", "%#x", "%099d"}) do r[#r + 1] = tostring(pcall(string.format, f, 42)) end return r`},
		{name: "string-format-wrong-types", script: `return {pcall(string.format, "%d", "x"), pcall(string.format, "%d", {}), pcall(string.format, "%s", nil), pcall(string.format, "%s", {}), pcall(string.format, "%c", 1e9), pcall(string.format, "%d", 1e300), pcall(string.format, "%d", 0 / 0), pcall(string.format, "%q", "a\0b\n\"")}`},
		{name: "string-sub-byte-edges", script: `local s = "hello" return {s:sub(0), s:sub(-100, 100), s:sub(3, 2), s:sub(2 ^ 31), s:sub(-2 ^ 31), s:sub(2 ^ 53, -2 ^ 53), pcall(s.byte, s, 1, 2 ^ 31), pcall(s.byte, s, -2 ^ 31, 2), pcall(string.char, -1), pcall(string.char, 256), s:rep(0), s:rep(-5), s:len()}`},
		{name: "string-rep-bounded", script: `return {n = #string.rep(string.rep("ab", 100), 100)}`, expect: "table", json: `{"n":20000}`, noIngr: true},
		{name: "pattern-malformed", script: `local r = {} for _, p in ipairs({"[", "[a", "[^", "%", "(", ")", "(()", "%b", "%bx", "%f", "%f[", "[%", "[a-", "%1", "(%1)", "()", "^*", "$*", "[]]", "[^]]", "*", "a**", "%g", "[%a-z]", "\0", "(a)(b)(c)(d)(e)(f)(g)(h)(i)(j)(k)(l)(m)(n)(o)(p)(q)(r)(s)(t)(u)(v)(w)(x)(y)(z)(a)(b)(c)(d)(e)(f)(g)"}) do r[#r + 1] = tostring(pcall(string.find, "abc]xyz", p)) end return r`},
		{name: "pattern-init-edges", script: `return {pcall(string.find, "abc", "b", 1e9), pcall(string.find, "abc", "b", -1e9), pcall(string.find, "abc", "", 10), pcall(string.find, "", ""), pcall(string.find, "abc", "b", 0 / 0), pcall(string.find, "abc", "b", 2, true), pcall(string.match, "abc", "()b()"), pcall(string.gmatch("abc", ""))}`},
		{name: "gsub-edges", script: `return {pcall(string.gsub, "abc", "", "-"), pcall(string.gsub, "abc", ".", "%0%0"), pcall(string.gsub, "abc", "(a)", "%2"), pcall(string.gsub, "abc", "b", {b = 1}), pcall(string.gsub, "abc", "b", {b = {}}), pcall(string.gsub, "abc", "b", function() return {} end), pcall(string.gsub, "abc", "b", function() return false end), pcall(string.gsub, "abc", "b", "%"), pcall(string.gsub, "abc", ".", "x", -1), pcall(string.gsub, "abc", ".", "x", 1e9), pcall(string.gsub, "abc", "b", 42), pcall(string.gsub, "abc", "b", nil)}`},
		{name: "gsub-anchored", script: `return {string.gsub("aaa", "^a", "b"), string.gsub("hello world", "%w+", "%0 %0", 1), string.gsub("abc", "%f[%w]%w+", "<%0>"), string.gsub("a b", "%s", "%%")}`},
		{name: "gmatch-modify", script: `local s = "a b c" local r = {} for w in s:gmatch("%a") do r[#r + 1] = w s = s .. " d" if #r > 100 then break end end return r`},
		{name: "pattern-balance-frontier", script: `return {string.find("((a)(b))", "%b()"), string.find("THE (quick) fox", "%f[%a]%a+"), string.match("key = value", "(%w+)%s*=%s*(%w+)"), string.find("abc", "[a-c]+$"), string.find("a.b", ".", 1, true), string.find("x", "%b((")}`},
		{name: "pattern-moderate-backtracking", script: `return {tostring(string.find(string.rep("a", 30), "a*a*a*a*b")), tostring(string.find(string.rep("a", 20), ".-.-.-b")), (string.gsub(string.rep("ab", 30), "a-b-a-c", "x"))}`, expect: "table"},
		{name: "pattern-long-subject-linear", script: `local s = string.rep("abcdefgh", 250) return {tostring(s:find("h$")), #s:gsub("%w", "%0%0"), tostring(s:find("xyz", 1, true)), (select(2, s:gsub("a", "a")))}`, expect: "table"},
		{name: "pattern-exponential-find", script: `return {string.find(string.rep("a", 30), "a-a-a-a-a-a-a-a-a-a-a-a-a-a-b")}`, known: sigPatternHang},
		{name: "pattern-exponential-input", script: `return {string.find(obj.s, "a*a*a*a*a*a*a*a*a*a*a*a*a*a*b")}`, known: sigPatternHang},
		{name: "pattern-exponential-gsub", script: `return {string.gsub(string.rep("a", 40), ".-.-.-.-.-.-.-.-.-.-.-.-x", "")}`, known: sigPatternHang},
		{name: "gsub-quadratic-long-subject", script: `return {(string.gsub(string.rep("a", 200000), "a", "b"))}`, known: sigPatternHang},
		{name: "pattern-quadratic-long-subject", script: `local s = string.rep("a", 20000) return {s:find("a*a*a*b")}`, known: sigPatternHang},
		// ---- json module
		{name: "json-encode-edges", script: `local t = {} t.t = t return {tostring(json.encode(t)), tostring(json.encode({[1] = 1, [3] = 3})), tostring(json.encode({1, a = 1})), tostring(json.encode(print)), tostring(json.encode(0 / 0)), tostring(json.encode(nil)), tostring(json.encode("s")), tostring(json.encode({})), tostring(json.encode({{}, {}}))}`, expect: "table"},
		{name: "json-encode-no-arg", script: `return {pcall(json.encode)}`},
		{name: "json-decode-edges", script: `local r = {} for _, s in ipairs({"", "null", "{", "[1,2", "1e999", "\"\\ud800\"", "{\"a\":{\"a\":{\"a\":{}}}}", "[[[[[[[[[[]]]]]]]]]]", "tru", "1 2", "{\"a\":1,\"a\":2}", "\255\254", "123456789012345678901234567890", "-0", "[null,null]", "{\"\":1}"}) do local v, e = json.decode(s) r[#r + 1] = tostring(v) .. "|" .. tostring(e) end return r`, expect: "table"},
		{name: "json-decode-wrong-type", script: `return {pcall(json.decode, {}), pcall(json.decode), pcall(json.decode, 12), pcall(json.decode, nil)}`},
		{name: "json-decode-deep", script: `local s = string.rep("[", 2000) .. string.rep("]", 2000) local v, e = json.decode(s) return {t = type(v), e = tostring(e)}`},
		{name: "json-roundtrip-in-lua", script: `local s = json.encode(obj) local v = json.decode(s) return v`, expect: "table"},
		{name: "json-module-overwrite", script: `json.encode = function() return "x" end json = nil return {a = 1}`, expect: "table", json: `{"a":1}`, noIngr: true},
		// ---- state must be fresh for every call
		{name: "state-bleed-set", script: `c16_bleed = "left behind" string.c16_bleed = 1 getmetatable("").c16_bleed = 1 math.c16 = 1 json.c16 = 1 return {}`, expect: "table"},
		{name: "state-bleed-probe", script: `return {a = tostring(c16_bleed), b = tostring(string.c16_bleed), c = tostring(getmetatable("").c16_bleed), d = tostring(math.c16), e = tostring(json.c16), f = tostring(c16_payload_ran)}`,
			expect: "table", json: `{"a":"nil","b":"nil","c":"nil","d":"nil","e":"nil","f":"nil"}`, noIngr: true},
		// ---- the shipped nginx script shape, for reference
		{name: "ingress-like", script: `local annotations = obj.annotations or {} annotations["nginx.ingress.kubernetes.io/canary"] = "true" annotations["nginx.ingress.kubernetes.io/canary-weight"] = tostring(obj.weight) return annotations`, expect: "table"},
	}
	for i := range es {
		if es[i].input == "" {
			es[i].input = corpusInput
		}
	}
	return es
}

func (e *corpusEntry) toCase(mode string) *Case {
	c := &Case{Name: e.name + "/" + mode, Mode: mode, Script: e.script, Input: e.input, NumKind: "int64"}
	if mode == modeRaw {
		c.Expect, c.ErrContains, c.JSONEquals = e.expect, e.errHas, e.json
	} else if !e.noIngr {
		// through the provider a non-table result is an error too; errors stay errors. A table
		// result may still be rejected by the provider (values must be strings).
		if e.expect == "error" {
			c.Expect = "error"
			if e.errHas != "" && !strings.Contains(e.errHas, "expect table") {
				c.ErrContains = e.errHas
			}
		}
	}
	return c
}

func TestC16HostileCorpus(t *testing.T) {
	var rc Case
	if ok, _ := vlib.LoadReplay(chkCorpus, &rc); ok {
		check(t, chkCorpus, &rc)
		return
	}
	var cases []*Case
	only := os.Getenv("VERIF_C16_CORPUS_ONLY") // development: substring of entry names
	for _, e := range corpus() {
		e := e
		if only != "" && !strings.Contains(e.name, only) {
			continue
		}
		if e.known != "" && isOpen(e.known) {
			vlib.Excluded(chkCorpus, e.known)
			continue
		}
		cases = append(cases, e.toCase(modeRaw), e.toCase(modeIngress))
	}
	// phase 1: first execution of every case, a few at a time (most hostile scripts sit out the
	// full 1 s deadline); phase 2: verdicts, sequentially, re-runs on an otherwise idle process.
	results := make([]*Result, len(cases))
	sem := make(chan struct{}, 6)
	var wg sync.WaitGroup
	for i := range cases {
		wg.Add(1)
		sem <- struct{}{}
		go func(i int) {
			defer wg.Done()
			defer func() { <-sem }()
			results[i] = pool.run(cases[i].request(), false)
		}(i)
	}
	wg.Wait()
	for i, c := range cases {
		res := results[i]
		cls := []string{"mode:" + c.Mode, outcomeClass(res)}
		if res.Resp != nil && res.Resp.WallNs > 9e8 {
			cls = append(cls, "ran-into-deadline")
		}
		vlib.Record(chkCorpus, c.Name, true, cls, func() any { return c })
		if v := evaluate(chkCorpus, c, res); v != nil {
			vlib.Fail(t, chkCorpus, v.sig, c, "%s", fmt.Sprintf("[%s] %s", c.Name, v.msg))
		}
	}
	// the state-bleed pair again, forced through ONE worker in order
	w := []*Case{}
	for _, e := range corpus() {
		if strings.HasPrefix(e.name, "state-bleed-") {
			w = append(w, e.toCase(modeRaw))
		}
	}
	for _, c := range w {
		check(t, chkCorpus, c)
	}
}
