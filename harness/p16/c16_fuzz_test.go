package p16

// c16-fuzz: native go fuzzing over script bytes (thorough tier), seeded with the hostile
// corpus and the scripts shipped in /repo/lua_configuration. Scripts run in the same worker
// processes as everywhere else, under the same oracles. Inputs outside the property (bigger
// than 4 KiB, bracket nesting deeper than 60) are skipped; a worker that dies of a memory or
// nesting bomb is counted, not reported. Listed findings cannot be excluded by construction in
// a byte-level fuzzer, so a failure whose signature is a listed open finding is counted with
// vlib.Excluded instead of failing the run.

import (
	"os"
	"path/filepath"
	"strings"
	"testing"

	"verifharness/vlib"
)

const chkFuzz = "c16-fuzz"

const fuzzInput = `{"annotations":{"kubernetes.io/ingress.class":"nginx"},"weight":"20","matches":[{"headers":[{"name":"user_id","value":"123456","type":"Exact"}]}],"canaryService":"canary","s":"aaaaaaaaaaaaaaaaaaaa","n":3,"list":[1,2,3]}`

func nestingDepth(s string) int {
	d, m := 0, 0
	for i := 0; i < len(s); i++ {
		switch s[i] {
		case '(', '{', '[':
			d++
			if d > m {
				m = d
			}
		case ')', '}', ']':
			if d > 0 {
				d--
			}
		}
	}
	return m
}

func fuzzOne(t *testing.T, script string) {
	if len(script) > 4096 || nestingDepth(script) > 60 {
		vlib.Class(chkFuzz, "skipped:out-of-scope-size")
		return
	}
	c := &Case{Mode: modeRaw, Script: script, Input: fuzzInput, NumKind: "int64", Fuzz: true}
	res := pool.run(c.request(), false)
	oc := outcomeClass(res)
	vlib.Record(chkFuzz, script, oc != "outcome:error-syntax", []string{oc}, func() any { return c })
	if v := evaluate(chkFuzz, c, res); v != nil {
		if isOpen(v.sig) {
			vlib.Excluded(chkFuzz, v.sig)
			return
		}
		vlib.Fail(t, chkFuzz, v.sig, c, "%s", v.msg)
	}
}

func FuzzC16Script(f *testing.F) {
	var rc Case
	if ok, _ := vlib.LoadReplay(chkFuzz, &rc); ok {
		f.Add(rc.Script)
		f.Fuzz(func(t *testing.T, script string) {
			if script != rc.Script {
				return
			}
			fuzzOne(t, script)
		})
		return
	}
	for _, e := range corpus() {
		if e.known != "" && isOpen(e.known) {
			continue
		}
		if e.slow && !strings.Contains(e.name, "while-true") {
			continue // seeds are re-executed by every fuzz worker at start-up; keep only one 1 s seed
		}
		f.Add(e.script)
	}
	_ = filepath.Walk("/repo/lua_configuration", func(path string, fi os.FileInfo, err error) error {
		if err == nil && !fi.IsDir() && strings.HasSuffix(path, ".lua") && fi.Size() < 4096 {
			if b, e := os.ReadFile(path); e == nil {
				f.Add(string(b))
			}
		}
		return nil
	})
	f.Fuzz(fuzzOne)
}
