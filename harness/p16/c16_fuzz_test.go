package p16

// c16-fuzz: native go fuzzing over script bytes (thorough tier), seeded with the hostile
// corpus and the scripts shipped in /repo/lua_configuration. Scripts run in the same worker
// processes as everywhere else, under the same oracles. Inputs outside the property (bigger
// than 4 KiB, bracket nesting deeper than 60) are skipped; a worker that dies of a memory or
// nesting bomb is counted, not reported. Listed findings cannot be excluded by construction in
// a byte-level fuzzer, so a failure whose signature is a listed open finding is counted with
// vlib.Excluded instead of failing the run.

import (
	"encoding/json"
	"fmt"
	"os"
	"path/filepath"
	"sort"
	"strings"
	"testing"
	"time"

	"verifharness/vlib"
)

const chkFuzz = "c16-fuzz"

const fuzzInput = `{"annotations":{"kubernetes.io/ingress.class":"nginx"},"weight":"20","matches":[{"headers":[{"name":"user_id","value":"123456","type":"Exact"}]}],"canaryService":"canary","s":"aaaaaaaaaaaaaaaaaaaa","n":3,"list":[1,2,3]}`

func nestingDepth(s string) int {
	d, m := 0, 0
	for i := 0; i < len(s); i++ {
		switch s[i] {
		case '(', '{', '[':
			d++
			if d > m {
				m = d
			}
		case ')', '}', ']':
			if d > 0 {
				d--
			}
		}
	}
	return m
}

func fuzzOne(t *testing.T, script string) { fuzzCase(t, script, false) }

// fuzzCase: full => the complete timing procedure in-line (replay; no fuzzing engine watchdog).
func fuzzCase(t *testing.T, script string, full bool) {
	if len(script) > 4096 || nestingDepth(script) > 60 {
		vlib.Class(chkFuzz, "skipped:out-of-scope-size")
		return
	}
	c := &Case{Mode: modeRaw, Script: script, Input: fuzzInput, NumKind: "int64", Fuzz: true}
	res := pool.runOpt(c.request(), false, !full)
	oc := outcomeClass(res)
	vlib.Record(chkFuzz, script, oc != "outcome:error-syntax", []string{oc}, func() any { return c })
	if !full && (res.Hang || (res.Resp != nil && time.Duration(res.Resp.WallNs) > slowBound)) {
		// The go fuzzing engine kills a worker whose input takes more than 10 s, so the three
		// confirmation runs cannot happen here. What the dump already identifies is settled now;
		// everything else becomes a suspect that the coordinator process judges with the full
		// procedure after the fuzzing time is over (see judgeSuspects).
		where := ""
		if res.Hang {
			where = stuckWhere(res.Stderr)
		} else if hasFlag(res.Resp, "tailcall") {
			where = "traceback"
		}
		switch {
		case where == "pattern-match" && isOpen(sigPatternHang):
			vlib.Excluded(chkFuzz, sigPatternHang)
		case where == "traceback" && isOpen(sigTailcallSlow):
			vlib.Excluded(chkFuzz, sigTailcallSlow)
		case where == "array-fill":
			vlib.Class(chkFuzz, "out-of-scope:memory-bomb")
		default:
			vlib.Class(chkFuzz, "suspect-slow-or-hung")
			writeSuspect(c)
		}
		return
	}
	if v := evaluate(chkFuzz, c, res); v != nil {
		if isOpen(v.sig) {
			vlib.Excluded(chkFuzz, v.sig)
			return
		}
		vlib.Fail(t, chkFuzz, v.sig, c, "%s", v.msg)
	}
}

func suspectDir() string { return filepath.Join(vlib.OutDir(), "c16-suspects") }

var suspectSeq int

func writeSuspect(c *Case) {
	_ = os.MkdirAll(suspectDir(), 0o755)
	suspectSeq++
	b, _ := json.Marshal(c)
	_ = os.WriteFile(filepath.Join(suspectDir(), fmt.Sprintf("suspect-%d-%04d.json", os.Getpid(), suspectSeq)), b, 0o644)
}

type recordingTB struct{ failed bool }

func (r *recordingTB) Fatalf(format string, args ...any) {
	r.failed = true
	fmt.Printf("--- FAIL: "+format+"\n", args...)
}
func (r *recordingTB) Logf(format string, args ...any) {}

// judgeSuspects runs in the fuzzing coordinator after m.Run: every input a fuzz worker found
// slow or hung goes through the full timing procedure (re-runs in fresh workers). Returns
// false when a violation was confirmed (its replay file and failure record are written).
func judgeSuspects() bool {
	files, _ := filepath.Glob(filepath.Join(suspectDir(), "suspect-*.json"))
	sort.Strings(files)
	ok := true
	seen := map[string]bool{}
	judged := 0
	for _, f := range files {
		data, err := os.ReadFile(f)
		if err != nil {
			continue
		}
		var c Case
		if json.Unmarshal(data, &c) != nil || seen[c.Script] {
			continue
		}
		seen[c.Script] = true
		if judged >= 8 { // each confirmed hang costs about 25 s
			vlib.Note(chkFuzz, "more than 8 suspects; not judged: "+f)
			continue
		}
		judged++
		res := pool.run(c.request(), true)
		v := evaluate(chkFuzz, &c, res)
		switch {
		case v == nil:
			vlib.Class(chkFuzz, "suspect-cleared")
		case isOpen(v.sig):
			vlib.Excluded(chkFuzz, v.sig)
		default:
			tb := &recordingTB{}
			vlib.Fail(tb, chkFuzz, v.sig, &c, "%s", v.msg)
			ok = false
		}
	}
	return ok
}

func FuzzC16Script(f *testing.F) {
	var rc Case
	if ok, _ := vlib.LoadReplay(chkFuzz, &rc); ok {
		f.Add(rc.Script)
		f.Fuzz(func(t *testing.T, script string) {
			if script != rc.Script {
				return
			}
			fuzzCase(t, script, true)
		})
		return
	}
	for _, e := range corpus() {
		if e.known != "" && isOpen(e.known) {
			continue
		}
		if e.slow && !strings.Contains(e.name, "while-true") {
			continue // seeds are re-executed by every fuzz worker at start-up; keep only one 1 s seed
		}
		f.Add(e.script)
	}
	_ = filepath.Walk("/repo/lua_configuration", func(path string, fi os.FileInfo, err error) error {
		if err == nil && !fi.IsDir() && strings.HasSuffix(path, ".lua") && fi.Size() < 4096 {
			if b, e := os.ReadFile(path); e == nil {
				f.Add(string(b))
			}
		}
		return nil
	})
	f.Fuzz(fuzzOne)
}
