package p16

// c16-roundtrip: a JSON-like value handed to a script as `obj` and handed back by an identity
// script must come back unchanged in meaning: Encode(l.Get(-1)) == N(value), where N is the
// documented normaliser (numbers are float64 with |x| < 2^53; an empty container and an absent
// / null map entry are the same thing because json.go encodes an empty table as null and a Lua
// table cannot hold nil).

import (
	"encoding/json"
	"fmt"
	"reflect"
	"strings"
	"testing"

	"pgregory.net/rapid"

	"verifharness/vlib"
)

const chkRoundTrip = "c16-roundtrip"

// normalise implements N.
func normalise(v interface{}) interface{} {
	switch x := v.(type) {
	case map[string]interface{}:
		out := map[string]interface{}{}
		for k, e := range x {
			if n := normalise(e); n != nil {
				out[k] = n
			}
		}
		if len(out) == 0 {
			return nil
		}
		return out
	case []interface{}:
		if len(x) == 0 {
			return nil
		}
		out := make([]interface{}, len(x))
		for i, e := range x {
			out[i] = normalise(e)
		}
		return out
	}
	return v
}

// nullishListElem reports whether some list has an element that normalises to null.
func nullishListElem(v interface{}) bool {
	switch x := v.(type) {
	case map[string]interface{}:
		for _, e := range x {
			if nullishListElem(e) {
				return true
			}
		}
	case []interface{}:
		for _, e := range x {
			if normalise(e) == nil || nullishListElem(e) {
				return true
			}
		}
	}
	return false
}

var identityScripts = []struct{ name, script, kind string }{
	{"return-obj", `return obj`, "value"},
	{"wrap", `return {wrap = obj}`, "wrap"},
	{"deep-copy", `local function cp(v) if type(v) ~= "table" then return v end local r = {} for k, x in pairs(v) do r[k] = cp(x) end return r end return cp(obj)`, "value"},
	{"ipairs-copy", `local function cp(v) if type(v) ~= "table" then return v end local r = {} if #v > 0 then for i, x in ipairs(v) do r[i] = cp(x) end else for k, x in pairs(v) do r[k] = cp(x) end end return r end return cp(obj)`, "value"},
	{"lua-json-roundtrip", `return {wrap = json.decode(json.encode(obj))}`, "wrap"},
	{"lua-json-text", `return {s = json.encode(obj)}`, "text"},
	{"field-by-field", `local r = {} for k, v in pairs(obj) do r[k] = v end return r`, "value"},
}

func roundTripVerdict(c *Case, rp *Response) *verdict {
	var want interface{}
	if err := json.Unmarshal([]byte(c.Want), &want); err != nil {
		return &verdict{"harness-error", "bad Want: " + err.Error()}
	}
	if rp.Outcome != "table" {
		return &verdict{"roundtrip-error", fmt.Sprintf("identity script failed on a JSON-like value: stage=%s err=%s", rp.ErrStage, clip(rp.Err, 400, 100))}
	}
	var got interface{}
	if err := json.Unmarshal([]byte(rp.JSON), &got); err != nil {
		return &verdict{"roundtrip-bad-json", "result is not JSON: " + err.Error()}
	}
	switch c.RoundTrip {
	case "wrap":
		want = map[string]interface{}{"wrap": want}
	case "text":
		// result is {"s": "<json text>"}; the text must decode to the value
		m, _ := got.(map[string]interface{})
		s, ok := m["s"].(string)
		if !ok {
			return &verdict{"roundtrip-value-changed", fmt.Sprintf("json.encode(obj) did not yield a string: %s", clip(rp.JSON, 300, 0))}
		}
		got = nil
		if err := json.Unmarshal([]byte(s), &got); err != nil {
			return &verdict{"roundtrip-bad-json", "json.encode(obj) text is not JSON: " + err.Error()}
		}
	}
	nw, ng := normalise(want), normalise(got)
	if !reflect.DeepEqual(nw, ng) {
		a, _ := json.Marshal(nw)
		b, _ := json.Marshal(ng)
		return &verdict{"roundtrip-value-changed", fmt.Sprintf("value changed on the way through the script:\n want %s\n got  %s", clip(string(a), 600, 0), clip(string(b), 600, 0))}
	}
	return nil
}

// ---- generator of JSON-like values ----

var rtStrings = []string{"", "a", "b", "abc", "hello world", "héllo", "日本語", "with \"quotes\"", "back\\slash", "line\nbreak", "tab\there", "\u0001ctl", "<>&", "123", "1e5", "null", "true", "nil", "%d %s", "[x]", "{}", " lead", "trail ", "ünï", strings.Repeat("x", 200), "a.b/c-d_e", "nginx.ingress.kubernetes.io/canary-weight", "\U0001F600"}
var rtKeys = []string{"a", "b", "c", "spec", "1", "2", "10", "", "key with space", "ü", "a.b", "__index", "nil", "n", "metadata", "annotations", "weight", "matches", "x-y", "0", "-1", "1.5", "true"}

type valStats struct {
	depth, nodes, containers, nonEmpty, nulls, ints, floats, strs, bools int
}

func genNumber(t *rapid.T, st *valStats) interface{} {
	switch uniform(t, "num-kind", 10) {
	case 0, 1, 2, 3:
		st.ints++
		return float64(rapid.IntRange(-5, 120).Draw(t, "small-int"))
	case 4:
		st.ints++
		return float64(rapid.SampledFrom([]int64{0, 1, -1, 255, 256, 65535, 1 << 31, -(1 << 31), 1<<31 - 1, 1 << 32, 1<<53 - 1, -(1<<53 - 1), 1e15, 1234567890123}).Draw(t, "edge-int"))
	case 5:
		st.ints++
		return float64(rapid.Int64Range(-(1<<53-1), 1<<53-1).Draw(t, "int53"))
	case 6, 7:
		st.floats++
		return rapid.SampledFrom([]float64{0.5, -0.5, 1.25, 3.141592653589793, 1e-7, 1e21, -1e21, 1.7976931348623157e308, 5e-324, 0.1, 2.5e10, 99.99}).Draw(t, "edge-float")
	default:
		st.floats++
		return float64(rapid.IntRange(-100000, 100000).Draw(t, "milli")) / 1000
	}
}

// genValue draws a JSON-like tree. Null is drawn only as a map value (null list elements are
// outside the quantifier of the property: a Lua sequence cannot hold nil).
func genValue(t *rapid.T, depth, maxDepth int, inMap bool, st *valStats) interface{} {
	st.nodes++
	if depth > st.depth {
		st.depth = depth
	}
	k := uniform(t, "kind", 12)
	if depth >= maxDepth && k >= 8 {
		k = k % 8
	}
	switch k {
	case 0:
		if inMap {
			st.nulls++
			return nil
		}
		st.bools++
		return true
	case 1:
		st.bools++
		return rapid.Bool().Draw(t, "bool")
	case 2, 3, 4:
		return genNumber(t, st)
	case 5, 6, 7:
		st.strs++
		return rapid.SampledFrom(rtStrings).Draw(t, "str")
	case 8, 9:
		st.containers++
		n := uniform(t, "list-len", 5)
		out := make([]interface{}, 0, n)
		for i := 0; i < n; i++ {
			out = append(out, genValue(t, depth+1, maxDepth, false, st))
		}
		if n > 0 {
			st.nonEmpty++
		}
		return out
	default:
		return genMap(t, depth, maxDepth, st)
	}
}

func genMap(t *rapid.T, depth, maxDepth int, st *valStats) map[string]interface{} {
	st.containers++
	n := uniform(t, "map-len", 5)
	out := map[string]interface{}{}
	for i := 0; i < n; i++ {
		k := rapid.SampledFrom(rtKeys).Draw(t, "key")
		out[k] = genValue(t, depth+1, maxDepth, true, st)
	}
	if len(out) > 0 {
		st.nonEmpty++
	}
	return out
}

func TestC16RoundTrip(t *testing.T) {
	var rc Case
	if ok, _ := vlib.LoadReplay(chkRoundTrip, &rc); ok {
		check(t, chkRoundTrip, &rc)
		return
	}
	rapid.Check(t, func(t *rapid.T) {
		st := &valStats{}
		v := genMap(t, 0, 5, st)
		id := rapid.SampledFrom(identityScripts).Draw(t, "script")
		nk := rapid.SampledFrom([]string{"int64", "int64", "float64", "int", "int32"}).Draw(t, "num-kind")
		if id.name == "lua-json-roundtrip" && nullishListElem(v) {
			// json.encode writes an empty container inside a list as null and json.decode cannot
			// put nil into a Lua sequence: [[]] comes back as []. This is the documented
			// "empty container == null" rule meeting Lua's nil-free sequences inside the script's
			// own json calls, not the Go<->Lua conversion the property speaks about.
			id = identityScripts[0]
		}
		in, err := json.Marshal(v)
		if err != nil {
			t.Fatalf("marshal: %v", err)
		}
		c := &Case{Name: id.name, Mode: modeRaw, Script: id.script, Input: string(in), NumKind: nk, RoundTrip: id.kind, Want: string(in)}
		cls := []string{"script:" + id.name, "numkind:" + nk, fmt.Sprintf("depth=%d", st.depth)}
		if normalise(v) == nil {
			cls = append(cls, "normalises-to-null")
		}
		if st.nulls > 0 {
			cls = append(cls, "has-null-entry")
		}
		if st.containers > st.nonEmpty {
			cls = append(cls, "has-empty-container")
		}
		if st.floats > 0 {
			cls = append(cls, "has-float")
		}
		if st.ints > 0 {
			cls = append(cls, "has-int")
		}
		nt := st.depth >= 2 && st.nonEmpty >= 2
		vlib.Record(chkRoundTrip, id.name+nk+string(in), nt, cls, func() any { return c })
		check(t, chkRoundTrip, c)
	})
}
