package p16

// c16-generated-programs: grammar-based generator of Lua programs (<= ~60 AST nodes) over the
// language the sandbox opens (base, math, table, string, json) plus escape attempts; every
// random choice is a rapid draw, so failing programs shrink.
//
// By construction the generator keeps out what is outside the property: memory bombs (every
// string value is kept <= 4096 bytes by truncation with string.sub, repetition counts are
// literals <= 20, loop bounds are literals) and nesting bombs (expression depth <= 4). Loops
// are bounded by dedicated counters unless the program is drawn as "non-terminating", in which
// case exactly one unbounded construct is planted (each of those costs the full 1 s deadline).

import (
	"encoding/json"
	"fmt"
	"math"
	"strings"
	"testing"

	"pgregory.net/rapid"

	"verifharness/vlib"
)

const chkGen = "c16-generated-programs"

const (
	patternPathBudget = 2e6  // in-scope pattern calls: worst-case backtracking paths <= this
	maxStrLen         = 4096 // static bound of every generated string value
)

type kind int

const (
	kNum kind = iota
	kStr
	kBool
	kTbl
	kFn
	kAny
)

type gvar struct {
	name     string
	k        kind
	readonly bool
	bound    int // static length bound of string variables
}

type gfn struct {
	name    string
	nparams int
	ret     kind
	pk      []kind
}

type pgen struct {
	t        *rapid.T
	budget   int
	vars     []gvar
	fns      []gfn
	nid      int
	shape    strings.Builder
	cls      map[string]bool
	loops    int // loops / calls in code that is reachable from the main chunk
	calls    int
	inLoop   int
	inFunc   int
	wantInf  bool
	infKind  string
	paths    map[kind][]string // expressions reading obj, by kind of the value found there
	pathLen  map[string]int
	excluded map[string]int
	// call-stack overflow somewhere in the program / xpcall somewhere in the program: kept
	// apart while the listed finding panic-nil-return-value is open
	overflowRisk bool
	usesXpcall   bool
}

// overflow announces a construct that can overflow the Lua call stack; false = not allowed here.
func (g *pgen) overflow() bool {
	if g.usesXpcall && isOpen(sigNilReturn) {
		g.exclude(sigNilReturn)
		return false
	}
	g.overflowRisk = true
	return true
}

// uniform draws 0..n-1 with (nearly) equal probabilities: rapid's integer generators are
// strongly biased towards small values, which would make "3 %" events happen 30 % of the time.
// The raw draw is passed through a bit mixer; the raw value 0 (what rapid shrinks towards)
// stays 0.
func uniform(t *rapid.T, label string, n int) int {
	x := rapid.Uint64().Draw(t, label)
	if x == 0 || n <= 1 {
		return 0
	}
	x += 0x9e3779b97f4a7c15
	x = (x ^ (x >> 30)) * 0xbf58476d1ce4e5b9
	x = (x ^ (x >> 27)) * 0x94d049bb133111eb
	x ^= x >> 31
	return int(x % uint64(n))
}

func (g *pgen) draw(label string, n int) int { return uniform(g.t, label, n) }

// chance is true with probability pct/100 and false for the raw draw 0 (shrinking removes
// optional features).
func (g *pgen) chance(label string, pct int) bool {
	return uniform(g.t, label, 100) >= 100-pct
}
func (g *pgen) node(tok string) { g.budget--; g.shape.WriteString(tok) }
func (g *pgen) id(prefix string) string {
	g.nid++
	return fmt.Sprintf("%s%d", prefix, g.nid)
}
func (g *pgen) class(c string) { g.cls[c] = true }
func (g *pgen) reach() bool    { return g.inFunc == 0 }
func (g *pgen) exclude(sig string) {
	g.excluded[sig]++
}

func (g *pgen) varsOf(k kind, writable bool) []gvar {
	var out []gvar
	for _, v := range g.vars {
		if v.k == k && (!writable || !v.readonly) {
			out = append(out, v)
		}
	}
	return out
}

func pickStr(g *pgen, label string, xs []string) string {
	return xs[g.draw(label, len(xs))]
}

// ---------------------------------------------------------------- expressions

var numLits = []string{"0", "1", "2", "3", "5", "7", "10", "16", "100", "255", "-1", "-7", "0.5", "1.5", "1e3", "2^31", "2^53", "1e308", "-0", "3.14159", "1e-9"}
var strLits = []string{`""`, `"a"`, `"b"`, `"abc"`, `"hello world"`, `"x,y,,z"`, `"  pad  "`, `"key=value"`, `"123"`, `"1e2"`, `"0x10"`, `"%d items"`, `"a\nb"`, `"q\"uote"`, `"\0nul"`, `"\255\254"`, `"héllo"`, `"aaaaaaaaaaaaaaaaaaaa"`, `"nginx.ingress.kubernetes.io/canary-weight"`, `"true"`, `"nil"`, `"[1,2,{\"a\":null}]"`, `"{\"k\":[1,2,3],\"s\":\"v\"}"`}
var strLitLen = 48

func (g *pgen) num(d int) string {
	if d >= 4 || g.budget <= 0 {
		return g.numLeaf()
	}
	switch g.draw("num", 16) {
	case 0, 1, 2, 3:
		return g.numLeaf()
	case 4, 5:
		g.node("b")
		op := pickStr(g, "arith", []string{"+", "-", "*", "/", "%", "+", "-", "*"})
		return "(" + g.num(d+1) + " " + op + " " + g.num(d+1) + ")"
	case 6:
		g.node("^")
		return "(" + g.num(d+1) + " ^ " + pickStr(g, "exp", []string{"2", "0.5", "-1", "3", "0"}) + ")"
	case 7:
		g.node("u")
		return "(- " + g.num(d+1) + ")"
	case 8:
		g.node("m1")
		return pickStr(g, "math1", []string{"math.floor", "math.abs", "math.ceil", "math.sqrt", "math.exp", "math.log", "math.sin", "math.deg"}) + "(" + g.num(d+1) + ")"
	case 9:
		g.node("m2")
		return pickStr(g, "math2", []string{"math.max", "math.min", "math.fmod", "math.pow", "math.atan2"}) + "(" + g.num(d+1) + ", " + g.num(d+1) + ")"
	case 10:
		g.node("tn")
		s, _ := g.str(d + 1)
		return "(tonumber(" + s + ") or " + g.numLeaf() + ")"
	case 11:
		g.node("#")
		s, _ := g.str(d + 1)
		return "#" + "(" + s + ")"
	case 12:
		g.node("#t")
		return "#" + g.tbl(d+1)
	case 13:
		g.node("sb")
		s, _ := g.str(d + 1)
		return "(string.byte(" + s + ", " + pickStr(g, "byte-i", []string{"1", "2", "-1", "100"}) + ") or 0)"
	case 14:
		if c := g.callExpr(kNum, d); c != "" {
			return c
		}
		return g.numLeaf()
	default:
		g.node("sel")
		return "select(\"#\", " + g.num(d+1) + ", " + g.anyExpr(d+1) + ")"
	}
}

func (g *pgen) numLeaf() string {
	g.node("n")
	vs := g.varsOf(kNum, false)
	ps := g.paths[kNum]
	switch c := g.draw("numleaf", 10); {
	case c < 4 && len(vs) > 0:
		return vs[g.draw("numvar", len(vs))].name
	case c == 4 && len(ps) > 0:
		g.class("reads-obj")
		return "(" + ps[g.draw("numpath", len(ps))] + " or 0)"
	case c == 5:
		return pickStr(g, "mathconst", []string{"math.pi", "math.huge", "-math.huge", "(0/0)"})
	}
	return pickStr(g, "numlit", numLits)
}

// wrapStr keeps the static length bound of every string value <= maxStrLen.
func wrapStr(code string, bound int) (string, int) {
	if bound > maxStrLen {
		return "string.sub(" + code + ", 1, " + fmt.Sprint(maxStrLen) + ")", maxStrLen
	}
	return code, bound
}

func (g *pgen) str(d int) (string, int) {
	if d >= 4 || g.budget <= 0 {
		return g.strLeaf()
	}
	switch g.draw("str", 18) {
	case 0, 1, 2, 3:
		return g.strLeaf()
	case 4, 5:
		g.node("..")
		a, na := g.str(d + 1)
		var b string
		var nb int
		if g.chance("concat-num", 30) {
			b, nb = g.num(d+1), 32
		} else {
			b, nb = g.str(d + 1)
		}
		return wrapStr("("+a+" .. "+b+")", na+nb)
	case 6:
		g.node("rep")
		a, na := g.str(d + 1)
		n := []int{0, 1, 2, 3, 8, 20, -1}[g.draw("rep-n", 7)]
		m := n
		if m < 0 {
			m = 0
		}
		return wrapStr(fmt.Sprintf("string.rep(%s, %d)", a, n), na*m)
	case 7:
		g.node("sub")
		a, na := g.str(d + 1)
		return fmt.Sprintf("string.sub(%s, %s, %s)", a, pickStr(g, "sub-i", []string{"1", "2", "-3", "0", "100"}), pickStr(g, "sub-j", []string{"-1", "3", "1", "0", "1e9"})), na
	case 8:
		g.node("s1")
		a, na := g.str(d + 1)
		if g.chance("method", 50) {
			return "(" + a + "):" + pickStr(g, "str1m", []string{"upper", "lower", "reverse"}) + "()", na
		}
		return pickStr(g, "str1", []string{"string.upper", "string.lower", "string.reverse"}) + "(" + a + ")", na
	case 9:
		g.node("fmt")
		f := pickStr(g, "fmt", []string{"%d", "%5.2f", "%s|%s", "%q", "%x", "%5s", "%-8d|", "%g", "%c", "%i %%", "%y", "%s"})
		args := []string{}
		n := 0
		for i := 0; i < strings.Count(strings.ReplaceAll(f, "%%", ""), "%"); i++ {
			if g.chance("fmt-arg-str", 40) {
				a, na := g.str(d + 1)
				args, n = append(args, a), n+na
			} else {
				args, n = append(args, g.num(d+1)), n+340
			}
		}
		return wrapStr("string.format(\""+f+"\", "+strings.Join(args, ", ")+")", n+16)
	case 10:
		g.node("ts")
		return "tostring(" + g.anyExpr(d+1) + ")", maxStrLen
	case 11:
		g.node("tc")
		n := 1 + g.draw("tc-n", 4)
		parts := []string{}
		tot := 0
		for i := 0; i < n; i++ {
			if g.chance("tc-num", 30) {
				parts, tot = append(parts, g.numLeaf()), tot+32
			} else {
				a, na := g.strLeaf()
				parts, tot = append(parts, a), tot+na
			}
		}
		return wrapStr("table.concat({"+strings.Join(parts, ", ")+"}, "+pickStr(g, "tc-sep", []string{`","`, `""`, `" - "`})+")", tot+3*n)
	case 12:
		g.node("je")
		g.class("json")
		return wrapStr("(json.encode("+g.tbl(d+1)+") or \"\")", 1<<20)
	case 13:
		g.node("gs")
		return g.patternCall("gsub", d)
	case 14:
		g.node("ma")
		return g.patternCall("match", d)
	case 15:
		g.node("ty")
		return "type(" + g.anyExpr(d+1) + ")", 8
	case 16:
		g.node("ch")
		return "string.char(" + pickStr(g, "char", []string{"65", "97, 98", "0", "255", "10, 13"}) + ")", 2
	default:
		if c := g.callExpr(kStr, d); c != "" {
			return wrapStr("tostring("+c+")", 1<<20)
		}
		return g.strLeaf()
	}
}

func (g *pgen) strLeaf() (string, int) {
	g.node("s")
	vs := g.varsOf(kStr, false)
	ps := g.paths[kStr]
	switch c := g.draw("strleaf", 10); {
	case c < 4 && len(vs) > 0:
		v := vs[g.draw("strvar", len(vs))]
		return v.name, v.bound
	case c == 4 && len(ps) > 0:
		g.class("reads-obj")
		p := ps[g.draw("strpath", len(ps))]
		return "tostring(" + p + ")", g.pathLen[p] + 8
	}
	return pickStr(g, "strlit", strLits), strLitLen
}

func (g *pgen) boolean(d int) string {
	if d >= 4 || g.budget <= 0 {
		g.node("t")
		return pickStr(g, "boollit", []string{"true", "false"})
	}
	switch g.draw("bool", 10) {
	case 0:
		g.node("t")
		vs := g.varsOf(kBool, false)
		if len(vs) > 0 {
			return vs[g.draw("boolvar", len(vs))].name
		}
		return pickStr(g, "boollit", []string{"true", "false"})
	case 1, 2, 3:
		g.node("<")
		return "(" + g.num(d+1) + " " + pickStr(g, "cmp", []string{"<", "<=", ">", ">=", "==", "~="}) + " " + g.num(d+1) + ")"
	case 4:
		g.node("=")
		return "(" + g.anyExpr(d+1) + " " + pickStr(g, "eq", []string{"==", "~="}) + " " + g.anyExpr(d+1) + ")"
	case 5:
		g.node("!")
		return "(not " + g.boolean(d+1) + ")"
	case 6:
		g.node("&")
		return "(" + g.boolean(d+1) + " " + pickStr(g, "logic", []string{"and", "or"}) + " " + g.boolean(d+1) + ")"
	case 7:
		g.node("s<")
		a, _ := g.str(d + 1)
		b, _ := g.str(d + 1)
		return "(" + a + " < " + b + ")"
	case 8:
		g.node("ty=")
		return "(type(" + g.anyExpr(d+1) + ") == " + pickStr(g, "tyname", []string{`"table"`, `"string"`, `"number"`, `"nil"`, `"function"`}) + ")"
	default:
		g.node("nx")
		return "(next(" + g.tbl(d+1) + ") == nil)"
	}
}

func (g *pgen) tbl(d int) string {
	if d >= 4 || g.budget <= 0 {
		return g.tblLeaf()
	}
	switch g.draw("tbl", 16) {
	case 0, 1, 2:
		return g.tblLeaf()
	case 3, 4:
		g.node("{a")
		n := g.draw("arr-n", 5)
		parts := []string{}
		for i := 0; i < n; i++ {
			parts = append(parts, g.anyScalar(d+1))
		}
		return "{" + strings.Join(parts, ", ") + "}"
	case 5, 6:
		g.node("{r")
		n := g.draw("rec-n", 4)
		parts := []string{}
		for i := 0; i < n; i++ {
			k := pickStr(g, "rec-key", []string{"a", "b", "c", "name", "weight", "n", `["nginx.ingress.kubernetes.io/canary"]`, `["key with space"]`, `["1"]`})
			parts = append(parts, k+" = "+g.anyExpr(d+1))
		}
		return "{" + strings.Join(parts, ", ") + "}"
	case 7:
		g.node("{n")
		return "{" + g.tbl(d+1) + ", " + g.tbl(d+1) + "}"
	case 8:
		g.node("{x")
		g.class("odd-table")
		return pickStr(g, "oddtbl", []string{`{[1] = 1, [3] = 3}`, `{1, 2, a = 1}`, `{[true] = 1}`, `{[1.5] = "x"}`, `{f = print}`, `{[0] = 0}`, `{0/0}`, `{1/0}`, `{[{}] = 1}`, `{u = newproxy()}`, `{nil, 2}`, `{1, nil}`, `{n = nil}`})
	case 9:
		g.node("jd")
		g.class("json")
		s, _ := g.str(d + 1)
		return "(json.decode(" + s + ") or {})"
	case 10:
		g.node("{f")
		s, _ := g.patternCall("find", d)
		return "{" + s + "}"
	case 11:
		g.node("{p")
		g.class("pcall")
		if c := g.callExpr(kAny, d); c != "" {
			return "{pcall(function() return " + c + " end)}"
		}
		return "{pcall(error, " + g.anyExpr(d+1) + ")}"
	case 12:
		g.node("mt")
		g.class("metatable")
		return "setmetatable(" + g.tbl(d+1) + ", {" + g.metaFields(d+1) + "})"
	case 13:
		if c := g.callExpr(kTbl, d); c != "" {
			return "(" + c + " or {})"
		}
		return g.tblLeaf()
	case 14:
		g.node("up")
		return "{unpack(" + g.tbl(d+1) + ")}"
	default:
		g.node("gm")
		return "{getmetatable(" + g.anyExpr(d+1) + ")}"
	}
}

func (g *pgen) metaFields(d int) string {
	n := 1 + g.draw("mt-n", 2)
	parts := []string{}
	for i := 0; i < n; i++ {
		switch g.draw("mt-field", 9) {
		case 0:
			parts = append(parts, "__index = "+g.tbl(d+1))
		case 1:
			parts = append(parts, "__index = function(t, k) return "+g.anyScalar(d+1)+" end")
		case 2:
			if g.overflow() {
				parts = append(parts, "__index = function(t, k) return t[k] end") // recursion -> stack overflow error
			} else {
				parts = append(parts, "__index = function(t, k) return rawget(t, k) end")
			}
		case 3:
			parts = append(parts, "__newindex = function(t, k, v) rawset(t, k, v) end")
		case 4:
			parts = append(parts, "__call = function(self, a) return a end")
		case 5:
			parts = append(parts, "__tostring = function() return "+pickStr(g, "mt-ts", []string{`"obj"`, `1`, `nil`, `{}`})+" end")
		case 6:
			parts = append(parts, "__eq = function() return true end, __lt = function() return false end, __le = function() return true end")
		case 7:
			parts = append(parts, "__concat = function(a, b) return \"cat\" end, __add = function(a, b) return 1 end, __unm = function() return 0 end")
		default:
			parts = append(parts, "__metatable = \"locked\"")
		}
	}
	return strings.Join(parts, ", ")
}

func (g *pgen) tblLeaf() string {
	g.node("T")
	vs := g.varsOf(kTbl, false)
	ps := g.paths[kTbl]
	switch c := g.draw("tblleaf", 10); {
	case c < 4 && len(vs) > 0:
		return vs[g.draw("tblvar", len(vs))].name
	case c == 4:
		g.class("reads-obj")
		return "obj"
	case c == 5 && len(ps) > 0:
		g.class("reads-obj")
		return "(" + ps[g.draw("tblpath", len(ps))] + " or {})"
	case c == 6:
		return pickStr(g, "libtbl", []string{"string", "math", "table", "json", "_G", `getmetatable("")`})
	}
	return pickStr(g, "tbllit", []string{"{}", "{1, 2, 3}", `{"a", "b"}`, `{a = 1}`, `{x = {y = {z = 1}}}`, `{3, 1, 2, 5, 4}`})
}

func (g *pgen) fn(d int) string {
	vs := g.varsOf(kFn, false)
	if len(vs) > 0 && g.chance("fn-var", 30) {
		g.node("F")
		return vs[g.draw("fnvar", len(vs))].name
	}
	if len(g.fns) > 0 && g.chance("fn-named", 30) {
		g.node("F")
		return g.fns[g.draw("fn-named-i", len(g.fns))].name
	}
	if g.chance("fn-lib", 25) {
		g.node("FL")
		return pickStr(g, "libfn", []string{"print", "tostring", "type", "string.upper", "math.floor", "error", "pcall", "next", "rawget", "json.encode", "string.len", "tonumber", "unpack", "select", "setmetatable", "getfenv", "loadstring", "assert", "collectgarbage", "newproxy"})
	}
	g.node("fl")
	a, b := g.id("p"), g.id("p")
	mark := len(g.vars)
	g.vars = append(g.vars, gvar{a, kAny, true, maxStrLen}, gvar{b, kAny, true, maxStrLen})
	g.inFunc++
	body := g.anyExpr(d + 1)
	g.inFunc--
	g.vars = g.vars[:mark]
	return "function(" + a + ", " + b + ") return " + body + " end"
}

func (g *pgen) anyScalar(d int) string {
	switch g.draw("scalar", 4) {
	case 0:
		return g.num(d)
	case 1:
		s, _ := g.str(d)
		return s
	case 2:
		return g.boolean(d)
	}
	g.node("n")
	return pickStr(g, "scalarlit", []string{"1", "2", `"a"`, `"b"`, "true", "nil"})
}

func (g *pgen) anyExpr(d int) string {
	switch g.draw("any", 12) {
	case 0, 1, 2:
		return g.num(d)
	case 3, 4, 5:
		s, _ := g.str(d)
		return s
	case 6:
		return g.boolean(d)
	case 7, 8:
		return g.tbl(d)
	case 9:
		return g.fn(d)
	case 10:
		vs := g.varsOf(kAny, false)
		if len(vs) > 0 {
			g.node("v")
			return vs[g.draw("anyvar", len(vs))].name
		}
		g.node("nil")
		return "nil"
	default:
		g.node("G")
		return pickStr(g, "global", []string{"G1", "G2", "G3", "undefined_global", "nil"})
	}
}

func (g *pgen) exprOf(k kind, d int) string {
	switch k {
	case kNum:
		return g.num(d)
	case kStr:
		s, _ := g.str(d)
		return s
	case kBool:
		return g.boolean(d)
	case kTbl:
		return g.tbl(d)
	case kFn:
		return g.fn(d)
	}
	return g.anyExpr(d)
}

// callExpr is a call of a previously defined function whose return kind matches.
func (g *pgen) callExpr(k kind, d int) string {
	var cand []gfn
	for _, f := range g.fns {
		if k == kAny || f.ret == k {
			cand = append(cand, f)
		}
	}
	if len(cand) == 0 {
		return ""
	}
	f := cand[g.draw("call-fn", len(cand))]
	g.node("c")
	if g.reach() {
		g.calls++
	}
	args := []string{}
	for i := 0; i < f.nparams; i++ {
		if i < len(f.pk) && !g.chance("arg-any", 12) {
			args = append(args, g.exprOf(f.pk[i], d+1))
		} else {
			args = append(args, g.anyExpr(d+1))
		}
	}
	return f.name + "(" + strings.Join(args, ", ") + ")"
}

// ---------------------------------------------------------------- patterns

type patItem struct {
	class string
	quant string
}

var patClasses = []string{"a", "a", "b", "x", ".", ".", "%a", "%d", "%s", "%w", "%l", "%p", "%S", "[ab]", "[^b]", "[a-c]", "[%w_]", "%.", "%%", "="}
var badPatterns = []string{"[", "[a", "%", "(", ")", "(()", "%b", "%f", "[%", "%1", "(a", "a)", "[a-", "%bx", "^*", "(a)(b)%3"}

func binomAtLeast(n, k int, limit float64) float64 {
	// C(n+k+1, k+1), saturating
	r := 1.0
	top := n + k + 1
	for i := 1; i <= k+1; i++ {
		r = r * float64(top-(k+1)+i) / float64(i)
		if r > limit*1e6 {
			return r
		}
	}
	return r
}

// subject is a string expression with a static length bound.
func (g *pgen) subject(d int) (string, int) {
	switch g.draw("subj", 8) {
	case 0, 1:
		lits := []struct {
			s string
			n int
		}{{`"aaaaaaaaaaaaaaaaaaaa"`, 20}, {`"abcabcabc"`, 9}, {`"hello world 123"`, 15}, {`"a,b,,c"`, 6}, {`"  trim  "`, 8}, {`""`, 0}, {`"key = value"`, 11}, {`"((a)(b))"`, 8}, {`"aaaaaaaaab"`, 10}, {`"THE (quick) fox"`, 15}}
		l := lits[g.draw("subj-lit", len(lits))]
		return l.s, l.n
	case 2, 3:
		m := []int{5, 16, 30, 64, 200, 1000}[g.draw("subj-rep", 6)]
		c := pickStr(g, "subj-rep-s", []string{"a", "ab", "a "})
		return fmt.Sprintf("string.rep(\"%s\", %d)", c, m), m * len(c)
	case 4:
		c := []int{8, 32, 64}[g.draw("subj-sub", 3)]
		s, n := g.str(d + 1)
		if n < c {
			return s, n
		}
		return fmt.Sprintf("string.sub(%s, 1, %d)", s, c), c
	default:
		return g.str(d + 1)
	}
}

func (g *pgen) pattern() (string, int) {
	if g.chance("pat-bad", 6) {
		g.class("pattern-malformed")
		return pickStr(g, "pat-badlit", badPatterns), 0
	}
	n := 1 + g.draw("pat-n", 6)
	items := make([]patItem, n)
	for i := range items {
		items[i].class = pickStr(g, "pat-class", patClasses)
		if g.chance("pat-quant", 45) {
			items[i].quant = pickStr(g, "pat-q", []string{"*", "+", "-", "?"})
		}
	}
	var sb strings.Builder
	k := 0
	if g.chance("pat-anchor", 15) {
		sb.WriteString("^")
	}
	capOpen := -1
	if n >= 2 && g.chance("pat-cap", 30) {
		capOpen = g.draw("pat-cap-at", n-1)
	}
	for i, it := range items {
		if i == capOpen {
			sb.WriteString("(")
		}
		sb.WriteString(it.class + it.quant)
		if it.quant != "" {
			k++
		}
		if i == capOpen+1 && capOpen >= 0 {
			sb.WriteString(")")
			if g.chance("pat-backref", 25) {
				sb.WriteString("%1")
			}
		}
	}
	if g.chance("pat-extra", 12) {
		sb.WriteString(pickStr(g, "pat-extra-s", []string{"%b()", "%f[%w]", "()", "$", "%f[%a]%a+"}))
	} else if g.chance("pat-tail", 15) {
		sb.WriteString("$")
	}
	return sb.String(), k
}

// stripQuantifiers removes quantifiers from the end of the pattern until at most k remain.
func stripQuantifiers(p string, keep int) string {
	out := []byte(p)
	cnt := 0
	for i := 0; i < len(out); i++ {
		c := out[i]
		if c == '%' && i+1 < len(out) {
			i++
			continue
		}
		if c == '[' {
			for i < len(out) && out[i] != ']' {
				i++
			}
			continue
		}
		if (c == '*' || c == '+' || c == '-' || c == '?') && i > 0 {
			cnt++
			if cnt > keep {
				out = append(out[:i], out[i+1:]...)
				i--
			}
		}
	}
	return string(out)
}

// patternCall generates string.find/match/gmatch/gsub on a bounded subject. While the listed
// finding hang-pattern-match is open, calls whose worst-case number of backtracking paths
// C(n+k+1, k+1) exceeds patternPathBudget are steered away from (quantifiers are dropped).
func (g *pgen) patternCall(fn string, d int) (string, int) {
	g.class("pattern")
	subj, n := g.subject(d)
	pat, k := g.pattern()
	if binomAtLeast(n, k, patternPathBudget) > patternPathBudget {
		if isOpen(sigPatternHang) {
			g.exclude(sigPatternHang)
			for k > 0 && binomAtLeast(n, k, patternPathBudget) > patternPathBudget {
				k--
			}
			pat = stripQuantifiers(pat, k)
		} else {
			g.class("pattern-heavy")
		}
	}
	q := "\"" + pat + "\""
	switch fn {
	case "find":
		extra := pickStr(g, "find-extra", []string{"", "", ", 1", ", 3", ", -2", ", 1, true"})
		return "string.find(" + subj + ", " + q + extra + ")", 32
	case "match":
		return "(string.match(" + subj + ", " + q + ") or \"\")", n
	case "gmatch":
		return "string.gmatch(" + subj + ", " + q + ")", n
	default: // gsub
		repl := pickStr(g, "gsub-repl", []string{`""`, `"x"`, `"%0%0"`, `"%1"`, `"<%0>"`, `string.upper`, `function(c) return nil end`, `{a = "A", b = 1}`, `"%"`, `function(c) return c .. c end`})
		lim := pickStr(g, "gsub-n", []string{"", "", ", 1", ", 0"})
		return wrapStr("(string.gsub("+subj+", "+q+", "+repl+lim+"))", 3*n+8)
	}
}

// ---------------------------------------------------------------- statements

func (g *pgen) block(d int, n int) string {
	mark, fmark := len(g.vars), len(g.fns)
	var sb strings.Builder
	for i := 0; i < n && g.budget > 0; i++ {
		sb.WriteString(g.stmt(d))
		sb.WriteString("\n")
	}
	g.vars, g.fns = g.vars[:mark], g.fns[:fmark]
	return sb.String()
}

func (g *pgen) loopBound() int {
	if g.inFunc > 0 {
		return []int{0, 1, 3, 6}[g.draw("loop-n-fn", 4)]
	}
	if g.inLoop > 0 {
		return []int{0, 1, 2, 5, 12}[g.draw("loop-n-in", 5)]
	}
	return []int{0, 1, 2, 3, 10, 50}[g.draw("loop-n", 6)]
}

func (g *pgen) countLoop() {
	g.class("loop")
	if g.reach() {
		g.loops++
	}
}

func (g *pgen) stmt(d int) string {
	if g.wantInf && g.infKind == "" && g.reach() && g.inLoop == 0 && g.chance("plant-inf", 35) {
		return g.infinite(d)
	}
	c := g.draw("stmt", 30)
	if d >= 3 && c >= 10 && c <= 19 {
		c = c % 10
	}
	switch c {
	case 0, 1, 2, 3:
		return g.localDecl(d)
	case 4, 5:
		return g.assign(d)
	case 6, 7:
		return g.tableWrite(d)
	case 8:
		return g.callStmt(d)
	case 9:
		return g.libStmt(d)
	case 10, 11:
		g.node("if")
		s := "if " + g.boolean(1) + " then\n" + g.block(d+1, 1+g.draw("if-n", 2))
		if g.chance("elseif", 20) {
			s += "elseif " + g.boolean(1) + " then\n" + g.block(d+1, 1)
		}
		if g.chance("else", 40) {
			s += "else\n" + g.block(d+1, 1+g.draw("else-n", 2))
		}
		return s + "end"
	case 12:
		g.node("wh")
		g.countLoop()
		if g.inLoop >= 2 {
			return g.localDecl(d)
		}
		ci := g.id("i")
		n := g.loopBound()
		g.inLoop++
		mark := len(g.vars)
		g.vars = append(g.vars, gvar{ci, kNum, true, 0})
		body := g.block(d+1, 1+g.draw("wh-n", 3))
		g.vars = g.vars[:mark]
		g.inLoop--
		cond := ""
		if g.chance("wh-cond", 30) {
			cond = " and " + g.boolean(2)
		}
		brk := ""
		if g.chance("wh-break", 20) {
			brk = "if " + g.boolean(2) + " then break end\n"
		}
		return fmt.Sprintf("local %s = 0\nwhile %s < %d%s do\n%s = %s + 1\n%s%send", ci, ci, n, cond, ci, ci, body, brk)
	case 13:
		g.node("rp")
		g.countLoop()
		if g.inLoop >= 2 {
			return g.assign(d)
		}
		ci := g.id("i")
		n := g.loopBound()
		g.inLoop++
		mark := len(g.vars)
		g.vars = append(g.vars, gvar{ci, kNum, true, 0})
		body := g.block(d+1, 1+g.draw("rp-n", 2))
		g.vars = g.vars[:mark]
		g.inLoop--
		return fmt.Sprintf("local %s = 0\nrepeat\n%s = %s + 1\n%suntil %s >= %d or %s", ci, ci, ci, body, ci, n, g.boolean(2))
	case 14, 15:
		g.node("for")
		g.countLoop()
		if g.inLoop >= 2 {
			return g.tableWrite(d)
		}
		ci := g.id("i")
		n := g.loopBound()
		hdr := fmt.Sprintf("%s = 1, %d", ci, n)
		switch g.draw("for-form", 6) {
		case 0:
			hdr = fmt.Sprintf("%s = %d, 1, -1", ci, n)
		case 1:
			hdr = fmt.Sprintf("%s = 0, %d, %s", ci, n, pickStr(g, "for-step", []string{"2", "0.5", "3", "-1", "1e-1"}))
		case 2:
			hdr = fmt.Sprintf("%s = 1, #%s", ci, g.tblLeaf())
		case 3:
			hdr = fmt.Sprintf("%s = 1, math.min(%s, %d)", ci, g.num(2), n)
		}
		g.inLoop++
		mark := len(g.vars)
		g.vars = append(g.vars, gvar{ci, kNum, true, 0})
		body := g.block(d+1, 1+g.draw("for-n", 3))
		g.vars = g.vars[:mark]
		g.inLoop--
		return "for " + hdr + " do\n" + body + "end"
	case 16, 17:
		g.node("fin")
		g.countLoop()
		if g.inLoop >= 2 {
			return g.localDecl(d)
		}
		kv, vv, cn := g.id("k"), g.id("v"), g.id("i")
		var iter string
		vk := kAny
		switch g.draw("forin", 5) {
		case 0:
			iter = "pairs(" + g.tbl(1) + ")"
		case 1:
			iter = "ipairs(" + g.tbl(1) + ")"
		case 2:
			iter = "next, " + g.tbl(1)
		case 3:
			s, _ := g.patternCall("gmatch", 1)
			iter = s
			g.class("gmatch")
			vk = kAny
		default:
			iter = "pairs(obj)"
			g.class("reads-obj")
		}
		g.inLoop++
		mark := len(g.vars)
		g.vars = append(g.vars, gvar{kv, kAny, true, maxStrLen}, gvar{vv, vk, true, maxStrLen})
		body := g.block(d+1, 1+g.draw("fin-n", 3))
		g.vars = g.vars[:mark]
		g.inLoop--
		// the counter bounds traversals of tables the body itself keeps extending
		return fmt.Sprintf("local %s = 0\nfor %s, %s in %s do\n%s = %s + 1\nif %s > 40 then break end\n%send", cn, kv, vv, iter, cn, cn, cn, body)
	case 18:
		g.node("do")
		return "do\n" + g.block(d+1, 1+g.draw("do-n", 2)) + "end"
	case 19:
		return g.funcDef(d)
	case 20, 21:
		return g.funcDef(d)
	case 22:
		return g.recursion(d)
	case 23:
		return g.protectedStmt(d)
	case 24:
		return g.escapeAttempt(d)
	case 25:
		return g.loadStmt(d)
	case 26:
		return g.apiSweep(d)
	default:
		return g.localDecl(d)
	}
}

func (g *pgen) localDecl(d int) string {
	g.node("L")
	k := []kind{kNum, kNum, kStr, kStr, kTbl, kTbl, kBool, kFn, kAny}[g.draw("local-kind", 9)]
	name := g.id("v")
	var e string
	bound := 0
	switch k {
	case kStr:
		e, bound = g.str(1)
	default:
		e = g.exprOf(k, 1)
	}
	if k == kAny {
		bound = maxStrLen
	}
	g.vars = append(g.vars, gvar{name, k, false, bound})
	return "local " + name + " = " + e
}

func (g *pgen) assign(d int) string {
	g.node("A")
	if g.chance("assign-global", 25) {
		return pickStr(g, "gname", []string{"G1", "G2", "G3"}) + " = " + g.anyExpr(1)
	}
	var cand []int
	for i, v := range g.vars {
		if !v.readonly && v.k != kFn {
			cand = append(cand, i)
		}
	}
	if len(cand) == 0 {
		return g.localDecl(d)
	}
	i := cand[g.draw("assign-var", len(cand))]
	v := &g.vars[i]
	switch v.k {
	case kStr:
		e, b := g.str(1)
		if g.inLoop > 0 || g.inFunc > 0 {
			// repeated execution: truncate so that no string can grow geometrically
			e, b = "string.sub("+e+", 1, 512)", 512
		}
		if b > v.bound {
			v.bound = b
		}
		return v.name + " = " + e
	case kAny:
		return v.name + " = " + g.anyScalar(1)
	}
	return v.name + " = " + g.exprOf(v.k, 1)
}

func (g *pgen) tableWrite(d int) string {
	g.node("W")
	vs := g.varsOf(kTbl, false)
	target := "obj"
	if len(vs) > 0 && !g.chance("write-obj", 15) {
		target = vs[g.draw("write-var", len(vs))].name
	} else {
		g.class("writes-obj")
	}
	switch g.draw("write-form", 9) {
	case 0, 1:
		return target + "[#" + target + " + 1] = " + g.anyExpr(1)
	case 2:
		return target + "." + pickStr(g, "field", []string{"a", "b", "name", "weight", "annotations"}) + " = " + g.anyExpr(1)
	case 3:
		return target + "[" + g.indexExpr() + "] = " + g.anyExpr(1) // may raise "table index is nil/NaN"
	case 4:
		return "table.insert(" + target + ", " + g.anyExpr(1) + ")"
	case 5:
		return "table.insert(" + target + ", " + pickStr(g, "ins-pos", []string{"1", "2", "#" + target, "100", "0", "-1"}) + ", " + g.anyScalar(1) + ")"
	case 6:
		return "table.remove(" + target + pickStr(g, "rm-pos", []string{"", ", 1", ", 100", ", 0"}) + ")"
	case 7:
		return "rawset(" + target + ", " + g.indexExpr() + ", " + g.anyExpr(1) + ")"
	default:
		return target + "." + pickStr(g, "selfref", []string{"self", "loop"}) + " = " + g.tblLeaf() // may build a cycle
	}
}

// indexExpr is a table key for writes. Integer keys stay small: gopher-lua fills the array part
// with nil up to any integer key below 67108864 (t[6e7] = 1 allocates 1 GiB), a memory bomb.
func (g *pgen) indexExpr() string {
	switch g.draw("index", 8) {
	case 0, 1:
		return pickStr(g, "index-lit", []string{"1", "2", "3", "10", "100", "1000", "0", "-1", "1.5", "2^53", "1e308"})
	case 2, 3:
		s, _ := g.str(2)
		return s
	case 4, 5:
		return "(" + g.num(2) + " % 100)"
	case 6:
		return pickStr(g, "index-odd", []string{"nil", "0/0", "true", "{}", "print", "1/0"})
	}
	return g.boolean(2)
}

func (g *pgen) callStmt(d int) string {
	if c := g.callExpr(kAny, 1); c != "" {
		return c
	}
	return g.libStmt(d)
}

func (g *pgen) libStmt(d int) string {
	g.node("X")
	g.class("libcall")
	switch g.draw("lib", 12) {
	case 0:
		return "print(" + g.anyExpr(1) + ", " + g.anyExpr(1) + ")"
	case 1:
		return "assert(" + g.boolean(1) + ", " + g.anyScalar(1) + ")"
	case 2:
		g.class("sort")
		cmp := pickStr(g, "sort-cmp", []string{"", "", ", function(a, b) return a < b end", ", function(a, b) return a > b end", ", function(a, b) return true end", ", function(a, b) return tostring(a) < tostring(b) end", ", function(a, b) error(\"cmp\") end", ", 1"})
		return "pcall(table.sort, " + g.tbl(1) + cmp + ")"
	case 3:
		return "table.sort(" + g.tblLeaf() + ")"
	case 4:
		return "collectgarbage(" + pickStr(g, "gc", []string{"", `"collect"`, `"count"`, `"step"`, `"bogus"`}) + ")"
	case 5:
		g.class("metatable")
		return "setmetatable(" + g.tblLeaf() + ", {" + g.metaFields(1) + "})"
	case 6:
		g.class("string-metatable")
		return pickStr(g, "strmeta", []string{`getmetatable("").__index = function(s, k) return string[k] end`, `string.upper = string.lower`, `getmetatable("").__add = function(a, b) return 0 end`, `string.find = nil`, `getmetatable("").__index = string`})
	case 7:
		g.class("fenv")
		return pickStr(g, "fenv", []string{`setfenv(1, setmetatable({}, {__index = _G}))`, `local env_x = getfenv(1)`, `setfenv(0, _G)`, `pcall(setfenv, 2, {})`, `pcall(setfenv, print, {})`})
	case 8:
		return "local _ = select(" + pickStr(g, "sel-n", []string{"1", "2", "-1", "\"#\"", "0", "100"}) + ", " + g.anyExpr(1) + ", " + g.anyExpr(1) + ")"
	case 9:
		return "pcall(" + g.fn(1) + ", " + g.anyExpr(1) + ")"
	case 10:
		return "local _ = tostring(" + g.anyExpr(1) + ") .. tostring(rawequal(" + g.anyExpr(1) + ", " + g.anyExpr(1) + "))"
	default:
		return "local _ = {next(" + g.tbl(1) + ")}"
	}
}

func (g *pgen) funcDef(d int) string {
	g.node("fd")
	g.class("func")
	name := g.id("f")
	np := g.draw("nparams", 3)
	params := []string{}
	mark, fmark := len(g.vars), len(g.fns)
	kinds := []kind{kNum, kStr, kTbl, kAny}
	var pk []kind
	for i := 0; i < np; i++ {
		p := g.id("p")
		params = append(params, p)
		k := kinds[g.draw("param-kind", 4)]
		pk = append(pk, k)
		g.vars = append(g.vars, gvar{p, k, false, maxStrLen})
	}
	ret := []kind{kNum, kStr, kTbl, kBool, kAny}[g.draw("ret-kind", 5)]
	g.inFunc++
	body := ""
	for i, n := 0, 1+g.draw("fn-stmts", 3); i < n && g.budget > 0; i++ {
		body += g.stmt(d+1) + "\n"
	}
	retExpr := g.exprOf(ret, 1)
	if ret == kStr {
		retExpr = "string.sub(" + retExpr + ", 1, " + fmt.Sprint(maxStrLen) + ")"
	}
	g.inFunc--
	g.vars, g.fns = g.vars[:mark], g.fns[:fmark]
	g.fns = append(g.fns, gfn{name, np, ret, pk})
	hdr := "local function " + name
	if g.inFunc == 0 && g.inLoop == 0 && g.chance("global-fn", 20) {
		hdr = "function " + name
	}
	return hdr + "(" + strings.Join(params, ", ") + ")\n" + body + "return " + retExpr + "\nend"
}

// recursion plants one of the recursion templates and a call of it.
func (g *pgen) recursion(d int) string {
	g.node("rec")
	g.class("recursion")
	if g.reach() {
		g.calls++
	}
	f := g.id("f")
	r := g.id("v")
	switch g.draw("rec-kind", 7) {
	case 0, 1:
		n := []int{0, 5, 50, 150, 190}[g.draw("rec-depth", 5)]
		if n >= 150 && !g.overflow() {
			n = 50
		}
		g.vars = append(g.vars, gvar{r, kNum, false, 0})
		return fmt.Sprintf("local function %s(n)\nif n <= 0 then return 0 end\nreturn 1 + %s(n - 1)\nend\nlocal %s = %s(%d)", f, f, r, f, n)
	case 2:
		g.class("recursion-stack-overflow")
		g.vars = append(g.vars, gvar{r, kAny, false, maxStrLen})
		return fmt.Sprintf("local function %s(n)\nreturn 1 + %s(n + 1)\nend\nlocal %s = select(2, pcall(%s, 1))", f, f, r, f)
	case 3:
		g.class("recursion-stack-overflow")
		if !g.overflow() {
			return fmt.Sprintf("local function %s(n)\nif n > 20 then return n end\nlocal x = %s(n + 1)\nreturn x\nend\n%s(1)", f, f, f)
		}
		return fmt.Sprintf("local function %s(n)\nlocal x = %s(n + 1)\nreturn x\nend\n%s(1)", f, f, f) // unprotected: ends the script with "stack overflow"
	case 4:
		g.class("tailcall-bounded")
		n := []int{1, 100, 5000, 20000}[g.draw("tail-depth", 4)]
		g.vars = append(g.vars, gvar{r, kNum, false, 0})
		return fmt.Sprintf("local function %s(n, acc)\nif n <= 0 then return acc end\nreturn %s(n - 1, acc + 1)\nend\nlocal %s = %s(%d, 0)", f, f, r, f, n)
	case 5:
		h := g.id("f")
		n := []int{3, 40, 120}[g.draw("mutual-depth", 3)]
		if n >= 120 && !g.overflow() {
			n = 40
		}
		g.vars = append(g.vars, gvar{r, kBool, false, 0})
		return fmt.Sprintf("local %s, %s\nfunction %s(n) if n == 0 then return true end local x = %s(n - 1) return x end\nfunction %s(n) if n == 0 then return false end local x = %s(n - 1) return x end\nlocal %s = %s(%d)", f, h, f, h, h, f, r, f, n)
	default:
		g.vars = append(g.vars, gvar{r, kTbl, false, 0})
		n := []int{2, 20, 100}[g.draw("nest-depth", 3)]
		if n >= 100 && !g.overflow() {
			n = 20
		}
		return fmt.Sprintf("local function %s(t, n)\nif n <= 0 then return t end\nreturn {%s(t, n - 1)}\nend\nlocal %s = %s({}, %d)", f, f, r, f, n)
	}
}

func (g *pgen) protectedStmt(d int) string {
	g.node("pc")
	g.class("pcall")
	if g.reach() {
		g.calls++
	}
	r1, r2 := g.id("v"), g.id("v")
	g.inFunc++
	body := g.block(d+1, 1+g.draw("pc-n", 2))
	g.inFunc--
	tail := ""
	switch g.draw("pc-end", 5) {
	case 0:
		g.class("error")
		tail = "error(" + g.anyExpr(1) + pickStr(g, "err-level", []string{"", ", 0", ", 2"}) + ")\n"
	case 1:
		g.class("error")
		tail = "local x = nil\nx.field = 1\n"
	case 2:
		tail = "return " + g.anyExpr(1) + "\n"
	}
	g.vars = append(g.vars, gvar{r1, kBool, false, 0}, gvar{r2, kAny, false, maxStrLen})
	if g.chance("xpcall", 30) {
		// listed finding panic-nil-return-value: an error raised while an xpcall message handler is
		// called or runs (a raising handler, tostring/print of an arbitrary error object, or a call
		// stack that is already full when the handler is invoked) leaves the VM state unrestored.
		hs := []string{"function(e) return e end", "function(e) return {e} end", "type", "function(e) return 1 end",
			"function(e) return tostring(e) .. \"!\" end", "print", "tostring", "function(e) error(e) end", "error", "function(e) local y = nil return y.z end"}
		hi := g.draw("xp-handler", len(hs))
		if isOpen(sigNilReturn) {
			if g.overflowRisk {
				g.exclude(sigNilReturn)
				return "local " + r1 + ", " + r2 + " = pcall(function()\n" + body + tail + "end)"
			}
			if hi >= 4 {
				g.exclude(sigNilReturn)
				hi = hi - 4
				if hi >= 4 {
					hi -= 4
				}
			}
		} else if hi >= 4 {
			g.class("xpcall-handler-may-raise")
		}
		g.usesXpcall = true
		g.class("xpcall")
		h := hs[hi]
		return "local " + r1 + ", " + r2 + " = xpcall(function()\n" + body + tail + "end, " + h + ")"
	}
	return "local " + r1 + ", " + r2 + " = pcall(function()\n" + body + tail + "end)"
}

// escapeAttempt: attempts to reach files, processes, environment. All guarded so that the
// script continues; what they obtained is parked in globals / locals that may be returned.
func (g *pgen) escapeAttempt(d int) string {
	g.node("esc")
	g.class("escape-attempt")
	S := sentinelPlaceholder
	r := g.id("v")
	g.vars = append(g.vars, gvar{r, kAny, false, maxStrLen})
	c := g.draw("esc", 14)
	fileLeak := map[int]bool{3: true, 4: true, 5: true, 12: true}
	if fileLeak[c] && isOpen(sigFileLeak) {
		// listed finding file-content-leak: dofile / loadfile on an existing file
		g.exclude(sigFileLeak)
		c = 6 + g.draw("esc-alt", 2)
	}
	switch c {
	case 0:
		return "local " + r + " = pcall(function() os.execute(\"touch " + S + "/pwned\") os.remove(\"" + S + "/secret.txt\") end)"
	case 1:
		return "local _, " + r + " = pcall(function() local f = io.open(\"" + S + "/created.txt\", \"w\") f:write(\"x\") f:close() return io.open(\"" + S + "/secret.txt\"):read(\"*a\") end)"
	case 2:
		return "local _, " + r + " = pcall(require, \"payload\")\nG1 = c16_payload_ran"
	case 3:
		return "local _, " + r + " = pcall(dofile, \"" + S + "/payload.lua\")\nG2 = " + r
	case 4:
		return "local _, _, " + r + " = pcall(loadfile, \"" + S + "/secret.txt\")\nG3 = " + r
	case 5:
		return "local _, " + r + " = pcall(loadfile, \"payload.lua\")\nif type(" + r + ") == \"function\" then " + r + " = " + r + "() end"
	case 6:
		return "local _, " + r + " = pcall(dofile, \"" + S + "/missing.lua\")"
	case 7:
		return "local _, _, " + r + " = pcall(loadfile, \"" + S + "/missing/x.lua\")"
	case 8:
		return "local _, " + r + " = pcall(function() package.path = \"" + S + "/?.lua\" return package.loadlib(\"libc.so.6\", \"system\") end)"
	case 9:
		return "local _, " + r + " = pcall(function() debug.sethook(function() end, \"l\") return debug.getregistry() end)"
	case 10:
		return "local _, " + r + " = pcall(function() return os.getenv(\"HOME\") .. io.popen(\"id\"):read(\"*a\") end)"
	case 11:
		return "local " + r + " = {os = type(os), io = type(io), package = type(package), debug = type(debug), coroutine = type(coroutine)}"
	case 12:
		// call every global function on the sentinel files
		return "for k_e, v_e in pairs(_G) do if type(v_e) == \"function\" and k_e ~= \"error\" and k_e ~= \"module\" and k_e ~= \"setfenv\" then pcall(v_e, \"" + S + "/payload.lua\") end end\nlocal " + r + " = c16_payload_ran"
	default:
		return "local _, " + r + " = pcall(function() local m = require(\"os\") m.execute(\"touch " + S + "/pwned\") end)"
	}
}

func (g *pgen) loadStmt(d int) string {
	g.node("ld")
	g.class("load")
	if g.reach() {
		g.calls++
	}
	r := g.id("v")
	g.vars = append(g.vars, gvar{r, kAny, false, maxStrLen})
	chunk := pickStr(g, "chunk", []string{"return 1 + 1", "return {a = 1}", "return type(os) .. type(io)", "return obj", "G1 = 5 return G1", "return {", "\x1bLua", "", "local t = {} for i = 1, 10 do t[i] = i end return t", "error('inner')", "return ...", "return getfenv(0) == _G"})
	switch g.draw("load-form", 4) {
	case 0:
		return "local " + r + " = select(2, pcall(loadstring([==[" + chunk + "]==]) or error))"
	case 1:
		return "local " + r + " = loadstring([==[" + chunk + "]==])\nif " + r + " then " + r + " = " + r + "() end"
	case 2:
		return "local n_ld = 0\nlocal " + r + " = load(function() n_ld = n_ld + 1 if n_ld == 1 then return [==[" + chunk + "]==] end return nil end)"
	default:
		return "local " + r + " = select(2, pcall(string.dump, " + g.fn(1) + "))"
	}
}

// apiSweep calls every function of an opened library with the same odd arguments.
func (g *pgen) apiSweep(d int) string {
	g.node("sw")
	g.class("api-sweep")
	if g.reach() {
		g.calls++
		g.loops++
	}
	lib := pickStr(g, "sweep-lib", []string{"string", "table", "math", "json", "string"})
	args := pickStr(g, "sweep-args", []string{"", `"x"`, `1e9`, `{}`, `"%", "%"`, `obj, obj`, `"abc", "(b)", "%1%1"`, `-1`, `0/0`, `nil, nil`, `"a", 2, 3`, `{3, 1, 2}, ","`, `print`, `"aaaa", "a*", 1`, `1, 0`, `"[1, 2", 5`})
	if args != "" {
		args = ", " + args
	}
	skip := ""
	if lib == "string" {
		// string.rep("x", 1e9) is a memory bomb
		skip = " if k_s ~= \"rep\" then"
		return "for k_s, f_s in pairs(" + lib + ") do" + skip + " pcall(f_s" + args + ") end end"
	}
	return "for k_s, f_s in pairs(" + lib + ") do pcall(f_s" + args + ") end"
}

// infinite plants the one unbounded construct of a non-terminating program.
func (g *pgen) infinite(d int) string {
	g.node("INF")
	g.loops++
	g.calls++
	small := func() string {
		g.inLoop += 2
		s := g.block(3, 1+g.draw("inf-body", 2))
		g.inLoop -= 2
		return s
	}
	kinds := []string{"while-true", "repeat", "for-huge", "pcall-swallow", "pcall-error-loop", "callback-gsub", "callback-sort", "metamethod", "growing-table", "growing-string", "pairs-extend", "recursion-pcall-tree", "load-loop", "tail-recursion", "tail-recursion-mutual"}
	k := kinds[g.draw("inf-kind", len(kinds))]
	if strings.HasPrefix(k, "tail-recursion") && isOpen(sigTailcallSlow) {
		// listed finding slow-tailcall-traceback: unbounded tail recursion
		g.exclude(sigTailcallSlow)
		k = "while-true"
	}
	g.infKind = k
	g.class("infinite:" + k)
	switch k {
	case "while-true":
		return "while true do\n" + small() + "end"
	case "repeat":
		return "repeat\n" + small() + "until false"
	case "for-huge":
		return "for i_inf = 1, " + pickStr(g, "huge", []string{"1e18", "math.huge", "2^60"}) + " do\n" + small() + "end"
	case "pcall-swallow":
		return "while true do\npcall(function()\nwhile true do\n" + small() + "end\nend)\nend"
	case "pcall-error-loop":
		return "while true do pcall(error, " + g.anyScalar(2) + ") end"
	case "callback-gsub":
		return "string.gsub(\"abc\", \".\", function(c) while true do end end)"
	case "callback-sort":
		return "table.sort({3, 2, 1}, function(a, b) while true do end end)"
	case "metamethod":
		return "local t_inf = setmetatable({}, {__index = function(t, k) while true do end end})\nlocal x_inf = t_inf.missing"
	case "growing-table":
		return "local t_inf = {}\nwhile true do t_inf[#t_inf + 1] = #t_inf end"
	case "growing-string":
		return "local s_inf = \"\"\nwhile true do s_inf = s_inf .. \"x\" end"
	case "pairs-extend":
		return "local t_inf = {1, 2, 3}\nfor k_inf in pairs(t_inf) do t_inf[k_inf + 3] = 1 end\nwhile true do end"
	case "recursion-pcall-tree":
		return "local function f_inf() pcall(f_inf) pcall(f_inf) end\nf_inf()\nwhile true do end"
	case "load-loop":
		return "loadstring(\"while true do end\")()"
	case "tail-recursion":
		return "local function f_inf(n) return f_inf(n + 1) end\nf_inf(1)"
	default:
		return "local a_inf, b_inf\nfunction a_inf(n) return b_inf(n) end\nfunction b_inf(n) return a_inf(n + 1) end\na_inf(1)"
	}
}

// ---------------------------------------------------------------- program

type Program struct {
	Case     *Case
	Shape    string
	Classes  []string
	NT       bool
	Excluded map[string]int
}

func collectPaths(g *pgen, prefix string, v interface{}, depth int) {
	if depth > 3 {
		return
	}
	switch x := v.(type) {
	case float64:
		g.paths[kNum] = append(g.paths[kNum], prefix)
	case string:
		g.paths[kStr] = append(g.paths[kStr], prefix)
		g.pathLen[prefix] = len(x)
	case bool:
		g.paths[kBool] = append(g.paths[kBool], prefix)
	case map[string]interface{}:
		if prefix != "obj" {
			g.paths[kTbl] = append(g.paths[kTbl], prefix)
		}
		for _, k := range sortedKeys(x) {
			if k == "" || strings.ContainsAny(k, "\"\\\n") {
				continue
			}
			collectPaths(g, "("+prefix+" or {})[\""+k+"\"]", x[k], depth+1)
		}
	case []interface{}:
		g.paths[kTbl] = append(g.paths[kTbl], prefix)
		for i, e := range x {
			if i >= 2 {
				break
			}
			collectPaths(g, fmt.Sprintf("(%s or {})[%d]", prefix, i+1), e, depth+1)
		}
	}
}

func sortedKeys(m map[string]interface{}) []string {
	ks := make([]string, 0, len(m))
	for k := range m {
		ks = append(ks, k)
	}
	for i := 1; i < len(ks); i++ {
		for j := i; j > 0 && ks[j] < ks[j-1]; j-- {
			ks[j], ks[j-1] = ks[j-1], ks[j]
		}
	}
	return ks
}

func genProgram(t *rapid.T) *Program {
	g := &pgen{t: t, cls: map[string]bool{}, paths: map[kind][]string{}, pathLen: map[string]int{}, excluded: map[string]int{}}
	st := &valStats{}
	input := genMap(t, 0, 3, st)
	if g.chance("ingress-shaped-input", 30) {
		input["annotations"] = map[string]interface{}{"kubernetes.io/ingress.class": "nginx", "k": rapid.SampledFrom(rtStrings).Draw(t, "ann-v")}
		input["weight"] = "20"
		if g.chance("with-matches", 50) {
			input["matches"] = []interface{}{map[string]interface{}{"headers": []interface{}{map[string]interface{}{"name": "user_id", "value": "123456", "type": "Exact"}}}}
		}
	}
	collectPaths(g, "obj", input, 0)
	inJSON := mustJSON(input)
	g.budget = 10 + g.draw("budget", 51)
	g.wantInf = g.chance("non-terminating", 3)
	mode := modeRaw
	if g.chance("mode-ingress", 12) {
		mode = modeIngress
		g.class("mode:ingress")
	}
	var sb strings.Builder
	for i, n := 0, 1+g.draw("top-stmts", 8); i < n && g.budget > 0; i++ {
		sb.WriteString(g.stmt(0))
		sb.WriteString("\n")
	}
	if g.wantInf && g.infKind == "" {
		sb.WriteString(g.infinite(0))
		sb.WriteString("\n")
	}
	// final return
	switch c := g.draw("return", 20); {
	case c < 14:
		g.node("Rt")
		g.class("returns:table")
		sb.WriteString("return " + g.tbl(1) + "\n")
	case c < 16:
		g.node("Ra")
		g.class("returns:any")
		sb.WriteString("return " + g.anyExpr(1) + "\n")
	case c < 17:
		g.node("Rm")
		g.class("returns:multi")
		sb.WriteString("return " + g.anyExpr(1) + ", " + g.anyExpr(1) + "\n")
	case c < 18:
		g.node("Rg")
		g.class("returns:globals")
		sb.WriteString("return {G1, G2, G3}\n")
	default:
		g.node("R0")
		g.class("returns:nothing")
	}
	script := sb.String()
	if g.chance("mutate-text", 3) {
		g.class("mutated-text")
		g.node("MUT")
		if len(script) > 4 {
			a := g.draw("mut-at", len(script)-1)
			b := a + 1 + g.draw("mut-len", 12)
			if b > len(script) {
				b = len(script)
			}
			switch g.draw("mut-op", 3) {
			case 0:
				script = script[:a] + script[b:]
			case 1:
				script = script[:a]
			default:
				script = script[:a] + pickStr(g, "mut-ins", []string{"end", "(", "}", "\"", "--[[", "\x00", "=", " then "}) + script[a:]
			}
		}
	}
	if g.wantInf {
		g.class("non-terminating")
	} else {
		g.class("terminating-by-construction")
	}
	cls := make([]string, 0, len(g.cls))
	for c := range g.cls {
		cls = append(cls, c)
	}
	sortStrings(cls)
	p := &Program{Shape: g.shape.String(), Classes: cls, Excluded: g.excluded, NT: g.loops+g.calls >= 1}
	p.Case = &Case{Mode: mode, Script: script, Input: inJSON, NumKind: "int64"}
	return p
}

func sortStrings(xs []string) {
	for i := 1; i < len(xs); i++ {
		for j := i; j > 0 && xs[j] < xs[j-1]; j-- {
			xs[j], xs[j-1] = xs[j-1], xs[j]
		}
	}
}

func TestC16GeneratedPrograms(t *testing.T) {
	var rc Case
	if ok, _ := vlib.LoadReplay(chkGen, &rc); ok {
		check(t, chkGen, &rc)
		return
	}
	rapid.Check(t, func(t *rapid.T) {
		p := genProgram(t)
		for sig, n := range p.Excluded {
			for i := 0; i < n; i++ {
				vlib.Excluded(chkGen, sig)
			}
		}
		vlib.Record(chkGen, p.Shape, p.NT, p.Classes, func() any { return p.Case })
		res := check(t, chkGen, p.Case)
		if res.Resp != nil && p.Case.Mode == modeRaw {
			// a program that is terminating by construction must not sit out the deadline; if it
			// does the generator (not the code under test) is wrong -- visible in the histogram
			if !strings.Contains(strings.Join(p.Classes, ","), "non-terminating") && res.Resp.CPUNs > int64(800*1e6) {
				vlib.Class(chkGen, "generator:bounded-program-hit-deadline")
				vlib.Note(chkGen, "bounded program hit the deadline: "+p.Case.Script)
			}
			if outcomeClass(res) == "outcome:error-syntax" && !strings.Contains(strings.Join(p.Classes, ","), "mutated-text") {
				vlib.Class(chkGen, "generator:unintended-syntax-error")
				vlib.Note(chkGen, "unintended syntax error: "+res.Resp.Err+" <<< "+p.Case.Script)
			}
		}
	})
}

var _ = math.Inf

func mustJSON(v interface{}) string {
	b, err := json.Marshal(v)
	if err != nil {
		panic(err)
	}
	return string(b)
}
