package p16

// Parent side: pool of worker processes, hang detection that cannot be fooled by a loaded
// machine (wall time AND consumed CPU time of the worker, confirmation by re-runs in fresh
// workers), sentinel directory for the escape oracle.

import (
	"bufio"
	"bytes"
	"encoding/json"
	"fmt"
	"io"
	"os"
	"os/exec"
	"path/filepath"
	"sort"
	"strconv"
	"strings"
	"sync"
	"syscall"
	"time"

	"verifharness/vlib"
)

const (
	sentinelPlaceholder = "@SENTINEL@"
	// the marker exists only inside the two sentinel files; it is assembled at run time so that
	// it does not occur as one token in any script source or seed corpus
	markerHead = "c16Escape"
	markerTail = "Marker9f3b7a"

	slowBound   = 3 * time.Second         // measured inside the worker around the call sequence
	slowCPU     = 2500 * time.Millisecond // and the worker burnt at least this much CPU (not just starved)
	hangWall    = 5 * time.Second         // no answer after this long ...
	hangCPU     = 3 * time.Second         // ... and the worker consumed this much CPU since the request => hang
	blockedWall = 40 * time.Second        // no answer and (almost) no CPU: blocked
	confirmRuns = 3
	recycle     = 4000 // requests per worker process
)

func marker() string { return markerHead + markerTail }

type worker struct {
	cmd    *exec.Cmd
	in     io.WriteCloser
	resp   chan []byte // closed when the worker's answer pipe closes
	exited chan struct{}
	stderr *capBuf
	served int
}

// capBuf keeps what a worker writes to stderr after its ready line (package init of pkg/util
// logs every shipped Lua script first), capped.
type capBuf struct {
	mu    sync.Mutex
	buf   bytes.Buffer
	ready bool
	pre   []byte
}

const readyLine = "C16-WORKER-READY\n"

func (c *capBuf) Write(p []byte) (int, error) {
	c.mu.Lock()
	defer c.mu.Unlock()
	n := len(p)
	if !c.ready {
		c.pre = append(c.pre, p...)
		i := bytes.Index(c.pre, []byte(readyLine))
		if i < 0 {
			if len(c.pre) > 64 {
				c.pre = c.pre[len(c.pre)-32:]
			}
			return n, nil
		}
		c.ready = true
		p = c.pre[i+len(readyLine):]
		c.pre = nil
	}
	if c.buf.Len() < 256<<10 {
		c.buf.Write(p)
	}
	return n, nil
}

func (c *capBuf) String() string {
	c.mu.Lock()
	defer c.mu.Unlock()
	return c.buf.String()
}

type workerPool struct {
	mu       sync.Mutex
	idle     []*worker
	all      map[*worker]struct{}
	exe      string
	sentinel string
	files    map[string]string // expected content of the sentinel directory
	spawned  int
}

var pool *workerPool

func newPool() (*workerPool, error) {
	exe, err := os.Executable()
	if err != nil {
		return nil, err
	}
	dir := filepath.Join(vlib.OutDir(), fmt.Sprintf("c16-sentinel-%d", os.Getpid()))
	if err := os.MkdirAll(dir, 0o755); err != nil {
		return nil, err
	}
	dir, _ = filepath.Abs(dir)
	p := &workerPool{exe: exe, sentinel: dir, all: map[*worker]struct{}{}, files: map[string]string{
		// two identical tokens: loadfile's parse error quotes the second one
		"secret.txt":  marker() + " " + marker() + "\n",
		"payload.lua": "c16_payload_ran = \"" + marker() + "\"\nreturn {leak = \"" + marker() + "\"}\n",
	}}
	for n, c := range p.files {
		if err := os.WriteFile(filepath.Join(dir, n), []byte(c), 0o644); err != nil {
			return nil, err
		}
	}
	return p, nil
}

func (p *workerPool) close() {
	p.mu.Lock()
	ws := make([]*worker, 0, len(p.all))
	for w := range p.all {
		ws = append(ws, w)
	}
	p.mu.Unlock()
	for _, w := range ws {
		p.discard(w)
	}
	_ = os.RemoveAll(p.sentinel)
}

func (p *workerPool) spawn() (*worker, error) {
	reqR, reqW, err := os.Pipe()
	if err != nil {
		return nil, err
	}
	respR, respW, err := os.Pipe()
	if err != nil {
		return nil, err
	}
	w := &worker{resp: make(chan []byte, 1), exited: make(chan struct{}), stderr: &capBuf{}}
	cmd := exec.Command(p.exe)
	cmd.Env = append(os.Environ(), "VERIF_C16_WORKER=1", "VERIF_C16_WORKER_DIR="+p.sentinel, "GOMAXPROCS=2", "GOTRACEBACK=crash")
	cmd.ExtraFiles = []*os.File{reqR, respW}
	cmd.Stdin, cmd.Stdout, cmd.Stderr = nil, nil, w.stderr
	if err := cmd.Start(); err != nil {
		return nil, err
	}
	reqR.Close()
	respW.Close()
	w.cmd, w.in = cmd, reqW
	go func() {
		r := bufio.NewReaderSize(respR, 1<<16)
		for {
			data, err := readFrame(r)
			if err != nil {
				close(w.resp)
				respR.Close()
				return
			}
			w.resp <- data
		}
	}()
	go func() { _ = cmd.Wait(); close(w.exited) }()
	p.mu.Lock()
	p.all[w] = struct{}{}
	p.spawned++
	p.mu.Unlock()
	return w, nil
}

func (p *workerPool) acquire(fresh bool) (*worker, error) {
	if !fresh {
		p.mu.Lock()
		if n := len(p.idle); n > 0 {
			w := p.idle[n-1]
			p.idle = p.idle[:n-1]
			p.mu.Unlock()
			return w, nil
		}
		p.mu.Unlock()
	}
	return p.spawn()
}

func (p *workerPool) release(w *worker) {
	w.served++
	if w.served >= recycle {
		p.discard(w)
		return
	}
	p.mu.Lock()
	p.idle = append(p.idle, w)
	p.mu.Unlock()
}

func (p *workerPool) discard(w *worker) {
	p.mu.Lock()
	delete(p.all, w)
	p.mu.Unlock()
	_ = w.in.Close()
	select {
	case <-w.exited:
	case <-time.After(500 * time.Millisecond):
		_ = w.cmd.Process.Kill()
		<-w.exited
	}
}

// procCPU returns utime+stime of a process from /proc (clock ticks of 10 ms).
func procCPU(pid int) time.Duration {
	data, err := os.ReadFile("/proc/" + strconv.Itoa(pid) + "/stat")
	if err != nil {
		return 0
	}
	s := string(data)
	i := strings.LastIndexByte(s, ')')
	if i < 0 {
		return 0
	}
	f := strings.Fields(s[i+1:])
	if len(f) < 13 {
		return 0
	}
	ut, _ := strconv.ParseInt(f[11], 10, 64)
	st, _ := strconv.ParseInt(f[12], 10, 64)
	return time.Duration(ut+st) * 10 * time.Millisecond
}

// Result of one execution as the parent saw it.
type Result struct {
	Resp     *Response
	Hang     bool          // killed by the parent: no answer within the bound
	Died     bool          // worker exited by itself without answering
	Exit     string        // exit description of a dead / killed worker
	Stderr   string        // crash output or SIGQUIT goroutine dump
	Wall     time.Duration // parent-side wall time
	KillCPU  time.Duration // CPU the worker had consumed when it was declared hung
	NewFiles []string      // oracle 4: files that appeared / changed in the sentinel directory
}

func (p *workerPool) substitute(script string) string {
	return strings.ReplaceAll(script, sentinelPlaceholder, p.sentinel)
}

// run executes one request. fresh => in a newly started worker.
func (p *workerPool) run(req Request, fresh bool) *Result { return p.runOpt(req, fresh, false) }

// runOpt: impatient => the worker is killed after hangWall whatever CPU it used and the dump is
// awaited for 2 s only (native fuzzing panics when one input takes longer than 10 s; the result
// is then only a suspect, never a verdict).
func (p *workerPool) runOpt(req Request, fresh, impatient bool) *Result {
	req.Script = p.substitute(req.Script)
	req.Marker = marker()
	payload, err := json.Marshal(&req)
	if err != nil {
		panic(err)
	}
	var w *worker
	for try := 0; ; try++ {
		w, err = p.acquire(fresh)
		if err == nil {
			break
		}
		if try >= 5 {
			panic(fmt.Sprintf("c16: cannot start worker: %v", err))
		}
		time.Sleep(200 * time.Millisecond)
	}
	res := &Result{}
	pid := w.cmd.Process.Pid
	cpu0 := procCPU(pid)
	t0 := time.Now()
	if err := writeFrame(w.in, payload); err != nil {
		// worker already dead (should not happen with an idle worker)
		p.discard(w)
		res.Died, res.Exit, res.Stderr = true, "write failed: "+err.Error(), w.stderr.String()
		return res
	}
	tick := time.NewTicker(200 * time.Millisecond)
	defer tick.Stop()
	for {
		select {
		case data, ok := <-w.resp:
			res.Wall = time.Since(t0)
			if !ok {
				<-w.exited
				p.mu.Lock()
				delete(p.all, w)
				p.mu.Unlock()
				res.Died = true
				res.Exit = w.cmd.ProcessState.String()
				res.Stderr = w.stderr.String()
				return res
			}
			var r Response
			if err := json.Unmarshal(data, &r); err != nil {
				panic(fmt.Sprintf("c16: bad response from worker: %v", err))
			}
			res.Resp = &r
			res.NewFiles = p.checkSentinel()
			p.release(w)
			return res
		case <-tick.C:
			el := time.Since(t0)
			if el < hangWall {
				continue
			}
			used := procCPU(pid) - cpu0
			if used >= hangCPU || el >= blockedWall || impatient {
				res.Wall, res.Hang, res.KillCPU = el, true, used
				_ = syscall.Kill(pid, syscall.SIGQUIT) // goroutine dump: where is it stuck?
				select {
				case <-w.exited:
				case <-time.After(map[bool]time.Duration{false: 4 * time.Second, true: 2 * time.Second}[impatient]):
					_ = w.cmd.Process.Kill()
					<-w.exited
				}
				p.mu.Lock()
				delete(p.all, w)
				p.mu.Unlock()
				_ = w.in.Close()
				res.Exit = w.cmd.ProcessState.String()
				res.Stderr = w.stderr.String()
				res.NewFiles = p.checkSentinel()
				return res
			}
		}
	}
}

// checkSentinel returns the names of files that were created, removed or changed in the
// sentinel directory (and repairs the directory so that later cases are judged afresh).
func (p *workerPool) checkSentinel() []string {
	var bad []string
	ents, err := os.ReadDir(p.sentinel)
	if err != nil {
		return []string{"<sentinel directory unreadable: " + err.Error() + ">"}
	}
	seen := map[string]bool{}
	for _, e := range ents {
		want, ok := p.files[e.Name()]
		if !ok {
			bad = append(bad, "created:"+e.Name())
			_ = os.RemoveAll(filepath.Join(p.sentinel, e.Name()))
			continue
		}
		seen[e.Name()] = true
		if fi, err := e.Info(); err != nil || fi.Size() != int64(len(want)) {
			bad = append(bad, "changed:"+e.Name())
			_ = os.WriteFile(filepath.Join(p.sentinel, e.Name()), []byte(want), 0o644)
		}
	}
	for n, c := range p.files {
		if !seen[n] {
			bad = append(bad, "removed:"+n)
			_ = os.WriteFile(filepath.Join(p.sentinel, n), []byte(c), 0o644)
		}
	}
	sort.Strings(bad)
	return bad
}

// stuckWhere classifies a SIGQUIT goroutine dump.
func stuckWhere(dump string) string {
	switch {
	case strings.Contains(dump, "gopher-lua/pm.") || strings.Contains(dump, "gopher-lua.strGsub"):
		return "pattern-match"
	case strings.Contains(dump, "LTable).RawSet") && (strings.Contains(dump, "runtime.growslice") || strings.Contains(dump, "runtime.mallocgc") || strings.Contains(dump, "runtime.mem")):
		return "array-fill" // t[n] = v fills the array part with nil up to n < 67108864: memory bomb
	case strings.Contains(dump, ").stackTrace(") || strings.Contains(dump, "LState).stackTrace"):
		return "traceback"
	}
	return "other"
}

// dumpExcerpt extracts the frames of the goroutine that runs the script.
func dumpExcerpt(dump string) string {
	blocks := strings.Split(dump, "\n\n")
	for _, b := range blocks {
		if strings.Contains(b, "RunLuaScript") || strings.Contains(b, "gopher-lua") {
			lines := strings.Split(b, "\n")
			var keep []string
			for _, l := range lines {
				if strings.HasPrefix(l, "\t") {
					continue // file:line rows
				}
				keep = append(keep, l)
				if len(keep) >= 14 {
					break
				}
			}
			return strings.Join(keep, "\n")
		}
	}
	return clip(dump, 1500, 0)
}

func deathKind(res *Result) string {
	s := res.Stderr
	switch {
	case strings.Contains(s, "memory limit exceeded") || strings.Contains(s, "out of memory") || strings.Contains(s, "cannot allocate memory") || strings.Contains(res.Exit, "killed"):
		return "memory-bomb"
	case strings.Contains(s, "goroutine stack exceeds") || strings.Contains(s, "stack overflow"):
		return "nesting-bomb"
	}
	return "crash"
}
