// Package p16 holds the check of property C16 ("A Lua plugin cannot hang, crash or escape
// the controller"). See c16_*_test.go.
package p16

import (
	"os"
	"strings"
)

// Signatures of failures the check can report.
const (
	// oracle 4 (escape): a marker that only exists inside files of the sentinel directory
	// appeared in a result / error / VM state => the script read or executed a file.
	sigFileLeak = "file-content-leak"
	// oracle 4 (escape): of the forbidden globals only the file loaders of the base library
	// (dofile, loadfile, require) are non-nil.
	sigLoaders = "file-loaders-reachable"
	// oracle 1 (bounded return): a worker stuck in Go code of gopher-lua's string library (the
	// backtracking pattern matcher pm.recursiveVM or gsub's quadratic replacement loop), which
	// never polls the context.
	sigPatternHang = "hang-string-library-call"
	// oracle 1 (bounded return): > 3 s because the traceback of an error raised in a frame
	// that accumulated millions of tail calls is built one "(tailcall): ?" line at a time.
	sigTailcallSlow = "slow-tailcall-traceback"
	// oracle 2 (no panic): after an xpcall whose message handler itself raised an error,
	// gopher-lua's registry top is wrong; l.Get(-1) then yields a Go-nil LValue and the
	// providers' returnValue.Type() dereferences nil.
	sigNilReturn = "panic-nil-return-value"
)

// knownOpen lists the confirmed genuine defects of /repo that are recorded as known findings.
// While an entry is true the generators steer away from exactly its input class (counted with
// vlib.Excluded) so that the search continues behind it. Set an entry to false (or delete it)
// once the defect is repaired in /repo.
//
//	file-content-leak / file-loaders-reachable : pkg/util/luamanager/lua.go opens gopher-lua's
//	    base library, which registers dofile/loadfile/require; dofile("<abs path>") executes a
//	    Lua file from disk, loadfile leaks the first tokens of any file through its parse error.
//	    Input class excluded: calls of dofile/loadfile whose argument names an existing file;
//	    the three names in the "forbidden globals are nil" oracle.
//	hang-string-library-call : string.find/match/gmatch/gsub run in Go (gopher-lua/pm, a
//	    recursive backtracking matcher; stringlib.go strGsubDoReplace copies the whole subject
//	    once per match) and never poll the 1 s context. Input class excluded: pattern calls whose
//	    worst-case number of backtracking paths C(n+k+1, k+1) exceeds 2e6, n = static bound of
//	    the subject length, k = number of quantified (* + - ?) single-character items; gsub on
//	    subjects longer than 4096 bytes (the generator's general string bound; the quadratic
//	    replacement needs roughly 70 000 matching bytes to exceed 3 s).
//	slow-tailcall-traceback : LState.stackTrace appends one line per accumulated tail call.
//	    Input class excluded: tail calls (`return f(...)`) in recursion without a bound.
//	panic-nil-return-value : xpcall(f, handler) where handler raises an error while handling an
//	    error of f leaves gopher-lua's registry top wrong; the script's return value is then read
//	    as Go nil and returnValue.Type() in executeLuaForCanary (ingress.go, custom_network_provider.go) panics.
//	    Input class excluded: xpcall with a message handler that raises an error.
var knownOpen = map[string]bool{
	sigNilReturn:    false, // repaired by a "fix:" commit in /repo, see /verif/known_findings.json
	sigFileLeak:     false, // repaired by a "fix:" commit in /repo, see /verif/known_findings.json
	sigLoaders:      false, // repaired by a "fix:" commit in /repo, see /verif/known_findings.json
	sigPatternHang:  true,
	sigTailcallSlow: true,
}

// isOpen reports whether the exclusion of a known finding is active. VERIF_C16_NOEXCLUDE=all
// (or a comma separated list of signatures) switches exclusions off: used to re-establish the
// findings, to write their replay files and to verify a repair.
func isOpen(sig string) bool {
	if !knownOpen[sig] {
		return false
	}
	v := os.Getenv("VERIF_C16_NOEXCLUDE")
	if v == "" {
		return true
	}
	if v == "1" || v == "all" {
		return false
	}
	for _, s := range strings.Split(v, ",") {
		if strings.TrimSpace(s) == sig {
			return false
		}
	}
	return true
}
