// C12: Pod batch labels identify exactly the pods of each batch.
//
// Drives the REAL labelpatch.NewLabelPatcher(...).PatchPodBatchLabel and BatchContext.IsBatchReady
// against a controller-runtime fake client that holds generated pods, ReplicaSets and the workload.
// The BatchContext is built the way the real callers build it (util.ListOwnedPods, the arithmetic of
// partitionstyle/{cloneset,statefulset,deployment}/control.go:CalculateBatchContext and of
// control_plane.go:countAndUpdateNoNeedUpdateReplicas), so the implicit preconditions of the callers
// hold: 0 <= currentBatch < len(batches), replicas >= 1, ctx.Pods = pods owned by the workload.
package p12

import (
	"context"
	"encoding/json"
	"fmt"
	"hash/fnv"
	"io"
	"os"
	"sort"
	"strconv"
	"strings"
	"testing"
	"time"

	kruiseappsv1alpha1 "github.com/openkruise/kruise-api/apps/v1alpha1"
	kruiseappsv1beta1 "github.com/openkruise/kruise-api/apps/v1beta1"
	"github.com/openkruise/rollouts/api/v1beta1"
	batchcontext "github.com/openkruise/rollouts/pkg/controller/batchrelease/context"
	"github.com/openkruise/rollouts/pkg/controller/batchrelease/control"
	"github.com/openkruise/rollouts/pkg/controller/batchrelease/labelpatch"
	deploymentutil "github.com/openkruise/rollouts/pkg/controller/deployment/util"
	"github.com/openkruise/rollouts/pkg/util"
	appsv1 "k8s.io/api/apps/v1"
	corev1 "k8s.io/api/core/v1"
	metav1 "k8s.io/apimachinery/pkg/apis/meta/v1"
	"k8s.io/apimachinery/pkg/runtime"
	"k8s.io/apimachinery/pkg/types"
	"k8s.io/apimachinery/pkg/util/intstr"
	"k8s.io/klog/v2"
	"pgregory.net/rapid"
	"sigs.k8s.io/controller-runtime/pkg/client"
	"sigs.k8s.io/controller-runtime/pkg/client/fake"

	"verifharness/vlib"
)

func TestMain(m *testing.M) {
	klog.SetOutput(io.Discard)
	klog.LogToStderr(false)
	initRevisions()
	vlib.Main(m)
}

const (
	chk = "c12-labelpatch"

	// finding signatures
	sigOOR    = "c12-batchid-out-of-range-panic"
	sigHidden = "c12-filter-hidden-labelled-overfill"

	ns     = "ns"
	wlName = "demo"
	wlUID  = "wl-uid"

	lblRID    = v1beta1.RolloutIDLabel
	lblBID    = v1beta1.RolloutBatchIDLabel
	lblNoNeed = util.NoNeedUpdatePodLabel
	lblPTH    = appsv1.DefaultDeploymentUniqueLabelKey
	lblCRH    = appsv1.ControllerRevisionHashLabelKey

	kCloneSet    = "cloneset"
	kDeployment  = "deployment"
	kStatefulSet = "statefulset"

	// genNonAPILabelValues adds "-1" and " 2" to the batch-id values. Both are rejected by the API
	// server's label-value validation, so they are NOT generated (soundness); the switch exists for
	// experiments only.
	genNonAPILabelValues = false
)

// ---------- fixed universe: three revisions ----------

var (
	scheme = runtime.NewScheme()
	// short hashes of the three revisions of CloneSet / StatefulSet workloads
	shortHash = [3]string{"7d9f8c5b", "5c6f4d9a", "66b7f8d4"}
	// Deployment pod templates of the three revisions and the revision the rollouts controller
	// computes for them (util.ComputeHash of the template as read back from the store).
	depTmpl [3]corev1.PodTemplateSpec
	depRev  [3]string
)

func depTemplate(r int) corev1.PodTemplateSpec {
	return corev1.PodTemplateSpec{
		ObjectMeta: metav1.ObjectMeta{Labels: map[string]string{"app": "demo"}},
		Spec:       corev1.PodSpec{Containers: []corev1.Container{{Name: "main", Image: fmt.Sprintf("img:v%d", r)}}},
	}
}

func rsName(r int) string { return fmt.Sprintf("demo-rs%d", r) }
func rsUID(r int) string  { return fmt.Sprintf("rs%d-uid", r) }

func mkRS(r int) *appsv1.ReplicaSet {
	tr := true
	tm := depTemplate(r)
	tm.Labels[lblPTH] = fmt.Sprintf("kcm%d", r)
	return &appsv1.ReplicaSet{
		ObjectMeta: metav1.ObjectMeta{Name: rsName(r), Namespace: ns, UID: types.UID(rsUID(r)),
			Labels:          map[string]string{"app": "demo", lblPTH: fmt.Sprintf("kcm%d", r)},
			OwnerReferences: []metav1.OwnerReference{{APIVersion: "apps/v1", Kind: "Deployment", Name: wlName, UID: wlUID, Controller: &tr}}},
		Spec: appsv1.ReplicaSetSpec{Selector: &metav1.LabelSelector{MatchLabels: map[string]string{"app": "demo", lblPTH: fmt.Sprintf("kcm%d", r)}}, Template: tm},
	}
}

func initRevisions() {
	_ = corev1.AddToScheme(scheme)
	_ = appsv1.AddToScheme(scheme)
	_ = kruiseappsv1alpha1.AddToScheme(scheme)
	_ = kruiseappsv1beta1.AddToScheme(scheme)
	for r := 0; r < 3; r++ {
		depTmpl[r] = depTemplate(r)
		one := int32(1)
		d := &appsv1.Deployment{ObjectMeta: metav1.ObjectMeta{Name: wlName, Namespace: ns}, Spec: appsv1.DeploymentSpec{Replicas: &one, Template: depTmpl[r]}}
		cli := fake.NewClientBuilder().WithScheme(scheme).WithObjects(d, mkRS(r)).Build()
		got := &appsv1.Deployment{}
		if err := cli.Get(context.TODO(), types.NamespacedName{Namespace: ns, Name: wlName}, got); err != nil {
			panic(err)
		}
		depRev[r] = util.ComputeHash(&got.Spec.Template, nil) // as util.ParseWorkload does
		// harness self-check: the ReplicaSet of revision r yields the same revision the way the
		// patcher derives it (template without pod-template-hash).
		rs := &appsv1.ReplicaSet{}
		if err := cli.Get(context.TODO(), types.NamespacedName{Namespace: ns, Name: rsName(r)}, rs); err != nil {
			panic(err)
		}
		delete(rs.Spec.Template.Labels, lblPTH)
		if h := util.ComputeHash(&rs.Spec.Template, nil); h != depRev[r] {
			panic(fmt.Sprintf("harness: rs hash %s != deployment revision %s", h, depRev[r]))
		}
	}
	if depRev[0] == depRev[1] || depRev[1] == depRev[2] || depRev[0] == depRev[2] {
		panic("harness: deployment revisions collide")
	}
}

// ---------- case ----------

type PodCase struct {
	Name   string            `json:"name"`
	Labels map[string]string `json:"labels"`
	// Owner: "wl" (the workload itself), "rs0".."rs2" (stored ReplicaSet of revision r, owned by the
	// Deployment), "rs-gone" (ReplicaSet that is not stored), "foreign" (another CloneSet), "none".
	Owner string `json:"owner"`
	Term  bool   `json:"term,omitempty"`
	Phase string `json:"phase,omitempty"`
}

type Action struct {
	// Op: patch | raise | setbatch | editplan | newid | newrev | scale | rollback | delete |
	// terminate | recreate | add | relabel
	Op      string               `json:"op"`
	Pod     int                  `json:"pod,omitempty"` // index into the name-sorted pod list, modulo its length
	Set     map[string]string    `json:"set,omitempty"`
	Del     []string             `json:"del,omitempty"`
	New     *PodCase             `json:"new,omitempty"`
	Batches []intstr.IntOrString `json:"batches,omitempty"`
	N       int                  `json:"n,omitempty"`
	ID      string               `json:"id,omitempty"`
}

type Case struct {
	Kind         string               `json:"kind"`
	Replicas     int                  `json:"replicas"`
	Batches      []intstr.IntOrString `json:"batches"`
	RolloutID    string               `json:"rolloutID"`
	CurrentBatch int                  `json:"currentBatch"`
	Rev          int                  `json:"rev"`      // index of the update revision
	Rollback     bool                 `json:"rollback"` // status.canaryStatus.noNeedUpdateReplicas != nil -> callers install the filter
	ListSeed     uint32               `json:"listSeed"` // order in which List returns pods (cache order is arbitrary)
	Pods         []PodCase            `json:"pods"`
	Actions      []Action             `json:"actions"`
	// Steer: repair the input class of the known finding sigOOR before every pass (set by the
	// generator while the finding is listed in known.go; false in the finding's replay file).
	Steer []string `json:"steer,omitempty"`
	// Exact: the scenario is an undisturbed rollout walk (built by genWalk): after every pass each
	// released batch must be labelled exactly.
	Exact bool `json:"exact,omitempty"`
}

func updateRevision(kind string, rev int) string {
	if kind == kDeployment {
		return depRev[rev]
	}
	return wlName + "-" + shortHash[rev]
}

// ---------- generators ----------

var rolloutIDs = []string{"r1", "r2", "7", "v2.0-rc_1"}

func gBatch(t *rapid.T, l string, replicas int, lo int, pct bool) (intstr.IntOrString, int) {
	if pct {
		if lo > 100 {
			lo = 100
		}
		v := rapid.IntRange(lo, 100).Draw(t, l+"-pct")
		return intstr.FromString(fmt.Sprintf("%d%%", v)), v
	}
	hi := replicas + 1
	if lo > hi {
		lo = hi
	}
	v := rapid.IntRange(lo, hi).Draw(t, l+"-int")
	return intstr.FromInt(v), v
}

func gPlan(t *rapid.T, l string, replicas int) []intstr.IntOrString {
	n := rapid.IntRange(1, 5).Draw(t, l+"-n")
	style := rapid.SampledFrom([]string{"int", "int", "pct", "pct", "mixed", "wild"}).Draw(t, l+"-style")
	var out []intstr.IntOrString
	lo := 0
	for i := 0; i < n; i++ {
		switch style {
		case "int":
			b, v := gBatch(t, fmt.Sprintf("%s-%d", l, i), replicas, lo, false)
			out, lo = append(out, b), v
		case "pct":
			b, v := gBatch(t, fmt.Sprintf("%s-%d", l, i), replicas, lo, true)
			out, lo = append(out, b), v
		case "mixed": // int and percent batches, monotone in scaled value as far as cheaply possible
			if rapid.Bool().Draw(t, fmt.Sprintf("%s-%d-ispct", l, i)) {
				b, v := gBatch(t, fmt.Sprintf("%s-%d", l, i), replicas, lo*100/maxInt(replicas, 1), true)
				out, lo = append(out, b), (v*replicas+99)/100
			} else {
				b, v := gBatch(t, fmt.Sprintf("%s-%d", l, i), replicas, lo, false)
				out, lo = append(out, b), v
			}
		default: // anything the CRD schema (x-kubernetes-int-or-string, no bounds) admits
			out = append(out, rapid.SampledFrom([]intstr.IntOrString{
				intstr.FromInt(0), intstr.FromInt(1), intstr.FromInt(3), intstr.FromInt(-2), intstr.FromInt(1000),
				intstr.FromString("0%"), intstr.FromString("10%"), intstr.FromString("50%"), intstr.FromString("100%"),
				intstr.FromString("150%"), intstr.FromString("-10%"), intstr.FromString("abc"), intstr.FromString("50"), intstr.FromString("%"),
			}).Draw(t, fmt.Sprintf("%s-%d-wild", l, i)))
		}
	}
	return out
}

func maxInt(a, b int) int {
	if a > b {
		return a
	}
	return b
}

func batchIDValues(nb int) []string {
	v := []string{"1", "2", "3", "4", "5", "1", "2", // canonical (possibly beyond the plan)
		"0", "99", "6", "", "abc", "007", "01", "1e3", "2.0", "99999999999999999999"}
	if genNonAPILabelValues {
		v = append(v, "-1", " 2")
	}
	return v
}

// gRolloutLabels draws rollout-id / batch-id / no-need-update labels into m.
func gRolloutLabels(t *rapid.T, l string, m map[string]string, curID string, fresh int) {
	switch k := rapid.IntRange(0, 99).Draw(t, l+"-rid-kind"); {
	case k < fresh: // absent
	case k < fresh+(100-fresh)*55/100:
		m[lblRID] = curID
	case k < fresh+(100-fresh)*80/100:
		m[lblRID] = rapid.SampledFrom(rolloutIDs).Draw(t, l+"-rid-stale") // another (or the same) known id
	case k < fresh+(100-fresh)*92/100:
		m[lblRID] = "zzz"
	default:
		m[lblRID] = ""
	}
	_, hasRID := m[lblRID]
	pb := 8
	if hasRID {
		pb = 90
	}
	if rapid.IntRange(0, 99).Draw(t, l+"-bid-present") < pb {
		m[lblBID] = rapid.SampledFrom(batchIDValues(5)).Draw(t, l+"-bid")
	}
	switch k := rapid.IntRange(0, 9).Draw(t, l+"-noneed"); {
	case k < 6:
	case k < 9:
		m[lblNoNeed] = curID
	default:
		m[lblNoNeed] = "r0"
	}
}

func gRevLabels(t *rapid.T, l string, kind string, m map[string]string, r int) {
	switch kind {
	case kDeployment:
		// pod-template-hash is what kube-controller-manager computed (differs from the rollouts
		// controller's hash in general, equals it sometimes)
		if rapid.IntRange(0, 9).Draw(t, l+"-pth-eq") == 0 {
			m[lblPTH] = depRev[r]
		} else {
			m[lblPTH] = fmt.Sprintf("kcm%d", r)
		}
		switch k := rapid.IntRange(0, 9).Draw(t, l+"-crh"); {
		case k < 6: // not yet patched
		case k < 9:
			m[lblCRH] = depRev[r] // patched by an earlier pass
		default:
			m[lblCRH] = ""
		}
	case kCloneSet:
		switch k := rapid.IntRange(0, 19).Draw(t, l+"-crh"); {
		case k < 15:
			m[lblCRH] = wlName + "-" + shortHash[r]
		case k < 16:
			m[lblCRH] = shortHash[r]
		case k < 17:
			m[lblCRH] = ""
		case k < 18:
			m[lblCRH] = shortHash[r][4:] // a bare suffix: "consistent" by the repo's definition
		default: // absent
		}
		switch k := rapid.IntRange(0, 9).Draw(t, l+"-pth"); {
		case k < 5:
			m[lblPTH] = shortHash[r]
		case k < 6:
			m[lblPTH] = shortHash[(r+1)%3] // contradicting labels
		default:
		}
	default:
		if rapid.IntRange(0, 19).Draw(t, l+"-crh") < 19 {
			m[lblCRH] = wlName + "-" + shortHash[r]
		}
	}
}

func gPod(t *rapid.T, l string, kind string, curRev int, curID string, name string, fresh int) PodCase {
	p := PodCase{Name: name, Labels: map[string]string{}}
	if rapid.IntRange(0, 39).Draw(t, l+"-sel") > 0 {
		p.Labels["app"] = "demo"
	}
	r := curRev
	if rapid.IntRange(0, 99).Draw(t, l+"-rev-cur") >= 65 {
		r = rapid.IntRange(0, 2).Draw(t, l+"-rev")
	}
	gRevLabels(t, l, kind, p.Labels, r)
	switch k := rapid.IntRange(0, 39).Draw(t, l+"-owner"); {
	case k < 34:
		if kind == kDeployment {
			p.Owner = fmt.Sprintf("rs%d", r)
		} else {
			p.Owner = "wl"
		}
	case k < 36:
		p.Owner = "none"
	case k < 38:
		p.Owner = "foreign"
	default:
		p.Owner = "rs-gone"
	}
	gRolloutLabels(t, l, p.Labels, curID, fresh)
	p.Term = rapid.IntRange(0, 9).Draw(t, l+"-term") == 0
	switch rapid.IntRange(0, 29).Draw(t, l+"-phase") {
	case 0:
		p.Phase = "Succeeded"
	case 1:
		p.Phase = "Failed"
	default:
		p.Phase = "Running"
	}
	return p
}

func podName(kind string, i int) string {
	if kind == kStatefulSet {
		return fmt.Sprintf("%s-%d", wlName, i)
	}
	return fmt.Sprintf("%s-p%02d", wlName, i)
}

func gen(t *rapid.T) Case {
	c := Case{}
	c.Kind = rapid.SampledFrom([]string{kCloneSet, kCloneSet, kDeployment, kStatefulSet}).Draw(t, "kind")
	if rapid.Bool().Draw(t, "small") {
		c.Replicas = rapid.IntRange(1, 8).Draw(t, "replicas")
	} else {
		c.Replicas = rapid.IntRange(1, 40).Draw(t, "replicas")
	}
	c.Batches = gPlan(t, "plan", c.Replicas)
	c.RolloutID = rapid.SampledFrom(rolloutIDs).Draw(t, "rollout-id")
	if rapid.IntRange(0, 24).Draw(t, "rollout-id-empty") == 24 {
		c.RolloutID = "" // only a hand-made BatchRelease has none; the pass must then be a no-op
	}
	c.CurrentBatch = rapid.IntRange(0, len(c.Batches)-1).Draw(t, "current-batch")
	c.Rev = rapid.IntRange(0, 2).Draw(t, "rev")
	c.Rollback = c.Kind != kDeployment && rapid.IntRange(0, 9).Draw(t, "rollback") < 4
	c.ListSeed = uint32(rapid.IntRange(0, 7).Draw(t, "list-seed"))
	var np int
	switch rapid.IntRange(0, 3).Draw(t, "npods-kind") {
	case 0:
		np = rapid.IntRange(1, 6).Draw(t, "npods")
	case 1:
		np = 40 - rapid.IntRange(0, 40).Draw(t, "npods")
	default: // around the replica count, as a healthy workload has
		np = c.Replicas + rapid.IntRange(-2, 3).Draw(t, "npods-delta")
		if np < 0 {
			np = 0
		}
		if np > 40 {
			np = 40
		}
	}
	// share of pods without any rollout label: a mostly-fresh or a mostly-labelled world
	fresh := rapid.SampledFrom([]int{85, 60, 30}).Draw(t, "fresh")
	for i := 0; i < np; i++ {
		c.Pods = append(c.Pods, gPod(t, fmt.Sprintf("pod%d", i), c.Kind, c.Rev, c.RolloutID, podName(c.Kind, i), fresh))
	}
	na := rapid.IntRange(0, 8).Draw(t, "nactions")
	for i := 0; i < na; i++ {
		c.Actions = append(c.Actions, gAction(t, fmt.Sprintf("act%d", i), &c, np+i))
	}
	c.Actions = append(c.Actions, Action{Op: "patch", N: rapid.IntRange(-1, 1).Draw(t, "final-target")})
	for _, sig := range []string{sigOOR, sigHidden} {
		if excl(sig) {
			c.Steer = append(c.Steer, sig)
		}
	}
	return c
}

func gAction(t *rapid.T, l string, c *Case, serial int) Action {
	op := rapid.SampledFrom([]string{"patch", "patch", "patch", "patch", "raise", "raise", "setbatch", "editplan", "newid", "newrev",
		"scale", "rollback", "delete", "terminate", "recreate", "recreate", "add", "add", "relabel", "relabel", "relabel"}).Draw(t, l+"-op")
	a := Action{Op: op}
	switch op {
	case "patch":
		a.N = rapid.IntRange(-1, 1).Draw(t, l+"-target")
	case "setbatch":
		a.N = rapid.IntRange(0, 4).Draw(t, l+"-n")
	case "editplan":
		a.Batches = gPlan(t, l+"-plan", c.Replicas)
	case "newid":
		a.ID = rapid.SampledFrom(rolloutIDs).Draw(t, l+"-id")
	case "newrev":
		a.N = rapid.IntRange(0, 2).Draw(t, l+"-rev")
	case "scale":
		a.N = rapid.IntRange(1, 40).Draw(t, l+"-replicas")
	case "delete", "terminate", "recreate":
		a.Pod = rapid.IntRange(0, 63).Draw(t, l+"-pod")
	case "add":
		// the generator does not track rev / id changes made by earlier actions; drawing them again
		// here covers both "matches the current state" and "does not"
		rev := rapid.IntRange(0, 2).Draw(t, l+"-add-rev")
		id := rapid.SampledFrom(rolloutIDs).Draw(t, l+"-add-id")
		p := gPod(t, l+"-new", c.Kind, rev, id, podName(c.Kind, serial), 80)
		a.New = &p
	case "relabel":
		a.Pod = rapid.IntRange(0, 63).Draw(t, l+"-pod")
		a.Set = map[string]string{}
		if rapid.IntRange(0, 9).Draw(t, l+"-set-rid") < 7 {
			a.Set[lblRID] = rapid.SampledFrom(append([]string{"zzz", ""}, rolloutIDs...)).Draw(t, l+"-rid")
		} else if rapid.Bool().Draw(t, l+"-del-rid") {
			a.Del = append(a.Del, lblRID)
		}
		if rapid.IntRange(0, 9).Draw(t, l+"-set-bid") < 7 {
			a.Set[lblBID] = rapid.SampledFrom(batchIDValues(5)).Draw(t, l+"-bid")
		} else if rapid.Bool().Draw(t, l+"-del-bid") {
			a.Del = append(a.Del, lblBID)
		}
		if rapid.IntRange(0, 9).Draw(t, l+"-set-noneed") < 2 {
			a.Set[lblNoNeed] = rapid.SampledFrom(rolloutIDs).Draw(t, l+"-noneed")
		}
	}
	return a
}

// ---------- world ----------

// cclient counts writes and returns pod lists in a deterministic, seed-dependent order.
type cclient struct {
	client.Client
	seed   uint32
	writes []string
}

func ordKey(seed uint32, name string) uint32 {
	h := fnv.New32a()
	_, _ = h.Write([]byte{byte(seed), byte(seed >> 8)})
	_, _ = h.Write([]byte(name))
	return h.Sum32()
}

func (c *cclient) List(ctx context.Context, list client.ObjectList, opts ...client.ListOption) error {
	if err := c.Client.List(ctx, list, opts...); err != nil {
		return err
	}
	if pl, ok := list.(*corev1.PodList); ok {
		sort.Slice(pl.Items, func(i, j int) bool {
			if c.seed == 0 {
				return pl.Items[i].Name < pl.Items[j].Name
			}
			a, b := ordKey(c.seed, pl.Items[i].Name), ordKey(c.seed, pl.Items[j].Name)
			if a != b {
				return a < b
			}
			return pl.Items[i].Name < pl.Items[j].Name
		})
	}
	return nil
}
func (c *cclient) Create(ctx context.Context, obj client.Object, opts ...client.CreateOption) error {
	c.writes = append(c.writes, "create "+obj.GetName())
	return c.Client.Create(ctx, obj, opts...)
}
func (c *cclient) Update(ctx context.Context, obj client.Object, opts ...client.UpdateOption) error {
	c.writes = append(c.writes, "update "+obj.GetName())
	return c.Client.Update(ctx, obj, opts...)
}
func (c *cclient) Delete(ctx context.Context, obj client.Object, opts ...client.DeleteOption) error {
	c.writes = append(c.writes, "delete "+obj.GetName())
	return c.Client.Delete(ctx, obj, opts...)
}
func (c *cclient) DeleteAllOf(ctx context.Context, obj client.Object, opts ...client.DeleteAllOfOption) error {
	c.writes = append(c.writes, "deleteAllOf")
	return c.Client.DeleteAllOf(ctx, obj, opts...)
}
func (c *cclient) Patch(ctx context.Context, obj client.Object, patch client.Patch, opts ...client.PatchOption) error {
	data, _ := patch.Data(obj)
	c.writes = append(c.writes, "patch "+obj.GetName()+" "+string(data))
	return c.Client.Patch(ctx, obj, patch, opts...)
}

type world struct {
	chk string
	t   vlib.TB
	c   *Case // the executed case (for vlib.Fail)
	raw client.Client
	cli *cclient

	kind      string
	replicas  int
	batches   []intstr.IntOrString
	rolloutID string
	cur       int
	rev       int
	rollback  bool

	sum summary
}

// summary is what a run reports back for statistics.
type summary struct {
	passes, patched, nonCanonical, neutralised, filtered, exceededBefore, budgetShort, podsShort, crhPatched int
	classes                                                                                                  map[string]bool
}

func (s *summary) class(c string) {
	if s.classes == nil {
		s.classes = map[string]bool{}
	}
	s.classes[c] = true
}

func mkPod(p PodCase) *corev1.Pod {
	pod := &corev1.Pod{ObjectMeta: metav1.ObjectMeta{Name: p.Name, Namespace: ns, Labels: map[string]string{}}}
	for k, v := range p.Labels {
		pod.Labels[k] = v
	}
	pod.Status.Phase = corev1.PodPhase(p.Phase)
	tr := true
	switch {
	case p.Owner == "wl":
		pod.OwnerReferences = []metav1.OwnerReference{{Name: wlName, UID: wlUID, Controller: &tr}} // kind filled by caller
	case strings.HasPrefix(p.Owner, "rs") && p.Owner != "rs-gone":
		r := int(p.Owner[2] - '0')
		pod.OwnerReferences = []metav1.OwnerReference{{APIVersion: "apps/v1", Kind: "ReplicaSet", Name: rsName(r), UID: types.UID(rsUID(r)), Controller: &tr}}
	case p.Owner == "rs-gone":
		pod.OwnerReferences = []metav1.OwnerReference{{APIVersion: "apps/v1", Kind: "ReplicaSet", Name: "demo-gone", UID: "gone-uid", Controller: &tr}}
	case p.Owner == "foreign":
		pod.OwnerReferences = []metav1.OwnerReference{{APIVersion: "apps.kruise.io/v1alpha1", Kind: "CloneSet", Name: "other", UID: "other-uid", Controller: &tr}}
	}
	if p.Term {
		ts := metav1.NewTime(time.Unix(1700000000, 0))
		pod.DeletionTimestamp = &ts
		pod.Finalizers = []string{"verif/hold"}
	}
	return pod
}

func (w *world) ownerKind() (apiVersion, kind string) {
	switch w.kind {
	case kCloneSet:
		return "apps.kruise.io/v1alpha1", "CloneSet"
	case kStatefulSet:
		return "apps/v1", "StatefulSet"
	}
	return "apps/v1", "Deployment"
}

func (w *world) newPod(p PodCase) *corev1.Pod {
	pod := mkPod(p)
	if p.Owner == "wl" {
		pod.OwnerReferences[0].APIVersion, pod.OwnerReferences[0].Kind = w.ownerKind()
	}
	return pod
}

func (w *world) workloadObject() client.Object {
	rep := int32(w.replicas)
	sel := &metav1.LabelSelector{MatchLabels: map[string]string{"app": "demo"}}
	om := metav1.ObjectMeta{Name: wlName, Namespace: ns, UID: wlUID}
	switch w.kind {
	case kCloneSet:
		return &kruiseappsv1alpha1.CloneSet{ObjectMeta: om,
			Spec:   kruiseappsv1alpha1.CloneSetSpec{Replicas: &rep, Selector: sel},
			Status: kruiseappsv1alpha1.CloneSetStatus{UpdateRevision: updateRevision(w.kind, w.rev)}}
	case kStatefulSet:
		return &appsv1.StatefulSet{ObjectMeta: om,
			Spec:   appsv1.StatefulSetSpec{Replicas: &rep, Selector: sel},
			Status: appsv1.StatefulSetStatus{UpdateRevision: updateRevision(w.kind, w.rev)}}
	}
	return &appsv1.Deployment{ObjectMeta: om, Spec: appsv1.DeploymentSpec{Replicas: &rep, Selector: sel, Template: depTemplate(w.rev)}}
}

func newWorld(t vlib.TB, chkName string, c *Case) *world {
	w := &world{chk: chkName, t: t, c: c, kind: c.Kind, replicas: c.Replicas, batches: c.Batches, rolloutID: c.RolloutID,
		cur: c.CurrentBatch, rev: c.Rev, rollback: c.Rollback}
	objs := []client.Object{w.workloadObject()}
	if w.kind == kDeployment {
		for r := 0; r < 3; r++ {
			objs = append(objs, mkRS(r))
		}
	}
	seen := map[string]bool{}
	for _, p := range c.Pods {
		if seen[p.Name] {
			continue
		}
		seen[p.Name] = true
		objs = append(objs, w.newPod(p))
	}
	w.raw = fake.NewClientBuilder().WithScheme(scheme).WithObjects(objs...).Build()
	w.cli = &cclient{Client: w.raw, seed: c.ListSeed}
	return w
}

func (w *world) harnessErr(err error, what string) {
	if err != nil {
		// a harness problem, never a finding
		w.t.Fatalf("[%s] HARNESS-ERROR %s: %v", w.chk, what, err)
	}
}

func (w *world) allPods() []corev1.Pod {
	pl := &corev1.PodList{}
	w.harnessErr(w.raw.List(context.TODO(), pl, client.InNamespace(ns)), "list pods")
	sort.Slice(pl.Items, func(i, j int) bool { return pl.Items[i].Name < pl.Items[j].Name })
	return pl.Items
}

func (w *world) pick(i int) *corev1.Pod {
	ps := w.allPods()
	if len(ps) == 0 {
		return nil
	}
	return &ps[i%len(ps)]
}

func (w *world) hardDelete(p *corev1.Pod) {
	if len(p.Finalizers) > 0 {
		p.Finalizers = nil
		w.harnessErr(w.raw.Update(context.TODO(), p), "strip finalizer")
		if !p.DeletionTimestamp.IsZero() {
			return // the fake store removed it
		}
	}
	w.harnessErr(client.IgnoreNotFound(w.raw.Delete(context.TODO(), p)), "delete pod")
}

func (w *world) updateWorkload() {
	old := w.workloadObject()
	w.harnessErr(w.raw.Get(context.TODO(), types.NamespacedName{Namespace: ns, Name: wlName}, old), "get workload")
	obj := w.workloadObject()
	obj.SetResourceVersion(old.GetResourceVersion())
	w.harnessErr(w.raw.Update(context.TODO(), obj), "update workload")
}

// recreate replaces p by a fresh, unlabelled pod of the update revision (same name for a StatefulSet).
func (w *world) recreate(p *corev1.Pod) {
	name := p.Name
	w.hardDelete(p)
	if w.kind != kStatefulSet {
		name = name + "x"
	}
	np := PodCase{Name: name, Labels: map[string]string{"app": "demo"}, Phase: "Running", Owner: "wl"}
	switch w.kind {
	case kDeployment:
		np.Owner = fmt.Sprintf("rs%d", w.rev)
		np.Labels[lblPTH] = fmt.Sprintf("kcm%d", w.rev)
	case kCloneSet:
		np.Labels[lblCRH] = wlName + "-" + shortHash[w.rev]
		np.Labels[lblPTH] = shortHash[w.rev]
	default:
		np.Labels[lblCRH] = wlName + "-" + shortHash[w.rev]
	}
	w.harnessErr(client.IgnoreAlreadyExists(w.raw.Create(context.TODO(), w.newPod(np))), "recreate pod")
}

func (w *world) apply(a Action) {
	switch a.Op {
	case "raise":
		if w.cur < len(w.batches)-1 {
			w.cur++
		}
	case "setbatch": // batchPartition moved / signalRecalculate: min(partition, len-1)
		w.cur = a.N
		if w.cur > len(w.batches)-1 {
			w.cur = len(w.batches) - 1
		}
	case "editplan": // release plan changed, same rollout-id: current batch bounded by the new plan
		if len(a.Batches) == 0 {
			return
		}
		w.batches = a.Batches
		if w.cur > len(w.batches)-1 {
			w.cur = len(w.batches) - 1
		}
	case "newid": // a new release: labelling restarts from batch 0
		if a.ID != "" && a.ID != w.rolloutID {
			w.rolloutID = a.ID
			w.cur = 0
		}
	case "newrev":
		w.rev = ((a.N % 3) + 3) % 3
		w.updateWorkload()
	case "scale":
		if a.N >= 1 {
			w.replicas = a.N
			w.updateWorkload()
		}
	case "rollback":
		if w.kind != kDeployment {
			w.rollback = !w.rollback
		}
	case "delete":
		if p := w.pick(a.Pod); p != nil {
			w.hardDelete(p)
		}
	case "terminate":
		if p := w.pick(a.Pod); p != nil && p.DeletionTimestamp.IsZero() {
			p.Finalizers = []string{"verif/hold"}
			w.harnessErr(w.raw.Update(context.TODO(), p), "add finalizer")
			w.harnessErr(w.raw.Delete(context.TODO(), p), "terminate pod")
		}
	case "update": // the workload controller replaces N live old-revision pods by fresh update-revision pods
		n := a.N
		for _, p := range w.allPods() {
			if n <= 0 {
				break
			}
			pod := p
			s := snap{labels: p.Labels, owner: metav1.GetControllerOf(&pod)}
			if !p.DeletionTimestamp.IsZero() || w.consistent(s) {
				continue
			}
			w.recreate(&pod)
			n--
		}
	case "recreate": // the workload controller replaces the pod by a fresh one of the update revision
		if p := w.pick(a.Pod); p != nil {
			w.recreate(p)
		}
	case "add":
		if a.New != nil {
			w.harnessErr(client.IgnoreAlreadyExists(w.raw.Create(context.TODO(), w.newPod(*a.New))), "add pod")
		}
	case "relabel":
		if p := w.pick(a.Pod); p != nil {
			if p.Labels == nil {
				p.Labels = map[string]string{}
			}
			for k, v := range a.Set {
				p.Labels[k] = v
			}
			for _, k := range a.Del {
				delete(p.Labels, k)
			}
			w.harnessErr(w.raw.Update(context.TODO(), p), "relabel pod")
		}
	}
}

// ---------- reference model ----------

// scaled is the reference for intstr.GetScaledValueFromIntOrPercent(.., roundUp=true) with the
// error ignored (callers ignore it: a malformed value counts as 0).
func scaled(b intstr.IntOrString, total int) int {
	if b.Type == intstr.Int {
		return int(b.IntVal)
	}
	s := b.StrVal
	if !strings.HasSuffix(s, "%") {
		return 0
	}
	v, err := strconv.Atoi(strings.TrimSuffix(s, "%"))
	if err != nil {
		return 0
	}
	n := v * total
	if n >= 0 {
		return (n + 99) / 100
	}
	return -((-n) / 100)
}

// target is the number of updated pods batch i (0-based) of the plan asks for.
func target(b intstr.IntOrString, replicas int) int {
	v := scaled(b, replicas)
	if v > replicas {
		v = replicas
	}
	if v < 0 {
		v = 0
	}
	return v
}

// increments: how many pods batch i adds under the plan, for the batches released so far.
func increments(batches []intstr.IntOrString, replicas, cur int) []int {
	inc := make([]int, len(batches))
	prev := 0
	for i := 0; i <= cur && i < len(batches); i++ {
		tg := target(batches[i], replicas)
		inc[i] = tg - prev
		prev = tg
	}
	return inc
}

type snap struct {
	labels map[string]string
	term   bool
	owner  *metav1.OwnerReference
}

func (w *world) snapshot() map[string]snap {
	out := map[string]snap{}
	for _, p := range w.allPods() {
		l := map[string]string{}
		for k, v := range p.Labels {
			l[k] = v
		}
		out[p.Name] = snap{labels: l, term: !p.DeletionTimestamp.IsZero(), owner: metav1.GetControllerOf(&p)}
	}
	return out
}

// consistent: the pod belongs to the update revision, by the repo's definition (a non-empty
// pod-template-hash or controller-revision-hash label that is a suffix of the update revision),
// where a pod of a stored ReplicaSet without controller-revision-hash counts with the revision of
// that ReplicaSet's template.
func (w *world) consistent(s snap) bool {
	rev := updateRevision(w.kind, w.rev)
	crh := s.labels[lblCRH]
	if crh == "" && s.owner != nil && s.owner.Kind == "ReplicaSet" {
		for r := 0; r < 3; r++ {
			if s.owner.Name == rsName(r) {
				crh = depRev[r]
			}
		}
	}
	if v := s.labels[lblPTH]; v != "" && strings.HasSuffix(rev, v) {
		return true
	}
	return crh != "" && strings.HasSuffix(rev, crh)
}

func canonicalBatch(v string, n int) (int, bool) {
	i, err := strconv.Atoi(v)
	if err != nil || i < 1 || i > n || strconv.Itoa(i) != v {
		return 0, false
	}
	return i, true
}

func names(m map[string]bool) []string {
	var out []string
	for k := range m {
		out = append(out, k)
	}
	sort.Strings(out)
	return out
}

// ---------- one labelling pass the way the control plane performs it ----------

type passInfo struct {
	ctx      *batchcontext.BatchContext
	owned    map[string]bool
	visible  map[string]bool // what the patcher iterates over (after the caller-installed filter)
	filtered bool
	err      error
}

func (w *world) buildContext() *passInfo {
	pi := &passInfo{owned: map[string]bool{}, visible: map[string]bool{}}
	obj := w.workloadObject()
	w.harnessErr(w.cli.Get(context.TODO(), types.NamespacedName{Namespace: ns, Name: wlName}, obj), "get workload")
	pods, err := util.ListOwnedPods(w.cli, obj)
	w.harnessErr(err, "ListOwnedPods")
	for _, p := range pods {
		pi.owned[p.Name] = true
		pi.visible[p.Name] = true
	}
	release := &v1beta1.BatchRelease{}
	for _, b := range w.batches {
		release.Spec.ReleasePlan.Batches = append(release.Spec.ReleasePlan.Batches, v1beta1.ReleaseBatch{CanaryReplicas: b})
	}
	rev := updateRevision(w.kind, w.rev)
	replicas := int32(w.replicas)
	cur := int32(w.cur)

	// control_plane.go:countAndUpdateNoNeedUpdateReplicas
	var noNeed *int32
	if w.rollback && w.kind != kDeployment {
		n := int32(0)
		for _, pod := range pods {
			if !pod.DeletionTimestamp.IsZero() || !util.IsConsistentWithRevision(pod.GetLabels(), rev) {
				continue
			}
			if id, ok := pod.Labels[lblNoNeed]; ok && id == w.rolloutID {
				n++
			}
		}
		noNeed = &n
	}

	ctx := &batchcontext.BatchContext{Pods: pods, RolloutID: w.rolloutID, CurrentBatch: cur, UpdateRevision: rev, Replicas: replicas}
	switch w.kind {
	case kDeployment: // partitionstyle/deployment/control.go
		desiredPartition := w.batches[w.cur]
		planned := deploymentutil.NewRSReplicasLimit(desiredPartition, obj.(*appsv1.Deployment))
		ctx.DesiredPartition = desiredPartition
		ctx.PlannedUpdatedReplicas, ctx.DesiredUpdatedReplicas = planned, planned
	default: // partitionstyle/{cloneset,statefulset}/control.go
		plannedUpdate := int32(control.CalculateBatchReplicas(release, int(replicas), int(cur)))
		desiredUpdate := plannedUpdate
		desiredStable := replicas - desiredUpdate
		if noNeed != nil && *noNeed > 0 {
			desiredUpdateNew := int32(control.CalculateBatchReplicas(release, int(replicas-*noNeed), int(cur)))
			desiredStable = replicas - *noNeed - desiredUpdateNew
			desiredUpdate = replicas - desiredStable
		}
		if w.kind == kStatefulSet { // native StatefulSet: ordered update
			if noNeed != nil {
				desiredStable += *noNeed
				desiredUpdate = replicas - desiredStable + *noNeed
			}
			ctx.DesiredPartition = intstr.FromInt(int(desiredStable))
		} else {
			ctx.DesiredPartition = intstr.FromInt(int(desiredStable))
			if bp := w.batches[w.cur]; bp.Type == intstr.String {
				ctx.DesiredPartition = control.ParseIntegerAsPercentageIfPossible(desiredStable, replicas, &bp)
			}
		}
		ctx.NoNeedUpdatedReplicas = noNeed
		ctx.PlannedUpdatedReplicas, ctx.DesiredUpdatedReplicas = plannedUpdate, desiredUpdate
		if noNeed != nil {
			real := labelpatch.FilterPodsForUnorderedUpdate
			if w.kind == kStatefulSet {
				real = labelpatch.FilterPodsForOrderedUpdate
			}
			pi.filtered = true
			ctx.FilterFunc = func(ps []*corev1.Pod, bc *batchcontext.BatchContext) []*corev1.Pod {
				out := real(ps, bc) // the real filter; the harness only observes its result
				pi.visible = map[string]bool{}
				for _, p := range out {
					pi.visible[p.Name] = true
				}
				return out
			}
		}
	}
	pi.ctx = ctx
	return pi
}

func (w *world) fail(sig, format string, args ...any) {
	vlib.Fail(w.t, w.chk, sig, w.c, format, args...)
}

// neutralise repairs the input class of the known finding sigOOR: a live, owned, revision-consistent
// pod with the current rollout-id and a numeric batch-id outside 1..len(batches).
func (w *world) neutralise() {
	hit := false
	for _, p := range w.allPods() {
		s := snap{labels: p.Labels, term: !p.DeletionTimestamp.IsZero(), owner: metav1.GetControllerOf(&p)}
		if s.term || s.labels[lblRID] != w.rolloutID || !w.consistent(s) {
			continue
		}
		v, err := strconv.Atoi(s.labels[lblBID])
		if err != nil || (v >= 1 && v <= len(w.batches)) {
			continue
		}
		pod := p
		delete(pod.Labels, lblBID)
		w.harnessErr(w.raw.Update(context.TODO(), &pod), "neutralise")
		hit = true
	}
	if hit {
		vlib.Excluded(w.chk, sigOOR)
		w.sum.neutralised++
	}
}

var trace = os.Getenv("VERIF_TRACE") != ""

func (w *world) releaseBatches() []v1beta1.ReleaseBatch {
	var out []v1beta1.ReleaseBatch
	for _, b := range w.batches {
		out = append(out, v1beta1.ReleaseBatch{CanaryReplicas: b})
	}
	return out
}

func (w *world) runPatcher(pi *passInfo) (panicked bool, msg string) {
	patcher := labelpatch.NewLabelPatcher(w.cli, klog.ObjectRef{Namespace: ns, Name: "release"}, w.releaseBatches())
	w.cli.writes = nil
	return vlib.Guard(func() { pi.err = patcher.PatchPodBatchLabel(pi.ctx) })
}

// hazard: the before-state contains the input class of sigOOR.
func (w *world) hazard(before map[string]snap, pi *passInfo) []string {
	var out []string
	for name, s := range before {
		if s.term || !pi.owned[name] || s.labels[lblRID] != w.rolloutID || !w.consistent(s) {
			continue
		}
		if v, err := strconv.Atoi(s.labels[lblBID]); err == nil && (v < 1 || v > len(w.batches)) {
			out = append(out, fmt.Sprintf("%s(batch-id %q)", name, s.labels[lblBID]))
		}
	}
	sort.Strings(out)
	return out
}

// hiddenLabelled: live update-revision pods of the workload that carry the current rollout-id but
// are withheld from the patcher by the caller-installed filter (the input class of sigHidden).
func (w *world) hiddenLabelled(before map[string]snap, pi *passInfo) []string {
	var out []string
	for name, s := range before {
		if !s.term && pi.owned[name] && !pi.visible[name] && s.labels[lblRID] == w.rolloutID && w.consistent(s) {
			out = append(out, fmt.Sprintf("%s(batch-id %q)", name, s.labels[lblBID]))
		}
	}
	sort.Strings(out)
	return out
}

// neutraliseHidden repairs the input class of sigHidden: the real filter is run once on a fresh
// context; labelled pods it withholds lose their rollout-id label (which pods the ordered filter
// withholds does not depend on that label, so the repair is stable).
func (w *world) neutraliseHidden() {
	// (the listed finding is about the ORDERED filter of StatefulSet-like workloads; the unordered
	// filter never withholds a pod already labelled for this release, so nothing is repaired there
	// and a change that makes it do so is reported)
	if w.rolloutID == "" || !w.rollback || w.kind != kStatefulSet {
		return
	}
	pi := w.buildContext()
	if pi.ctx.FilterFunc == nil || len(pi.ctx.Pods) == 0 {
		return
	}
	pi.ctx.FilterFunc(pi.ctx.Pods, pi.ctx)
	hit := false
	for _, p := range w.allPods() {
		s := snap{labels: p.Labels, term: !p.DeletionTimestamp.IsZero(), owner: metav1.GetControllerOf(&p)}
		if s.term || !pi.owned[p.Name] || pi.visible[p.Name] || s.labels[lblRID] != w.rolloutID || !w.consistent(s) {
			continue
		}
		pod := p
		delete(pod.Labels, lblRID)
		w.harnessErr(w.raw.Update(context.TODO(), &pod), "neutraliseHidden")
		hit = true
	}
	if hit {
		vlib.Excluded(w.chk, sigHidden)
		w.sum.neutralised++
	}
}

func (w *world) steers(sig string) bool {
	for _, s := range w.c.Steer {
		if s == sig {
			return true
		}
	}
	return false
}

func (w *world) pass(targetDelta int) {
	if w.steers(sigOOR) {
		w.neutralise()
	}
	if w.steers(sigHidden) {
		w.neutraliseHidden()
	}
	w.sum.passes++
	nb := len(w.batches)
	before := w.snapshot()
	pi := w.buildContext()
	inc := increments(w.batches, w.replicas, w.cur)

	for name, s := range before {
		if !pi.owned[name] {
			continue
		}
		if rid, ok := s.labels[lblRID]; ok {
			_, canon := canonicalBatch(s.labels[lblBID], nb)
			if rid != w.rolloutID || !canon {
				w.sum.nonCanonical++
			}
			if rid == w.rolloutID && !canon {
				w.sum.class("cur-id+batch-id=" + fmt.Sprintf("%q", s.labels[lblBID]))
			}
		}
	}
	if pi.filtered {
		w.sum.filtered++
	}

	// ---- (5) the pass returns, whatever the label values
	if p, msg := w.runPatcher(pi); p {
		if hz := w.hazard(before, pi); len(hz) > 0 && strings.Contains(msg, "index out of range") {
			w.fail(sigOOR, "PatchPodBatchLabel panicked: %d batches, current batch index %d, rollout-id %q, pods carrying that rollout-id with an out-of-range batch-id: %v\n%s",
				nb, w.cur, w.rolloutID, hz, msg)
		}
		w.fail("c12-patch-panic", "PatchPodBatchLabel panicked (batches=%d current=%d): %s", nb, w.cur, msg)
	}
	if pi.err != nil {
		w.fail("c12-patch-error", "PatchPodBatchLabel returned an error although the store is healthy: %v", pi.err)
	}
	writes1 := append([]string(nil), w.cli.writes...)
	after := w.snapshot()
	if trace {
		fmt.Printf("TRACE pass %d: kind=%s replicas=%d batches=%v cur=%d id=%q rev=%s inc=%v\n  ctx=%s\n", w.sum.passes, w.kind, w.replicas, w.batches, w.cur, w.rolloutID, updateRevision(w.kind, w.rev), inc, pi.ctx.Log())
		var ns []string
		for n := range before {
			ns = append(ns, n)
		}
		sort.Strings(ns)
		for _, n := range ns {
			b := before[n]
			fmt.Printf("  %-10s owned=%-5v visible=%-5v term=%-5v consistent=%-5v rid=%q bid=%q noneed=%q -> rid=%q bid=%q\n", n, pi.owned[n], pi.visible[n], b.term, w.consistent(b),
				b.labels[lblRID], b.labels[lblBID], b.labels[lblNoNeed], after[n].labels[lblRID], after[n].labels[lblBID])
		}
		fmt.Printf("  writes=%v\n", writes1)
	}

	if w.rolloutID == "" {
		if len(writes1) > 0 {
			w.fail("c12-wrote-without-rollout-id", "rollout-id is empty but the pass wrote: %v", writes1)
		}
	}

	// ---- the pass neither creates nor deletes pods, and touches only the labels it owns
	if len(before) != len(after) {
		w.fail("c12-pod-set-changed", "pods before %d, after %d", len(before), len(after))
	}
	gained := map[string]bool{}
	for name, b := range before {
		a, ok := after[name]
		if !ok {
			w.fail("c12-pod-set-changed", "pod %s disappeared", name)
		}
		keys := map[string]bool{}
		for k := range b.labels {
			keys[k] = true
		}
		for k := range a.labels {
			keys[k] = true
		}
		for _, k := range names(keys) {
			bv, bok := b.labels[k]
			av, aok := a.labels[k]
			if bv == av && bok == aok {
				continue
			}
			switch k {
			case lblRID, lblBID:
				gained[name] = true
			case lblCRH:
				want := ""
				if b.owner != nil && b.owner.Kind == "ReplicaSet" {
					for r := 0; r < 3; r++ {
						if b.owner.Name == rsName(r) {
							want = depRev[r]
						}
					}
				}
				if bv != "" || !pi.owned[name] || want == "" || av != want {
					w.fail("c12-revision-label-changed", "pod %s: %s changed %q -> %q (owner %v)", name, k, bv, av, b.owner)
				}
				w.sum.crhPatched++
			default:
				w.fail("c12-foreign-label-changed", "pod %s: label %s changed %q(%v) -> %q(%v)", name, k, bv, bok, av, aok)
			}
		}
	}

	// ---- (1) only live pods of the update revision gain labels; (3) labelled pods are never relabelled
	for _, name := range names(gained) {
		b, a := before[name], after[name]
		if rid, ok := b.labels[lblRID]; ok && rid == w.rolloutID {
			w.fail("c12-relabelled-current-pod", "pod %s already carried rollout-id %q (batch-id %q) and was relabelled to (%q,%q)",
				name, rid, b.labels[lblBID], a.labels[lblRID], a.labels[lblBID])
		}
		if b.term {
			w.fail("c12-labelled-terminating-pod", "terminating pod %s was labelled (%q,%q)", name, a.labels[lblRID], a.labels[lblBID])
		}
		if !pi.owned[name] {
			w.fail("c12-labelled-unowned-pod", "pod %s is not owned by the workload but was labelled", name)
		}
		if !w.consistent(b) {
			w.fail("c12-labelled-old-revision-pod", "pod %s (labels %v) is not of update revision %s but was labelled (%q,%q)",
				name, b.labels, updateRevision(w.kind, w.rev), a.labels[lblRID], a.labels[lblBID])
		}
		if a.labels[lblRID] != w.rolloutID {
			w.fail("c12-wrong-rollout-id-written", "pod %s got rollout-id %q, release has %q", name, a.labels[lblRID], w.rolloutID)
		}
		if i, ok := canonicalBatch(a.labels[lblBID], nb); !ok || i > w.cur+1 {
			w.fail("c12-wrong-batch-id-written", "pod %s got batch-id %q; plan has %d batches, current batch index %d", name, a.labels[lblBID], nb, w.cur)
		}
	}
	w.sum.patched += len(gained)

	// ---- (2) per batch-id value: the number of live update-revision pods of the workload carrying
	// (rollout-id, value) does not exceed the batch's increment, unless it already did and did not grow
	count := func(m map[string]snap) map[string]int {
		out := map[string]int{}
		for name, s := range m {
			if s.term || !pi.owned[name] || !w.consistent(before[name]) {
				continue
			}
			if rid, ok := s.labels[lblRID]; ok && rid == w.rolloutID {
				if v, ok := s.labels[lblBID]; ok {
					out[v]++
				}
			}
		}
		return out
	}
	cb, ca := count(before), count(after)
	vals := map[string]bool{}
	for v := range ca {
		vals[v] = true
	}
	for _, v := range names(vals) {
		allowed := 0
		if i, ok := canonicalBatch(v, nb); ok {
			allowed = inc[i-1]
		}
		if cb[v] > allowed {
			w.sum.exceededBefore++
		}
		if ca[v] > allowed && ca[v] > cb[v] {
			if hl := w.hiddenLabelled(before, pi); len(hl) > 0 && w.kind == kStatefulSet {
				w.fail(sigHidden, "batch-id %q: %d live update-revision pods carry (%q,%q) after the pass, %d before; the plan %v with %d replicas adds %d pods in that batch (current batch index %d). Pods already labelled for this release but withheld from the patcher by the %s filter (not counted against the budget): %v",
					v, ca[v], w.rolloutID, v, cb[v], w.batches, w.replicas, allowed, w.cur, w.kind, hl)
			}
			w.fail("c12-batch-overfilled", "batch-id %q: %d live update-revision pods carry (%q,%q) after the pass, %d before; the plan %v with %d replicas adds %d pods in that batch (current batch index %d)",
				v, ca[v], w.rolloutID, v, cb[v], w.batches, w.replicas, allowed, w.cur)
		}
	}

	// ---- (7) progress: unlabelled update-revision pods receive labels while budget remains
	if w.rolloutID != "" {
		unl := 0
		have := make([]int, nb)
		for name, s := range before {
			if s.term || !pi.owned[name] || !w.consistent(s) {
				continue
			}
			if rid, ok := s.labels[lblRID]; !ok || rid != w.rolloutID {
				if pi.visible[name] {
					unl++
				}
				continue
			}
			if v, err := strconv.Atoi(s.labels[lblBID]); err == nil && v >= 1 && v <= nb {
				have[v-1]++
			}
		}
		budget := 0
		for i := 0; i <= w.cur; i++ {
			if d := inc[i] - have[i]; d > 0 {
				budget += d
			}
		}
		want := unl
		if budget < want {
			want = budget
			w.sum.budgetShort++
		} else if unl < budget {
			w.sum.podsShort++
		}
		if len(gained) != want {
			w.fail("c12-progress-mismatch", "%d pods were labelled; %d unlabelled live update-revision pods were handed to the patcher and the remaining budget of batches 1..%d is %d (increments %v, already labelled %v)",
				len(gained), unl, w.cur+1, budget, inc, have)
		}
	}

	// ---- exactness on an undisturbed rollout walk: every released batch is labelled exactly
	if w.c.Exact {
		for i := 0; i <= w.cur; i++ {
			if got := ca[strconv.Itoa(i+1)]; got != inc[i] {
				w.fail("c12-walk-batch-not-exact", "after the pass of batch %d: %d live update-revision pods carry (%q,%q), the plan %v with %d replicas adds %d in that batch (all counts %v, increments %v)",
					w.cur+1, got, w.rolloutID, strconv.Itoa(i+1), w.batches, w.replicas, inc[i], ca, inc)
			}
		}
	}

	// ---- (4) an immediate second pass changes nothing and writes nothing
	pi2 := w.buildContext()
	if p, msg := w.runPatcher(pi2); p {
		w.fail("c12-second-pass-panic", "second pass panicked: %s", msg)
	}
	if pi2.err != nil {
		w.fail("c12-patch-error", "second pass returned an error although the store is healthy: %v", pi2.err)
	}
	after2 := w.snapshot()
	for name, a := range after {
		a2 := after2[name]
		if fmt.Sprint(a.labels) != fmt.Sprint(a2.labels) {
			w.fail("c12-second-pass-changed-labels", "pod %s: labels after first pass %v, after second pass %v (second-pass writes: %v)", name, a.labels, a2.labels, w.cli.writes)
		}
	}
	if len(w.cli.writes) > 0 {
		w.fail("c12-second-pass-wrote", "second pass wrote %v", w.cli.writes)
	}

	// ---- (6) the readiness test counts exactly the live pods carrying the current rollout-id
	pi3 := w.buildContext()
	live := 0
	for _, p := range pi3.ctx.Pods {
		if p.DeletionTimestamp.IsZero() {
			if rid, ok := p.Labels[lblRID]; (ok && rid == w.rolloutID) || (!ok && w.rolloutID == "") {
				live++
			}
		}
	}
	targets := []int32{int32(maxInt(live+targetDelta, 0)), pi3.ctx.PlannedUpdatedReplicas}
	for _, tg := range targets {
		bc := &batchcontext.BatchContext{RolloutID: w.rolloutID, Pods: pi3.ctx.Pods, PlannedUpdatedReplicas: tg, Replicas: int32(w.replicas)}
		var rerr error
		if p, msg := vlib.Guard(func() { rerr = bc.IsBatchReady() }); p {
			w.fail("c12-isbatchready-panic", "IsBatchReady panicked: %s", msg)
		}
		want := w.rolloutID == "" || len(pi3.ctx.Pods) == 0 || live >= int(tg)
		if (rerr == nil) != want {
			w.fail("c12-ready-count-wrong", "IsBatchReady=%v with %d live pods carrying rollout-id %q of %d owned pods and target %d; expected satisfied=%v",
				rerr, live, w.rolloutID, len(pi3.ctx.Pods), tg, want)
		}
		if want {
			w.sum.class("ready=true")
		} else {
			w.sum.class("ready=false")
		}
	}
}

// ---------- run ----------

func run(t vlib.TB, chkName string, c Case) summary {
	cc := c
	w := newWorld(t, chkName, &cc)
	for _, a := range c.Actions {
		if a.Op == "patch" {
			w.pass(a.N)
		} else {
			w.apply(a)
		}
	}
	return w.sum
}

func js(v any) string {
	b, _ := json.Marshal(v)
	return string(b)
}

func TestC12LabelPatch(t *testing.T) {
	var rc Case
	if ok, _ := vlib.LoadReplay(chk, &rc); ok {
		run(t, chk, rc)
		return
	}
	rapid.Check(t, func(t *rapid.T) {
		c := gen(t)
		s := run(t, chk, c)
		cls := []string{"kind=" + c.Kind, fmt.Sprintf("batches=%d", len(c.Batches))}
		if c.RolloutID == "" {
			cls = append(cls, "rollout-id-empty")
		}
		add := func(cond bool, name string) {
			if cond {
				cls = append(cls, name)
			}
		}
		add(s.patched > 0, "patched>=1")
		add(s.nonCanonical > 0, "pre-existing-noncanonical")
		add(s.neutralised > 0, "known-finding-steered")
		add(s.filtered > 0, "filter="+map[string]string{kCloneSet: "unordered", kStatefulSet: "ordered"}[c.Kind])
		add(s.exceededBefore > 0, "batch-exceeded-before-pass")
		add(s.budgetShort > 0, "more-pods-than-budget")
		add(s.podsShort > 0, "more-budget-than-pods")
		add(s.crhPatched > 0, "revision-hash-patched")
		add(s.passes > 1, "passes>=2")
		add(len(c.Pods) == 0, "no-pods")
		for _, a := range c.Actions {
			if a.Op != "patch" {
				cls = append(cls, "op="+a.Op)
			}
		}
		cls = append(cls, names(s.classes)...)
		vlib.Record(chk, js(c), s.patched > 0 && s.nonCanonical > 0, dedup(cls), func() any { return c })
	})
}

func dedup(in []string) []string {
	seen := map[string]bool{}
	var out []string
	for _, s := range in {
		if !seen[s] {
			seen[s] = true
			out = append(out, s)
		}
	}
	return out
}

// ---------- second sub-check: an undisturbed rollout, batch by batch ----------

const chkWalk = "c12-rollout-walk"

// genWalk builds a rollout as it normally proceeds: all pods start on the old revision without
// labels; for every batch the workload controller replaces as many old pods as the plan adds, pods
// (old or new) may additionally be recreated, then the labelling pass runs and the batch is raised.
// The number of live update-revision pods is therefore never below the plan's target, and every
// released batch must be labelled exactly (Case.Exact).
func genWalk(t *rapid.T) Case {
	c := Case{Exact: true}
	c.Kind = rapid.SampledFrom([]string{kCloneSet, kDeployment, kStatefulSet}).Draw(t, "kind")
	if rapid.Bool().Draw(t, "small") {
		c.Replicas = rapid.IntRange(1, 8).Draw(t, "replicas")
	} else {
		c.Replicas = rapid.IntRange(1, 40).Draw(t, "replicas")
	}
	nb := rapid.IntRange(1, 5).Draw(t, "plan-n")
	pct := rapid.Bool().Draw(t, "plan-pct")
	lo := 0
	for i := 0; i < nb; i++ {
		var b intstr.IntOrString
		if pct {
			v := rapid.IntRange(lo, 100).Draw(t, fmt.Sprintf("plan-%d", i))
			b, lo = intstr.FromString(fmt.Sprintf("%d%%", v)), v
		} else {
			v := rapid.IntRange(lo, c.Replicas).Draw(t, fmt.Sprintf("plan-%d", i))
			b, lo = intstr.FromInt(v), v
		}
		c.Batches = append(c.Batches, b)
	}
	c.RolloutID = rapid.SampledFrom(rolloutIDs).Draw(t, "rollout-id")
	c.Rev = rapid.IntRange(0, 2).Draw(t, "rev")
	c.ListSeed = uint32(rapid.IntRange(0, 7).Draw(t, "list-seed"))
	old := (c.Rev + 1 + rapid.IntRange(0, 1).Draw(t, "old-rev")) % 3
	for i := 0; i < c.Replicas; i++ {
		p := PodCase{Name: podName(c.Kind, i), Labels: map[string]string{"app": "demo"}, Phase: "Running", Owner: "wl"}
		switch c.Kind {
		case kDeployment:
			p.Owner = fmt.Sprintf("rs%d", old)
			p.Labels[lblPTH] = fmt.Sprintf("kcm%d", old)
			if rapid.Bool().Draw(t, fmt.Sprintf("pod%d-crh", i)) {
				p.Labels[lblCRH] = depRev[old]
			}
		case kCloneSet:
			p.Labels[lblCRH] = wlName + "-" + shortHash[old]
			p.Labels[lblPTH] = shortHash[old]
		default:
			p.Labels[lblCRH] = wlName + "-" + shortHash[old]
		}
		// leftovers of the previous release of the same workload
		if rapid.IntRange(0, 3).Draw(t, fmt.Sprintf("pod%d-stale", i)) == 0 {
			p.Labels[lblRID] = "r0"
			p.Labels[lblBID] = rapid.SampledFrom([]string{"1", "2", "5"}).Draw(t, fmt.Sprintf("pod%d-stale-bid", i))
		}
		c.Pods = append(c.Pods, p)
	}
	last := rapid.IntRange(0, nb-1).Draw(t, "last-batch")
	prev := 0
	for b := 0; b <= last; b++ {
		tg := target(c.Batches[b], c.Replicas)
		if tg > prev {
			c.Actions = append(c.Actions, Action{Op: "update", N: tg - prev})
			prev = tg
		}
		for k, n := 0, rapid.IntRange(0, 2).Draw(t, fmt.Sprintf("b%d-chaos", b)); k < n; k++ {
			c.Actions = append(c.Actions, Action{Op: "recreate", Pod: rapid.IntRange(0, 63).Draw(t, fmt.Sprintf("b%d-chaos%d", b, k))})
		}
		c.Actions = append(c.Actions, Action{Op: "patch", N: rapid.IntRange(-1, 1).Draw(t, fmt.Sprintf("b%d-target", b))})
		if rapid.IntRange(0, 4).Draw(t, fmt.Sprintf("b%d-again", b)) == 0 { // another reconcile of the same batch
			c.Actions = append(c.Actions, Action{Op: "patch"})
		}
		if b < last {
			c.Actions = append(c.Actions, Action{Op: "raise"})
		}
	}
	return c
}

func TestC12RolloutWalk(t *testing.T) {
	var rc Case
	if ok, _ := vlib.LoadReplay(chkWalk, &rc); ok {
		run(t, chkWalk, rc)
		return
	}
	rapid.Check(t, func(t *rapid.T) {
		c := genWalk(t)
		s := run(t, chkWalk, c)
		chaos := 0
		for _, a := range c.Actions {
			if a.Op == "recreate" {
				chaos++
			}
		}
		cls := []string{"kind=" + c.Kind, fmt.Sprintf("batches=%d", len(c.Batches)), fmt.Sprintf("passes=%d", s.passes)}
		if chaos > 0 {
			cls = append(cls, "pods-recreated")
		}
		if s.patched > 0 {
			cls = append(cls, "patched>=1")
		}
		if s.crhPatched > 0 {
			cls = append(cls, "revision-hash-patched")
		}
		if s.nonCanonical > 0 {
			cls = append(cls, "stale-labels-present")
		}
		vlib.Record(chkWalk, js(c), s.passes >= 2 && s.patched > 0 && chaos > 0, cls, func() any { return c })
	})
}
