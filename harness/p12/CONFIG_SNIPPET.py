{
    "level": "exploration",
    "engine": "E2",
    "technique": "property-based testing (rapid): generated pod worlds and stateful action sequences against the real label patcher, reference-arithmetic and invariant oracles",
    "level_text": ("Generated-input search: tens of thousands of pod sets (0..40 pods; revision labels, owners, terminating/completed pods, "
                   "pre-existing rollout-id / batch-id / no-need-update values including stale, foreign, empty, non-numeric and out-of-range ones) "
                   "with release plans of 1..5 int/percent batches are driven through sequences of labelling passes interleaved with pod recreation, "
                   "deletion, user relabelling, batch raise, plan edit, scaling, new rollout-id and new revision. Every pass runs the real "
                   "labelpatch.PatchPodBatchLabel (with the real ordered/unordered filters installed the way the callers install them) and the real "
                   "BatchContext.IsBatchReady against a controller-runtime fake client; the labels in the store are compared with a reference "
                   "model after each pass. The labeller is a function of a pod list and a small context, so input generation with explicit oracles "
                   "is the fitting level; absence of defects is not established."),
    "level_note": ("Trusted: the harness's reference arithmetic for per-batch increments (ceil of percent, clamp to 0..replicas, difference of "
                   "consecutive targets), its definition of 'pod of the update revision' (non-empty pod-template-hash or controller-revision-hash "
                   "that is a suffix of the update revision; ReplicaSet pods without controller-revision-hash count with their ReplicaSet's "
                   "template revision) and the mirror of the callers' BatchContext construction (util.ListOwnedPods, control.CalculateBatchReplicas, "
                   "deploymentutil.NewRSReplicasLimit, no-need-update recount). The controller-runtime fake client stands in for the API server."),
    "rule": ("rapid generators: workload kind (CloneSet / Deployment with 3 stored ReplicaSets / native StatefulSet with ordinal names), replicas 1..40, "
             "plan styles int / percent / mixed / wild (negative, >100%, malformed), current batch, update revision 0..2, rollback flag (installs "
             "FilterPodsForUnorderedUpdate / FilterPodsForOrderedUpdate), List order seed, per-pod labels/owner/terminating/phase, 0..8 actions "
             "(patch, raise, setbatch, editplan, newid, newrev, scale, rollback, delete, terminate, recreate, add, relabel) plus a final patch. "
             "Oracles after every pass, read from the store: (1) only live, owned pods of the update revision gained labels, with the release's "
             "rollout-id and a batch-id in 1..current; (2) per batch-id value the number of live update-revision pods carrying (rollout-id, value) "
             "is <= the batch's increment unless it already exceeded it and did not grow; (3) a pod that carried the current rollout-id is never "
             "relabelled; (4) an immediate second pass changes no label and performs zero writes; (5) no panic, no error on a healthy store; "
             "(6) IsBatchReady's label condition holds iff #live pods with the current rollout-id >= target (targets count-1, count, count+1, planned); "
             "(7) progress: #pods labelled == min(#unlabelled live update-revision pods handed to the patcher, remaining budget of batches 1..current); "
             "no other label changes (controller-revision-hash may only go from empty to the ReplicaSet's revision), no pod created/deleted. "
             "c12-rollout-walk: undisturbed batch-by-batch rollout with pod recreation; additionally every released batch is labelled exactly "
             "(count == increment). Non-trivial (c12-labelpatch): >=1 pod patched and >=1 owned pod with a pre-existing non-canonical label; "
             "(c12-rollout-walk): >=2 passes, >=1 pod patched, >=1 pod recreated. Distinct by hash of the case JSON."),
    "assumptions": [
        "Preconditions guaranteed by the real callers are respected: 0 <= currentBatch < len(batches), replicas >= 1, ctx.Pods = util.ListOwnedPods(workload); plan edits clamp currentBatch to the new plan (signalRecalculate).",
        "Label values are restricted to what the API server's label-value validation admits; '-1' and ' 2' (listed in DESIGN.md) are therefore NOT generated (switch genNonAPILabelValues).",
        "Oracle (2) counts live pods owned by the workload that belong to the update revision; terminating, foreign-owned and old-revision pods carrying the labels are outside the count.",
        "Oracle (5) treats any error as a violation because no store faults are injected (all ReplicaSets of owned pods exist).",
        "Oracle (7) (progress) and the exactness oracle of c12-rollout-walk go slightly beyond the literal statement ('labels are given'): without them a labeller that never labels would pass.",
        "Which batch receives a pod when several batches have budget left (the code fills the highest batch first) is not constrained.",
        "While listed in p12/known.go the input classes of c12-batchid-out-of-range-panic and c12-filter-hidden-labelled-overfill are repaired by the harness before each pass (Case.Steer, counted as excluded_known); VERIF_NO_EXCLUDE=1 or =<sig> switches that off.",
    ],
    "subchecks": [
        {"name": "c12-labelpatch", "pkg": "p12", "test": "TestC12LabelPatch", "quick": rp(48000, 16, timeout=300), "thorough": rp(640000, 16, timeout=1500)},
        {"name": "c12-rollout-walk", "pkg": "p12", "test": "TestC12RolloutWalk", "quick": rp(16000, 8, timeout=300), "thorough": rp(240000, 16, timeout=1500)},
    ],
}
