package p12

import (
	"os"
	"strings"
)

// Signatures of confirmed, still-open genuine defects found by this package. While a signature is
// listed (true), the generator sets Case.Steer so that the harness repairs exactly the triggering
// label values before every labelling pass (counted with vlib.Excluded) and the search continues
// behind the defect. Remove the entry (or set it to false) once /repo is repaired.
//
// c12-batchid-out-of-range-panic:
//
//	labelpatch.(*realPatcher).patchPodBatchLabel executes plannedUpdatedReplicasForBatches[podBatchID-1]--
//	for every live, revision-consistent pod that carries the current rollout-id, without checking
//	1 <= podBatchID <= len(batches). Batch-id "0", or any number larger than the number of batches
//	(a user-written label, or simply labels of an earlier, longer plan of the same rollout-id after
//	the release plan was shortened) panics with "index out of range" inside the reconciler.
//
// c12-filter-hidden-labelled-overfill:
//
//	PatchPodBatchLabel charges already-labelled pods against the batch budgets only if they survive
//	ctx.FilterFunc. FilterPodsForOrderedUpdate (StatefulSet, rollback in batches) withholds
//	update-revision pods whose ordinal is below the partition beyond the first `diff` ones; when such
//	a pod was labelled by an earlier pass (partition moved after a scale-up, or the filter was
//	installed after the first pass) its label is not charged and further pods receive the same
//	batch-id: more pods carry (rollout-id, batch i) than batch i adds under the plan.
var knownOpen = map[string]bool{
	sigOOR:    false, // repaired by a "fix:" commit in /repo, see /verif/known_findings.json
	sigHidden: true,
}

// excl reports whether inputs of the known finding sig are to be steered away from.
// VERIF_NO_EXCLUDE=1 switches every exclusion off, VERIF_NO_EXCLUDE=<sig>[,<sig>] the listed ones
// (used to reproduce a finding and to verify a fix).
func excl(sig string) bool {
	if v := os.Getenv("VERIF_NO_EXCLUDE"); v == "1" {
		return false
	} else if v != "" {
		for _, s := range strings.Split(v, ",") {
			if s == sig {
				return false
			}
		}
	}
	return knownOpen[sig]
}
