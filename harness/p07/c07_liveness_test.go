// C07(a): a healthy rollout always finishes; nothing oscillates (closed loop, E1).
package p07

import (
	"encoding/json"
	"fmt"
	"testing"

	"pgregory.net/rapid"

	"verifharness/sim"
	"verifharness/vlib"
)

func TestMain(m *testing.M) { vlib.Main(m) }

const chkLive = "c07-liveness"

type liveCase struct {
	S sim.Scenario `json:"scenario"`
	H []sim.Action `json:"history"`
}

func budgetFor(s sim.Scenario) int { return 1500 + 500*len(s.Steps) }

func runLive(t vlib.TB, c liveCase) (*sim.Run, sim.Outcome) {
	r, _ := sim.NewRun(c.S)
	if err := r.W.Build(c.S); err != nil {
		vlib.Fail(t, chkLive, "harness-scenario-rejected", c, "scenario rejected: %v", err)
	}
	for _, a := range c.H {
		r.Apply(a)
	}
	out := r.Complete(budgetFor(c.S))
	for k, n := range sim.GenExcluded {
		for i := 0; i < n; i++ {
			vlib.Excluded(chkLive, k)
		}
		delete(sim.GenExcluded, k)
	}
	for k, n := range r.W.Excluded {
		for i := 0; i < n; i++ {
			vlib.Excluded(chkLive, k)
		}
	}
	if v := r.W.FirstViolation("C09"); v != nil {
		vlib.Fail(t, chkLive, "c09-"+v.Sig, c, "%s", v.Msg)
	}
	switch {
	case out.Stuck:
		vlib.Fail(t, chkLive, "stuck-"+r.LivelockClass(), c, "no enabled action before a terminal state: %s\nuser log: %v", out.Detail, r.UserLog)
	case out.Exhausted:
		vlib.Fail(t, chkLive, "budget-exhausted-"+r.LivelockClass(), c, "reconcile budget exhausted (%d reconciles): %s\nuser log: %v", out.Reconciles, out.Detail, r.UserLog)
	}
	return r, out
}

func TestC07Liveness(t *testing.T) {
	var rc liveCase
	if ok, _ := vlib.LoadReplay(chkLive, &rc); ok {
		runLive(t, rc)
		return
	}
	rapid.Check(t, func(t *rapid.T) {
		b := sim.Bias{MaxActions: 150}
		s := sim.GenScenario(t, b)
		c := liveCase{S: s, H: sim.GenHistory(t, s, b)}
		disturb := 0
		cls := []string{"kind=" + s.Workload + "/" + s.Style, "provider=" + s.Provider, fmt.Sprintf("steps=%d", len(s.Steps))}
		seen := map[string]bool{}
		for _, a := range c.H {
			if a.Kind == "user" && a.Arg != sim.UserApprove {
				if !(a.Arg == sim.UserRelease && disturb == 0) {
					disturb++
				}
				if !seen[a.Arg] {
					seen[a.Arg] = true
					cls = append(cls, "user="+a.Arg)
				}
			}
		}
		sj, _ := json.Marshal(s)
		sig := string(sj)
		for _, a := range c.H {
			if a.Kind == "user" {
				sig += a.String()
			}
		}
		nt := len(s.Steps) >= 2 && (s.Provider != "" || disturb > 0)
		vlib.Record(chkLive, sig, nt, cls, func() any { return c })
		runLive(t, c)
	})
}
