// C06: controller crashes and API errors never corrupt a rollout (fault enumeration over E1).
package p06

import (
	"encoding/json"
	"fmt"
	"os"
	"reflect"
	"sort"
	"strings"
	"testing"

	"pgregory.net/rapid"

	"verifharness/sim"
	"verifharness/vlib"
)

func TestMain(m *testing.M) { vlib.Main(m) }

const chk = "c06-fault-enumeration"

type faultCase struct {
	S      sim.Scenario    `json:"scenario"`
	H      []sim.Action    `json:"history"`
	Faults []sim.FaultSpec `json:"faults"`
}

func budgetFor(s sim.Scenario) int { return 2000 + 600*len(s.Steps) }

type result struct {
	run   *sim.Run
	out   sim.Outcome
	final map[string]any
	count *sim.Counting
	fired int
}

func runOnce(t vlib.TB, c faultCase) result {
	r, _ := sim.NewRun(c.S)
	if err := r.W.Build(c.S); err != nil {
		vlib.Fail(t, chk, "harness-scenario-rejected", c, "scenario rejected: %v", err)
	}
	r.W.InstallMonitors(c.S)
	res := result{run: r}
	var sf *sim.SingleFaults
	if len(c.Faults) == 0 {
		res.count = &sim.Counting{}
		r.W.Faults = res.count
	} else {
		sf = sim.NewFaults(c.Faults...)
		r.W.Faults = sf
	}
	for _, a := range c.H {
		r.Apply(a)
	}
	res.out = r.Complete(budgetFor(c.S))
	res.final = r.FinalState()
	if ro, ok := res.final["rollout"].(map[string]any); ok {
		delete(ro, "step") // where the cursor stood when the rollout was cancelled / deleted is timing
	}
	if sf != nil {
		res.fired = sf.Fired
	}
	return res
}

func diffStates(a, b map[string]any) string {
	keys := map[string]bool{}
	for k := range a {
		keys[k] = true
	}
	for k := range b {
		keys[k] = true
	}
	var ks []string
	for k := range keys {
		ks = append(ks, k)
	}
	sort.Strings(ks)
	var out []string
	for _, k := range ks {
		if !reflect.DeepEqual(a[k], b[k]) {
			x, _ := json.Marshal(a[k])
			y, _ := json.Marshal(b[k])
			out = append(out, fmt.Sprintf("%s: baseline=%s faulty=%s", k, x, y))
		}
	}
	return strings.Join(out, "\n")
}

// judge checks one faulty run against the baseline.
func judge(t vlib.TB, c faultCase, base result, f result) {
	if v := f.run.W.FirstViolation("C01", "C02", "C03", "C04", "C05", "C09", "C10", "C18"); v != nil {
		vlib.Fail(t, chk, "c06-under-fault-"+v.Sig, c, "with %v injected: %s\nfault log: %v\nuser log: %v", c.Faults, v.Msg, f.run.W.FaultLog, f.run.UserLog)
	}
	if !f.out.Terminal {
		vlib.Fail(t, chk, "c06-does-not-complete-"+f.run.LivelockClass(), c, "with %v injected the run does not reach the terminal state (%+v) while the fault-free run does\nfault log: %v", c.Faults, f.out, f.run.W.FaultLog)
	}
	if res := f.run.CheckRestored(); len(res) > 0 && len(base.run.CheckRestored()) == 0 {
		vlib.Fail(t, chk, "c06-leak-or-half-configured", c, "with %v injected the final cluster is not clean: %s", c.Faults, strings.Join(res, "; "))
	}
	// the differential is only meaningful when the same user actions took effect in both runs (an
	// action that is not enabled, or falls into a listed finding's class, at the shifted moment is skipped)
	if !reflect.DeepEqual(userEffects(base.run), userEffects(f.run)) {
		vlib.Class(chk, "differential-skipped-user-actions-diverged")
		return
	}
	if d := diffStates(base.final, f.final); d != "" {
		vlib.Fail(t, chk, "c06-final-state-differs", c, "with %v injected the final cluster differs from the fault-free run:\n%s\nfault log: %v", c.Faults, d, f.run.W.FaultLog)
	}
}

// userEffects lists the user actions that took effect, without their positions.
func userEffects(r *sim.Run) []string {
	var out []string
	for _, l := range r.UserLog {
		if i := strings.Index(l, " "); i >= 0 {
			l = l[i+1:]
		}
		if strings.HasPrefix(l, "approve") {
			continue
		}
		out = append(out, l)
	}
	sort.Strings(out)
	return out
}

func sampleIdx(n, max int) []int {
	if n <= max {
		out := make([]int, n)
		for i := range out {
			out[i] = i + 1
		}
		return out
	}
	var out []int
	for i := 0; i < max; i++ {
		out = append(out, 1+i*n/max)
	}
	return out
}

func TestC06FaultEnumeration(t *testing.T) {
	var rc faultCase
	if ok, _ := vlib.LoadReplay(chk, &rc); ok {
		base := runOnce(t, faultCase{S: rc.S, H: rc.H})
		if !base.out.Terminal {
			t.Skip("baseline does not terminate")
		}
		judge(t, rc, base, runOnce(t, rc))
		return
	}
	thorough := vlib.Thorough()
	rapid.Check(t, func(t *rapid.T) {
		// only user actions whose effect on the final state does not depend on when exactly they
		// land relative to controller progress (a crash shifts the schedule): approvals, pause /
		// resume, scale, delete, disable. Rollback / superseding release / jump / plan edit end in
		// timing-dependent states and are exercised under faults by the monitors of the other checks.
		b := sim.Bias{MaxActions: 60, UserWeights: map[string]int{sim.UserApprove: 10, sim.UserPause: 1, sim.UserResume: 2, sim.UserDelete: 2, sim.UserDisable: 1, sim.UserScale: 1}}
		s := sim.GenScenario(t, b)
		c := faultCase{S: s, H: sim.GenHistory(t, s, b)}
		base := runOnce(t, c)
		cls := []string{"kind=" + s.Workload + "/" + s.Style, "provider=" + s.Provider}
		if !base.out.Terminal || base.run.W.FirstViolation("C01", "C02", "C03", "C04", "C05", "C09", "C10", "C18") != nil {
			// liveness / safety of fault-free runs are the other checks' verdicts
			vlib.Record(chk, "baseline-skipped", false, append(cls, "baseline-not-usable"), nil)
			return
		}
		W, K := base.count.Writes, base.count.Calls
		maxCrash, maxOther := 120, 25
		if thorough {
			maxCrash, maxOther = 100000, 600 // every write index for crashes; the other kinds up to 600 evenly spread indices (bounded run time)
		}
		var specs []sim.FaultSpec
		for _, i := range sampleIdx(W, maxCrash) {
			specs = append(specs, sim.FaultSpec{Kind: "crash-after-write", At: i})
		}
		for _, i := range sampleIdx(K, maxOther) {
			specs = append(specs, sim.FaultSpec{Kind: "error-before-call", At: i})
		}
		for _, i := range sampleIdx(W, maxOther) {
			specs = append(specs, sim.FaultSpec{Kind: "conflict-before-write", At: i}, sim.FaultSpec{Kind: "error-after-write", At: i})
		}
		sj, _ := json.Marshal(c.S)
		for _, f := range specs {
			fc := faultCase{S: c.S, H: c.H, Faults: []sim.FaultSpec{f}}
			res := runOnce(t, fc)
			vlib.Record(chk, string(sj)+fmt.Sprint(len(c.H))+f.String(), res.fired > 0, append(cls, "fault="+f.Kind), func() any { return fc })
			judge(t, fc, base, res)
		}
		// random multi-fault sequence
		n := rapid.IntRange(2, 6).Draw(t, "multi-faults")
		var multi []sim.FaultSpec
		for i := 0; i < n; i++ {
			kind := rapid.SampledFrom([]string{"crash-after-write", "error-before-call", "conflict-before-write", "error-after-write"}).Draw(t, "fault-kind")
			lim := W
			if kind == "error-before-call" {
				lim = K
			}
			if lim < 1 {
				lim = 1
			}
			multi = append(multi, sim.FaultSpec{Kind: kind, At: rapid.IntRange(1, lim).Draw(t, "fault-at")})
		}
		fc := faultCase{S: c.S, H: c.H, Faults: multi}
		res := runOnce(t, fc)
		vlib.Record(chk, string(sj)+fmt.Sprint(len(c.H), multi), res.fired > 1, append(cls, "fault=multi"), func() any { return fc })
		judge(t, fc, base, res)
		vlib.Class(chk, fmt.Sprintf("baseline-writes<=%d", (W/50+1)*50))
	})
}

var _ = os.Getenv
