package simtest

import (
	"fmt"
	"testing"

	"verifharness/sim"
)

func one(t *testing.T, s sim.Scenario) {
	r, _ := sim.NewRun(s)
	r.W.KeepWrites = true
	if err := r.W.Build(s); err != nil {
		t.Fatalf("build: %v", err)
	}
	ro := r.W.Rollout(s.Namespace, s.Name)
	fmt.Printf("after build: phase=%s reconciles=%d writes=%d\n", ro.Status.Phase, r.W.Reconciles, len(r.W.Writes))
	r.Apply(sim.Action{Kind: "user", Arg: sim.UserRelease, N: 0})
	out := r.Complete(5000)
	fmt.Printf("outcome: %+v\n", out)
	ro = r.W.Rollout(s.Namespace, s.Name)
	fmt.Printf("rollout: phase=%s msg=%s conds=%v\n", ro.Status.Phase, ro.Status.Message, ro.Status.Conditions)
	for _, wr := range r.W.Writes {
		if wr.Actor != sim.ActorEnv {
			fmt.Println("  ", wr)
		}
	}
	fmt.Println("user log:", r.UserLog, "panics:", r.W.Panics, "violations:", r.W.Violations)
	if !out.Terminal {
		t.Fatalf("not terminal: %+v", out)
	}
}

func TestSmokeCloneSet(t *testing.T) {
	one(t, sim.Scenario{Workload: "cloneset", Style: "partition", Replicas: 5, Namespace: "ns1", Name: "demo",
		Steps: []sim.StepSpec{{Replicas: "20%"}, {Replicas: "60%"}, {Replicas: "100%"}}})
}
