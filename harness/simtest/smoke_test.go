package simtest

import (
	"encoding/json"
	"os"
	"fmt"
	"testing"

	"verifharness/sim"
)

func one(t *testing.T, s sim.Scenario) {
	r, _ := sim.NewRun(s)
	r.W.KeepWrites = true
	if err := r.W.Build(s); err != nil {
		t.Fatalf("build: %v", err)
	}
	ro := r.W.Rollout(s.Namespace, s.Name)
	fmt.Printf("after build: phase=%s reconciles=%d writes=%d\n", ro.Status.Phase, r.W.Reconciles, len(r.W.Writes))
	r.Apply(sim.Action{Kind: "user", Arg: sim.UserRelease, N: 0})
	out := r.Complete(5000)
	fmt.Printf("outcome: %+v\n", out)
	ro = r.W.Rollout(s.Namespace, s.Name)
	fmt.Printf("rollout: phase=%s msg=%s conds=%v\n", ro.Status.Phase, ro.Status.Message, ro.Status.Conditions)
	for _, wr := range r.W.Writes {
		if wr.Actor != sim.ActorEnv {
			fmt.Println("  ", wr)
		}
	}
	fmt.Println("user log:", r.UserLog, "panics:", r.W.Panics, "violations:", r.W.Violations)
	if !out.Terminal {
		t.Fatalf("not terminal: %+v", out)
	}
}

func TestSmokeCloneSet(t *testing.T) {
	one(t, sim.Scenario{Workload: "cloneset", Style: "partition", Replicas: 5, Namespace: "ns1", Name: "demo",
		Steps: []sim.StepSpec{{Replicas: "20%"}, {Replicas: "60%"}, {Replicas: "100%"}}})
}

func TestSmokeDeploymentCanary(t *testing.T) {
	one(t, sim.Scenario{Workload: "deployment", Style: "canary", Replicas: 5, Namespace: "ns1", Name: "demo",
		Steps: []sim.StepSpec{{Replicas: "1"}, {Replicas: "60%"}, {Replicas: "100%"}}})
}

func ip(i int) *int { return &i }

func TestSmokeCloneSetIngress(t *testing.T) {
	one(t, sim.Scenario{Workload: "cloneset", Style: "partition", Replicas: 5, Namespace: "ns1", Name: "demo", Provider: "ingress-nginx",
		Steps: []sim.StepSpec{{Replicas: "20%", Traffic: ip(20)}, {Replicas: "40%", Match: "header"}, {Replicas: "100%"}}})
}

func TestSmokeDeploymentGateway(t *testing.T) {
	one(t, sim.Scenario{Workload: "deployment", Style: "canary", Replicas: 4, Namespace: "ns1", Name: "demo", Provider: "gateway",
		Steps: []sim.StepSpec{{Replicas: "1", Traffic: ip(10)}, {Replicas: "50%", Traffic: ip(50)}, {Replicas: "100%", Traffic: ip(100)}}})
}

func TestDebugReplay(t *testing.T) {
	path := os.Getenv("DEBUG_REPLAY")
	if path == "" {
		t.Skip()
	}
	data, _ := os.ReadFile(path)
	var rf struct {
		Case struct {
			S sim.Scenario `json:"scenario"`
			H []sim.Action `json:"history"`
		} `json:"case"`
	}
	if err := json.Unmarshal(data, &rf); err != nil {
		t.Fatal(err)
	}
	r, _ := sim.NewRun(rf.Case.S)
	r.W.KeepWrites = true
	if err := r.W.Build(rf.Case.S); err != nil {
		t.Fatal(err)
	}
	for _, a := range rf.Case.H {
		r.Apply(a)
	}
	budget := 300
	if b := os.Getenv("DEBUG_BUDGET"); b != "" {
		fmt.Sscanf(b, "%d", &budget)
	}
	out := r.Complete(budget)
	fmt.Printf("outcome: %+v\n", out)
	for _, wr := range r.W.Writes {
		if wr.Actor != sim.ActorEnv || os.Getenv("DEBUG_ENV") != "" {
			fmt.Println("  ", wr, sim.Brief(wr))
		}
	}
	fmt.Println("user log:", r.UserLog)
	fmt.Println("pending:", r.W.Pending())
	fmt.Println("reconcile log tail:")
	n := len(r.W.ReconcileLog)
	for i := n - 12; i < n; i++ {
		if i >= 0 {
			fmt.Println("  ", r.W.ReconcileLog[i])
		}
	}
	fmt.Println(sim.DumpState(r))
}

func TestDebugSteps(t *testing.T) {
	path := os.Getenv("DEBUG_REPLAY")
	if path == "" {
		t.Skip()
	}
	data, _ := os.ReadFile(path)
	var rf struct {
		Case struct {
			S sim.Scenario `json:"scenario"`
			H []sim.Action `json:"history"`
		} `json:"case"`
	}
	json.Unmarshal(data, &rf)
	r, _ := sim.NewRun(rf.Case.S)
	r.W.Build(rf.Case.S)
	for i, a := range rf.Case.H {
		r.Apply(a)
		ro := r.W.Rollout(rf.Case.S.Namespace, rf.Case.S.Name)
		fmt.Printf("%d %v excluded=%v userlog=%d %s\n", i, a, r.W.Excluded, len(r.UserLog), sim.Brief(&sim.Write{After: ro}))
		if i > 12 {
			break
		}
	}
}
