// C19: Rollouts are isolated from each other.
package p19

import (
	"encoding/json"
	"fmt"
	"os"
	"reflect"
	"strings"
	"sync"
	"testing"

	"pgregory.net/rapid"

	"verifharness/sim"
	"verifharness/vlib"
)

func TestMain(m *testing.M) { vlib.Main(m) }

const chkInter = "c19-interleaved"

type mAction struct {
	T int        `json:"t"` // target rollout for user actions
	A sim.Action `json:"a"`
}

type multiCase struct {
	S []sim.Scenario `json:"scenarios"`
	H []mAction      `json:"history"`
}

var placements = [][2]string{{"ns1", "demo"}, {"ns1", "demo-a"}, {"ns2", "demo"}, {"ns2", "demo-a"}}

func genMulti(t *rapid.T) multiCase {
	n := rapid.IntRange(2, 3).Draw(t, "rollouts")
	var c multiCase
	perm := rapid.Permutation([]int{0, 1, 2, 3}).Draw(t, "placement")
	for i := 0; i < n; i++ {
		s := sim.GenScenario(t, sim.Bias{})
		s.Namespace, s.Name = placements[perm[i]][0], placements[perm[i]][1]
		c.S = append(c.S, s)
	}
	disturb := rapid.Bool().Draw(t, "with-disturbances")
	weights := map[string]int{sim.UserApprove: 10}
	if disturb {
		weights = map[string]int{sim.UserApprove: 10, sim.UserRollback: 2, sim.UserDelete: 1, sim.UserDisable: 1, sim.UserPause: 1, sim.UserResume: 2, sim.UserScale: 1, sim.UserJump: 1}
	}
	for i := range c.S {
		c.H = append(c.H, mAction{T: i, A: sim.Action{Kind: "user", Arg: sim.UserRelease}})
	}
	for _, a := range sim.GenHistory(t, c.S[0], sim.Bias{MaxActions: 200, UserWeights: weights, NoInitialRelease: true}) {
		c.H = append(c.H, mAction{T: rapid.IntRange(0, n-1).Draw(t, "target"), A: a})
	}
	return c
}

type multiRun struct {
	w    *sim.World
	runs []*sim.Run
}

func build(t vlib.TB, c multiCase, only int) *multiRun {
	mr := &multiRun{}
	for i, s := range c.S {
		if only >= 0 && i != only {
			mr.runs = append(mr.runs, nil)
			continue
		}
		var r *sim.Run
		if mr.w == nil {
			r, _ = sim.NewRun(s)
			mr.w = r.W
		} else {
			r = &sim.Run{W: mr.w, S: s}
		}
		if err := mr.w.Build(s); err != nil {
			vlib.Fail(t, chkInter, "harness-scenario-rejected", c, "scenario %d rejected: %v", i, err)
		}
		mr.runs = append(mr.runs, r)
	}
	for i, s := range c.S {
		if mr.runs[i] != nil {
			mr.w.InstallMonitors(s)
		}
	}
	mr.w.Monitors = append(mr.w.Monitors, &ownership{c: c})
	mr.w.KeepWrites = os.Getenv("VERIF_TRACE") != ""
	return mr
}

// ownership: a write issued while reconciling key K only touches objects of K's own rollout.
type ownership struct{ c multiCase }

func (o *ownership) OnWrite(w *sim.World, wr *sim.Write) {
	it := w.CurrentItem
	if it == nil || (wr.Actor != sim.ActorRollout && wr.Actor != sim.ActorBatchRelease) {
		return
	}
	var owner, mine = -1, -1
	for i, s := range o.c.S {
		if s.Owns(w, wr) {
			owner = i
		}
		if s.Namespace == it.Key.Namespace && s.Name == it.Key.Name {
			mine = i
		}
	}
	if owner >= 0 && mine >= 0 && owner != mine {
		w.Violate("C19", "c19-write-to-foreign-rollout-object", "%s was issued while reconciling %s but the object belongs to rollout %s/%s", wr, it, o.c.S[owner].Namespace, o.c.S[owner].Name)
	}
}

func complete(mr *multiRun, budget int) []sim.Outcome {
	outs := make([]sim.Outcome, len(mr.runs))
	// round-robin fair completion over all rollouts
	for round := 0; round < 6; round++ {
		for i, r := range mr.runs {
			if r != nil {
				outs[i] = r.Complete(budget)
			}
		}
	}
	for i, r := range mr.runs {
		if r != nil {
			ok, detail := r.Terminal()
			outs[i].Terminal, outs[i].Detail = ok, detail
		}
	}
	return outs
}

// userEffects lists the user actions that took effect, without their positions.
func userEffects(r *sim.Run) []string {
	var out []string
	for _, l := range r.UserLog {
		if i := strings.Index(l, " "); i >= 0 {
			l = l[i+1:]
		}
		out = append(out, l)
	}
	return out
}

func coarse(r *sim.Run) map[string]any {
	f := r.FinalState()
	if ro, ok := f["rollout"].(map[string]any); ok {
		delete(ro, "step")
	}
	return f
}

func onlyReleaseAndApprove(c multiCase, i int) bool {
	for _, a := range c.H {
		if a.A.Kind == "user" && a.T == i && a.A.Arg != sim.UserRelease && a.A.Arg != sim.UserApprove {
			return false
		}
	}
	return true
}

func runInterleaved(t vlib.TB, c multiCase) (together int) {
	mr := build(t, c, -1)
	for _, a := range c.H {
		r := mr.runs[a.T%len(mr.runs)]
		r.Apply(a.A)
	}
	outs := complete(mr, 2500)
	if os.Getenv("VERIF_TRACE") != "" {
		for _, wr := range mr.w.Writes {
			if wr.Actor != sim.ActorEnv {
				fmt.Println("  ", wr, sim.Brief(wr))
			}
		}
	}
	// isolation oracles: ownership of every controller write, no panic; the per-rollout safety
	// monitors under disturbances are the verdict of C01-C05/C10/C18 (noted here, not asserted)
	if v := mr.w.FirstViolation("C19", "C09"); v != nil {
		vlib.Fail(t, chkInter, "c19-"+v.Sig, c, "with %d rollouts reconciled together: %s", len(c.S), v.Msg)
	}
	noted := map[string]bool{}
	for _, v := range mr.w.Violations {
		if v.Property != "C19" && v.Property != "C09" && !noted[v.Sig] {
			noted[v.Sig] = true
			vlib.Class(chkInter, "NOTE other-property="+v.Property+" "+v.Sig)
		}
	}
	for i, o := range outs {
		if !o.Terminal {
			vlib.Fail(t, chkInter, "c19-does-not-complete-together", c, "rollout %d (%s/%s) does not reach its terminal state when run together with the others: %+v", i, c.S[i].Namespace, c.S[i].Name, o)
		}
	}
	// differential against the solo run (timing-insensitive histories only)
	for i := range c.S {
		if !onlyReleaseAndApprove(c, i) {
			continue
		}
		solo := build(t, c, i)
		for _, a := range c.H {
			if a.A.Kind == "user" && a.T%len(c.S) != i {
				continue
			}
			solo.runs[i].Apply(a.A)
		}
		so := solo.runs[i].Complete(2500)
		if !so.Terminal {
			continue
		}
		// (a user action that falls into a listed finding's input class at one moment and not at
		// another is skipped in one run only: no verdict then)
		if !reflect.DeepEqual(userEffects(solo.runs[i]), userEffects(mr.runs[i])) {
			vlib.Class(chkInter, "differential-skipped-user-actions-diverged")
			continue
		}
		a, b := coarse(solo.runs[i]), coarse(mr.runs[i])
		if !reflect.DeepEqual(a, b) {
			x, _ := json.Marshal(a)
			y, _ := json.Marshal(b)
			vlib.Fail(t, chkInter, "c19-final-state-differs-from-solo", c, "rollout %d (%s/%s) ends differently alone and together:\nalone   =%s\ntogether=%s", i, c.S[i].Namespace, c.S[i].Name, x, y)
		}
		together++
	}
	return
}

func TestC19Interleaved(t *testing.T) {
	var rc multiCase
	if ok, _ := vlib.LoadReplay(chkInter, &rc); ok {
		runInterleaved(t, rc)
		return
	}
	rapid.Check(t, func(t *rapid.T) {
		c := genMulti(t)
		sj, _ := json.Marshal(c.S)
		cls := []string{fmt.Sprintf("rollouts=%d", len(c.S))}
		sameNs, sameName := false, false
		for i := range c.S {
			for j := i + 1; j < len(c.S); j++ {
				if c.S[i].Namespace == c.S[j].Namespace {
					sameNs = true
				}
				if c.S[i].Name == c.S[j].Name {
					sameName = true
				}
			}
		}
		if sameNs {
			cls = append(cls, "same-namespace")
		}
		if sameName {
			cls = append(cls, "same-name-different-namespace")
		}
		n := runInterleaved(t, c)
		cls = append(cls, fmt.Sprintf("solo-differentials=%d", n))
		sig := string(sj)
		for _, a := range c.H {
			if a.A.Kind == "user" {
				sig += fmt.Sprintf("%d%s", a.T, a.A.String())
			}
		}
		vlib.Record(chkInter, sig, len(c.H) > len(c.S)+10, cls, func() any { return c })
	})
}

var _ = sync.Mutex{}
