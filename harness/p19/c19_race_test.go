package p19

import (
	"fmt"
	"sync"
	"testing"
	"time"

	expectations "github.com/openkruise/rollouts/pkg/util/expectation"
	"github.com/openkruise/rollouts/pkg/util/grace"
	"github.com/openkruise/rollouts/pkg/util/luamanager"
	"k8s.io/apimachinery/pkg/apis/meta/v1/unstructured"
	"pgregory.net/rapid"

	"verifharness/sim"
	"verifharness/vlib"
)

const chkRace = "c19-concurrent-race"

// runConcurrent: several rollouts, reconciles executed by 4 worker goroutines in parallel
// phases (the API server is serialised by a lock, as a real one serialises writes), environment
// and user steps in serial phases in between. The binary is built with -race: any data race in
// the shared process-wide helpers (grace timers, creation expectations, Lua runtime, traffic
// manager) fails the test binary.
func runConcurrent(t vlib.TB, c multiCase) {
	mr := build(t, c, -1)
	w := mr.w
	for _, a := range c.H {
		if a.A.Kind == "user" && a.A.Arg == sim.UserRelease {
			mr.runs[a.T%len(mr.runs)].Apply(a.A)
		}
	}
	var panics []string
	var pmu sync.Mutex
	for round := 0; round < 400; round++ {
		// parallel phase
		w.Concurrent = true
		var wg sync.WaitGroup
		for g := 0; g < 4; g++ {
			wg.Add(1)
			go func() {
				defer wg.Done()
				for n := 0; n < 8; n++ {
					it, ok := w.TakeWork()
					if !ok {
						return
					}
					if _, p := w.ReconcileConcurrently(it); p != "" {
						pmu.Lock()
						panics = append(panics, p)
						pmu.Unlock()
					}
				}
			}()
		}
		wg.Wait()
		w.Concurrent = false
		if len(panics) > 0 {
			vlib.Fail(t, chkRace, "c19-panic-under-concurrency", c, "%s", panics[0])
		}
		// serial phase: healthy environment, approvals
		progressed := false
		for n := 0; n < 12; n++ {
			acts := w.EnvActions(false)
			if len(acts) == 0 {
				break
			}
			w.ApplyEnv(acts[0])
			progressed = true
		}
		for _, r := range mr.runs {
			r.Apply(sim.Action{Kind: "user", Arg: sim.UserApprove})
		}
		if !progressed && len(w.Pending()) == 0 {
			break
		}
	}
	for i, r := range mr.runs {
		if ok, detail := r.Terminal(); !ok {
			vlib.Fail(t, chkRace, "c19-does-not-complete-concurrently", c, "rollout %d (%s/%s) does not reach its terminal state with 4 concurrent workers: %s", i, c.S[i].Namespace, c.S[i].Name, detail)
		}
	}
	if v := w.FirstViolation("C19", "C09"); v != nil {
		vlib.Fail(t, chkRace, "c19-"+v.Sig, c, "%s", v.Msg)
	}
}

func TestC19ConcurrentRace(t *testing.T) {
	var rc multiCase
	if ok, _ := vlib.LoadReplay(chkRace, &rc); ok {
		runConcurrent(t, rc)
		return
	}
	rapid.Check(t, func(t *rapid.T) {
		n := rapid.IntRange(2, 4).Draw(t, "rollouts")
		var c multiCase
		perm := rapid.Permutation([]int{0, 1, 2, 3}).Draw(t, "placement")
		for i := 0; i < n; i++ {
			s := sim.GenScenario(t, sim.Bias{})
			s.Namespace, s.Name = placements[perm[i]][0], placements[perm[i]][1]
			c.S = append(c.S, s)
			c.H = append(c.H, mAction{T: i, A: sim.Action{Kind: "user", Arg: sim.UserRelease}})
		}
		runConcurrent(t, c)
		providers := map[string]bool{}
		for _, s := range c.S {
			providers[s.Provider] = true
		}
		vlib.Record(chkRace, fmt.Sprint(c.S), n >= 2, []string{fmt.Sprintf("rollouts=%d", n), fmt.Sprintf("providers=%d", len(providers))}, func() any { return c })
	})
}

// TestC19HelperHammer drives the shared helpers directly from many goroutines under -race.
func TestC19HelperHammer(t *testing.T) {
	const chk = "c19-helper-hammer"
	script := `annotations = {} annotations["k"] = obj.weight return annotations`
	var wg sync.WaitGroup
	for g := 0; g < 16; g++ {
		wg.Add(1)
		go func(g int) {
			defer wg.Done()
			lm := &luamanager.LuaManager{}
			for i := 0; i < 300; i++ {
				key := fmt.Sprintf("ns%d/name%d", g%3, i%5)
				_, _, _ = grace.RunWithGraceSeconds(key, "act", int32(i%2), func() (bool, error) { return i%3 == 0, nil })
				// the post-grace path: an expectation is recorded, time passes (verif hook), and the
				// next call finds the grace period over while other workers use other keys
				if i%4 == 0 {
					own := fmt.Sprintf("ns%d/own-%d", g, i%7)
					_, _, _ = grace.RunWithGraceSeconds(own, "act", 1, func() (bool, error) { return true, nil })
					grace.ShiftForVerif(2 * time.Second)
					_, _, _ = grace.RunWithGraceSeconds(own, "act", 1, func() (bool, error) { return false, nil })
				}
				expectations.ResourceExpectations.Expect(key, expectations.Create, fmt.Sprintf("uid-%d-%d", g, i))
				expectations.ResourceExpectations.Observe(key, expectations.Create, fmt.Sprintf("uid-%d-%d", g, i))
				_, _, _ = expectations.ResourceExpectations.SatisfiedExpectations(key)
				if i%20 == 0 {
					u := &unstructured.Unstructured{Object: map[string]interface{}{"weight": "10"}}
					if l, err := lm.RunLuaScript(u, script); err == nil {
						_ = l.Get(-1)
					}
				}
			}
		}(g)
	}
	wg.Wait()
	vlib.RecordBulk(chk, 16*300, 16, false, []any{"16 goroutines x 300 iterations over grace.RunWithGraceSeconds (including elapsed grace periods via the verif time hook), ResourceExpectations.Expect/Observe/SatisfiedExpectations and LuaManager.RunLuaScript with overlapping keys"})
}
