// Package p09 holds the admission part (a) of property C09.
package p09

// knownOpen lists the finding signatures whose input class the generator steers away from
// (counted with vlib.Excluded) so that the search continues behind a confirmed defect.
// Setting an entry to false (or VERIF_C09_NOEXCLUDE=<sig>[,<sig>]|all) switches the exclusion off.
var knownOpen = map[string]bool{
	"two-rollouts-one-workload-apiversion-spelling":         false, // repaired by a "fix:" commit in /repo, see /verif/known_findings.json
	"v1alpha1-progressing-step-count-changed":               false, // repaired by a "fix:" commit in /repo, see /verif/known_findings.json
	"handle-panic-validating.GetContextFromv1alpha1Rollout": true,
	"v1alpha1-conflict-check-blind-to-bluegreen":            true,
	"v1alpha1-update-of-bluegreen-unguarded":                true,
}
