// Package p09 holds the admission part (a) of property C09.
package p09

// knownOpen lists the finding signatures whose input class the generator steers away from
// (counted with vlib.Excluded) so that the search continues behind a confirmed defect.
// Setting an entry to false (or VERIF_C09_NOEXCLUDE=<sig>|all) switches the exclusion off.
var knownOpen = map[string]bool{}
