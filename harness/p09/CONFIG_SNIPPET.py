{
    # C09 part (a) only (admission). Part (b) (closed-loop reachability) lives in another package;
    # merge its sub-checks into "subchecks" and extend the texts.
    "level": "exploration",
    "engine": "E2",
    "technique": ("property-based testing (rapid): grammar-based generation of API request histories (CREATE/UPDATE in "
                  "v1beta1 and v1alpha1, controller status writes, deletes) executed against a miniature API server whose "
                  "validating-admission step is the real RolloutCreateUpdateHandler.Handle fed with raw-JSON "
                  "AdmissionRequests; invariant oracles restated from the property statement on every accepted object"),
    "level_text": ("Generated-input search: per run several hundred thousand admission requests (valid specs and specs with "
                   "injected faults at every grammar node, fresh objects and single-field mutations of the stored object, in "
                   "every phase of the stored object, with neighbours in the store) go through the real handler; a panic of "
                   "the handler, an accepted object that breaks a structural promise, an accepted UPDATE that changes "
                   "workloadRef / traffic routing / style / step count while Progressing or Terminating, a second Rollout "
                   "for one workload in the store, or a panic of a pure Rollout helper on an accepted object is a violation, "
                   "shrunk by rapid. Admission is a function of (request, store), so input generation with invariant "
                   "oracles is the fitting level; absence of defects is not established."),
    "level_note": ("Trusted: the harness's miniature API server (storage version v1beta1; other-version reads and writes go "
                   "through the real ConvertTo/ConvertFrom followed by the schema defaults; a main-resource UPDATE keeps the "
                   "status of the old object in the request version; only admitted objects are stored) and its own reading "
                   "of a stored Rollout (style, steps, traffic routings), which is cross-checked against the real accessors "
                   "on every accepted object. A panic inside Handle is reported although it is not a process crash: "
                   "controller-runtime v0.14.6 registers the handler without RecoverPanic, net/http recovers the panic per "
                   "connection and the API server fails that one request under failurePolicy=Fail."),
    "rule": ("rapid state machine, 4-16 actions per case: create / update (70 % a 1-2 field mutation of the stored object as "
             "rendered in the request version, 30 % a fresh object) / phase write (Initial, Healthy, Progressing, Terminating, "
             "Disabled, none) / delete. Objects are JSON trees drawn from a grammar of the CRD schema: canary, blueGreen, "
             "none, both; 0-5 steps with integer / percent / mixed replicas, absent, zero, negative, >100 %, garbage, "
             ">int32 replicas, decreasing neighbours; traffic strings resp. v1alpha1 weights (valid and not), matches, header "
             "modifiers, pauses; 0-2 traffic routings of every provider kind with missing names / negative grace / empty "
             "provider; supported, unsupported and malformed workload kinds, blue-green on other kinds, absent "
             "workloadRef / canary / spec (v1alpha1), style annotation in every spelling. Probabilities are composed from "
             "fair booleans (rapid's integer generators are biased). Oracles on every ACCEPTED request: strategy present "
             "and single, steps non-empty, every replicas present and > 0 (percent <= 100), comparable neighbours "
             "non-decreasing (all on the object as stored, v1alpha1 through the real ConvertTo); no second Rollout for one "
             "workload (namespace, API group, kind, name) in the store; phase Progressing/Terminating => workloadRef, "
             "traffic routings, style and step count unchanged between the old object shown to the user and the new one; "
             "GetRollingStyle/GetSteps/GetTrafficRouting/IsRealPartition/NextBatchIndex/CheckNextBatchIndexWithCorrect "
             "(any int32, result must be -1 or 1..len)/step hash/... do not panic. Non-trivial: accepted object with >= 2 "
             "steps; distinct by hash of (operation, version, old phase, request object)."),
    "assumptions": [
        "The webhook is installed with failurePolicy=Fail for CREATE and UPDATE of rollouts (not rollouts/status) in both versions (config/webhook/manifests.yaml); objects stored before the webhook existed are out of scope.",
        "Requests respect the CRD structural schema (config/crd/bases): required fields present, no explicit nulls, no unknown fields, header names/values within the schema's patterns; schema defaults (gracePeriodSeconds 3, header match type Exact, disabled false) are applied.",
        "The handler's client is read-your-writes (no informer lag); -partition-percent-limit and -filter-workload-type keep their defaults (50, true).",
        "'Traffic routing' in the immutability promise is the trafficRoutings list; trafficRoutingRef / the trafficrouting annotation is not asserted.",
        "Steered away from (counted as excluded_known) while listed in p09/known.go: K1 two refs to one workload that differ only in the version segment of apiVersion; K2 v1alpha1 UPDATE with another step count while Progressing/Terminating; K3 v1alpha1 request with canary, without workloadRef, style annotation absent/''/'canary'; K4 v1alpha1 request naming the workload of a stored blue-green Rollout; K5 v1alpha1 UPDATE of a blue-green Rollout in Progressing/Terminating.",
    ],
    "subchecks": [
        {"name": "c09-admission-v1beta1", "pkg": "p09", "test": "TestC09AdmissionV1beta1", "quick": rp(64000, 16, timeout=300), "thorough": rp(800000, 16, timeout=1200)},
        {"name": "c09-admission-v1alpha1", "pkg": "p09", "test": "TestC09AdmissionV1alpha1", "quick": rp(64000, 16, timeout=300), "thorough": rp(800000, 16, timeout=1200)},
    ],
}
