// C09 part (a): what the validating webhook lets through is inside the controllers' safe domain.
//
// A generated history of API requests (CREATE / UPDATE in v1beta1 and v1alpha1, status writes of
// the controller, deletes) is executed against a miniature API server whose validating admission
// step is the REAL RolloutCreateUpdateHandler.Handle, fed with raw-JSON admission requests. Only
// admitted objects reach the store, so every old object / neighbour the handler sees is one an API
// server could really hold.
package p09

import (
	"context"
	"encoding/json"
	"fmt"
	"io"
	"math"
	"os"
	"sort"
	"strings"
	"testing"

	"github.com/openkruise/rollouts/api/v1alpha1"
	"github.com/openkruise/rollouts/api/v1beta1"
	"github.com/openkruise/rollouts/pkg/util"
	"github.com/openkruise/rollouts/pkg/webhook/rollout/validating"
	admissionv1 "k8s.io/api/admission/v1"
	authv1 "k8s.io/api/authentication/v1"
	metav1 "k8s.io/apimachinery/pkg/apis/meta/v1"
	"k8s.io/apimachinery/pkg/runtime"
	"k8s.io/apimachinery/pkg/types"
	"k8s.io/apimachinery/pkg/util/rand"
	"k8s.io/klog/v2"
	"pgregory.net/rapid"
	"sigs.k8s.io/controller-runtime/pkg/webhook/admission"

	"verifharness/vlib"
)

const (
	chkBeta  = "c09-admission-v1beta1"
	chkAlpha = "c09-admission-v1alpha1"
)

var (
	scheme  = runtime.NewScheme()
	decoder *admission.Decoder
)

func TestMain(m *testing.M) {
	klog.SetOutput(io.Discard)
	klog.LogToStderr(false)
	_ = v1alpha1.AddToScheme(scheme)
	_ = v1beta1.AddToScheme(scheme)
	var err error
	if decoder, err = admission.NewDecoder(scheme); err != nil {
		panic(err)
	}
	vlib.Main(m)
}

// ---------- the case ----------

type Action struct {
	Kind    string          `json:"kind"`              // create | update | phase | delete
	Version string          `json:"version,omitempty"` // API version of the request
	NS      string          `json:"ns"`
	Name    string          `json:"name"`
	Obj     json.RawMessage `json:"obj,omitempty"`   // the user's object (update: status is filled in from the store, as the API server does)
	Phase   string          `json:"phase,omitempty"` // phase: the status.phase the controller writes
	Cls     []string        `json:"cls,omitempty"`   // generator classes, informational
}

type Case struct {
	Check   string   `json:"check"`
	Actions []Action `json:"actions"`
}

// ---------- exclusion of known findings ----------

func excluded(sig string) bool {
	if !knownOpen[sig] {
		return false
	}
	switch v := os.Getenv("VERIF_C09_NOEXCLUDE"); v {
	case "":
		return true
	case "all":
		return false
	default:
		for _, s := range strings.Split(v, ",") {
			if s == sig {
				return false
			}
		}
		return true
	}
}

// reqWorkload reads the workload reference of a request object.
func reqWorkload(obj J, version string) (wl [3]string, present bool) {
	m := wlRef(obj, version)
	if m == nil {
		return wl, false
	}
	wl[0], _ = asStr(m["apiVersion"])
	wl[1], _ = asStr(m["kind"])
	wl[2], _ = asStr(m["name"])
	return wl, true
}

// knownClass says whether a request falls into the input class of a listed finding. Every class is
// a structural predicate over the request and the store (K1..K5 below; the minimal replays are in
// findings/<sig>.json); the first matching class wins.
func (w *world) knownClass(a Action) string {
	if a.Kind != "create" && a.Kind != "update" {
		return ""
	}
	obj := parseTree(a.Obj)
	wl, hasWL := reqWorkload(obj, a.Version)
	// K1: another Rollout of the namespace references the same workload (group, kind, name) with a
	// different version segment in apiVersion.
	if hasWL {
		for _, o := range w.st.inNamespace(a.NS) {
			ov := readView(o.Tree)
			if o.Name != a.Name && ov.WL != wl && workloadIdentity(a.NS, ov.WL) == workloadIdentity(a.NS, wl) {
				return "two-rollouts-one-workload-apiversion-spelling"
			}
		}
	}
	var target view
	hasTarget := false
	if st := w.st.find(a.NS, a.Name); st != nil && a.Kind == "update" {
		target, hasTarget = readView(st.Tree), true
	}
	progressing := hasTarget && (target.Phase == "Progressing" || target.Phase == "Terminating")
	if a.Version == vAlpha {
		canary := asMap(dig(obj, "spec", "strategy", "canary"))
		style, _ := asStr(dig(obj, "metadata", "annotations", styleAnn))
		// K3: v1alpha1 request with a canary block, without objectRef.workloadRef, and a rolling-style
		// annotation that is absent, empty or "canary" (any letter case).
		if canary != nil && !hasWL && (style == "" || strings.EqualFold(style, "canary")) {
			return "handle-panic-validating.GetContextFromv1alpha1Rollout"
		}
		// K4: v1alpha1 request naming the workload of another, blue-green Rollout of the namespace.
		if hasWL {
			for _, o := range w.st.inNamespace(a.NS) {
				// same workload = same (group, kind, name); the version segment of apiVersion does not matter
				if ov := readView(o.Tree); o.Name != a.Name && workloadIdentity(a.NS, ov.WL) == workloadIdentity(a.NS, wl) && ov.Style == "bluegreen" {
					return "v1alpha1-conflict-check-blind-to-bluegreen"
				}
			}
		}
		// K5: v1alpha1 UPDATE of a blue-green Rollout in Progressing/Terminating (whatever is accepted
		// is stored as a canary strategy, and the status is dropped).
		if progressing && target.Style == "bluegreen" {
			return "v1alpha1-update-of-bluegreen-unguarded"
		}
		// K2: v1alpha1 UPDATE of a canary/partition Rollout in Progressing/Terminating with another
		// number of steps.
		if progressing && target.Style != "bluegreen" && canary != nil && len(asList(canary["steps"])) != target.NSteps {
			return "v1alpha1-progressing-step-count-changed"
		}
	}
	return ""
}

// ---------- the world ----------

type world struct {
	t   vlib.TB
	chk string
	c   *Case
	st  *store
	h   *validating.RolloutCreateUpdateHandler
}

func newWorld(t vlib.TB, chk string, c *Case) *world {
	s := &store{}
	return &world{t: t, chk: chk, c: c, st: s, h: &validating.RolloutCreateUpdateHandler{Client: &storeClient{s: s}, Decoder: decoder}}
}

func (w *world) fail(sig, format string, args ...any) {
	vlib.Fail(w.t, w.chk, sig, w.c, format, args...)
}

// outcome of one admission request, for statistics.
type outcome struct {
	Called   bool
	Accepted bool
	Code     int32
	OldPhase string
	View     view
}

// panicSite names the innermost frame of the repository in a stack trace.
func panicSite(stack string) string {
	for _, ln := range strings.Split(stack, "\n") {
		ln = strings.TrimSpace(ln)
		if !strings.HasPrefix(ln, "github.com/openkruise/rollouts/") {
			continue
		}
		fn := ln[strings.LastIndex(ln, "/")+1:]
		if i := strings.LastIndex(fn, "("); i > 0 && !strings.HasSuffix(fn[:i], ")") {
			fn = fn[:i]
		} else if i := strings.Index(fn, "(0x"); i > 0 {
			fn = fn[:i]
		}
		fn = strings.NewReplacer("(*", "", ")", "", "...", "").Replace(fn)
		return fn
	}
	return "unknown"
}

// exec runs one action; a failure of the real conversion code inside the simulated API server is
// reported separately from a failure of the code under test.
func (w *world) exec(a Action) (out outcome) {
	var conv *conversionError
	func() {
		defer func() {
			if r := recover(); r != nil {
				if ce, ok := r.(conversionError); ok {
					conv = &ce
					return
				}
				panic(r) // rapid's own failure signal, or a harness bug
			}
		}()
		out = w.exec1(a)
	}()
	if conv != nil {
		w.fail("apiserver-conversion-failed", "conversion inside the simulated API server failed (a C20 matter, not admission): %s", conv.msg)
	}
	return out
}

func (w *world) exec1(a Action) (out outcome) {
	switch a.Kind {
	case "phase":
		if st := w.st.find(a.NS, a.Name); st != nil {
			setPhase(st.Tree, a.Phase)
		}
		return
	case "delete":
		w.st.remove(a.NS, a.Name)
		return
	}
	obj := parseTree(a.Obj)
	md := ensure(obj, "metadata")
	md["name"], md["namespace"] = a.Name, a.NS
	existing := w.st.find(a.NS, a.Name)
	req := admission.Request{AdmissionRequest: admissionv1.AdmissionRequest{
		UID:       types.UID(fmt.Sprintf("req-%d", w.st.seq)),
		Kind:      metav1.GroupVersionKind{Group: group, Version: a.Version, Kind: "Rollout"},
		Resource:  metav1.GroupVersionResource{Group: group, Version: a.Version, Resource: "rollouts"},
		Name:      a.Name,
		Namespace: a.NS,
		UserInfo:  authv1.UserInfo{Username: "kubernetes-admin"},
	}}
	req.RequestKind, req.RequestResource = &req.Kind, &req.Resource
	var oldStorage J
	switch a.Kind {
	case "create":
		w.st.seq++
		md["uid"] = fmt.Sprintf("uid-%d", w.st.seq)
		md["generation"] = 1
		md["creationTimestamp"] = "2024-01-01T00:00:00Z"
		delete(obj, "status")
		req.Operation = admissionv1.Create
		req.Object.Raw = mustJSON(obj)
	case "update":
		if existing == nil {
			return // nothing to update: the API server answers 404 before admission
		}
		oldStorage = existing.Tree
		oldView := viewAs(oldStorage, a.Version)
		omd := asMap(oldView["metadata"])
		for _, k := range []string{"uid", "generation", "creationTimestamp", "resourceVersion", "deletionTimestamp", "finalizers"} {
			if v, ok := omd[k]; ok {
				md[k] = v
			}
		}
		// the status subresource is enabled: a main-resource update keeps the old status
		if s, ok := oldView["status"]; ok {
			obj["status"] = s
		} else {
			delete(obj, "status")
		}
		out.OldPhase = readView(oldStorage).Phase
		req.Operation = admissionv1.Update
		req.Object.Raw = mustJSON(obj)
		req.OldObject.Raw = mustJSON(oldView)
	default:
		panic("harness: unknown action " + a.Kind)
	}

	// ---- the code under test ----
	var resp admission.Response
	if p, msg := vlib.Guard(func() { resp = w.h.Handle(context.TODO(), req) }); p {
		if strings.Contains(msg, convMarker) {
			panic(conversionError{msg})
		}
		site := panicSite(msg)
		w.fail("handle-panic-"+site, "Handle(%s %s %s/%s) panicked (net/http would recover it and the API server would fail the request under failurePolicy=Fail; no graceful rejection): %s\nobject=%s\noldObject=%s",
			req.Operation, a.Version, a.NS, a.Name, msg, req.Object.Raw, req.OldObject.Raw)
	}
	out.Called = true
	out.Accepted = resp.Allowed
	if resp.Result != nil {
		out.Code = resp.Result.Code
	}
	if !resp.Allowed {
		return
	}

	// ---- accepted: what the API server stores ----
	newStorage := toStorage(obj, a.Version)
	v := readView(newStorage)
	out.View = v
	w.checkStructure(a, v, newStorage)
	w.checkHelpers(a, v, newStorage)
	if a.Kind == "create" && existing != nil {
		return // storage answers AlreadyExists after admission; nothing is stored
	}
	if a.Kind == "update" {
		// "a change" is a difference between the object the user was shown (oldObject, in the request
		// version) and the one submitted, both read in storage form: what a lossy conversion does to
		// an unchanged field (e.g. gracePeriodSeconds 0 -> default 3 through v1alpha1) is C20's matter.
		shown := readView(oldStorage)
		if a.Version == vAlpha {
			shown = readView(toStorage(viewAs(oldStorage, vAlpha), vAlpha))
		}
		w.checkImmutable(a, readView(oldStorage), shown, v)
		existing.Tree = newStorage
	} else {
		w.st.objs = append(w.st.objs, &stored{NS: a.NS, Name: a.Name, Tree: newStorage})
	}
	w.checkOnePerWorkload(a)
	return
}

func setPhase(t J, phase string) {
	st := ensure(t, "status")
	if phase == "" {
		delete(st, "phase")
	} else {
		st["phase"] = phase
	}
	st["observedGeneration"] = 1
	if phase == "Terminating" {
		md := ensure(t, "metadata")
		md["deletionTimestamp"] = "2024-01-02T00:00:00Z"
		md["finalizers"] = []any{"rollouts.kruise.io/rollout"}
	}
	sub := J{"podTemplateHash": "pth", "currentStepIndex": 1, "nextStepIndex": 2, "finalisingStep": "", "currentStepState": "StepUpgrade", "stableRevision": "s1"}
	switch {
	case phase != "Progressing" && phase != "Terminating":
		delete(st, "canaryStatus")
		delete(st, "blueGreenStatus")
	case dig(t, "spec", "strategy", "blueGreen") != nil:
		sub["updatedRevision"], sub["updatedReplicas"], sub["updatedReadyReplicas"] = "c1", 1, 1
		st["blueGreenStatus"] = sub
	default:
		sub["canaryRevision"], sub["canaryReplicas"], sub["canaryReadyReplicas"] = "c1", 1, 1
		st["canaryStatus"] = sub
	}
	st["currentStepIndex"], st["currentStepState"] = 1, "StepUpgrade"
}

// ---------- oracles on an accepted object (restated from the property statement) ----------

func (w *world) checkStructure(a Action, v view, storage J) {
	desc := func() string {
		return fmt.Sprintf("%s %s %s/%s stored as %s", a.Kind, a.Version, a.NS, a.Name, mustJSON(storage["spec"]))
	}
	if v.Style == "none" {
		w.fail("accepted-without-strategy", "accepted a Rollout with neither canary nor blueGreen: %s", desc())
	}
	if v.HasCan && v.HasBG {
		w.fail("accepted-both-strategies", "accepted a Rollout with both canary and blueGreen: %s", desc())
	}
	if v.NSteps == 0 {
		w.fail("accepted-empty-steps", "accepted a Rollout without steps: %s", desc())
	}
	for i, r := range v.Steps {
		switch r.Kind {
		case "absent":
			w.fail("accepted-replicas-absent", "accepted step %d without replicas: %s", i, desc())
		case "bad":
			w.fail("accepted-replicas-garbage", "accepted step %d with replicas %q (neither an integer nor N%%): %s", i, r.Raw, desc())
		case "int":
			if r.Val <= 0 {
				w.fail("accepted-replicas-not-positive", "accepted step %d with replicas %d: %s", i, r.Val, desc())
			}
		case "pct":
			if r.Val <= 0 || r.Val > 100 {
				w.fail("accepted-replicas-not-positive", "accepted step %d with replicas %s: %s", i, r.Raw, desc())
			}
		}
	}
	for i := 1; i < len(v.Steps); i++ {
		p, c := v.Steps[i-1], v.Steps[i]
		if p.Kind == c.Kind && c.Val < p.Val {
			w.fail("accepted-decreasing-steps", "accepted steps %d->%d with replicas %s -> %s: %s", i-1, i, p.Raw, c.Raw, desc())
		}
	}
}

func (w *world) checkImmutable(a Action, stored, before, after view) {
	if stored.Phase != "Progressing" && stored.Phase != "Terminating" {
		return
	}
	pfx := ""
	if a.Version == vAlpha {
		pfx = "v1alpha1-"
		if stored.Style == "bluegreen" {
			// the v1alpha1 rendering of a blue-green Rollout is empty (no spec, no status)
			if stored.WL != after.WL || stored.TR != after.TR || stored.Style != after.Style || stored.NSteps != after.NSteps {
				w.fail("v1alpha1-update-of-bluegreen-unguarded", "phase %s blue-green Rollout %s/%s: a v1alpha1 UPDATE was accepted that changed workloadRef %v->%v, trafficRouting %q->%q, style %s->%s, steps %d->%d",
					stored.Phase, a.NS, a.Name, stored.WL, after.WL, stored.TR, after.TR, stored.Style, after.Style, stored.NSteps, after.NSteps)
			}
			return
		}
	}
	ph := stored.Phase
	if before.WL != after.WL {
		w.fail(pfx+"progressing-workloadref-changed", "phase %s: accepted UPDATE of %s/%s changes workloadRef %v -> %v", ph, a.NS, a.Name, before.WL, after.WL)
	}
	if before.TR != after.TR {
		w.fail(pfx+"progressing-traffic-routing-changed", "phase %s: accepted UPDATE of %s/%s changes traffic routing %q -> %q", ph, a.NS, a.Name, before.TR, after.TR)
	}
	if before.Style != after.Style {
		w.fail(pfx+"progressing-style-changed", "phase %s: accepted UPDATE of %s/%s changes style %s -> %s", ph, a.NS, a.Name, before.Style, after.Style)
	}
	if before.NSteps != after.NSteps {
		w.fail(pfx+"progressing-step-count-changed", "phase %s: accepted UPDATE of %s/%s changes the number of steps %d -> %d", ph, a.NS, a.Name, before.NSteps, after.NSteps)
	}
}

func (w *world) checkOnePerWorkload(a Action) {
	type ent struct {
		name string
		v    view
	}
	groups := map[string][]ent{}
	var keys []string
	for _, o := range w.st.inNamespace(a.NS) {
		v := readView(o.Tree)
		id := workloadIdentity(o.NS, v.WL)
		if _, ok := groups[id]; !ok {
			keys = append(keys, id)
		}
		groups[id] = append(groups[id], ent{o.Name, v})
	}
	sort.Strings(keys)
	for _, id := range keys {
		g := groups[id]
		if len(g) < 2 {
			continue
		}
		sig := "two-rollouts-one-workload"
		sameRef, bg := true, false
		for _, e := range g {
			if e.v.WL != g[0].v.WL {
				sameRef = false
			}
			if e.name != a.Name && e.v.Style == "bluegreen" {
				bg = true
			}
		}
		switch {
		case a.Version == vAlpha && bg:
			sig = "v1alpha1-conflict-check-blind-to-bluegreen"
		case !sameRef:
			sig = "two-rollouts-one-workload-apiversion-spelling"
		}
		var names []string
		for _, e := range g {
			names = append(names, fmt.Sprintf("%s(%s %s %s, %s)", e.name, e.v.WL[0], e.v.WL[1], e.v.WL[2], e.v.Style))
		}
		w.fail(sig, "after the accepted %s %s of %s/%s the store holds %d Rollouts for workload %s: %s", a.Version, a.Kind, a.NS, a.Name, len(g), id, strings.Join(names, ", "))
	}
}

// checkHelpers: the cheap pure helpers every controller calls first on a Rollout must not panic on
// an accepted object (as stored), and must read it the way the harness does.
func (w *world) checkHelpers(a Action, v view, storage J) {
	r := decodeBeta(storage)
	call := func(name string, f func()) {
		if p, msg := vlib.Guard(f); p {
			w.fail("helper-panic-"+name, "%s panicked on an accepted Rollout (%s %s): %s\nstored=%s", name, a.Kind, a.Version, msg, mustJSON(storage))
		}
	}
	var style v1beta1.RollingStyleType
	var steps []v1beta1.CanaryStep
	var trs []v1beta1.TrafficRoutingRef
	call("GetRollingStyle", func() { style = r.Spec.Strategy.GetRollingStyle() })
	call("GetSteps", func() { steps = r.Spec.Strategy.GetSteps() })
	call("GetTrafficRouting", func() { trs = r.Spec.Strategy.GetTrafficRouting() })
	call("HasTrafficRoutings", func() { _ = r.Spec.Strategy.HasTrafficRoutings() })
	call("DisableGenerateCanaryService", func() { _ = r.Spec.Strategy.DisableGenerateCanaryService() })
	call("IsBlueGreenRelease", func() { _ = r.Spec.Strategy.IsBlueGreenRelease() })
	call("IsCanaryStragegy", func() { _ = r.Spec.Strategy.IsCanaryStragegy() })
	call("IsEmptyRelease", func() { _ = r.Spec.Strategy.IsEmptyRelease() })
	call("IsRealPartition", func() { _ = v1beta1.IsRealPartition(r) })
	call("GetGVKFrom", func() { _ = util.IsSupportedWorkload(util.GetGVKFrom(&r.Spec.WorkloadRef)) })
	call("IsRollbackInBatchPolicy", func() { _ = util.IsRollbackInBatchPolicy(r, map[string]string{}) })
	call("GetContextFromv1beta1Rollout", func() { _ = validating.GetContextFromv1beta1Rollout(r) })
	n := int32(len(steps))
	call("NextBatchIndex", func() {
		for _, cur := range []int32{math.MinInt32, -1, 0, 1, n - 1, n, n + 1, math.MaxInt32} {
			_ = util.NextBatchIndex(r, cur)
		}
	})
	call("StepHash", func() {
		// the pure part of RolloutReconciler.calculateRolloutHash
		var data string
		if r.Spec.Strategy.IsCanaryStragegy() {
			c := r.Spec.Strategy.Canary.DeepCopy()
			c.FailureThreshold, c.Steps = nil, nil
			for i := range r.Spec.Strategy.Canary.Steps {
				s := r.Spec.Strategy.Canary.Steps[i].DeepCopy()
				s.Pause = v1beta1.RolloutPause{}
				c.Steps = append(c.Steps, *s)
			}
			data = util.DumpJSON(c)
		} else {
			b := r.Spec.Strategy.BlueGreen.DeepCopy()
			b.FailureThreshold, b.Steps = nil, nil
			for i := range r.Spec.Strategy.BlueGreen.Steps {
				s := r.Spec.Strategy.BlueGreen.Steps[i].DeepCopy()
				s.Pause = v1beta1.RolloutPause{}
				b.Steps = append(b.Steps, *s)
			}
			data = util.DumpJSON(b)
		}
		_ = rand.SafeEncodeString(util.EncodeHash(data))
	})
	// the documented user-patchable next-step index, any int32, must come out corrected
	uncorrected := ""
	call("CheckNextBatchIndexWithCorrect", func() {
		for cur := int32(0); cur <= n; cur++ {
			for _, next := range []int32{math.MinInt32, -1, 0, 1, n, n + 1, math.MaxInt32} {
				c := r.DeepCopy()
				cs := v1beta1.CommonStatus{CurrentStepIndex: cur, NextStepIndex: next}
				if style == v1beta1.BlueGreenRollingStyle {
					c.Status.BlueGreenStatus = &v1beta1.BlueGreenStatus{CommonStatus: cs}
					c.Status.CanaryStatus = nil
				} else {
					c.Status.CanaryStatus = &v1beta1.CanaryStatus{CommonStatus: cs}
					c.Status.BlueGreenStatus = nil
				}
				util.CheckNextBatchIndexWithCorrect(c)
				got := c.Status.GetSubStatus().NextStepIndex
				if !(got == -1 || (got >= 1 && got <= n)) && uncorrected == "" {
					uncorrected = fmt.Sprintf("CheckNextBatchIndexWithCorrect left nextStepIndex=%d (patched %d, current %d, %d steps)", got, next, cur, n)
				}
			}
		}
	})
	if uncorrected != "" {
		w.fail("next-step-index-not-corrected", "%s", uncorrected)
	}
	// harness self-check: the independent reading and the real accessors agree
	want := map[string]v1beta1.RollingStyleType{"bluegreen": v1beta1.BlueGreenRollingStyle, "canary": v1beta1.CanaryRollingStyle, "partition": v1beta1.PartitionRollingStyle}[v.Style]
	if style != want || len(steps) != v.NSteps || len(trs) != v.NTR {
		w.fail("harness-view-mismatch", "harness reads style=%s steps=%d trs=%d, accessors say style=%s steps=%d trs=%d: %s", v.Style, v.NSteps, v.NTR, style, len(steps), len(trs), mustJSON(storage))
	}
}

// ---------- generation of a history ----------

var (
	rnames  = []string{"r0", "r1", "r2", "r3", "r4", "r5"}
	phases  = []string{"Progressing", "Progressing", "Progressing", "Terminating", "Terminating", "Healthy", "Healthy", "Initial", "Disabled", ""}
	nspaces = []string{"ns-a", "ns-a", "ns-a", "ns-a", "ns-a", "ns-b"}
)

func stripForUser(view J) J {
	o := cloneTree(view)
	delete(o, "status")
	md := asMap(o["metadata"])
	for _, k := range []string{"uid", "generation", "creationTimestamp", "resourceVersion", "deletionTimestamp", "finalizers"} {
		delete(md, k)
	}
	return o
}

func (w *world) genAction(t *rapid.T, alphaShare int) (Action, *G) {
	g := &G{t: t}
	g.dirty = g.pct("dirty", 45)
	version := vBeta
	if alphaShare > 0 && g.pct("alpha", alphaShare) {
		version = vAlpha
	}
	kind := "create"
	if len(w.st.objs) > 0 {
		kind = pick(g, "action", []string{"create", "create", "create", "update", "update", "update", "update", "update", "phase", "phase", "phase", "delete"})
	}
	switch kind {
	case "create":
		ns := pick(g, "ns", nspaces)
		var free []string
		for _, n := range rnames {
			if w.st.find(ns, n) == nil {
				free = append(free, n)
			}
		}
		name := pick(g, "name", rnames)
		if len(free) > 0 && g.pct("fresh-name", 90) {
			name = pick(g, "free-name", free)
		}
		obj := g.object(version, ns, name)
		return Action{Kind: kind, Version: version, NS: ns, Name: name, Obj: mustJSON(obj)}, g
	case "update":
		st := w.st.objs[g.idx("target", len(w.st.objs))]
		if g.pct("controller-writes-status-first", 75) {
			// the controller has written a status since the last request
			pa := Action{Kind: "phase", NS: st.NS, Name: st.Name, Phase: pick(g, "phase", phases)}
			w.c.Actions = append(w.c.Actions, pa)
			w.exec(pa)
			vlib.Class(w.chk, "action:phase")
		}
		old := viewAs(st.Tree, version)
		var obj J
		if dig(old, "spec", "strategy", "canary") == nil && dig(old, "spec", "strategy", "blueGreen") == nil || g.pct("fresh-object", 30) {
			g.class("update:fresh")
			obj = g.object(version, st.NS, st.Name)
		} else {
			g.class("update:mutated")
			obj = stripForUser(old)
			for i, n := 0, pick(g, "nmut", []int{1, 1, 1, 2}); i < n; i++ {
				g.mutate(obj, version)
			}
		}
		return Action{Kind: kind, Version: version, NS: st.NS, Name: st.Name, Obj: mustJSON(obj)}, g
	case "phase":
		st := w.st.objs[g.idx("target", len(w.st.objs))]
		return Action{Kind: kind, NS: st.NS, Name: st.Name, Phase: pick(g, "phase", phases)}, g
	default:
		st := w.st.objs[g.idx("target", len(w.st.objs))]
		return Action{Kind: "delete", NS: st.NS, Name: st.Name}, g
	}
}

func stepBucket(n int) string {
	if n >= 4 {
		return "steps=4+"
	}
	return fmt.Sprintf("steps=%d", n)
}

func (w *world) record(a Action, g *G, out outcome) {
	if a.Kind != "create" && a.Kind != "update" {
		vlib.Class(w.chk, "action:"+a.Kind)
		return
	}
	cls := []string{"op:" + a.Kind + "-" + a.Version, fmt.Sprintf("store-size=%d", len(w.st.objs))}
	if g.dirty {
		cls = append(cls, "mode:dirty")
	} else {
		cls = append(cls, "mode:clean")
	}
	switch {
	case !out.Called:
		cls = append(cls, "outcome:not-called")
	case out.Accepted:
		cls = append(cls, "outcome:accepted", "accepted:"+a.Kind+"-"+a.Version, "accepted-style:"+out.View.Style, "accepted-"+stepBucket(out.View.NSteps))
		if out.View.NTR > 0 {
			cls = append(cls, "accepted-with-traffic-routing")
		}
		kinds := map[string]bool{}
		for _, s := range out.View.Steps {
			kinds[s.Kind] = true
		}
		if kinds["int"] && kinds["pct"] {
			cls = append(cls, "accepted-int-percent-mix")
		}
	default:
		cls = append(cls, fmt.Sprintf("outcome:rejected-%d", out.Code))
	}
	if a.Kind == "update" {
		ph := out.OldPhase
		if ph == "" {
			ph = "<none>"
		}
		cls = append(cls, "old-phase:"+ph)
		if out.Called {
			acc := "rejected"
			if out.Accepted {
				acc = "accepted"
			}
			cls = append(cls, "update-in-"+ph+":"+acc)
		}
	}
	cls = append(cls, g.cls...)
	nt := out.Accepted && out.View.NSteps >= 2
	vlib.Record(w.chk, a.Kind+a.Version+out.OldPhase+string(a.Obj), nt, cls, func() any { return a })
}

func history(t *rapid.T, chk string, alphaShare int) {
	c := &Case{Check: chk}
	w := newWorld(t, chk, c)
	n := rapid.IntRange(4, 16).Draw(t, "len")
	for i := 0; i < n; i++ {
		a, g := w.genAction(t, alphaShare)
		a.Cls = g.cls
		if sig := w.knownClass(a); sig != "" && excluded(sig) {
			vlib.Excluded(chk, sig) // steered away: the request is not sent
			continue
		}
		c.Actions = append(c.Actions, a)
		out := w.exec(a)
		w.record(a, g, out)
	}
}

func replay(t *testing.T, chk string, c Case) {
	w := newWorld(t, chk, &c)
	for _, a := range c.Actions {
		w.exec(a)
	}
}

func TestC09AdmissionV1beta1(t *testing.T) {
	var rc Case
	if ok, _ := vlib.LoadReplay(chkBeta, &rc); ok {
		replay(t, chkBeta, rc)
		return
	}
	rapid.Check(t, func(t *rapid.T) { history(t, chkBeta, 0) })
}

func TestC09AdmissionV1alpha1(t *testing.T) {
	var rc Case
	if ok, _ := vlib.LoadReplay(chkAlpha, &rc); ok {
		replay(t, chkAlpha, rc)
		return
	}
	rapid.Check(t, func(t *rapid.T) { history(t, chkAlpha, 70) })
}
