package p09

// Grammar-based generation of Rollout objects as JSON trees (exactly what an API server would put
// into an AdmissionRequest after pruning and defaulting): a "clean" mode that produces specs the
// documentation calls valid, and a "dirty" mode that injects faults at every grammar node.

import (
	"fmt"
	mbits "math/bits"

	"pgregory.net/rapid"
)

type G struct {
	t     *rapid.T
	dirty bool
	cls   []string // classes of the request being generated
}

func (g *G) class(c string) { g.cls = append(g.cls, c) }

// bits draws k fair coin flips. rapid's integer generators are heavily biased towards small values
// (measured: IntRange(0,99) lands in 0..9 42 % of the time); only Bool is uniform, so calibrated
// probabilities and uniform choices are composed from booleans. Shrinks towards 0.
func (g *G) bits(l string, k int) int {
	v := 0
	for i := 0; i < k; i++ {
		if rapid.Bool().Draw(g.t, l) {
			v |= 1 << i
		}
	}
	return v
}

// pct is true with probability ~p/100; shrinks towards false.
func (g *G) pct(l string, p int) bool {
	thr := (p*64 + 50) / 100
	return g.bits(l, 6) >= 64-thr
}

// fault fires only in dirty mode.
func (g *G) fault(l string, p int) bool {
	if !g.dirty {
		return false
	}
	if g.pct("fault-"+l, p) {
		g.class("fault:" + l)
		return true
	}
	return false
}

// rng draws a number with rapid's own bias (small values and the bounds are favoured).
func (g *G) rng(l string, lo, hi int) int { return rapid.IntRange(lo, hi).Draw(g.t, l) }

// idx draws an (almost) uniform index below n.
func (g *G) idx(l string, n int) int {
	if n <= 1 {
		return 0
	}
	return g.bits(l, mbits.Len(uint(n-1))+2) % n
}

func pick[T any](g *G, l string, xs []T) T { return xs[g.idx(l, len(xs))] }

// ---------- workloads ----------

type wkind struct{ api, kind string }

var (
	supportedKinds = []wkind{
		{"apps/v1", "Deployment"}, {"apps/v1", "Deployment"}, {"apps/v1", "Deployment"}, {"apps/v1", "Deployment"},
		{"apps.kruise.io/v1alpha1", "CloneSet"}, {"apps.kruise.io/v1alpha1", "CloneSet"},
		{"apps/v1", "StatefulSet"},
		{"apps.kruise.io/v1beta1", "StatefulSet"},
		{"apps.kruise.io/v1alpha1", "StatefulSet"},
		{"apps.kruise.io/v1alpha1", "DaemonSet"},
		{"apps/v1", "ReplicaSet"},
	}
	blueGreenKinds = []wkind{{"apps/v1", "Deployment"}, {"apps/v1", "Deployment"}, {"apps.kruise.io/v1alpha1", "CloneSet"}}
	odd            = []wkind{
		{"apps/v1", "DaemonSet"}, {"batch/v1", "Job"}, {"v1", "Pod"}, {"apps/v1", ""}, {"", "Deployment"}, {"", ""},
		{"a/b/c", "Deployment"}, {"apps", "Deployment"}, {"apps/v1", "deployment"}, {"extensions/v1beta1", "Deployment"},
		{"apps/v1beta1", "Deployment"}, {"apps/v1beta2", "StatefulSet"}, {"apps.kruise.io/v1beta1", "CloneSet"},
	}
	wnames = []string{"w0", "w1", "w2", "w3"}
)

func isDeployment(k wkind) bool { return k.api == "apps/v1" && k.kind == "Deployment" }

func (g *G) workload(blueGreen bool) (wkind, string) {
	var k wkind
	switch {
	case g.fault("workload-kind", 8):
		k = pick(g, "odd-kind", odd)
	case blueGreen && !g.fault("bluegreen-on-other-kind", 12):
		k = pick(g, "bg-kind", blueGreenKinds)
	default:
		k = pick(g, "kind", supportedKinds)
	}
	name := pick(g, "wname", wnames)
	if g.fault("workload-name-empty", 3) {
		name = ""
	}
	return k, name
}

// ---------- replicas ----------

var garbageReplicas = []any{"", "abc", "50", "%", "1e3%", "+5%", " 5%", "5.5%", "5%%", "0x10%", "-0%"}

type repState struct {
	mode   int // 0 all percent, 1 all int, 2 mixed
	curPct int
	curInt int
}

// nextReplicas returns the replicas value of the next step (nil = field absent) and whether it is a
// percentage, keeping comparable neighbours non-decreasing unless a fault fires.
func (g *G) nextReplicas(st *repState, first bool, capPct int) (any, bool) {
	isPct := st.mode == 0 || (st.mode == 2 && g.pct("step-is-pct", 50))
	switch {
	case g.fault("replicas-absent", 7):
		return nil, true
	case g.fault("replicas-zero", 4):
		if g.pct("zero-as-pct", 50) {
			return "0%", true
		}
		return 0, false
	case g.fault("replicas-negative", 4):
		if g.pct("neg-as-pct", 50) {
			return fmt.Sprintf("-%d%%", g.rng("neg", 1, 50)), true
		}
		return -g.rng("neg", 1, 50), false
	case g.fault("replicas-over-100pct", 4):
		return fmt.Sprintf("%d%%", pick(g, "over", []int{101, 150, 1000})), true
	case g.fault("replicas-garbage", 5):
		return pick(g, "garbage", garbageReplicas), true
	case g.fault("replicas-huge-int", 2):
		return pick(g, "huge", []int64{2147483647, 2147483648, 3000000000, -2147483649}), false
	case !first && g.fault("replicas-decreasing", 8):
		if isPct && st.curPct > 1 {
			return fmt.Sprintf("%d%%", g.rng("dec-pct", 1, st.curPct-1)), true
		}
		if !isPct && st.curInt > 1 {
			return g.rng("dec-int", 1, st.curInt-1), false
		}
	}
	if isPct {
		lo := st.curPct
		if lo < 1 {
			lo = 1
		}
		hi := lo + 35
		if hi > capPct {
			hi = capPct
		}
		if lo > hi {
			lo = hi
		}
		st.curPct = g.rng("pct", lo, hi)
		return fmt.Sprintf("%d%%", st.curPct), true
	}
	lo := st.curInt
	if lo < 1 {
		lo = 1
	}
	st.curInt = g.rng("int", lo, lo+6)
	if g.pct("int-big", 3) {
		st.curInt += 200
	}
	return st.curInt, false
}

// ---------- step decorations ----------

var headerNames = []string{"user-agent", "x-canary", "cookie"}

func (g *G) headerMatch() J {
	h := J{"name": pick(g, "hname", headerNames), "value": pick(g, "hval", []string{"true", "pc.*", "v"})}
	h["type"] = pick(g, "htype", []string{"Exact", "Exact", "RegularExpression"}) // defaulted by the schema
	return h
}

func (g *G) matches(beta bool) []any {
	var out []any
	for i, n := 0, g.rng("nmatches", 1, 2); i < n; i++ {
		m := J{}
		var hs []any
		for j, k := 0, g.rng("nheaders", 0, 2); j < k; j++ {
			hs = append(hs, g.headerMatch())
		}
		if len(hs) > 0 {
			m["headers"] = hs
		}
		if beta {
			if g.pct("match-path", 20) {
				m["path"] = J{"type": pick(g, "ptype", []string{"PathPrefix", "Exact", "RegularExpression"}), "value": pick(g, "pval", []string{"/", "/v2", ""})}
			}
			if g.pct("match-query", 20) {
				m["queryParams"] = []any{J{"name": "user", "value": "tester", "type": "Exact"}}
			}
		}
		out = append(out, m)
	}
	return out
}

func (g *G) headerModifier() J {
	f := J{}
	if g.pct("rhm-set", 60) {
		f["set"] = []any{J{"name": "x-gray", "value": "1"}}
	}
	if g.pct("rhm-add", 30) {
		f["add"] = []any{J{"name": "x-add", "value": "v"}}
	}
	if g.pct("rhm-remove", 20) {
		f["remove"] = []any{"gone"}
	}
	return f
}

var garbageTraffic = []string{"", "abc", "50", "%", "0%", "101%", "-5%", "1000%", "5.5%", " 5%", "+5%"}

// steps generates the step list of a v1beta1 strategy block or of a v1alpha1 canary block (alpha:
// integer weight instead of the traffic string, and weight-only steps). partition: the
// "percent limit when the step routes traffic" rule applies, which clean mode respects.
func (g *G) steps(alpha, partition, blueGreen bool) []any {
	n := pick(g, "nsteps", []int{1, 2, 2, 3, 3, 3, 4, 4, 5})
	if g.fault("steps-empty", 6) {
		return []any{}
	}
	st := &repState{mode: pick(g, "rep-mode", []int{0, 0, 1, 2})}
	curWeight := 0
	out := []any{}
	for i := 0; i < n; i++ {
		s := J{}
		limit := 100
		if partition && !g.fault("partition-limit", 25) {
			limit = 50
		}
		routeP := 40
		if alpha {
			routeP = 55
		}
		wantRoute, wantMatches := g.pct("routed", routeP), g.pct("step-matches", 18)
		if st.curPct > limit {
			wantRoute, wantMatches = false, false
		}
		capPct := 100
		if wantRoute || wantMatches {
			capPct = limit
		}
		weightOnly := alpha && wantRoute && g.pct("weight-only", 50)
		if weightOnly {
			lo := 1
			if curWeight > lo {
				lo = curWeight
			}
			if st.curPct > lo {
				lo = st.curPct
			}
			if lo > capPct {
				weightOnly, wantRoute = false, false
			} else {
				hi := lo + 40
				if hi > capPct {
					hi = capPct
				}
				curWeight = g.rng("weight-val", lo, hi)
				if st.mode != 1 {
					st.curPct = curWeight
				}
			}
		}
		if !weightOnly {
			if rep, _ := g.nextReplicas(st, i == 0, capPct); rep != nil {
				s["replicas"] = rep
			}
			if wantRoute && alpha {
				lo := 1
				if curWeight > lo {
					lo = curWeight
				}
				hi := lo + 40
				if hi > 100 {
					hi = 100
				}
				curWeight = g.rng("weight-val", lo, hi)
			}
		}
		if wantRoute {
			if alpha {
				var w any = curWeight
				switch {
				case g.fault("weight-zero", 4):
					w = 0
				case g.fault("weight-negative", 3):
					w = -g.rng("wneg", 1, 9)
				case g.fault("weight-over-100", 4):
					w = pick(g, "wover", []int{101, 500})
				case curWeight > 1 && g.fault("weight-decreasing", 5):
					w = g.rng("wdec", 1, curWeight-1)
				}
				s["weight"] = w
			} else {
				lo := 1
				if blueGreen && g.pct("traffic-zero-bg", 15) {
					lo = 0
				}
				s["traffic"] = fmt.Sprintf("%d%%", g.rng("traffic-val", lo, 100))
				if g.fault("traffic-garbage", 12) {
					s["traffic"] = pick(g, "traffic-bad", garbageTraffic)
				}
			}
		}
		if wantMatches {
			s["matches"] = g.matches(!alpha)
		}
		if g.pct("step-rhm", 10) {
			s["requestHeaderModifier"] = g.headerModifier()
		}
		switch g.rng("pause", 0, 3) {
		case 1:
			s["pause"] = J{}
		case 2:
			s["pause"] = J{"duration": g.rng("pause-sec", 0, 600)}
		}
		out = append(out, s)
	}
	return out
}

// ---------- traffic routings ----------

func (g *G) trafficRouting() J {
	tr := J{"service": pick(g, "svc", []string{"svc-a", "svc-b"}), "gracePeriodSeconds": pick(g, "grace", []int{3, 3, 3, 0, 30})}
	if g.fault("tr-service-empty", 6) {
		tr["service"] = ""
	}
	if g.fault("tr-grace-negative", 6) {
		tr["gracePeriodSeconds"] = -1
	}
	switch k := g.rng("tr-kind", 0, 9); {
	case g.fault("tr-no-provider", 8):
	case g.fault("tr-empty-custom-list", 6):
		tr["customNetworkRefs"] = []any{}
	case k <= 4:
		ing := J{"name": pick(g, "ing-name", []string{"ing-a", "ing-b"})}
		if g.pct("ing-class", 50) {
			ing["classType"] = pick(g, "ing-class-val", []string{"nginx", "aliyun-alb", "higress", ""})
		}
		if g.fault("tr-ingress-name-empty", 8) {
			ing["name"] = ""
		}
		tr["ingress"] = ing
	case k <= 7:
		gw := J{"httpRouteName": pick(g, "route", []string{"route-a", "route-b"})}
		if g.fault("tr-gateway-no-route", 10) {
			if g.pct("route-empty", 50) {
				gw["httpRouteName"] = ""
			} else {
				delete(gw, "httpRouteName")
			}
		}
		tr["gateway"] = gw
	default:
		tr["customNetworkRefs"] = []any{J{"apiVersion": "networking.istio.io/v1alpha3", "kind": pick(g, "ckind", []string{"VirtualService", "DestinationRule"}), "name": "vs-a"}}
		if g.pct("custom-plus-ingress", 15) {
			tr["ingress"] = J{"name": "ing-a"}
		}
	}
	return tr
}

func (g *G) trafficRoutings() []any {
	n := 0
	if g.pct("has-tr", 45) {
		n = 1
	}
	if g.fault("tr-more-than-one", 8) {
		n = 2
	}
	var out []any
	for i := 0; i < n; i++ {
		out = append(out, g.trafficRouting())
	}
	return out
}

func (g *G) strMap(l string) J {
	m := J{}
	for i, n := 0, g.rng(l+"-n", 0, 2); i < n; i++ {
		m[pick(g, l+"-k", []string{"k1", "app", "x/y"})] = pick(g, l+"-v", []string{"", "v", "w"})
	}
	return m
}

func (g *G) intOrPct(l string) any {
	if g.pct(l+"-pct", 50) {
		return fmt.Sprintf("%d%%", g.rng(l, 0, 100))
	}
	return g.rng(l, 0, 10)
}

// ---------- whole objects ----------

func meta(version, ns, name string) J {
	return J{"apiVersion": group + "/" + version, "kind": "Rollout", "metadata": J{"name": name, "namespace": ns}}
}

func (g *G) decorate(m J) {
	md := asMap(m["metadata"])
	if g.pct("labels", 20) {
		md["labels"] = g.strMap("labels")
	}
	if g.pct("rollback-in-batch", 10) {
		ensure(md, "annotations")["rollouts.kruise.io/rollback-in-batch"] = "true"
	}
}

// strategyBlock fills the fields shared by canary and blueGreen blocks.
func (g *G) strategyBlock(alpha, partition, blueGreen bool) J {
	b := J{}
	trs := g.trafficRoutings()
	if len(trs) > 0 {
		b["trafficRoutings"] = trs
	}
	if g.fault("steps-absent", 4) {
		// no steps key at all
	} else {
		b["steps"] = g.steps(alpha, partition, blueGreen)
	}
	if g.pct("failure-threshold", 15) {
		b["failureThreshold"] = g.intOrPct("ft")
	}
	if g.pct("disable-canary-svc", 10) {
		b["disableGenerateCanaryService"] = true
	}
	if !blueGreen && g.pct("ppm", 10) {
		b["patchPodTemplateMetadata"] = J{"labels": g.strMap("ppm-l"), "annotations": g.strMap("ppm-a")}
	}
	if !alpha && g.pct("tr-ref", 8) {
		b["trafficRoutingRef"] = "tr-demo"
	}
	return b
}

func (g *G) betaObject(ns, name string) J {
	o := meta(vBeta, ns, name)
	g.decorate(o)
	if g.fault("spec-absent", 2) {
		return o
	}
	which := "canary"
	if g.pct("bluegreen", 33) {
		which = "blueGreen"
	}
	k, wname := g.workload(which == "blueGreen")
	spec := J{"workloadRef": J{"apiVersion": k.api, "kind": k.kind, "name": wname}, "disabled": g.pct("disabled", 8)}
	strat := J{}
	if g.pct("paused", 10) {
		strat["paused"] = true
	}
	switch {
	case g.fault("strategy-empty", 5):
	case g.fault("strategy-both", 5):
		strat["canary"] = g.strategyBlock(false, true, false)
		strat["blueGreen"] = g.strategyBlock(false, false, true)
	case which == "blueGreen":
		strat["blueGreen"] = g.strategyBlock(false, false, true)
	default:
		extra := g.pct("extra-workload", 40)
		partition := !(extra && isDeployment(k))
		b := g.strategyBlock(false, partition, false)
		if extra {
			b["enableExtraWorkloadForCanary"] = true
		}
		strat["canary"] = b
	}
	spec["strategy"] = strat
	o["spec"] = spec
	return o
}

var alphaStyles = []string{"<absent>", "<absent>", "", "partition", "Partition", "canary", "Canary"}

func (g *G) alphaObject(ns, name string) J {
	o := meta(vAlpha, ns, name)
	g.decorate(o)
	if g.fault("spec-absent", 2) {
		return o
	}
	style := pick(g, "style", alphaStyles)
	if g.fault("style-unknown", 5) {
		style = pick(g, "style-bad", []string{"bluegreen", "bogus", "PARTITION "})
	}
	md := asMap(o["metadata"])
	if style != "<absent>" {
		ensure(md, "annotations")[styleAnn] = style
	}
	if g.pct("tr-annotation", 8) {
		ensure(md, "annotations")[trAnn] = "tr-demo"
	}
	k, wname := g.workload(false)
	spec := J{"objectRef": J{"workloadRef": J{"apiVersion": k.api, "kind": k.kind, "name": wname}}, "disabled": g.pct("disabled", 8)}
	if g.fault("workloadref-absent", 6) {
		spec["objectRef"] = J{}
	}
	strat := J{}
	if g.pct("paused", 10) {
		strat["paused"] = true
	}
	if !g.fault("canary-absent", 6) {
		partition := style == "partition" || style == "Partition" || !isDeployment(k)
		strat["canary"] = g.strategyBlock(true, partition, false)
	}
	spec["strategy"] = strat
	if g.pct("rollout-id", 5) {
		spec["rolloutID"] = "rid-1"
	}
	o["spec"] = spec
	return o
}

func (g *G) object(version, ns, name string) J {
	if version == vAlpha {
		return g.alphaObject(ns, name)
	}
	return g.betaObject(ns, name)
}

// ---------- mutations of an existing object (UPDATE requests) ----------

// block returns the strategy block a mutation should work on and its key.
func block(o J, version string) (J, string) {
	st := asMap(dig(o, "spec", "strategy"))
	if st == nil {
		return nil, ""
	}
	if version == vBeta {
		if b := asMap(st["blueGreen"]); b != nil {
			return b, "blueGreen"
		}
	}
	return asMap(st["canary"]), "canary"
}

func wlRef(o J, version string) J {
	if version == vAlpha {
		return asMap(dig(o, "spec", "objectRef", "workloadRef"))
	}
	return asMap(dig(o, "spec", "workloadRef"))
}

var mutations = []string{
	"none", "none", "wl-name", "wl-kind", "wl-version-spelling", "tr-edit", "tr-edit", "tr-toggle", "style", "style",
	"steps-add", "steps-add", "steps-remove", "steps-remove", "step-edit", "step-edit", "paused", "disabled", "meta", "break-replicas",
}

func bumpReplicas(g *G, cur any, up bool) any {
	r := readRep(cur)
	d := int64(g.rng("bump", 0, 10))
	if !up {
		d = -d
	}
	switch r.Kind {
	case "int":
		return r.Val + d
	case "pct":
		v := r.Val + d
		if v > 100 && !g.dirty {
			v = 100
		}
		return fmt.Sprintf("%d%%", v)
	}
	return "10%"
}

func (g *G) mutate(o J, version string) {
	m := pick(g, "mutation", mutations)
	g.class("mut:" + m)
	b, key := block(o, version)
	wl := wlRef(o, version)
	switch m {
	case "wl-name":
		if wl != nil {
			wl["name"] = pick(g, "wname", wnames)
		}
	case "wl-kind":
		if wl != nil {
			k := pick(g, "kind", supportedKinds)
			wl["apiVersion"], wl["kind"] = k.api, k.kind
		}
	case "wl-version-spelling":
		if wl != nil {
			api, _ := asStr(wl["apiVersion"])
			switch api {
			case "apps/v1":
				wl["apiVersion"] = "apps/v1beta2"
			case "apps.kruise.io/v1alpha1":
				wl["apiVersion"] = "apps.kruise.io/v1beta1"
			case "apps.kruise.io/v1beta1":
				wl["apiVersion"] = "apps.kruise.io/v1alpha1"
			}
		}
	case "tr-edit":
		if b == nil {
			return
		}
		trs := asList(b["trafficRoutings"])
		if len(trs) == 0 {
			b["trafficRoutings"] = []any{g.trafficRouting()}
			return
		}
		tr := asMap(trs[0])
		switch g.rng("tr-edit-what", 0, 3) {
		case 0:
			tr["service"] = pick(g, "svc", []string{"svc-a", "svc-b", "svc-c"})
		case 1:
			tr["gracePeriodSeconds"] = pick(g, "grace", []int{3, 5, 0})
		case 2:
			if ing := asMap(tr["ingress"]); ing != nil {
				ing["name"] = pick(g, "ing-name", []string{"ing-a", "ing-b", "ing-c"})
			} else if gw := asMap(tr["gateway"]); gw != nil {
				gw["httpRouteName"] = pick(g, "route", []string{"route-a", "route-b", "route-c"})
			}
		default:
			trs[0] = g.trafficRouting()
		}
	case "tr-toggle":
		if b == nil {
			return
		}
		if len(asList(b["trafficRoutings"])) == 0 {
			b["trafficRoutings"] = []any{g.trafficRouting()}
		} else if g.pct("tr-empty-list", 30) {
			b["trafficRoutings"] = []any{}
		} else {
			delete(b, "trafficRoutings")
		}
	case "style":
		if version == vAlpha {
			md := ensure(o, "metadata")
			s := pick(g, "style", alphaStyles)
			if s == "<absent>" {
				delete(ensure(md, "annotations"), styleAnn)
			} else {
				ensure(md, "annotations")[styleAnn] = s
			}
			return
		}
		if b == nil {
			return
		}
		st := asMap(dig(o, "spec", "strategy"))
		switch {
		case key == "blueGreen":
			delete(st, "blueGreen")
			if g.pct("to-extra", 50) {
				b["enableExtraWorkloadForCanary"] = true
			}
			st["canary"] = b
		case g.pct("to-bluegreen", 35):
			delete(st, "canary")
			delete(b, "enableExtraWorkloadForCanary")
			delete(b, "patchPodTemplateMetadata")
			st["blueGreen"] = b
		default:
			if x, _ := b["enableExtraWorkloadForCanary"].(bool); x {
				delete(b, "enableExtraWorkloadForCanary")
			} else {
				b["enableExtraWorkloadForCanary"] = true
			}
		}
	case "steps-add":
		if b == nil {
			return
		}
		steps := asList(b["steps"])
		ns := J{"replicas": "100%"}
		if len(steps) > 0 {
			last := readRep(dig(steps[len(steps)-1], "replicas"))
			if last.Kind == "int" {
				ns["replicas"] = last.Val + int64(g.rng("add-int", 0, 5))
			}
		}
		if g.pct("add-front", 20) {
			ns["replicas"] = "1%"
			b["steps"] = append([]any{ns}, steps...)
		} else {
			b["steps"] = append(steps, ns)
		}
	case "steps-remove":
		if b == nil {
			return
		}
		steps := asList(b["steps"])
		if len(steps) == 0 {
			return
		}
		if g.pct("remove-first", 30) {
			b["steps"] = steps[1:]
		} else {
			b["steps"] = steps[:len(steps)-1]
		}
	case "step-edit":
		if b == nil {
			return
		}
		steps := asList(b["steps"])
		if len(steps) == 0 {
			return
		}
		i := g.rng("edit-idx", 0, len(steps)-1)
		s := asMap(steps[i])
		switch g.rng("edit-what", 0, 2) {
		case 0:
			if i == len(steps)-1 || g.dirty {
				s["replicas"] = bumpReplicas(g, s["replicas"], true)
			} else {
				s["replicas"] = bumpReplicas(g, s["replicas"], false)
				if r := readRep(s["replicas"]); r.Val <= 0 && !g.dirty {
					if r.Kind == "pct" {
						s["replicas"] = "1%"
					} else {
						s["replicas"] = 1
					}
				}
			}
		case 1:
			s["pause"] = J{"duration": g.rng("pause-sec", 0, 600)}
		default:
			if version == vBeta {
				if g.pct("drop-traffic", 50) {
					delete(s, "traffic")
				} else {
					s["traffic"] = fmt.Sprintf("%d%%", g.rng("traffic-val", 1, 100))
				}
			} else if g.pct("drop-weight", 50) && s["replicas"] != nil {
				delete(s, "weight")
			} else {
				s["weight"] = g.rng("weight-val", 1, 100)
			}
		}
	case "paused":
		st := ensure(o, "spec", "strategy")
		if x, _ := st["paused"].(bool); x {
			delete(st, "paused")
		} else {
			st["paused"] = true
		}
	case "disabled":
		sp := ensure(o, "spec")
		x, _ := sp["disabled"].(bool)
		sp["disabled"] = !x
	case "meta":
		ensure(o, "metadata", "labels")["touched"] = pick(g, "touch", []string{"a", "b"})
	case "break-replicas":
		if b == nil {
			return
		}
		steps := asList(b["steps"])
		if len(steps) == 0 {
			return
		}
		s := asMap(steps[g.rng("break-idx", 0, len(steps)-1)])
		switch g.rng("break-how", 0, 3) {
		case 0:
			delete(s, "replicas")
		case 1:
			s["replicas"] = 0
		case 2:
			s["replicas"] = pick(g, "garbage", garbageReplicas)
		default:
			s["replicas"] = "150%"
		}
	}
}
