package p09

// A miniature API server for Rollouts: JSON trees in the storage version (v1beta1), reads in the
// requested version through the REAL conversion functions (what the CRD conversion webhook runs),
// schema defaults re-applied after conversion, status carried over on main-resource updates.

import (
	"bytes"
	"context"
	"encoding/json"
	"fmt"
	"sort"
	"strings"

	"github.com/openkruise/rollouts/api/v1alpha1"
	"github.com/openkruise/rollouts/api/v1beta1"
	apierrors "k8s.io/apimachinery/pkg/api/errors"
	"k8s.io/apimachinery/pkg/runtime/schema"
	"sigs.k8s.io/controller-runtime/pkg/client"
)

type J = map[string]any

const (
	vBeta  = "v1beta1"
	vAlpha = "v1alpha1"
	group  = "rollouts.kruise.io"

	styleAnn = "rollouts.kruise.io/rolling-style"
	trAnn    = "rollouts.kruise.io/trafficrouting"
)

func mustJSON(v any) []byte {
	b, err := json.Marshal(v)
	if err != nil {
		panic(fmt.Sprintf("harness: cannot marshal: %v", err))
	}
	return b
}

func parseTree(b []byte) J {
	d := json.NewDecoder(bytes.NewReader(b))
	d.UseNumber()
	var out J
	if err := d.Decode(&out); err != nil {
		panic(fmt.Sprintf("harness: cannot parse %s: %v", b, err))
	}
	return out
}

func cloneTree(t J) J {
	if t == nil {
		return nil
	}
	return parseTree(mustJSON(t))
}

func asMap(v any) J {
	m, _ := v.(map[string]any)
	return m
}

func asList(v any) []any {
	l, _ := v.([]any)
	return l
}

func asStr(v any) (string, bool) {
	s, ok := v.(string)
	return s, ok
}

func asInt(v any) (int64, bool) {
	switch x := v.(type) {
	case int:
		return int64(x), true
	case int32:
		return int64(x), true
	case int64:
		return x, true
	case json.Number:
		i, err := x.Int64()
		return i, err == nil
	case float64:
		if x == float64(int64(x)) {
			return int64(x), true
		}
	}
	return 0, false
}

func dig(v any, path ...string) any {
	for _, p := range path {
		m := asMap(v)
		if m == nil {
			return nil
		}
		v = m[p]
	}
	return v
}

// ensure returns the map at path, creating intermediate maps.
func ensure(t J, path ...string) J {
	cur := t
	for _, p := range path {
		nx := asMap(cur[p])
		if nx == nil {
			nx = J{}
			cur[p] = nx
		}
		cur = nx
	}
	return cur
}

// ---------- schema defaults (config/crd/bases/rollouts.kruise.io_rollouts.yaml) ----------

func defaultSteps(steps []any) {
	for _, s := range steps {
		for _, m := range asList(dig(s, "matches")) {
			for _, key := range []string{"headers", "queryParams"} {
				for _, h := range asList(dig(m, key)) {
					if hm := asMap(h); hm != nil {
						if _, ok := hm["type"]; !ok {
							hm["type"] = "Exact"
						}
					}
				}
			}
			if p := asMap(dig(m, "path")); p != nil {
				if _, ok := p["type"]; !ok {
					p["type"] = "PathPrefix"
				}
				if _, ok := p["value"]; !ok {
					p["value"] = "/"
				}
			}
		}
	}
}

func defaultStrategyBlock(b J) {
	if b == nil {
		return
	}
	defaultSteps(asList(b["steps"]))
	for _, tr := range asList(b["trafficRoutings"]) {
		if m := asMap(tr); m != nil {
			if _, ok := m["gracePeriodSeconds"]; !ok {
				m["gracePeriodSeconds"] = 3
			}
		}
	}
}

// applyDefaults applies the structural-schema defaults of the given version in place.
func applyDefaults(t J, version string) {
	spec := asMap(t["spec"])
	if spec == nil {
		return
	}
	if _, ok := spec["disabled"]; !ok {
		spec["disabled"] = false
	}
	st := asMap(spec["strategy"])
	defaultStrategyBlock(asMap(st["canary"]))
	if version == vBeta {
		defaultStrategyBlock(asMap(st["blueGreen"]))
	}
}

// ---------- the store ----------

type stored struct {
	NS, Name string
	Tree     J // storage form: apiVersion rollouts.kruise.io/v1beta1, with status
}

type store struct {
	objs []*stored
	seq  int
}

func (s *store) find(ns, name string) *stored {
	for _, o := range s.objs {
		if o.NS == ns && o.Name == name {
			return o
		}
	}
	return nil
}

func (s *store) remove(ns, name string) {
	out := s.objs[:0]
	for _, o := range s.objs {
		if !(o.NS == ns && o.Name == name) {
			out = append(out, o)
		}
	}
	s.objs = out
}

func (s *store) inNamespace(ns string) []*stored {
	var out []*stored
	for _, o := range s.objs {
		if ns == "" || o.NS == ns {
			out = append(out, o)
		}
	}
	sort.Slice(out, func(i, j int) bool {
		if out[i].NS != out[j].NS {
			return out[i].NS < out[j].NS
		}
		return out[i].Name < out[j].Name
	})
	return out
}

// conversionError is raised (as a panic value) when the real conversion code fails inside the
// simulated API server; run() turns it into a harness-level failure with its own signature.
type conversionError struct{ msg string }

const convMarker = "p09-conversion-error:"

func (e conversionError) Error() string { return convMarker + " " + e.msg }

func decodeBeta(t J) *v1beta1.Rollout {
	o := &v1beta1.Rollout{}
	if err := json.Unmarshal(mustJSON(t), o); err != nil {
		panic(conversionError{fmt.Sprintf("stored v1beta1 object does not decode: %v", err)})
	}
	return o
}

// viewAs renders a stored object in the requested version, exactly as an API server would hand
// it to a client or put it into oldObject of an admission request.
func viewAs(storage J, version string) J {
	if version == vBeta {
		return cloneTree(storage)
	}
	hub := decodeBeta(storage)
	spoke := &v1alpha1.Rollout{}
	if err := spoke.ConvertFrom(hub); err != nil {
		panic(conversionError{fmt.Sprintf("ConvertFrom: %v", err)})
	}
	spoke.APIVersion, spoke.Kind = group+"/"+vAlpha, "Rollout"
	out := parseTree(mustJSON(spoke))
	applyDefaults(out, vAlpha)
	return out
}

// toStorage converts an admitted request object into the storage form.
func toStorage(obj J, version string) J {
	if version == vBeta {
		out := cloneTree(obj)
		applyDefaults(out, vBeta)
		return out
	}
	spoke := &v1alpha1.Rollout{}
	if err := json.Unmarshal(mustJSON(obj), spoke); err != nil {
		panic(conversionError{fmt.Sprintf("admitted v1alpha1 object does not decode: %v", err)})
	}
	hub := &v1beta1.Rollout{}
	if err := spoke.ConvertTo(hub); err != nil {
		panic(conversionError{fmt.Sprintf("ConvertTo: %v", err)})
	}
	hub.APIVersion, hub.Kind = group+"/"+vBeta, "Rollout"
	out := parseTree(mustJSON(hub))
	applyDefaults(out, vBeta)
	return out
}

// ---------- client.Client over the store (only what the handler uses: Get, List) ----------

type storeClient struct {
	client.Client // nil: every other method panics, which the panic oracle would report
	s             *store
}

func (c *storeClient) Get(_ context.Context, key client.ObjectKey, obj client.Object, _ ...client.GetOption) error {
	st := c.s.find(key.Namespace, key.Name)
	if st == nil {
		return apierrors.NewNotFound(schema.GroupResource{Group: group, Resource: "rollouts"}, key.Name)
	}
	switch o := obj.(type) {
	case *v1beta1.Rollout:
		return json.Unmarshal(mustJSON(viewAs(st.Tree, vBeta)), o)
	case *v1alpha1.Rollout:
		return json.Unmarshal(mustJSON(viewAs(st.Tree, vAlpha)), o)
	}
	return fmt.Errorf("storeClient: unsupported type %T", obj)
}

func (c *storeClient) List(_ context.Context, list client.ObjectList, opts ...client.ListOption) error {
	lo := client.ListOptions{}
	lo.ApplyOptions(opts)
	items := c.s.inNamespace(lo.Namespace)
	switch l := list.(type) {
	case *v1beta1.RolloutList:
		l.Items = nil
		for _, st := range items {
			o := v1beta1.Rollout{}
			if err := json.Unmarshal(mustJSON(viewAs(st.Tree, vBeta)), &o); err != nil {
				return err
			}
			l.Items = append(l.Items, o)
		}
		return nil
	case *v1alpha1.RolloutList:
		l.Items = nil
		for _, st := range items {
			o := v1alpha1.Rollout{}
			if err := json.Unmarshal(mustJSON(viewAs(st.Tree, vAlpha)), &o); err != nil {
				return err
			}
			l.Items = append(l.Items, o)
		}
		return nil
	}
	return fmt.Errorf("storeClient: unsupported list type %T", list)
}

// ---------- independent reading of a storage-form (v1beta1) tree ----------

type repV struct {
	Kind string // "absent" | "int" | "pct" | "bad"
	Val  int64
	Raw  string
}

type view struct {
	WL       [3]string // apiVersion, kind, name
	HasCan   bool
	HasBG    bool
	Style    string // "bluegreen" | "canary" | "partition" | "none"
	Steps    []repV
	NSteps   int
	TR       string // canonical rendering of the traffic routings ("" when there is none)
	NTR      int
	Phase    string
	Disabled bool
}

// parsePct reads "N%" with an optionally signed decimal integer N.
func parsePct(s string) (int64, bool) {
	if !strings.HasSuffix(s, "%") {
		return 0, false
	}
	body := strings.TrimSuffix(s, "%")
	if body == "" {
		return 0, false
	}
	sign := int64(1)
	if body[0] == '+' || body[0] == '-' {
		if body[0] == '-' {
			sign = -1
		}
		body = body[1:]
	}
	if body == "" || len(body) > 12 {
		return 0, false
	}
	var n int64
	for _, c := range body {
		if c < '0' || c > '9' {
			return 0, false
		}
		n = n*10 + int64(c-'0')
	}
	return sign * n, true
}

func readRep(v any) repV {
	if v == nil {
		return repV{Kind: "absent"}
	}
	if i, ok := asInt(v); ok {
		return repV{Kind: "int", Val: i, Raw: fmt.Sprint(i)}
	}
	if s, ok := asStr(v); ok {
		if p, ok := parsePct(s); ok {
			return repV{Kind: "pct", Val: p, Raw: s}
		}
		return repV{Kind: "bad", Raw: s}
	}
	return repV{Kind: "bad", Raw: fmt.Sprint(v)}
}

func canonTR(list []any) string {
	if len(list) == 0 {
		return ""
	}
	var parts []string
	for _, x := range list {
		m := cloneTree(asMap(x))
		if m == nil {
			parts = append(parts, string(mustJSON(x)))
			continue
		}
		if _, ok := m["gracePeriodSeconds"]; !ok {
			m["gracePeriodSeconds"] = 3
		}
		if l, ok := m["customNetworkRefs"]; ok && len(asList(l)) == 0 {
			delete(m, "customNetworkRefs")
		}
		if ing := asMap(m["ingress"]); ing != nil {
			if s, _ := asStr(ing["classType"]); s == "" {
				delete(ing, "classType")
			}
		}
		parts = append(parts, string(mustJSON(m)))
	}
	return strings.Join(parts, ";")
}

// readView is the harness's own reading of a v1beta1 Rollout (the style rule is restated from the
// API documentation: blueGreen block -> blue-green; canary block with
// enableExtraWorkloadForCanary -> canary; canary block without -> partition).
func readView(t J) view {
	v := view{Style: "none"}
	wl := asMap(dig(t, "spec", "workloadRef"))
	v.WL[0], _ = asStr(wl["apiVersion"])
	v.WL[1], _ = asStr(wl["kind"])
	v.WL[2], _ = asStr(wl["name"])
	v.Phase, _ = asStr(dig(t, "status", "phase"))
	if b, ok := dig(t, "spec", "disabled").(bool); ok {
		v.Disabled = b
	}
	can := asMap(dig(t, "spec", "strategy", "canary"))
	bg := asMap(dig(t, "spec", "strategy", "blueGreen"))
	v.HasCan, v.HasBG = can != nil, bg != nil
	var block J
	switch {
	case bg != nil:
		v.Style, block = "bluegreen", bg
	case can != nil:
		block = can
		if b, _ := can["enableExtraWorkloadForCanary"].(bool); b {
			v.Style = "canary"
		} else {
			v.Style = "partition"
		}
	}
	if block != nil {
		steps := asList(block["steps"])
		v.NSteps = len(steps)
		for _, s := range steps {
			v.Steps = append(v.Steps, readRep(dig(s, "replicas")))
		}
		trs := asList(block["trafficRoutings"])
		v.NTR = len(trs)
		v.TR = canonTR(trs)
	}
	return v
}

// workloadIdentity: a Kubernetes object is identified by namespace, API group, kind and name;
// the version segment of apiVersion only selects a representation.
func workloadIdentity(ns string, wl [3]string) string {
	g := ""
	if i := strings.Index(wl[0], "/"); i >= 0 {
		g = wl[0][:i]
	}
	return ns + "|" + g + "|" + wl[1] + "|" + wl[2]
}
