//go:build verif

// Package p18t: C18 for TrafficRouting objects (the closed loop has none). The real
// TrafficRoutingReconciler runs on the controller-runtime fake client (which keeps an object with
// finalizers until the last one is removed, like the API server). A generated history lets a
// Rollout use the TrafficRouting (progressing finalizer), applies its strategy, deletes it at a
// drawn point, ticks the clock (grace periods are real here) and fails single API calls.
//
// Oracle: after every step, if the TrafficRouting is gone or no longer carries
// rollouts.kruise.io/trafficrouting, the network must be as the user configured it: no canary
// Ingress, stable Ingress untouched. Conversely, after a fair completion a deleted TrafficRouting
// must be gone (the finalizer is not kept forever).
package p18t

import (
	"context"
	"encoding/json"
	"fmt"
	"testing"
	"time"

	"pgregory.net/rapid"

	"github.com/openkruise/rollouts/api/v1alpha1"
	"github.com/openkruise/rollouts/api/v1beta1"
	trctrl "github.com/openkruise/rollouts/pkg/controller/trafficrouting"
	trmanager "github.com/openkruise/rollouts/pkg/trafficrouting"
	"github.com/openkruise/rollouts/pkg/util"
	"github.com/openkruise/rollouts/pkg/util/grace"
	corev1 "k8s.io/api/core/v1"
	netv1 "k8s.io/api/networking/v1"
	apierrors "k8s.io/apimachinery/pkg/api/errors"
	metav1 "k8s.io/apimachinery/pkg/apis/meta/v1"
	"k8s.io/apimachinery/pkg/runtime"
	"k8s.io/apimachinery/pkg/types"
	"k8s.io/apimachinery/pkg/util/intstr"
	clientgoscheme "k8s.io/client-go/kubernetes/scheme"
	"k8s.io/client-go/tools/record"
	"k8s.io/klog/v2"
	"k8s.io/utils/pointer"
	ctrl "sigs.k8s.io/controller-runtime"
	"sigs.k8s.io/controller-runtime/pkg/client"
	"sigs.k8s.io/controller-runtime/pkg/client/fake"
	"sigs.k8s.io/controller-runtime/pkg/controller/controllerutil"

	"verifharness/vlib"
)

const chk = "c18-trafficrouting-finalizer"

type nopWriter struct{}

func (nopWriter) Write(p []byte) (int, error) { return len(p), nil }

func TestMain(m *testing.M) {
	klog.LogToStderr(false)
	klog.SetOutput(nopWriter{})
	vlib.Main(m)
}

type op struct {
	Kind string `json:"kind"` // reconcile | tick | use | release | delete | fail-next
	N    int    `json:"n,omitempty"`
}

type tCase struct {
	Grace  int  `json:"grace"`
	Weight int  `json:"weight"`
	Ops    []op `json:"ops"`
}

func scheme() *runtime.Scheme {
	s := runtime.NewScheme()
	_ = clientgoscheme.AddToScheme(s)
	_ = v1alpha1.AddToScheme(s)
	_ = v1beta1.AddToScheme(s)
	return s
}

// failing wraps the fake client and fails the N-th call from the moment it is armed.
type failing struct {
	client.Client
	countdown int
	fired     int
}

func (f *failing) hit() error {
	if f.countdown > 0 {
		f.countdown--
		if f.countdown == 0 {
			f.fired++
			return apierrors.NewServiceUnavailable("verif: injected API error")
		}
	}
	return nil
}
func (f *failing) Get(ctx context.Context, key client.ObjectKey, obj client.Object, opts ...client.GetOption) error {
	if err := f.hit(); err != nil {
		return err
	}
	return f.Client.Get(ctx, key, obj, opts...)
}
func (f *failing) Update(ctx context.Context, obj client.Object, opts ...client.UpdateOption) error {
	if err := f.hit(); err != nil {
		return err
	}
	return f.Client.Update(ctx, obj, opts...)
}
func (f *failing) Patch(ctx context.Context, obj client.Object, patch client.Patch, opts ...client.PatchOption) error {
	if err := f.hit(); err != nil {
		return err
	}
	return f.Client.Patch(ctx, obj, patch, opts...)
}
func (f *failing) Delete(ctx context.Context, obj client.Object, opts ...client.DeleteOption) error {
	if err := f.hit(); err != nil {
		return err
	}
	return f.Client.Delete(ctx, obj, opts...)
}
func (f *failing) Create(ctx context.Context, obj client.Object, opts ...client.CreateOption) error {
	if err := f.hit(); err != nil {
		return err
	}
	return f.Client.Create(ctx, obj, opts...)
}

const ns, trName = "team", "tr-demo"

func pathType() *netv1.PathType { p := netv1.PathTypePrefix; return &p }

func objects(c tCase) []client.Object {
	w := int32(c.Weight)
	return []client.Object{
		&corev1.Service{ObjectMeta: metav1.ObjectMeta{Namespace: ns, Name: "app", UID: "svc-uid"},
			Spec: corev1.ServiceSpec{Selector: map[string]string{"app": "demo"}, Ports: []corev1.ServicePort{{Port: 80, TargetPort: intstr.FromInt(80)}}}},
		&netv1.Ingress{ObjectMeta: metav1.ObjectMeta{Namespace: ns, Name: "web", Annotations: map[string]string{"kubernetes.io/ingress.class": "nginx"}},
			Spec: netv1.IngressSpec{Rules: []netv1.IngressRule{{Host: "a.example", IngressRuleValue: netv1.IngressRuleValue{HTTP: &netv1.HTTPIngressRuleValue{
				Paths: []netv1.HTTPIngressPath{{Path: "/", PathType: pathType(), Backend: netv1.IngressBackend{Service: &netv1.IngressServiceBackend{Name: "app", Port: netv1.ServiceBackendPort{Number: 80}}}}}}}}}}},
		&v1alpha1.TrafficRouting{ObjectMeta: metav1.ObjectMeta{Namespace: ns, Name: trName, UID: "tr-uid"},
			Spec: v1alpha1.TrafficRoutingSpec{
				ObjectRef: []v1alpha1.TrafficRoutingRef{{Service: "app", GracePeriodSeconds: int32(c.Grace), Ingress: &v1alpha1.IngressTrafficRouting{ClassType: "nginx", Name: "web"}}},
				Strategy:  v1alpha1.TrafficRoutingStrategy{Weight: &w},
			}},
	}
}

type world struct {
	cli   *failing
	rec   *trctrl.TrafficRoutingReconciler
	stats struct{ deleted, canarySeen, faults bool }
}

func newWorld(c tCase) *world {
	grace.ResetExpectations()
	trctrl.SetDefaultGracePeriodSecondsForVerif(int32(c.Grace))
	trmanager.SetDefaultGracePeriodSecondsForVerif(int32(c.Grace))
	f := &failing{Client: fake.NewClientBuilder().WithScheme(scheme()).WithObjects(objects(c)...).Build()}
	return &world{cli: f, rec: trctrl.NewReconcilerForVerif(f, scheme(), record.NewFakeRecorder(1000))}
}

func (w *world) tr() *v1alpha1.TrafficRouting {
	o := &v1alpha1.TrafficRouting{}
	if err := w.cli.Client.Get(context.TODO(), types.NamespacedName{Namespace: ns, Name: trName}, o); err != nil {
		return nil
	}
	return o
}

func (w *world) reconcile() {
	_, _ = w.rec.Reconcile(context.TODO(), ctrl.Request{NamespacedName: types.NamespacedName{Namespace: ns, Name: trName}})
}

// residue: what a deleted TrafficRouting must have cleaned up.
func (w *world) residue() []string {
	var out []string
	ing := &netv1.Ingress{}
	if err := w.cli.Client.Get(context.TODO(), types.NamespacedName{Namespace: ns, Name: "web-canary"}, ing); err == nil {
		out = append(out, fmt.Sprintf("canary Ingress web-canary still exists (annotations %v)", ing.Annotations))
	}
	return out
}

func (w *world) apply(t vlib.TB, c tCase, i int, p op) {
	switch p.Kind {
	case "reconcile":
		w.reconcile()
	case "tick":
		grace.ShiftForVerif(time.Duration(p.N) * time.Second)
	case "use": // a Rollout starts using the TrafficRouting
		if o := w.tr(); o != nil && o.DeletionTimestamp == nil {
			controllerutil.AddFinalizer(o, util.ProgressingRolloutFinalizer("demo"))
			_ = w.cli.Client.Update(context.TODO(), o)
		}
	case "release": // the Rollout is done with it
		if o := w.tr(); o != nil {
			controllerutil.RemoveFinalizer(o, util.ProgressingRolloutFinalizer("demo"))
			_ = w.cli.Client.Update(context.TODO(), o)
		}
	case "delete":
		if o := w.tr(); o != nil && o.DeletionTimestamp == nil && len(o.Finalizers) > 0 {
			_ = w.cli.Client.Delete(context.TODO(), o)
			w.stats.deleted = true
		}
	case "fail-next":
		w.cli.countdown = p.N
	}
	if len(w.residue()) > 0 {
		w.stats.canarySeen = true
	}
	// the oracle: own finalizer gone (or object gone) while deleting => cleanup complete
	o := w.tr()
	if w.stats.deleted && (o == nil || !controllerutil.ContainsFinalizer(o, util.TrafficRoutingFinalizer)) {
		if res := w.residue(); len(res) > 0 {
			state := "is gone"
			if o != nil {
				state = fmt.Sprintf("no longer carries %s (finalizers %v)", util.TrafficRoutingFinalizer, o.Finalizers)
			}
			vlib.Fail(t, chk, "c18-trafficrouting-finalizer-removed-with-residue", c, "after op #%d %+v the deleted TrafficRouting %s while its cleanup is incomplete: %v", i, p, state, res)
		}
	}
}

func run(t vlib.TB, c tCase) (nontrivial bool, classes []string) {
	w := newWorld(c)
	for i, p := range c.Ops {
		w.apply(t, c, i, p)
	}
	// fair completion: the Rollout lets go, time passes, the controller reconciles
	w.cli.countdown = 0
	w.apply(t, c, len(c.Ops), op{Kind: "release"})
	for k := 0; k < 40; k++ {
		w.apply(t, c, len(c.Ops)+1+k, op{Kind: "tick", N: c.Grace + 1})
		w.apply(t, c, len(c.Ops)+1+k, op{Kind: "reconcile"})
	}
	if w.stats.deleted && w.tr() != nil {
		vlib.Fail(t, chk, "c18-trafficrouting-deletion-blocked-forever", c, "the deleted TrafficRouting still exists after the fair completion: finalizers %v phase %s", w.tr().Finalizers, w.tr().Status.Phase)
	}
	if w.stats.deleted {
		classes = append(classes, "deleted")
	}
	if w.stats.canarySeen {
		classes = append(classes, "canary-ingress-existed")
	}
	if w.cli.fired > 0 {
		classes = append(classes, "fault-fired")
	}
	return w.stats.deleted && w.stats.canarySeen, classes
}

func TestC18TrafficRoutingFinalizer(t *testing.T) {
	var rc tCase
	if ok, _ := vlib.LoadReplay(chk, &rc); ok {
		run(t, rc)
		return
	}
	rapid.Check(t, func(t *rapid.T) {
		c := tCase{Grace: rapid.SampledFrom([]int{0, 1, 3}).Draw(t, "grace"), Weight: rapid.IntRange(1, 100).Draw(t, "weight")}
		n := rapid.IntRange(1, 30).Draw(t, "ops")
		for i := 0; i < n; i++ {
			switch rapid.IntRange(0, 9).Draw(t, "op") {
			case 0, 1, 2, 3:
				c.Ops = append(c.Ops, op{Kind: "reconcile"})
			case 4:
				c.Ops = append(c.Ops, op{Kind: "tick", N: rapid.IntRange(1, 4).Draw(t, "secs")})
			case 5, 6:
				c.Ops = append(c.Ops, op{Kind: "use"})
			case 7:
				c.Ops = append(c.Ops, op{Kind: "release"})
			case 8:
				c.Ops = append(c.Ops, op{Kind: "delete"})
			default:
				c.Ops = append(c.Ops, op{Kind: "fail-next", N: rapid.IntRange(1, 6).Draw(t, "nth")})
			}
		}
		nt, cls := run(t, c)
		sig, _ := json.Marshal(c)
		vlib.Record(chk, string(sig), nt, cls, func() any { return c })
	})
	_ = pointer.Int32
}
