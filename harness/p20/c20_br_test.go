package p20

import (
	"fmt"
	"reflect"
	"strings"
	"testing"

	"github.com/openkruise/rollouts/api/v1alpha1"
	"github.com/openkruise/rollouts/api/v1beta1"
	metav1 "k8s.io/apimachinery/pkg/apis/meta/v1"
	"k8s.io/apimachinery/pkg/util/intstr"
	"pgregory.net/rapid"

	"verifharness/vlib"
)

const (
	chkAlphaBR = "c20-alpha-batchrelease"
	chkBetaBR  = "c20-beta-batchrelease"
)

func gIntStr(t *rapid.T, l string) intstr.IntOrString {
	if p := gIntStrPtr(t, l); p != nil {
		return *p
	}
	return intstr.IntOrString{}
}

// gAlphaBR draws a v1alpha1 BatchRelease admitted by its CRD schema: targetReference and
// releasePlan are required blocks, targetReference.workloadRef is optional (nil or present).
// The spec field rollingStyle is generated empty or consistent with the annotation, which is
// what ConvertFrom itself produces; v1alpha1 defines the style through the annotation.
func gAlphaBR(t *rapid.T) *v1alpha1.BatchRelease {
	styles := []string{"<absent>", "", "partition", "Partition", "canary", "CANARY", "bluegreen", "BlueGreen", "bogus"}
	b := &v1alpha1.BatchRelease{ObjectMeta: gMeta(t, styles)}
	if rapid.IntRange(0, 9).Draw(t, "wref-present") > 0 {
		b.Spec.TargetRef.WorkloadRef = &v1alpha1.WorkloadRef{APIVersion: rapid.SampledFrom([]string{"apps/v1", "apps.kruise.io/v1alpha1"}).Draw(t, "wref-api"), Kind: rapid.SampledFrom([]string{"Deployment", "CloneSet"}).Draw(t, "wref-kind"), Name: gName(t, "wref-name")}
	}
	p := &b.Spec.ReleasePlan
	for i, n := 0, rapid.IntRange(0, 4).Draw(t, "batches"); i < n; i++ {
		p.Batches = append(p.Batches, v1alpha1.ReleaseBatch{CanaryReplicas: gIntStr(t, "batch-replicas")})
	}
	p.BatchPartition = gInt32Ptr(t, "batch-partition", -1, 6)
	p.RolloutID = rapid.SampledFrom([]string{"", "r1", "r2"}).Draw(t, "rollout-id")
	p.FailureThreshold = gIntStrPtr(t, "failure-threshold")
	p.FinalizingPolicy = rapid.SampledFrom([]v1alpha1.FinalizingPolicyType{"", v1alpha1.WaitResumeFinalizingPolicyType, v1alpha1.ImmediateFinalizingPolicyType}).Draw(t, "fin-policy")
	if gBool(t, "ppm-present") {
		p.PatchPodTemplateMetadata = &v1alpha1.PatchPodTemplateMetadata{Annotations: gStrMap(t, "ppm-ann"), Labels: gStrMap(t, "ppm-lab")}
	}
	p.EnableExtraWorkloadForCanary = gBool(t, "extra-workload")
	if gBool(t, "style-field-set") {
		switch strings.ToLower(b.Annotations[v1alpha1.RolloutStyleAnnotation]) {
		case "partition":
			p.RollingStyle = v1alpha1.PartitionRollingStyle
		case "canary":
			p.RollingStyle = v1alpha1.CanaryRollingStyle
		case "bluegreen":
			p.RollingStyle = v1alpha1.BlueGreenRollingStyle
		}
	}
	st := &b.Status
	st.Conditions = gAlphaConds(t)
	st.StableRevision = rapid.SampledFrom([]string{"", "s1"}).Draw(t, "st-stable")
	st.UpdateRevision = rapid.SampledFrom([]string{"", "u1"}).Draw(t, "st-update")
	st.ObservedGeneration = int64(rapid.IntRange(0, 5).Draw(t, "st-og"))
	st.ObservedRolloutID = rapid.SampledFrom([]string{"", "r1"}).Draw(t, "st-orid")
	st.ObservedWorkloadReplicas = int32(rapid.IntRange(-1, 10).Draw(t, "st-owr"))
	st.CollisionCount = gInt32Ptr(t, "st-collision", 0, 3)
	st.ObservedReleasePlanHash = rapid.SampledFrom([]string{"", "ph"}).Draw(t, "st-plan-hash")
	st.Phase = rapid.SampledFrom([]v1alpha1.RolloutPhase{"", "Preparing", "Progressing", "Finalizing", "Completed"}).Draw(t, "st-phase")
	st.CanaryStatus = v1alpha1.BatchReleaseCanaryStatus{
		CurrentBatchState:    rapid.SampledFrom([]v1alpha1.BatchReleaseBatchStateType{"", "Upgrading", "Verifying", "Ready"}).Draw(t, "cs-state"),
		CurrentBatch:         int32(rapid.IntRange(0, 5).Draw(t, "cs-batch")),
		BatchReadyTime:       gTimePtr(t, "cs-ready-time"),
		UpdatedReplicas:      int32(rapid.IntRange(0, 9).Draw(t, "cs-updated")),
		UpdatedReadyReplicas: int32(rapid.IntRange(0, 9).Draw(t, "cs-ready")),
		NoNeedUpdateReplicas: gInt32Ptr(t, "cs-noneed", 0, 4),
	}
	return b
}

func alphaBRStyle(b *v1alpha1.BatchRelease) string {
	switch strings.ToLower(b.Annotations[v1alpha1.RolloutStyleAnnotation]) {
	case "partition":
		return "Partition"
	case "canary":
		return "Canary"
	case "bluegreen":
		return "BlueGreen"
	}
	return ""
}

func alphaBRSem(b *v1alpha1.BatchRelease) map[string]string {
	w := "||"
	if r := b.Spec.TargetRef.WorkloadRef; r != nil {
		w = r.APIVersion + "|" + r.Kind + "|" + r.Name
	}
	p := b.Spec.ReleasePlan
	var batches []string
	for _, x := range p.Batches {
		batches = append(batches, x.CanaryReplicas.String())
	}
	ppm := "<nil>"
	if p.PatchPodTemplateMetadata != nil {
		ppm = "ann=" + normMap(p.PatchPodTemplateMetadata.Annotations) + " labels=" + normMap(p.PatchPodTemplateMetadata.Labels)
	}
	st := b.Status
	conds := js(st.Conditions)
	if len(st.Conditions) == 0 {
		conds = "[]"
	}
	st.Conditions = nil
	return map[string]string{
		"meta":      metaSem(b.ObjectMeta),
		"workload":  w,
		"batches":   strings.Join(batches, ","),
		"partition": ptrStr(p.BatchPartition),
		"rolloutID": p.RolloutID,
		"threshold": ptrStr(p.FailureThreshold),
		"policy":    string(p.FinalizingPolicy),
		"ppm":       ppm,
		"style":     alphaBRStyle(b),
		"extra":     fmt.Sprint(p.EnableExtraWorkloadForCanary),
		"status":    js(st) + conds,
	}
}

func alphaBRCase(t vlib.TB, b *v1alpha1.BatchRelease) {
	orig := b.DeepCopy()
	hub := &v1beta1.BatchRelease{}
	var err error
	if p, msg := vlib.Guard(func() { err = b.ConvertTo(hub) }); p {
		vlib.Fail(t, chkAlphaBR, "batchrelease-convertto-panic", orig, "ConvertTo panicked: %s", msg)
	}
	if err != nil {
		vlib.Fail(t, chkAlphaBR, "batchrelease-convertto-error", orig, "ConvertTo failed: %v", err)
	}
	if got, want := string(hub.Spec.ReleasePlan.RollingStyle), alphaBRStyle(orig); got != want {
		vlib.Fail(t, chkAlphaBR, "batchrelease-hub-style", orig, "hub rollingStyle %q, v1alpha1 annotation means %q", got, want)
	}
	back := &v1alpha1.BatchRelease{}
	if p, msg := vlib.Guard(func() { err = back.ConvertFrom(hub) }); p {
		vlib.Fail(t, chkAlphaBR, "batchrelease-convertfrom-panic", orig, "ConvertFrom panicked: %s", msg)
	}
	if err != nil {
		vlib.Fail(t, chkAlphaBR, "batchrelease-convertfrom-error", orig, "ConvertFrom failed: %v", err)
	}
	a, c := alphaBRSem(orig), alphaBRSem(back)
	for _, k := range []string{"meta", "workload", "batches", "partition", "rolloutID", "threshold", "policy", "ppm", "style", "extra", "status"} {
		if a[k] != c[k] {
			vlib.Fail(t, chkAlphaBR, "batchrelease-alpha-roundtrip-"+k, orig, "v1alpha1 -> v1beta1 -> v1alpha1 changed %s: before=%s after=%s", k, a[k], c[k])
		}
	}
}

func TestC20AlphaBatchRelease(t *testing.T) {
	var rc v1alpha1.BatchRelease
	if ok, _ := vlib.LoadReplay(chkAlphaBR, &rc); ok {
		alphaBRCase(t, &rc)
		return
	}
	rapid.Check(t, func(t *rapid.T) {
		b := gAlphaBR(t)
		nilBlocks := 0
		var cls []string
		if b.Spec.TargetRef.WorkloadRef == nil {
			nilBlocks++
			cls = append(cls, "nil-workloadRef")
		}
		for _, p := range []bool{b.Spec.ReleasePlan.BatchPartition == nil, b.Spec.ReleasePlan.FailureThreshold == nil, b.Spec.ReleasePlan.PatchPodTemplateMetadata == nil, b.Status.CanaryStatus.BatchReadyTime == nil} {
			if p {
				nilBlocks++
			}
		}
		cls = append(cls, fmt.Sprintf("batches=%d", len(b.Spec.ReleasePlan.Batches)), "style="+b.Annotations[v1alpha1.RolloutStyleAnnotation])
		vlib.Record(chkAlphaBR, js(b.Spec)+js(b.Annotations), len(b.Spec.ReleasePlan.Batches) >= 1 && nilBlocks >= 1, cls, func() any { return b })
		alphaBRCase(t, b)
	})
}

func gBetaBR(t *rapid.T) *v1beta1.BatchRelease {
	b := &v1beta1.BatchRelease{ObjectMeta: gMeta(t, []string{"<absent>"})}
	delete(b.Annotations, v1alpha1.TrafficRoutingAnnotation)
	b.Spec.WorkloadRef = v1beta1.ObjectRef{APIVersion: rapid.SampledFrom([]string{"apps/v1", "apps.kruise.io/v1alpha1", ""}).Draw(t, "wref-api"), Kind: rapid.SampledFrom([]string{"Deployment", "CloneSet", ""}).Draw(t, "wref-kind"), Name: gName(t, "wref-name")}
	p := &b.Spec.ReleasePlan
	for i, n := 0, rapid.IntRange(0, 4).Draw(t, "batches"); i < n; i++ {
		p.Batches = append(p.Batches, v1beta1.ReleaseBatch{CanaryReplicas: gIntStr(t, "batch-replicas")})
	}
	p.BatchPartition = gInt32Ptr(t, "batch-partition", -1, 6)
	p.RolloutID = rapid.SampledFrom([]string{"", "r1"}).Draw(t, "rollout-id")
	p.FailureThreshold = gIntStrPtr(t, "failure-threshold")
	p.FinalizingPolicy = rapid.SampledFrom([]v1beta1.FinalizingPolicyType{"", v1beta1.WaitResumeFinalizingPolicyType, v1beta1.ImmediateFinalizingPolicyType}).Draw(t, "fin-policy")
	if gBool(t, "ppm-present") {
		p.PatchPodTemplateMetadata = &v1beta1.PatchPodTemplateMetadata{Annotations: gStrMap(t, "ppm-ann"), Labels: gStrMap(t, "ppm-lab")}
	}
	p.RollingStyle = rapid.SampledFrom([]v1beta1.RollingStyleType{"", v1beta1.PartitionRollingStyle, v1beta1.CanaryRollingStyle, v1beta1.BlueGreenRollingStyle}).Draw(t, "style")
	p.EnableExtraWorkloadForCanary = gBool(t, "extra-workload")
	st := &b.Status
	st.StableRevision = rapid.SampledFrom([]string{"", "s1"}).Draw(t, "st-stable")
	st.UpdateRevision = rapid.SampledFrom([]string{"", "u1"}).Draw(t, "st-update")
	st.ObservedGeneration = int64(rapid.IntRange(0, 5).Draw(t, "st-og"))
	st.ObservedRolloutID = rapid.SampledFrom([]string{"", "r1"}).Draw(t, "st-orid")
	st.ObservedWorkloadReplicas = int32(rapid.IntRange(-1, 10).Draw(t, "st-owr"))
	st.CollisionCount = gInt32Ptr(t, "st-collision", 0, 3)
	st.ObservedReleasePlanHash = rapid.SampledFrom([]string{"", "ph"}).Draw(t, "st-plan-hash")
	st.Phase = rapid.SampledFrom([]v1beta1.RolloutPhase{"", "Preparing", "Progressing", "Completed"}).Draw(t, "st-phase")
	for i, n := 0, rapid.IntRange(0, 2).Draw(t, "conds"); i < n; i++ {
		st.Conditions = append(st.Conditions, v1beta1.RolloutCondition{Type: "Progressing", Status: "True", Reason: "r", Message: "m", LastUpdateTime: metav1.Unix(int64(rapid.IntRange(0, 1000).Draw(t, "cond-lut")), 0)})
	}
	st.CanaryStatus = v1beta1.BatchReleaseCanaryStatus{
		CurrentBatchState:    rapid.SampledFrom([]v1beta1.BatchReleaseBatchStateType{"", "Upgrading", "Verifying", "Ready"}).Draw(t, "cs-state"),
		CurrentBatch:         int32(rapid.IntRange(0, 5).Draw(t, "cs-batch")),
		BatchReadyTime:       gTimePtr(t, "cs-ready-time"),
		UpdatedReplicas:      int32(rapid.IntRange(0, 9).Draw(t, "cs-updated")),
		UpdatedReadyReplicas: int32(rapid.IntRange(0, 9).Draw(t, "cs-ready")),
		NoNeedUpdateReplicas: gInt32Ptr(t, "cs-noneed", 0, 4),
	}
	return b
}

func betaBRNorm(b *v1beta1.BatchRelease) *v1beta1.BatchRelease {
	c := b.DeepCopy()
	if c.Annotations != nil {
		delete(c.Annotations, v1alpha1.RolloutStyleAnnotation)
	}
	if len(c.Annotations) == 0 {
		c.Annotations = nil
	}
	if len(c.Labels) == 0 {
		c.Labels = nil
	}
	if p := c.Spec.ReleasePlan.PatchPodTemplateMetadata; p != nil {
		if len(p.Annotations) == 0 {
			p.Annotations = nil
		}
		if len(p.Labels) == 0 {
			p.Labels = nil
		}
	}
	return c
}

func betaBRCase(t vlib.TB, b *v1beta1.BatchRelease) {
	orig := b.DeepCopy()
	spoke := &v1alpha1.BatchRelease{}
	var err error
	if p, msg := vlib.Guard(func() { err = spoke.ConvertFrom(b) }); p {
		vlib.Fail(t, chkBetaBR, "batchrelease-beta-convertfrom-panic", orig, "ConvertFrom panicked: %s", msg)
	}
	if err != nil {
		vlib.Fail(t, chkBetaBR, "batchrelease-beta-convertfrom-error", orig, "ConvertFrom failed: %v", err)
	}
	back := &v1beta1.BatchRelease{}
	if p, msg := vlib.Guard(func() { err = spoke.ConvertTo(back) }); p {
		vlib.Fail(t, chkBetaBR, "batchrelease-beta-convertto-panic", orig, "ConvertTo panicked: %s", msg)
	}
	if err != nil {
		vlib.Fail(t, chkBetaBR, "batchrelease-beta-convertto-error", orig, "ConvertTo failed: %v", err)
	}
	x, y := betaBRNorm(orig), betaBRNorm(back)
	if !reflect.DeepEqual(x, y) {
		sig := "batchrelease-beta-roundtrip-spec"
		if !reflect.DeepEqual(x.Status, y.Status) {
			sig = "batchrelease-beta-roundtrip-status"
		} else if !reflect.DeepEqual(x.ObjectMeta, y.ObjectMeta) {
			sig = "batchrelease-beta-roundtrip-meta"
		}
		vlib.Fail(t, chkBetaBR, sig, orig, "v1beta1 -> v1alpha1 -> v1beta1 is not the identity:\n before=%s\n after =%s", js(x), js(y))
	}
}

func TestC20BetaBatchRelease(t *testing.T) {
	var rc v1beta1.BatchRelease
	if ok, _ := vlib.LoadReplay(chkBetaBR, &rc); ok {
		betaBRCase(t, &rc)
		return
	}
	rapid.Check(t, func(t *rapid.T) {
		b := gBetaBR(t)
		vlib.Record(chkBetaBR, js(b.Spec), len(b.Spec.ReleasePlan.Batches) >= 1, []string{fmt.Sprintf("batches=%d", len(b.Spec.ReleasePlan.Batches)), "style=" + string(b.Spec.ReleasePlan.RollingStyle)}, func() any { return b })
		betaBRCase(t, b)
	})
}
