// C20: API versions convert without losing what the user wrote.
package p20

import (
	"encoding/json"
	"fmt"
	"reflect"
	"sort"
	"strings"
	"testing"

	"github.com/openkruise/rollouts/api/v1alpha1"
	"github.com/openkruise/rollouts/api/v1beta1"
	metav1 "k8s.io/apimachinery/pkg/apis/meta/v1"
	"k8s.io/apimachinery/pkg/util/intstr"
	"pgregory.net/rapid"
	gw "sigs.k8s.io/gateway-api/apis/v1beta1"

	"verifharness/vlib"
)

func TestMain(m *testing.M) { vlib.Main(m) }

// ---------- small generators ----------

var names = []string{"", "a", "demo", "echoserver", "x-y.z"}

func gName(t *rapid.T, l string) string { return rapid.SampledFrom(names).Draw(t, l) }
func gBool(t *rapid.T, l string) bool   { return rapid.Bool().Draw(t, l) }

func gStrMap(t *rapid.T, l string) map[string]string {
	switch rapid.IntRange(0, 3).Draw(t, l+"-kind") {
	case 0:
		return nil
	case 1:
		return map[string]string{}
	}
	n := rapid.IntRange(1, 3).Draw(t, l+"-n")
	m := map[string]string{}
	for i := 0; i < n; i++ {
		m[rapid.SampledFrom([]string{"k1", "k2", "app", "x/y"}).Draw(t, l+"-k")] = rapid.SampledFrom([]string{"", "v", "w"}).Draw(t, l+"-v")
	}
	return m
}

func gIntStrPtr(t *rapid.T, l string) *intstr.IntOrString {
	switch rapid.IntRange(0, 3).Draw(t, l+"-kind") {
	case 0:
		return nil
	case 1:
		v := intstr.FromInt(rapid.IntRange(-1, 120).Draw(t, l+"-int"))
		return &v
	case 2:
		v := intstr.FromString(fmt.Sprintf("%d%%", rapid.IntRange(-1, 120).Draw(t, l+"-pct")))
		return &v
	}
	v := intstr.FromString(rapid.SampledFrom([]string{"", "abc", "50", "%", "1e3%"}).Draw(t, l+"-garbage"))
	return &v
}

func gHeaderMatches(t *rapid.T, l string) []gw.HTTPHeaderMatch {
	n := rapid.IntRange(0, 3).Draw(t, l+"-n")
	if n == 0 {
		if gBool(t, l+"-empty") {
			return []gw.HTTPHeaderMatch{}
		}
		return nil
	}
	var out []gw.HTTPHeaderMatch
	for i := 0; i < n; i++ {
		h := gw.HTTPHeaderMatch{
			Name:  gw.HTTPHeaderName(rapid.SampledFrom([]string{"user-agent", "x-canary", "cookie"}).Draw(t, l+"-name")),
			Value: rapid.SampledFrom([]string{"", "true", "pc.*"}).Draw(t, l+"-val"),
		}
		switch rapid.IntRange(0, 2).Draw(t, l+"-type") {
		case 1:
			x := gw.HeaderMatchExact
			h.Type = &x
		case 2:
			x := gw.HeaderMatchRegularExpression
			h.Type = &x
		}
		out = append(out, h)
	}
	return out
}

func gHeaderFilter(t *rapid.T, l string) *gw.HTTPHeaderFilter {
	if !gBool(t, l+"-present") {
		return nil
	}
	f := &gw.HTTPHeaderFilter{}
	for i, n := 0, rapid.IntRange(0, 2).Draw(t, l+"-set"); i < n; i++ {
		f.Set = append(f.Set, gw.HTTPHeader{Name: "h-set", Value: rapid.SampledFrom([]string{"a", "b"}).Draw(t, l+"-sv")})
	}
	for i, n := 0, rapid.IntRange(0, 2).Draw(t, l+"-add"); i < n; i++ {
		f.Add = append(f.Add, gw.HTTPHeader{Name: "h-add", Value: "v"})
	}
	if gBool(t, l+"-rm") {
		f.Remove = []string{"gone"}
	}
	return f
}

func gTimePtr(t *rapid.T, l string) *metav1.Time {
	if !gBool(t, l) {
		return nil
	}
	tm := metav1.Unix(int64(rapid.IntRange(0, 2000000000).Draw(t, l+"-sec")), 0)
	return &tm
}

func gInt32Ptr(t *rapid.T, l string, lo, hi int) *int32 {
	if !gBool(t, l+"-present") {
		return nil
	}
	v := int32(rapid.IntRange(lo, hi).Draw(t, l))
	return &v
}

func gMeta(t *rapid.T, styleVals []string) metav1.ObjectMeta {
	m := metav1.ObjectMeta{Name: gName(t, "meta-name"), Namespace: rapid.SampledFrom([]string{"", "default", "ns1"}).Draw(t, "meta-ns")}
	m.Labels = gStrMap(t, "meta-labels")
	m.Annotations = gStrMap(t, "meta-ann")
	if sv := rapid.SampledFrom(styleVals).Draw(t, "meta-style"); sv != "<absent>" {
		if m.Annotations == nil {
			m.Annotations = map[string]string{}
		}
		m.Annotations[v1alpha1.RolloutStyleAnnotation] = sv
	}
	if tr := rapid.SampledFrom([]string{"<absent>", "", "tr-demo"}).Draw(t, "meta-tr"); tr != "<absent>" {
		if m.Annotations == nil {
			m.Annotations = map[string]string{}
		}
		m.Annotations[v1alpha1.TrafficRoutingAnnotation] = tr
	}
	if gBool(t, "meta-fin") {
		m.Finalizers = []string{"rollouts.kruise.io/rollout"}
	}
	m.Generation = int64(rapid.IntRange(0, 5).Draw(t, "meta-gen"))
	m.ResourceVersion = rapid.SampledFrom([]string{"", "12"}).Draw(t, "meta-rv")
	return m
}

var alphaStyleVals = []string{"<absent>", "", "partition", "Partition", "PARTITION", "canary", "Canary", "bluegreen", "bogus"}

func gAlphaConds(t *rapid.T) []v1alpha1.RolloutCondition {
	var out []v1alpha1.RolloutCondition
	for i, n := 0, rapid.IntRange(0, 2).Draw(t, "conds"); i < n; i++ {
		out = append(out, v1alpha1.RolloutCondition{
			Type:               rapid.SampledFrom([]v1alpha1.RolloutConditionType{v1alpha1.RolloutConditionProgressing, v1alpha1.RolloutConditionSucceeded, v1alpha1.RolloutConditionTerminating}).Draw(t, "cond-type"),
			Status:             "True",
			Reason:             rapid.SampledFrom([]string{"InRolling", "Completed", ""}).Draw(t, "cond-reason"),
			Message:            rapid.SampledFrom([]string{"", "msg"}).Draw(t, "cond-msg"),
			LastUpdateTime:     metav1.Unix(int64(rapid.IntRange(0, 1000).Draw(t, "cond-lut")), 0),
			LastTransitionTime: metav1.Unix(int64(rapid.IntRange(0, 1000).Draw(t, "cond-ltt")), 0),
		})
	}
	return out
}

func gAlphaTRStrategy(t *rapid.T, l string) v1alpha1.TrafficRoutingStrategy {
	s := v1alpha1.TrafficRoutingStrategy{}
	s.Weight = gInt32Ptr(t, l+"-weight", -1, 101)
	s.RequestHeaderModifier = gHeaderFilter(t, l+"-rhm")
	for i, n := 0, rapid.IntRange(0, 2).Draw(t, l+"-matches"); i < n; i++ {
		s.Matches = append(s.Matches, v1alpha1.HttpRouteMatch{Headers: gHeaderMatches(t, l+"-hm")})
	}
	return s
}

func gAlphaTRRef(t *rapid.T, l string) v1alpha1.TrafficRoutingRef {
	r := v1alpha1.TrafficRoutingRef{Service: gName(t, l+"-svc"), GracePeriodSeconds: int32(rapid.IntRange(-1, 30).Draw(t, l+"-grace"))}
	if gBool(t, l+"-ing") {
		r.Ingress = &v1alpha1.IngressTrafficRouting{ClassType: rapid.SampledFrom([]string{"", "nginx", "aliyun-alb"}).Draw(t, l+"-class"), Name: gName(t, l+"-ingname")}
	}
	if gBool(t, l+"-gw") {
		r.Gateway = &v1alpha1.GatewayTrafficRouting{}
		if gBool(t, l+"-gwname-present") {
			n := gName(t, l+"-gwname")
			r.Gateway.HTTPRouteName = &n
		}
	}
	for i, n := 0, rapid.IntRange(0, 2).Draw(t, l+"-custom"); i < n; i++ {
		r.CustomNetworkRefs = append(r.CustomNetworkRefs, v1alpha1.CustomNetworkRef{APIVersion: "networking.istio.io/v1alpha3", Kind: rapid.SampledFrom([]string{"VirtualService", "DestinationRule"}).Draw(t, l+"-ckind"), Name: gName(t, l+"-cname")})
	}
	return r
}

// gAlphaRollout draws a v1alpha1 Rollout the CRD schema admits: objectRef and strategy are
// required (non-pointer), objectRef.workloadRef and strategy.canary are optional and so nil or
// present; everything below is optional per the schema.
func gAlphaRollout(t *rapid.T) *v1alpha1.Rollout {
	r := &v1alpha1.Rollout{ObjectMeta: gMeta(t, alphaStyleVals)}
	if rapid.IntRange(0, 9).Draw(t, "wref-present") > 0 {
		r.Spec.ObjectRef.WorkloadRef = &v1alpha1.WorkloadRef{APIVersion: rapid.SampledFrom([]string{"apps/v1", "apps.kruise.io/v1alpha1", ""}).Draw(t, "wref-api"), Kind: rapid.SampledFrom([]string{"Deployment", "CloneSet", "StatefulSet", ""}).Draw(t, "wref-kind"), Name: gName(t, "wref-name")}
	}
	r.Spec.Disabled = gBool(t, "disabled")
	r.Spec.Strategy.Paused = gBool(t, "paused")
	if rapid.IntRange(0, 9).Draw(t, "canary-present") > 0 {
		c := &v1alpha1.CanaryStrategy{}
		for i, n := 0, rapid.IntRange(0, 4).Draw(t, "steps"); i < n; i++ {
			st := v1alpha1.CanaryStep{TrafficRoutingStrategy: gAlphaTRStrategy(t, "step")}
			st.Replicas = gIntStrPtr(t, "step-replicas")
			st.Pause.Duration = gInt32Ptr(t, "step-pause", 0, 600)
			c.Steps = append(c.Steps, st)
		}
		for i, n := 0, rapid.IntRange(0, 2).Draw(t, "trs"); i < n; i++ {
			c.TrafficRoutings = append(c.TrafficRoutings, gAlphaTRRef(t, "tr"))
		}
		c.FailureThreshold = gIntStrPtr(t, "failure-threshold")
		if gBool(t, "ppm-present") {
			c.PatchPodTemplateMetadata = &v1alpha1.PatchPodTemplateMetadata{Annotations: gStrMap(t, "ppm-ann"), Labels: gStrMap(t, "ppm-lab")}
		}
		c.DisableGenerateCanaryService = gBool(t, "disable-canary-svc")
		r.Spec.Strategy.Canary = c
	}
	r.Status.ObservedGeneration = int64(rapid.IntRange(0, 5).Draw(t, "st-og"))
	r.Status.Phase = rapid.SampledFrom([]v1alpha1.RolloutPhase{"", v1alpha1.RolloutPhaseInitial, v1alpha1.RolloutPhaseHealthy, v1alpha1.RolloutPhaseProgressing, v1alpha1.RolloutPhaseTerminating, v1alpha1.RolloutPhaseDisabled}).Draw(t, "st-phase")
	r.Status.Message = rapid.SampledFrom([]string{"", "m"}).Draw(t, "st-msg")
	r.Status.Conditions = gAlphaConds(t)
	if gBool(t, "st-canary-present") {
		r.Status.CanaryStatus = &v1alpha1.CanaryStatus{
			ObservedWorkloadGeneration: int64(rapid.IntRange(0, 9).Draw(t, "cs-owg")),
			ObservedRolloutID:          rapid.SampledFrom([]string{"", "r1"}).Draw(t, "cs-orid"),
			RolloutHash:                rapid.SampledFrom([]string{"", "h"}).Draw(t, "cs-hash"),
			StableRevision:             rapid.SampledFrom([]string{"", "s1"}).Draw(t, "cs-stable"),
			CanaryRevision:             rapid.SampledFrom([]string{"", "c1"}).Draw(t, "cs-canary"),
			PodTemplateHash:            rapid.SampledFrom([]string{"", "p1"}).Draw(t, "cs-pth"),
			CanaryReplicas:             int32(rapid.IntRange(0, 9).Draw(t, "cs-cr")),
			CanaryReadyReplicas:        int32(rapid.IntRange(0, 9).Draw(t, "cs-crr")),
			NextStepIndex:              int32(rapid.IntRange(-1, 9).Draw(t, "cs-next")),
			CurrentStepIndex:           int32(rapid.IntRange(0, 9).Draw(t, "cs-cur")),
			CurrentStepState:           rapid.SampledFrom([]v1alpha1.CanaryStepState{"", v1alpha1.CanaryStepStateUpgrade, v1alpha1.CanaryStepStatePaused, v1alpha1.CanaryStepStateReady, v1alpha1.CanaryStepStateCompleted}).Draw(t, "cs-state"),
			Message:                    rapid.SampledFrom([]string{"", "cm"}).Draw(t, "cs-msg"),
			LastUpdateTime:             gTimePtr(t, "cs-lut"),
			FinalisingStep:             rapid.SampledFrom([]v1alpha1.FinalizeStateType{"", "FinalisingStepTypeGateway"}).Draw(t, "cs-fin"),
		}
	}
	return r
}

// ---------- semantic projections (the oracle) ----------

// sem is the meaning of a v1alpha1 Rollout as far as the property lists it.
type semStep struct {
	EffReplicas string // replicas, else weight%
	Weight      string
	Matches     string
	Modifier    string
	Pause       string
}

type semRollout struct {
	Meta        string
	Workload    string
	Steps       []semStep
	TRs         string
	FailureThr  string
	PPM         string
	Paused      bool
	Disabled    bool
	Partition   bool
	TRAnn       string
	DisableSvc  bool
	Status      string
	HasStrategy bool
}

func js(v any) string { b, _ := json.Marshal(v); return string(b) }

func normMap(m map[string]string) string {
	if len(m) == 0 {
		return "{}"
	}
	ks := make([]string, 0, len(m))
	for k := range m {
		ks = append(ks, k)
	}
	sort.Strings(ks)
	var sb strings.Builder
	for _, k := range ks {
		fmt.Fprintf(&sb, "%q=%q;", k, m[k])
	}
	return sb.String()
}

func metaSem(m metav1.ObjectMeta) string {
	ann := map[string]string{}
	for k, v := range m.Annotations {
		if k == v1alpha1.RolloutStyleAnnotation || k == v1alpha1.TrafficRoutingAnnotation {
			continue
		}
		ann[k] = v
	}
	return fmt.Sprintf("%s/%s labels=%s ann=%s fin=%v gen=%d rv=%s", m.Namespace, m.Name, normMap(m.Labels), normMap(ann), m.Finalizers, m.Generation, m.ResourceVersion)
}

func ptrStr[T any](p *T) string {
	if p == nil {
		return "<nil>"
	}
	return js(*p)
}

func headerMatchesSem(ms []v1alpha1.HttpRouteMatch) string {
	var parts []string
	for _, m := range ms {
		if len(m.Headers) == 0 {
			parts = append(parts, "[]")
		} else {
			parts = append(parts, js(m.Headers))
		}
	}
	return strings.Join(parts, "|")
}

func alphaSem(r *v1alpha1.Rollout) semRollout {
	s := semRollout{Meta: metaSem(r.ObjectMeta), Paused: r.Spec.Strategy.Paused, Disabled: r.Spec.Disabled}
	if w := r.Spec.ObjectRef.WorkloadRef; w != nil {
		s.Workload = w.APIVersion + "|" + w.Kind + "|" + w.Name
	} else {
		s.Workload = "||"
	}
	s.Partition = strings.EqualFold(r.Annotations[v1alpha1.RolloutStyleAnnotation], "partition")
	s.TRAnn = r.Annotations[v1alpha1.TrafficRoutingAnnotation]
	if c := r.Spec.Strategy.Canary; c != nil {
		s.HasStrategy = true
		for _, st := range c.Steps {
			ss := semStep{Weight: ptrStr(st.Weight), Matches: headerMatchesSem(st.Matches), Modifier: ptrStr(st.RequestHeaderModifier), Pause: ptrStr(st.Pause.Duration)}
			switch {
			case st.Replicas != nil:
				ss.EffReplicas = st.Replicas.String()
			case st.Weight != nil:
				ss.EffReplicas = fmt.Sprintf("%d%%", *st.Weight)
			default:
				ss.EffReplicas = "<nil>"
			}
			s.Steps = append(s.Steps, ss)
		}
		var trs []string
		for _, tr := range c.TrafficRoutings {
			x := fmt.Sprintf("svc=%s grace=%d ing=%s gw=", tr.Service, tr.GracePeriodSeconds, ptrStr(tr.Ingress))
			if tr.Gateway == nil {
				x += "<nil>"
			} else {
				x += "{" + ptrStr(tr.Gateway.HTTPRouteName) + "}"
			}
			for _, c := range tr.CustomNetworkRefs {
				x += " custom=" + c.APIVersion + "|" + c.Kind + "|" + c.Name
			}
			trs = append(trs, x)
		}
		s.TRs = strings.Join(trs, ";")
		s.FailureThr = ptrStr(c.FailureThreshold)
		if c.PatchPodTemplateMetadata == nil {
			s.PPM = "<nil>"
		} else {
			s.PPM = "ann=" + normMap(c.PatchPodTemplateMetadata.Annotations) + " labels=" + normMap(c.PatchPodTemplateMetadata.Labels)
		}
		s.DisableSvc = c.DisableGenerateCanaryService
	} else {
		s.FailureThr, s.PPM = "<nil>", "<nil>"
	}
	st := r.Status
	s.Status = fmt.Sprintf("og=%d phase=%s msg=%s conds=%s canary=%s", st.ObservedGeneration, st.Phase, st.Message, js(st.Conditions), ptrStr(st.CanaryStatus))
	if len(st.Conditions) == 0 {
		s.Status = fmt.Sprintf("og=%d phase=%s msg=%s conds=[] canary=%s", st.ObservedGeneration, st.Phase, st.Message, ptrStr(st.CanaryStatus))
	}
	return s
}

func diffSem(a, b semRollout) string {
	va, vb := reflect.ValueOf(a), reflect.ValueOf(b)
	var out []string
	for i := 0; i < va.NumField(); i++ {
		name := va.Type().Field(i).Name
		if name == "HasStrategy" {
			continue
		}
		if !reflect.DeepEqual(va.Field(i).Interface(), vb.Field(i).Interface()) {
			out = append(out, fmt.Sprintf("%s: before=%v after=%v", name, va.Field(i).Interface(), vb.Field(i).Interface()))
		}
	}
	return strings.Join(out, "; ")
}

// ---------- C20a: v1alpha1 Rollout -> v1beta1 -> v1alpha1 ----------

const chkAlphaRollout = "c20-alpha-rollout"

func alphaRolloutCase(t vlib.TB, r *v1alpha1.Rollout) {
	orig := r.DeepCopy()
	hub := &v1beta1.Rollout{}
	var err error
	if p, msg := vlib.Guard(func() { err = r.ConvertTo(hub) }); p {
		vlib.Fail(t, chkAlphaRollout, "rollout-convertto-panic", orig, "ConvertTo panicked: %s", msg)
	}
	if err != nil {
		vlib.Fail(t, chkAlphaRollout, "rollout-convertto-error", orig, "ConvertTo failed: %v", err)
	}
	back := &v1alpha1.Rollout{}
	if p, msg := vlib.Guard(func() { err = back.ConvertFrom(hub) }); p {
		vlib.Fail(t, chkAlphaRollout, "rollout-convertfrom-panic", orig, "ConvertFrom panicked on the hub produced by ConvertTo: %s", msg)
	}
	if err != nil {
		vlib.Fail(t, chkAlphaRollout, "rollout-convertfrom-error", orig, "ConvertFrom failed: %v", err)
	}
	a, b := alphaSem(orig), alphaSem(back)
	if d := diffSem(a, b); d != "" {
		f := strings.SplitN(d, ":", 2)[0]
		vlib.Fail(t, chkAlphaRollout, "rollout-alpha-roundtrip-"+strings.ToLower(f), orig, "v1alpha1 -> v1beta1 -> v1alpha1 changed the meaning: %s", d)
	}
	// the hub itself must carry the same meaning the controllers read
	if orig.Spec.Strategy.Canary != nil {
		if hub.Spec.Strategy.Canary == nil {
			vlib.Fail(t, chkAlphaRollout, "rollout-hub-no-canary", orig, "hub has no canary strategy")
		}
		if got, want := !hub.Spec.Strategy.Canary.EnableExtraWorkloadForCanary, a.Partition; got != want {
			vlib.Fail(t, chkAlphaRollout, "rollout-hub-style", orig, "hub partition-style=%v, v1alpha1 annotation says %v", got, want)
		}
		if len(hub.Spec.Strategy.Canary.Steps) != len(orig.Spec.Strategy.Canary.Steps) {
			vlib.Fail(t, chkAlphaRollout, "rollout-hub-steps", orig, "hub has %d steps, source %d", len(hub.Spec.Strategy.Canary.Steps), len(orig.Spec.Strategy.Canary.Steps))
		}
		for i, st := range orig.Spec.Strategy.Canary.Steps {
			hs := hub.Spec.Strategy.Canary.Steps[i]
			if a.Steps[i].EffReplicas != ptrIS(hs.Replicas) {
				vlib.Fail(t, chkAlphaRollout, "rollout-hub-step-replicas", orig, "step %d: hub replicas %s, source effective replicas %s", i, ptrIS(hs.Replicas), a.Steps[i].EffReplicas)
			}
			wantTraffic := "<nil>"
			if st.Weight != nil {
				wantTraffic = fmt.Sprintf("%d%%", *st.Weight)
			}
			gotTraffic := "<nil>"
			if hs.Traffic != nil {
				gotTraffic = *hs.Traffic
			}
			if wantTraffic != gotTraffic {
				vlib.Fail(t, chkAlphaRollout, "rollout-hub-step-traffic", orig, "step %d: hub traffic %s, source weight %s", i, gotTraffic, wantTraffic)
			}
		}
	}
}

func ptrIS(p *intstr.IntOrString) string {
	if p == nil {
		return "<nil>"
	}
	return p.String()
}

func alphaRolloutStats(r *v1alpha1.Rollout) {
	nilBlocks := 0
	var cls []string
	if r.Spec.ObjectRef.WorkloadRef == nil {
		nilBlocks++
		cls = append(cls, "nil-workloadRef")
	}
	steps := 0
	if r.Spec.Strategy.Canary == nil {
		nilBlocks++
		cls = append(cls, "nil-canary")
	} else {
		steps = len(r.Spec.Strategy.Canary.Steps)
		if r.Spec.Strategy.Canary.PatchPodTemplateMetadata == nil {
			nilBlocks++
		}
		if r.Spec.Strategy.Canary.FailureThreshold == nil {
			nilBlocks++
		}
		for _, s := range r.Spec.Strategy.Canary.Steps {
			if s.Replicas == nil {
				nilBlocks++
				if s.Weight != nil {
					cls = append(cls, "weight-only-step")
				}
			}
		}
		if len(r.Spec.Strategy.Canary.TrafficRoutings) > 0 {
			cls = append(cls, "with-trafficrouting")
		}
	}
	if r.Status.CanaryStatus == nil {
		nilBlocks++
		cls = append(cls, "nil-canaryStatus")
	}
	cls = append(cls, fmt.Sprintf("steps=%d", steps), "style="+r.Annotations[v1alpha1.RolloutStyleAnnotation])
	nt := steps >= 1 && nilBlocks >= 1
	vlib.Record(chkAlphaRollout, js(r.Spec)+js(r.Annotations)+fmt.Sprint(r.Status.CanaryStatus == nil), nt, cls, func() any { return r })
}

func TestC20AlphaRollout(t *testing.T) {
	var rc v1alpha1.Rollout
	if ok, _ := vlib.LoadReplay(chkAlphaRollout, &rc); ok {
		alphaRolloutCase(t, &rc)
		return
	}
	rapid.Check(t, func(t *rapid.T) {
		r := gAlphaRollout(t)
		alphaRolloutStats(r)
		alphaRolloutCase(t, r)
	})
}

// ---------- C20b: v1beta1 Rollout -> v1alpha1 -> v1beta1 ----------

const chkBetaRollout = "c20-beta-rollout"

func gBetaTRStrategy(t *rapid.T, l string, restricted bool) v1beta1.TrafficRoutingStrategy {
	s := v1beta1.TrafficRoutingStrategy{}
	if gBool(t, l+"-traffic-present") {
		var v string
		if restricted {
			v = fmt.Sprintf("%d%%", rapid.IntRange(0, 100).Draw(t, l+"-traffic"))
		} else {
			v = rapid.SampledFrom([]string{"", "20", "20%", "abc", "%", "-5%", "1000%"}).Draw(t, l+"-traffic-any")
		}
		s.Traffic = &v
	}
	s.RequestHeaderModifier = gHeaderFilter(t, l+"-rhm")
	for i, n := 0, rapid.IntRange(0, 2).Draw(t, l+"-matches"); i < n; i++ {
		m := v1beta1.HttpRouteMatch{Headers: gHeaderMatches(t, l+"-hm")}
		if !restricted && gBool(t, l+"-path") {
			v := "/v2"
			m.Path = &gw.HTTPPathMatch{Value: &v}
		}
		if !restricted && gBool(t, l+"-qp") {
			m.QueryParams = []gw.HTTPQueryParamMatch{{Name: "user", Value: "x"}}
		}
		s.Matches = append(s.Matches, m)
	}
	return s
}

func gBetaTRRef(t *rapid.T, l string) v1beta1.TrafficRoutingRef {
	r := v1beta1.TrafficRoutingRef{Service: gName(t, l+"-svc"), GracePeriodSeconds: int32(rapid.IntRange(-1, 30).Draw(t, l+"-grace"))}
	if gBool(t, l+"-ing") {
		r.Ingress = &v1beta1.IngressTrafficRouting{ClassType: rapid.SampledFrom([]string{"", "nginx", "mse"}).Draw(t, l+"-class"), Name: gName(t, l+"-ingname")}
	}
	if gBool(t, l+"-gw") {
		r.Gateway = &v1beta1.GatewayTrafficRouting{}
		if gBool(t, l+"-gwname-present") {
			n := gName(t, l+"-gwname")
			r.Gateway.HTTPRouteName = &n
		}
	}
	for i, n := 0, rapid.IntRange(0, 2).Draw(t, l+"-custom"); i < n; i++ {
		r.CustomNetworkRefs = append(r.CustomNetworkRefs, v1beta1.ObjectRef{APIVersion: "networking.istio.io/v1alpha3", Kind: "VirtualService", Name: gName(t, l+"-cname")})
	}
	return r
}

func gBetaStatus(t *rapid.T, bluegreen bool) v1beta1.RolloutStatus {
	st := v1beta1.RolloutStatus{
		ObservedGeneration: int64(rapid.IntRange(0, 5).Draw(t, "st-og")),
		Phase:              rapid.SampledFrom([]v1beta1.RolloutPhase{"", v1beta1.RolloutPhaseInitial, v1beta1.RolloutPhaseHealthy, v1beta1.RolloutPhaseProgressing, v1beta1.RolloutPhaseTerminating}).Draw(t, "st-phase"),
		Message:            rapid.SampledFrom([]string{"", "m"}).Draw(t, "st-msg"),
	}
	for i, n := 0, rapid.IntRange(0, 2).Draw(t, "conds"); i < n; i++ {
		st.Conditions = append(st.Conditions, v1beta1.RolloutCondition{
			Type:               rapid.SampledFrom([]v1beta1.RolloutConditionType{v1beta1.RolloutConditionProgressing, v1beta1.RolloutConditionSucceeded}).Draw(t, "cond-type"),
			Status:             "False",
			Reason:             rapid.SampledFrom([]string{"InRolling", ""}).Draw(t, "cond-reason"),
			Message:            "x",
			LastUpdateTime:     metav1.Unix(int64(rapid.IntRange(0, 1000).Draw(t, "cond-lut")), 0),
			LastTransitionTime: metav1.Unix(int64(rapid.IntRange(0, 1000).Draw(t, "cond-ltt")), 0),
		})
	}
	common := v1beta1.CommonStatus{
		ObservedWorkloadGeneration: int64(rapid.IntRange(0, 9).Draw(t, "cs-owg")),
		ObservedRolloutID:          rapid.SampledFrom([]string{"", "r1"}).Draw(t, "cs-orid"),
		RolloutHash:                rapid.SampledFrom([]string{"", "h"}).Draw(t, "cs-hash"),
		StableRevision:             rapid.SampledFrom([]string{"", "s1"}).Draw(t, "cs-stable"),
		PodTemplateHash:            rapid.SampledFrom([]string{"", "p1"}).Draw(t, "cs-pth"),
		CurrentStepIndex:           int32(rapid.IntRange(0, 9).Draw(t, "cs-cur")),
		NextStepIndex:              int32(rapid.IntRange(-1, 9).Draw(t, "cs-next")),
		CurrentStepState:           rapid.SampledFrom([]v1beta1.CanaryStepState{"", v1beta1.CanaryStepStateUpgrade, v1beta1.CanaryStepStatePaused, v1beta1.CanaryStepStateReady}).Draw(t, "cs-state"),
		Message:                    rapid.SampledFrom([]string{"", "cm"}).Draw(t, "cs-msg"),
		LastUpdateTime:             gTimePtr(t, "cs-lut"),
		FinalisingStep:             rapid.SampledFrom([]v1beta1.FinalisingStepType{"", "x"}).Draw(t, "cs-fin"),
	}
	if bluegreen {
		if gBool(t, "st-bg-present") {
			st.BlueGreenStatus = &v1beta1.BlueGreenStatus{CommonStatus: common, UpdatedRevision: "u1"}
		}
	} else if gBool(t, "st-canary-present") {
		st.CanaryStatus = &v1beta1.CanaryStatus{CommonStatus: common,
			CanaryRevision:      rapid.SampledFrom([]string{"", "c1"}).Draw(t, "cs-canary"),
			CanaryReplicas:      int32(rapid.IntRange(0, 9).Draw(t, "cs-cr")),
			CanaryReadyReplicas: int32(rapid.IntRange(0, 9).Draw(t, "cs-crr")),
		}
	}
	return st
}

// gBetaRollout draws a v1beta1 Rollout. kind: 0 canary restricted to v1alpha1-expressible
// fields, 1 canary unrestricted, 2 blue-green, 3 empty strategy (all admitted by the schema).
func gBetaRollout(t *rapid.T, kind int) *v1beta1.Rollout {
	// the stored object may carry a rolling-style annotation left by an earlier write through
	// v1alpha1 (the conversion copies metadata); it may be stale with respect to the v1beta1 field
	styles := []string{"<absent>"}
	if kind <= 1 {
		styles = alphaStyleVals
	}
	r := &v1beta1.Rollout{ObjectMeta: gMeta(t, styles)}
	delete(r.Annotations, v1alpha1.TrafficRoutingAnnotation)
	r.Spec.WorkloadRef = v1beta1.ObjectRef{APIVersion: rapid.SampledFrom([]string{"apps/v1", "apps.kruise.io/v1alpha1", ""}).Draw(t, "wref-api"), Kind: rapid.SampledFrom([]string{"Deployment", "CloneSet", ""}).Draw(t, "wref-kind"), Name: gName(t, "wref-name")}
	r.Spec.Disabled = gBool(t, "disabled")
	r.Spec.Strategy.Paused = gBool(t, "paused")
	steps := func() []v1beta1.CanaryStep {
		var out []v1beta1.CanaryStep
		for i, n := 0, rapid.IntRange(0, 4).Draw(t, "steps"); i < n; i++ {
			st := v1beta1.CanaryStep{TrafficRoutingStrategy: gBetaTRStrategy(t, "step", kind == 0)}
			st.Replicas = gIntStrPtr(t, "step-replicas")
			if kind == 0 && st.Replicas == nil {
				// Pre: the v1beta1 validating webhook requires replicas on every step; a
				// v1alpha1 weight-only step *means* replicas = weight%, so a v1beta1 step
				// without replicas is not v1alpha1-expressible.
				v := intstr.FromInt(1)
				st.Replicas = &v
			}
			st.Pause.Duration = gInt32Ptr(t, "step-pause", 0, 600)
			out = append(out, st)
		}
		return out
	}
	trs := func() []v1beta1.TrafficRoutingRef {
		var out []v1beta1.TrafficRoutingRef
		for i, n := 0, rapid.IntRange(0, 2).Draw(t, "trs"); i < n; i++ {
			out = append(out, gBetaTRRef(t, "tr"))
		}
		return out
	}
	switch kind {
	case 0, 1:
		c := &v1beta1.CanaryStrategy{Steps: steps(), TrafficRoutings: trs()}
		c.FailureThreshold = gIntStrPtr(t, "failure-threshold")
		if gBool(t, "ppm-present") {
			c.PatchPodTemplateMetadata = &v1beta1.PatchPodTemplateMetadata{Annotations: gStrMap(t, "ppm-ann"), Labels: gStrMap(t, "ppm-lab")}
		}
		c.EnableExtraWorkloadForCanary = gBool(t, "extra-workload")
		c.DisableGenerateCanaryService = gBool(t, "disable-canary-svc")
		c.TrafficRoutingRef = rapid.SampledFrom([]string{"", "tr-demo"}).Draw(t, "tr-ref")
		r.Spec.Strategy.Canary = c
	case 2:
		r.Spec.Strategy.BlueGreen = &v1beta1.BlueGreenStrategy{Steps: steps(), TrafficRoutings: trs(), FailureThreshold: gIntStrPtr(t, "failure-threshold")}
	}
	r.Status = gBetaStatus(t, kind == 2)
	return r
}

func betaNorm(r *v1beta1.Rollout) *v1beta1.Rollout {
	c := r.DeepCopy()
	// annotations the conversion itself adds on the v1alpha1 side carry the style/ref
	if c.Annotations != nil {
		delete(c.Annotations, v1alpha1.RolloutStyleAnnotation)
		delete(c.Annotations, v1alpha1.TrafficRoutingAnnotation)
	}
	if len(c.Annotations) == 0 {
		c.Annotations = nil
	}
	if len(c.Labels) == 0 {
		c.Labels = nil
	}
	if cs := c.Spec.Strategy.Canary; cs != nil {
		if p := cs.PatchPodTemplateMetadata; p != nil {
			if len(p.Annotations) == 0 {
				p.Annotations = nil
			}
			if len(p.Labels) == 0 {
				p.Labels = nil
			}
		}
		for i := range cs.Steps {
			for j := range cs.Steps[i].Matches {
				if len(cs.Steps[i].Matches[j].Headers) == 0 {
					cs.Steps[i].Matches[j].Headers = nil
				}
			}
		}
	}
	if len(c.Status.Conditions) == 0 {
		c.Status.Conditions = nil
	}
	return c
}

type betaCase struct {
	Kind int              `json:"kind"`
	Obj  *v1beta1.Rollout `json:"obj"`
}

func betaRolloutCase(t vlib.TB, bc betaCase) {
	r := bc.Obj
	orig := r.DeepCopy()
	spoke := &v1alpha1.Rollout{}
	var err error
	if p, msg := vlib.Guard(func() { err = spoke.ConvertFrom(r) }); p {
		vlib.Fail(t, chkBetaRollout, fmt.Sprintf("rollout-beta-convertfrom-panic-kind%d", bc.Kind), bc, "ConvertFrom panicked: %s", msg)
	}
	if err != nil {
		vlib.Fail(t, chkBetaRollout, "rollout-beta-convertfrom-error", bc, "ConvertFrom failed: %v", err)
	}
	if bc.Kind >= 2 {
		return // only v1beta1 expresses blue-green / empty strategy: no-crash oracle only
	}
	back := &v1beta1.Rollout{}
	if p, msg := vlib.Guard(func() { err = spoke.ConvertTo(back) }); p {
		vlib.Fail(t, chkBetaRollout, "rollout-beta-convertto-panic", bc, "ConvertTo panicked on ConvertFrom's output: %s", msg)
	}
	if err != nil {
		vlib.Fail(t, chkBetaRollout, "rollout-beta-convertto-error", bc, "ConvertTo failed: %v", err)
	}
	if bc.Kind != 0 {
		return
	}
	a, b := betaNorm(orig), betaNorm(back)
	if !reflect.DeepEqual(a, b) {
		sig := "rollout-beta-roundtrip"
		switch {
		case !reflect.DeepEqual(a.ObjectMeta, b.ObjectMeta):
			sig += "-meta"
		case !reflect.DeepEqual(a.Status, b.Status):
			sig += "-status"
		case a.Spec.Strategy.Canary.DisableGenerateCanaryService != b.Spec.Strategy.Canary.DisableGenerateCanaryService:
			sig += "-disablegeneratecanaryservice"
		default:
			sig += "-spec"
		}
		vlib.Fail(t, chkBetaRollout, sig, bc, "v1beta1 -> v1alpha1 -> v1beta1 is not the identity on the v1alpha1-expressible domain:\n before=%s\n after =%s", js(a), js(b))
	}
}

func betaSteps(r *v1beta1.Rollout) int {
	if r.Spec.Strategy.BlueGreen != nil {
		return len(r.Spec.Strategy.BlueGreen.Steps)
	}
	if r.Spec.Strategy.Canary != nil {
		return len(r.Spec.Strategy.Canary.Steps)
	}
	return 0
}

func TestC20BetaRollout(t *testing.T) {
	var bc betaCase
	if ok, _ := vlib.LoadReplay(chkBetaRollout, &bc); ok {
		betaRolloutCase(t, bc)
		return
	}
	rapid.Check(t, func(t *rapid.T) {
		kind := rapid.SampledFrom([]int{0, 0, 0, 0, 1, 1, 2, 3}).Draw(t, "kind")
		bc := betaCase{Kind: kind, Obj: gBetaRollout(t, kind)}
		steps := betaSteps(bc.Obj)
		nt := kind == 0 && steps >= 1
		vlib.Record(chkBetaRollout, js(bc.Obj.Spec)+fmt.Sprint(bc.Obj.Status.CanaryStatus == nil), nt, []string{fmt.Sprintf("kind=%d", kind), fmt.Sprintf("steps=%d", steps)}, func() any { return bc })
		betaRolloutCase(t, bc)
	})
}
