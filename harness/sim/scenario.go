package sim

import (
	"context"
	"encoding/json"
	"fmt"
	autoscalingv2 "k8s.io/api/autoscaling/v2"
	"strconv"
	"strings"

	kruisev1alpha1 "github.com/openkruise/kruise-api/apps/v1alpha1"
	"github.com/openkruise/rollouts/api/v1beta1"
	"github.com/openkruise/rollouts/pkg/util"
	"github.com/openkruise/rollouts/pkg/webhook/rollout/validating"
	"github.com/openkruise/rollouts/pkg/webhook/util/configuration"
	admissionv1 "k8s.io/api/admission/v1"
	admissionregistrationv1 "k8s.io/api/admissionregistration/v1"
	appsv1 "k8s.io/api/apps/v1"
	corev1 "k8s.io/api/core/v1"
	networkingv1 "k8s.io/api/networking/v1"
	metav1 "k8s.io/apimachinery/pkg/apis/meta/v1"
	"k8s.io/apimachinery/pkg/runtime"
	"k8s.io/apimachinery/pkg/runtime/schema"
	"k8s.io/apimachinery/pkg/util/intstr"
	"k8s.io/utils/pointer"
	"sigs.k8s.io/controller-runtime/pkg/client"
	"sigs.k8s.io/controller-runtime/pkg/webhook/admission"
	gatewayv1beta1 "sigs.k8s.io/gateway-api/apis/v1beta1"
)

// StepSpec is one rollout step of a scenario.
type StepSpec struct {
	Replicas string `json:"replicas"`          // "3" or "30%"
	Traffic  *int   `json:"traffic,omitempty"` // canary weight percent
	Match    string `json:"match,omitempty"`   // "" | "header" | "header2"
	Pause    *int   `json:"pause,omitempty"`   // nil = manual approval, else seconds
}

// Scenario describes one simulated cluster setup.
type Scenario struct {
	Workload         string     `json:"workload"` // cloneset | deployment
	Style            string     `json:"style"`    // partition | canary | bluegreen
	Replicas         int        `json:"replicas"`
	Steps            []StepSpec `json:"steps"`
	Provider         string     `json:"provider"` // "" | ingress-nginx | gateway
	UseRolloutID     bool       `json:"use_rollout_id,omitempty"`
	DisableCanarySvc bool       `json:"disable_canary_service,omitempty"`
	FailureThreshold string     `json:"failure_threshold,omitempty"`
	GraceSeconds     int        `json:"grace_seconds,omitempty"`
	WithHPA          bool       `json:"with_hpa,omitempty"` // a HorizontalPodAutoscaler targets the workload (blue-green disables / restores it)
	Namespace        string     `json:"namespace"`
	Name             string     `json:"name"`
}

func (s Scenario) HasTraffic() bool { return s.Provider != "" }

func (s Scenario) StableServiceName() string { return s.Name + "-svc" }
func (s Scenario) CanaryServiceName() string { return s.Name + "-svc-canary" }
func (s Scenario) IngressName() string       { return s.Name + "-ingress" }
func (s Scenario) RouteName() string         { return s.Name + "-route" }

func parseIntOrPercent(v string) intstr.IntOrString {
	if strings.HasSuffix(v, "%") {
		return intstr.FromString(v)
	}
	n, _ := strconv.Atoi(v)
	return intstr.FromInt(n)
}

func (s Scenario) template(version string) corev1.PodTemplateSpec {
	return corev1.PodTemplateSpec{
		ObjectMeta: metav1.ObjectMeta{Labels: map[string]string{"app": s.Name}},
		Spec:       corev1.PodSpec{Containers: []corev1.Container{{Name: "main", Image: "app:" + version}}},
	}
}

func (s Scenario) WorkloadGVK() (gvk struct{ APIVersion, Kind string }) {
	switch s.Workload {
	case "cloneset":
		gvk.APIVersion, gvk.Kind = "apps.kruise.io/v1alpha1", "CloneSet"
	default:
		gvk.APIVersion, gvk.Kind = "apps/v1", "Deployment"
	}
	return
}

// BuildRollout renders the scenario's Rollout object.
func (s Scenario) BuildRollout() *v1beta1.Rollout {
	wg := s.WorkloadGVK()
	r := &v1beta1.Rollout{
		TypeMeta:   metav1.TypeMeta{APIVersion: v1beta1.GroupVersion.String(), Kind: "Rollout"},
		ObjectMeta: metav1.ObjectMeta{Namespace: s.Namespace, Name: s.Name},
		Spec:       v1beta1.RolloutSpec{WorkloadRef: v1beta1.ObjectRef{APIVersion: wg.APIVersion, Kind: wg.Kind, Name: s.Name}},
	}
	var steps []v1beta1.CanaryStep
	for _, st := range s.Steps {
		rep := parseIntOrPercent(st.Replicas)
		cs := v1beta1.CanaryStep{Replicas: &rep}
		if st.Pause != nil {
			cs.Pause.Duration = pointer.Int32(int32(*st.Pause))
		}
		if s.HasTraffic() {
			if st.Traffic != nil {
				cs.Traffic = pointer.String(fmt.Sprintf("%d%%", *st.Traffic))
			}
			switch st.Match {
			case "header":
				exact := gatewayv1beta1.HeaderMatchExact
				cs.Matches = []v1beta1.HttpRouteMatch{{Headers: []gatewayv1beta1.HTTPHeaderMatch{{Type: &exact, Name: "user-agent", Value: "pc"}}}}
			case "header2":
				re := gatewayv1beta1.HeaderMatchRegularExpression
				cs.Matches = []v1beta1.HttpRouteMatch{{Headers: []gatewayv1beta1.HTTPHeaderMatch{{Type: &re, Name: "x-canary", Value: "v.*"}}}}
			}
		}
		steps = append(steps, cs)
	}
	var trs []v1beta1.TrafficRoutingRef
	switch s.Provider {
	case "ingress-nginx":
		trs = []v1beta1.TrafficRoutingRef{{Service: s.StableServiceName(), GracePeriodSeconds: int32(s.GraceSeconds), Ingress: &v1beta1.IngressTrafficRouting{ClassType: "nginx", Name: s.IngressName()}}}
	case "gateway":
		trs = []v1beta1.TrafficRoutingRef{{Service: s.StableServiceName(), GracePeriodSeconds: int32(s.GraceSeconds), Gateway: &v1beta1.GatewayTrafficRouting{HTTPRouteName: pointer.String(s.RouteName())}}}
	}
	var ft *intstr.IntOrString
	if s.FailureThreshold != "" {
		v := parseIntOrPercent(s.FailureThreshold)
		ft = &v
	}
	switch s.Style {
	case "bluegreen":
		r.Spec.Strategy.BlueGreen = &v1beta1.BlueGreenStrategy{Steps: steps, TrafficRoutings: trs, FailureThreshold: ft, DisableGenerateCanaryService: s.DisableCanarySvc}
	default:
		r.Spec.Strategy.Canary = &v1beta1.CanaryStrategy{Steps: steps, TrafficRoutings: trs, FailureThreshold: ft,
			EnableExtraWorkloadForCanary: s.Style == "canary", DisableGenerateCanaryService: s.DisableCanarySvc}
	}
	return r
}

// webhookConfiguration is the MutatingWebhookConfiguration as deployed (config/webhook/manifests.yaml
// + patch_manifests.yaml): rules per workload kind, objectSelector on the workload-type label.
func webhookConfiguration() *admissionregistrationv1.MutatingWebhookConfiguration {
	sel := &metav1.LabelSelector{MatchExpressions: []metav1.LabelSelectorRequirement{{Key: util.WorkloadTypeLabel, Operator: metav1.LabelSelectorOpExists}}}
	rule := func(group, version, resource string, ops ...admissionregistrationv1.OperationType) []admissionregistrationv1.RuleWithOperations {
		return []admissionregistrationv1.RuleWithOperations{{Operations: ops, Rule: admissionregistrationv1.Rule{APIGroups: []string{group}, APIVersions: []string{version}, Resources: []string{resource}}}}
	}
	se := admissionregistrationv1.SideEffectClassNone
	wh := func(name string, rules []admissionregistrationv1.RuleWithOperations) admissionregistrationv1.MutatingWebhook {
		return admissionregistrationv1.MutatingWebhook{Name: name, Rules: rules, ObjectSelector: sel, SideEffects: &se, AdmissionReviewVersions: []string{"v1"}}
	}
	return &admissionregistrationv1.MutatingWebhookConfiguration{
		ObjectMeta: metav1.ObjectMeta{Name: configuration.MutatingWebhookConfigurationName},
		Webhooks: []admissionregistrationv1.MutatingWebhook{
			wh("mcloneset.kb.io", rule("apps.kruise.io", "v1alpha1", "clonesets", admissionregistrationv1.Update)),
			wh("mdaemonset.kb.io", rule("apps.kruise.io", "v1alpha1", "daemonsets", admissionregistrationv1.Update)),
			wh("mdeployment.kb.io", rule("apps", "v1", "deployments", admissionregistrationv1.Update)),
			wh("munifiedworload.kb.io", rule("*", "*", "*", admissionregistrationv1.Create, admissionregistrationv1.Update)),
		},
	}
}

// Build creates the initial cluster of the scenario: webhook configuration, workload on v1 with
// all pods ready, Service, provider objects, and the Rollout (through the real validating
// webhook); then runs the controllers until quiescent. It returns an error when the scenario
// is rejected by validation.
func (w *World) Build(s Scenario) error {
	ctx := context.TODO()
	h := w.Client(ActorHarness)
	if w.Get(schema.GroupVersionKind{Group: "admissionregistration.k8s.io", Version: "v1", Kind: "MutatingWebhookConfiguration"}, "", configuration.MutatingWebhookConfigurationName) == nil {
		if err := h.Create(ctx, webhookConfiguration()); err != nil {
			return err
		}
	}
	sel := &metav1.LabelSelector{MatchLabels: map[string]string{"app": s.Name}}
	switch s.Workload {
	case "cloneset":
		cs := &kruisev1alpha1.CloneSet{
			TypeMeta:   metav1.TypeMeta{APIVersion: "apps.kruise.io/v1alpha1", Kind: "CloneSet"},
			ObjectMeta: metav1.ObjectMeta{Namespace: s.Namespace, Name: s.Name, Labels: map[string]string{"app": s.Name}},
			Spec: kruisev1alpha1.CloneSetSpec{Replicas: pointer.Int32(int32(s.Replicas)), Selector: sel, Template: s.template("v1"),
				UpdateStrategy: kruisev1alpha1.CloneSetUpdateStrategy{Type: kruisev1alpha1.RecreateCloneSetUpdateStrategyType,
					MaxUnavailable: intstrPtr(intstr.FromString("20%")), MaxSurge: intstrPtr(intstr.FromInt(0)), Partition: intstrPtr(intstr.FromInt(0))}},
		}
		if s.Style == "bluegreen" {
			cs.Spec.UpdateStrategy.MaxSurge = intstrPtr(intstr.FromInt(1))
		}
		if err := h.Create(ctx, cs); err != nil {
			return err
		}
	default:
		d := &appsv1.Deployment{
			TypeMeta:   metav1.TypeMeta{APIVersion: "apps/v1", Kind: "Deployment"},
			ObjectMeta: metav1.ObjectMeta{Namespace: s.Namespace, Name: s.Name, Labels: map[string]string{"app": s.Name}},
			Spec: appsv1.DeploymentSpec{Replicas: pointer.Int32(int32(s.Replicas)), Selector: sel, Template: s.template("v1"),
				Strategy: appsv1.DeploymentStrategy{Type: appsv1.RollingUpdateDeploymentStrategyType, RollingUpdate: &appsv1.RollingUpdateDeployment{
					MaxSurge: intstrPtr(intstr.FromString("25%")), MaxUnavailable: intstrPtr(intstr.FromString("25%"))}},
				RevisionHistoryLimit: pointer.Int32(10), ProgressDeadlineSeconds: pointer.Int32(600)},
		}
		if err := h.Create(ctx, d); err != nil {
			return err
		}
	}
	if s.HasTraffic() {
		svc := &corev1.Service{
			ObjectMeta: metav1.ObjectMeta{Namespace: s.Namespace, Name: s.StableServiceName()},
			Spec: corev1.ServiceSpec{Selector: map[string]string{"app": s.Name}, Type: corev1.ServiceTypeClusterIP, ClusterIP: "10.0.0.7",
				Ports: []corev1.ServicePort{{Name: "http", Port: 80, TargetPort: intstr.FromInt(8080), Protocol: corev1.ProtocolTCP}}},
		}
		if err := h.Create(ctx, svc); err != nil {
			return err
		}
	}
	switch s.Provider {
	case "ingress-nginx":
		pt := networkingv1.PathTypePrefix
		ing := &networkingv1.Ingress{
			ObjectMeta: metav1.ObjectMeta{Namespace: s.Namespace, Name: s.IngressName(), Annotations: map[string]string{"kubernetes.io/ingress.class": "nginx"}},
			Spec: networkingv1.IngressSpec{Rules: []networkingv1.IngressRule{{Host: "demo.example.com", IngressRuleValue: networkingv1.IngressRuleValue{HTTP: &networkingv1.HTTPIngressRuleValue{
				Paths: []networkingv1.HTTPIngressPath{{Path: "/", PathType: &pt, Backend: networkingv1.IngressBackend{Service: &networkingv1.IngressServiceBackend{Name: s.StableServiceName(), Port: networkingv1.ServiceBackendPort{Number: 80}}}}}}}}}},
		}
		if err := h.Create(ctx, ing); err != nil {
			return err
		}
	case "gateway":
		kind := gatewayv1beta1.Kind("Service")
		port := gatewayv1beta1.PortNumber(80)
		pm := gatewayv1beta1.PathMatchPathPrefix
		route := &gatewayv1beta1.HTTPRoute{
			ObjectMeta: metav1.ObjectMeta{Namespace: s.Namespace, Name: s.RouteName()},
			Spec: gatewayv1beta1.HTTPRouteSpec{Rules: []gatewayv1beta1.HTTPRouteRule{{
				Matches:     []gatewayv1beta1.HTTPRouteMatch{{Path: &gatewayv1beta1.HTTPPathMatch{Type: &pm, Value: pointer.String("/")}}},
				BackendRefs: []gatewayv1beta1.HTTPBackendRef{{BackendRef: gatewayv1beta1.BackendRef{BackendObjectReference: gatewayv1beta1.BackendObjectReference{Kind: &kind, Name: gatewayv1beta1.ObjectName(s.StableServiceName()), Port: &port}, Weight: pointer.Int32(1)}}},
			}}},
		}
		if err := h.Create(ctx, route); err != nil {
			return err
		}
	}
	if s.WithHPA && s.Workload == "deployment" {
		hpa := &autoscalingv2.HorizontalPodAutoscaler{
			TypeMeta:   metav1.TypeMeta{APIVersion: "autoscaling/v2", Kind: "HorizontalPodAutoscaler"},
			ObjectMeta: metav1.ObjectMeta{Namespace: s.Namespace, Name: s.Name + "-hpa"},
			Spec: autoscalingv2.HorizontalPodAutoscalerSpec{ScaleTargetRef: autoscalingv2.CrossVersionObjectReference{APIVersion: "apps/v1", Kind: "Deployment", Name: s.Name},
				MinReplicas: pointer.Int32(1), MaxReplicas: 20},
		}
		if err := h.Create(ctx, hpa); err != nil {
			return err
		}
	}
	w.Settle(2000, false)
	// the Rollout, through the real validating webhook
	r := s.BuildRollout()
	if err := w.ValidateRollout(nil, r); err != nil {
		return fmt.Errorf("rollout rejected by validating webhook: %w", err)
	}
	if err := w.Client(ActorUser).Create(ctx, r); err != nil {
		return err
	}
	w.Settle(2000, false)
	return nil
}

func intstrPtr(v intstr.IntOrString) *intstr.IntOrString { return &v }

// ValidateRollout runs the real validating webhook (CREATE when old == nil, else UPDATE).
func (w *World) ValidateRollout(old, obj *v1beta1.Rollout) error {
	hdl := &validating.RolloutCreateUpdateHandler{Client: w.Client(ActorWebhook), Decoder: admissionDecoder}
	obj = obj.DeepCopy()
	obj.TypeMeta = metav1.TypeMeta{APIVersion: v1beta1.GroupVersion.String(), Kind: "Rollout"}
	raw, _ := json.Marshal(obj)
	req := admission.Request{AdmissionRequest: admissionv1.AdmissionRequest{
		Kind:      metav1.GroupVersionKind{Group: v1beta1.GroupVersion.Group, Version: v1beta1.GroupVersion.Version, Kind: "Rollout"},
		Resource:  metav1.GroupVersionResource{Group: v1beta1.GroupVersion.Group, Version: v1beta1.GroupVersion.Version, Resource: "rollouts"},
		Name:      obj.Name,
		Namespace: obj.Namespace,
		Operation: admissionv1.Create,
		Object:    runtime.RawExtension{Raw: raw},
	}}
	if old != nil {
		o := old.DeepCopy()
		o.TypeMeta = obj.TypeMeta
		oraw, _ := json.Marshal(o)
		req.Operation = admissionv1.Update
		req.OldObject = runtime.RawExtension{Raw: oraw}
	}
	var resp admission.Response
	var pmsg string
	func() {
		defer func() {
			if p := recover(); p != nil {
				pmsg = fmt.Sprintf("validating webhook panicked: %v\n%s", p, stack())
			}
		}()
		resp = hdl.Handle(context.TODO(), req)
	}()
	if pmsg != "" {
		w.Panics = append(w.Panics, pmsg)
		w.Violate("C09", "validating-webhook-panic", "%s", pmsg)
		return fmt.Errorf("validating webhook panicked")
	}
	if !resp.Allowed {
		msg := ""
		if resp.Result != nil {
			msg = resp.Result.Message
		}
		return fmt.Errorf("denied: %s", msg)
	}
	return nil
}

var _ client.Object = &v1beta1.Rollout{}

// Owns says whether the written object belongs to this scenario's rollout (the Rollout itself,
// its BatchRelease, workload, ReplicaSets, pods, Services, Ingresses, HTTPRoute, canary
// Deployment), resolved by exact names and owner references, never by name prefix.
func (s Scenario) Owns(w *World, wr *Write) bool {
	obj := wr.After
	if obj == nil {
		obj = wr.Before
	}
	if obj == nil || obj.GetNamespace() != s.Namespace {
		return false
	}
	return s.ownsObject(w, wr.GVK, obj, 0)
}

func (s Scenario) ownsObject(w *World, gvk schema.GroupVersionKind, obj client.Object, depth int) bool {
	name := obj.GetName()
	switch gvk {
	case GVKRollout, GVKBatchRelease:
		return name == s.Name
	case GVKCloneSet:
		return s.Workload == "cloneset" && name == s.Name
	case GVKDeployment:
		if s.Workload == "deployment" && name == s.Name {
			return true
		}
		return s.Workload == "deployment" && obj.GetLabels()[util.CanaryDeploymentLabel] == s.Name
	case GVKService:
		return name == s.StableServiceName() || name == s.CanaryServiceName()
	case GVKIngress:
		return name == s.IngressName() || name == s.IngressName()+"-canary"
	case GVKHTTPRoute:
		return name == s.RouteName()
	case GVKReplicaSet, GVKPod:
		if depth > 3 {
			return false
		}
		ref := metav1.GetControllerOf(obj)
		if ref == nil {
			return false
		}
		var ogvk schema.GroupVersionKind
		switch ref.Kind {
		case "ReplicaSet":
			ogvk = GVKReplicaSet
		case "Deployment":
			ogvk = GVKDeployment
		case "CloneSet":
			ogvk = GVKCloneSet
		default:
			return false
		}
		owner := w.cache[ogvk][client.ObjectKey{Namespace: obj.GetNamespace(), Name: ref.Name}]
		if owner == nil {
			// owner already gone: fall back to the app label, which is the workload name
			return obj.GetLabels()["app"] == s.Name
		}
		return s.ownsObject(w, ogvk, owner, depth+1)
	}
	return false
}
