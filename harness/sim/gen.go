package sim

import (
	"fmt"
	"os"
	"strings"

	"pgregory.net/rapid"
)

// Bias steers the shared scenario / history generators towards the region a property speaks
// about (DESIGN.md 2.2 "Per-property bias").
type Bias struct {
	ForceProvider    bool     // always a traffic provider and >= 1 traffic step
	Kinds            []string // allowed "workload/style" pairs; empty = all built
	UserWeights      map[string]int
	Restarts         bool // allow controller restarts between reconciles
	Adversarial      bool // environment may flip pods unready
	MaxActions       int
	HostileJump      bool // jump targets include out-of-range values
	NoInitialRelease bool
	LargeReplicas    bool
	SettlePct        int // share (percent) of "settle" actions: run controllers + environment until they wait
	// CancelBursts: share (percent) of bursts [settle, approve, k reconciles, rollback|release]: a
	// template change placed right behind a step transition
	CancelBursts int
	// JumpBursts: share (percent) of bursts [settle, jump]: a jump requested while the rollout waits
	// at a step (its own upgrade done)
	JumpBursts int
	Faults     bool // inject API errors / crashes (one armed at a time, "the N-th call from now")
}

// FindingGatewayDisableCanarySvc: Gateway API provider with disableGenerateCanaryService: true.
const FindingGatewayDisableCanarySvc = "c05-gateway-disable-canary-service-deletes-user-rules"

// GenExcluded counts generator-level exclusions (per process; drained by the check).
var GenExcluded = map[string]int{}

var AllKinds = []string{"cloneset/partition", "deployment/canary", "deployment/bluegreen"}

func intp(i int) *int { return &i }

// GenScenario draws a scenario. Every generated Rollout is built to pass the validating
// webhook (non-decreasing steps, partition-style traffic steps <= 50%, ...); Build still runs
// the real webhook and a rejected scenario is reported to the caller.
func GenScenario(t *rapid.T, b Bias) Scenario {
	kinds := b.Kinds
	if len(kinds) == 0 {
		kinds = AllKinds
	}
	if v := os.Getenv("VERIF_E1_KINDS"); v != "" { // development aid
		kinds = strings.Split(v, ",")
	}
	kind := rapid.SampledFrom(kinds).Draw(t, "kind")
	s := Scenario{Namespace: "ns1", Name: "demo"}
	for i, c := range kind {
		if c == '/' {
			s.Workload, s.Style = kind[:i], kind[i+1:]
		}
	}
	if b.LargeReplicas && rapid.IntRange(0, 9).Draw(t, "large") == 0 {
		s.Replicas = rapid.IntRange(100, 130).Draw(t, "replicas-large")
	} else if rapid.IntRange(0, 3).Draw(t, "tiny") == 0 {
		// tiny workloads: a step easily covers the whole workload (percent rounding, int steps)
		s.Replicas = rapid.IntRange(1, 3).Draw(t, "replicas-tiny")
	} else {
		s.Replicas = rapid.IntRange(1, 10).Draw(t, "replicas")
	}
	provs := []string{"", "ingress-nginx", "gateway"}
	if b.ForceProvider {
		provs = provs[1:]
	}
	s.Provider = rapid.SampledFrom(provs).Draw(t, "provider")
	s.UseRolloutID = rapid.Bool().Draw(t, "rollout-id")
	if s.Style == "bluegreen" {
		s.WithHPA = rapid.Bool().Draw(t, "with-hpa")
	}
	if s.Provider != "" {
		s.DisableCanarySvc = rapid.IntRange(0, 5).Draw(t, "disable-canary-svc") == 0
		if s.DisableCanarySvc && s.Provider == "gateway" && KnownOpen[FindingGatewayDisableCanarySvc] {
			// known finding: with canary Service name == stable Service name the Gateway provider's
			// Finalise strips the "canary" backend, i.e. the stable one, and drops the user's rules
			s.DisableCanarySvc = false
			GenExcluded[FindingGatewayDisableCanarySvc]++
		}
	}
	switch rapid.IntRange(0, 5).Draw(t, "failure-threshold") {
	case 0:
		s.FailureThreshold = "1"
	case 1:
		s.FailureThreshold = "20%"
	}
	n := rapid.IntRange(1, 4).Draw(t, "steps")
	percent := rapid.Bool().Draw(t, "percent-plan")
	prev := 0
	trafficSteps := 0
	for i := 0; i < n; i++ {
		var st StepSpec
		last := i == n-1
		if percent {
			lo := prev
			if lo < 1 {
				lo = 1
			}
			v := rapid.IntRange(lo, 100).Draw(t, "step-pct")
			if last && rapid.IntRange(0, 2).Draw(t, "last-100") > 0 {
				v = 100
			} else if rapid.IntRange(0, 7).Draw(t, "early-100") == 0 {
				v = 100 // a full-size step before the last one
			}
			prev = v
			st.Replicas = fmt.Sprintf("%d%%", v)
		} else {
			lo := prev
			if lo < 1 {
				lo = 1
			}
			hi := s.Replicas + 1
			if hi < lo {
				hi = lo
			}
			v := rapid.IntRange(lo, hi).Draw(t, "step-int")
			prev = v
			st.Replicas = fmt.Sprintf("%d", v)
		}
		if rapid.IntRange(0, 2).Draw(t, "pause-kind") == 0 {
			st.Pause = intp(0)
		}
		if s.Provider != "" {
			// partition style: a step with traffic must not exceed 50% replicas (validating webhook)
			allowed := true
			if s.Style == "partition" && percent && prev > 50 {
				allowed = false
			}
			want := rapid.IntRange(0, 3).Draw(t, "traffic-kind")
			if b.ForceProvider && trafficSteps == 0 && i == 0 && want == 0 {
				want = 1
			}
			if allowed {
				switch want {
				case 1:
					st.Traffic = intp(rapid.IntRange(1, 100).Draw(t, "traffic"))
					trafficSteps++
				case 2:
					st.Match = "header"
					trafficSteps++
				case 3:
					st.Match = "header2"
					trafficSteps++
				}
			}
		}
		s.Steps = append(s.Steps, st)
	}
	return s
}

var defaultUserWeights = map[string]int{
	UserApprove: 10, UserRelease: 2, UserRollback: 2, UserPause: 1, UserResume: 2, UserScale: 1,
	UserJump: 1, UserDisable: 1, UserEnable: 1, UserDelete: 1, UserEditStep: 1,
}

var userKinds = []string{UserApprove, UserRelease, UserRollback, UserPause, UserResume, UserScale, UserJump, UserDisable, UserEnable, UserDelete, UserEditStep}

// GenHistory draws the generated prefix of a history (the fair completion follows it).
func GenHistory(t *rapid.T, s Scenario, b Bias) []Action {
	max := b.MaxActions
	if max == 0 {
		max = 120
	}
	weights := b.UserWeights
	if weights == nil {
		weights = defaultUserWeights
	}
	var pool []string
	for _, k := range userKinds {
		for i := 0; i < weights[k]; i++ {
			pool = append(pool, k)
		}
	}
	var out []Action
	if !b.NoInitialRelease {
		out = append(out, Action{Kind: "user", Arg: UserRelease, N: 0})
	}
	n := rapid.IntRange(0, max).Draw(t, "history-len")
	for i := 0; i < n; i++ {
		r := rapid.IntRange(0, 99).Draw(t, "action-class")
		switch {
		case r < 50:
			out = append(out, Action{Kind: "reconcile", I: rapid.IntRange(0, 3).Draw(t, "q-index")})
		case r < 80:
			out = append(out, Action{Kind: "env", I: rapid.IntRange(0, 7).Draw(t, "env-index")})
		case r < 83 && b.Restarts:
			out = append(out, Action{Kind: "restart"})
		case r >= 100-b.SettlePct:
			out = append(out, Action{Kind: "settle"})
		case r >= 100-b.SettlePct-b.CancelBursts-b.JumpBursts && r < 100-b.SettlePct-b.CancelBursts:
			out = append(out, Action{Kind: "settle"}, Action{Kind: "user", Arg: UserJump, N: rapid.IntRange(1, len(s.Steps)).Draw(t, "jump-to")})
		case r >= 100-b.SettlePct-b.CancelBursts:
			out = append(out, Action{Kind: "settle"}, Action{Kind: "user", Arg: UserApprove})
			for k := rapid.IntRange(0, 4).Draw(t, "burst-reconciles"); k > 0; k-- {
				out = append(out, Action{Kind: "reconcile", I: rapid.IntRange(0, 3).Draw(t, "q-index")})
			}
			if rapid.Bool().Draw(t, "burst-rollback") {
				out = append(out, Action{Kind: "user", Arg: UserRollback})
			} else {
				out = append(out, Action{Kind: "user", Arg: UserRelease, N: rapid.IntRange(0, 2).Draw(t, "version")})
			}
			// ... followed by controller work only: the environment (workload controllers, garbage
			// collector) lags behind
			for k := rapid.IntRange(0, 14).Draw(t, "burst-after"); k > 0; k-- {
				out = append(out, Action{Kind: "reconcile", I: rapid.IntRange(0, 3).Draw(t, "q-index")})
			}
		case r >= 96-b.SettlePct-b.CancelBursts-b.JumpBursts && b.Faults:
			out = append(out, genFault(t))
		default:
			if len(pool) == 0 {
				continue
			}
			k := rapid.SampledFrom(pool).Draw(t, "user-kind")
			a := Action{Kind: "user", Arg: k}
			switch k {
			case UserRelease:
				a.N = rapid.IntRange(0, 2).Draw(t, "version")
			case UserScale:
				a.N = rapid.IntRange(0, 11).Draw(t, "scale-to")
			case UserJump:
				if b.HostileJump {
					a.N = rapid.SampledFrom([]int{-2147483648, -1, 0, 1, 2, 3, 4, 5, 6, 100, 2147483647}).Draw(t, "jump-to")
				} else {
					a.N = rapid.IntRange(1, len(s.Steps)).Draw(t, "jump-to")
				}
			case UserEditStep:
				a.N = rapid.IntRange(0, 200).Draw(t, "edit")
			}
			out = append(out, a)
			if b.Faults && (k == UserDelete || k == UserDisable || k == UserRollback) && rapid.IntRange(0, 2).Draw(t, "fault-after-exit") > 0 {
				out = append(out, genFault(t))
			}
		}
	}
	return out
}

var faultKinds = []string{"error-before-call", "error-after-write", "crash-after-write", "conflict-before-write"}

var faultTargets = []string{"Deployment/update", "Deployment/patch", "Deployment/delete", "CloneSet/patch", "CloneSet/update", "Service/patch", "Service/delete", "Service/create",
	"Ingress/update", "Ingress/delete", "Ingress/create", "HTTPRoute/update", "BatchRelease/delete", "BatchRelease/patch", "BatchRelease/update", "BatchRelease/status", "Rollout/status", "Rollout/update", "Rollout/patch",
	"Pod/patch", "Pod/list", "Deployment/list", "ReplicaSet/list", "PodList/list", "DeploymentList/list", "ReplicaSetList/list", "Deployment/get", "CloneSet/get", "BatchRelease/get", "Service/get"}

func genFault(t *rapid.T) Action {
	if ft := os.Getenv("VERIF_FAULT_TARGET"); ft != "" { // development aid
		return Action{Kind: "fault", Arg: "error-on-target:" + ft, N: rapid.IntRange(1, 2).Draw(t, "fault-nth")}
	}
	if rapid.Bool().Draw(t, "fault-targeted") {
		return Action{Kind: "fault", Arg: "error-on-target:" + rapid.SampledFrom(faultTargets).Draw(t, "fault-target"), N: rapid.IntRange(1, 3).Draw(t, "fault-nth")}
	}
	return Action{Kind: "fault", Arg: rapid.SampledFrom(faultKinds).Draw(t, "fault-kind"), N: rapid.IntRange(1, 30).Draw(t, "fault-at")}
}

// StepCoversAll: the step's planned replicas reach the whole workload of size n.
func StepCoversAll(st StepSpec, n int) bool {
	v := parseIntOrPercent(st.Replicas)
	return planned(v, n) >= n
}
