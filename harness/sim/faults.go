package sim

import (
	"errors"
	"fmt"

	apierrors "k8s.io/apimachinery/pkg/api/errors"
	"k8s.io/apimachinery/pkg/runtime/schema"
)

// FaultSpec is one injected fault (JSON-serialisable, part of a replay case).
type FaultSpec struct {
	Kind string `json:"kind"` // crash-after-write | error-before-call | error-after-write | conflict-before-write
	At   int    `json:"at"`   // 1-based index among controller writes (write kinds) or controller calls (error-before-call)
	// Target ("<Kind>/<verb>", e.g. "Deployment/update") restricts the count to matching calls
	// (kind error-on-target: the At-th matching controller call fails before it is executed)
	Target string `json:"target,omitempty"`
}

func (f FaultSpec) String() string {
	if f.Target != "" {
		return fmt.Sprintf("%s(%s)@%d", f.Kind, f.Target, f.At)
	}
	return fmt.Sprintf("%s@%d", f.Kind, f.At)
}

// SingleFaults injects each listed fault once.
type SingleFaults struct {
	Specs  []FaultSpec
	writes int
	calls  int
	target map[int]int
	fired  map[int]bool
	Fired  int
}

func NewFaults(specs ...FaultSpec) *SingleFaults {
	return &SingleFaults{Specs: specs, fired: map[int]bool{}}
}

func (s *SingleFaults) Before(op OpInfo) error {
	s.calls++
	if op.IsWrite {
		s.writes++
	}
	for i, f := range s.Specs {
		if s.fired[i] {
			continue
		}
		switch f.Kind {
		case "error-on-target":
			if f.Target == op.GVK.Kind+"/"+op.Verb {
				if s.target == nil {
					s.target = map[int]int{}
				}
				s.target[i]++
				if s.target[i] == f.At {
					s.fired[i] = true
					s.Fired++
					return apierrors.NewServiceUnavailable("verif: injected API error")
				}
			}
		case "error-before-call":
			if s.calls == f.At {
				s.fired[i] = true
				s.Fired++
				return apierrors.NewServiceUnavailable("verif: injected API error")
			}
		case "conflict-before-write":
			if op.IsWrite && s.writes == f.At {
				s.fired[i] = true
				s.Fired++
				return apierrors.NewConflict(schema.GroupResource{Group: op.GVK.Group, Resource: op.GVK.Kind}, op.Key.Name, errors.New("verif: injected conflict"))
			}
		}
	}
	return nil
}

func (s *SingleFaults) After(op OpInfo) error {
	if !op.IsWrite {
		return nil
	}
	for i, f := range s.Specs {
		if s.fired[i] || s.writes != f.At {
			continue
		}
		switch f.Kind {
		case "crash-after-write":
			s.fired[i] = true
			s.Fired++
			return ErrCrash
		case "error-after-write":
			s.fired[i] = true
			s.Fired++
			return apierrors.NewTimeoutError("verif: injected lost response", 1)
		}
	}
	return nil
}

// Counting is a fault plan that injects nothing and counts controller calls / writes.
type Counting struct{ Calls, Writes int }

func (c *Counting) Before(op OpInfo) error {
	c.Calls++
	if op.IsWrite {
		c.Writes++
	}
	return nil
}
func (c *Counting) After(OpInfo) error { return nil }
