package sim

import (
	"encoding/json"
	"fmt"
	"strings"

	kruisev1alpha1 "github.com/openkruise/kruise-api/apps/v1alpha1"
	"github.com/openkruise/rollouts/api/v1beta1"
	appsv1 "k8s.io/api/apps/v1"
	corev1 "k8s.io/api/core/v1"
	networkingv1 "k8s.io/api/networking/v1"
	gatewayv1beta1 "sigs.k8s.io/gateway-api/apis/v1beta1"
)

// Brief renders the interesting part of a write for debugging output.
func Brief(wr *Write) string {
	switch o := wr.After.(type) {
	case *v1beta1.Rollout:
		sub := o.Status.GetSubStatus()
		s := fmt.Sprintf("phase=%s paused=%v disabled=%v del=%v", o.Status.Phase, o.Spec.Strategy.Paused, o.Spec.Disabled, o.DeletionTimestamp != nil)
		for _, c := range o.Status.Conditions {
			s += fmt.Sprintf(" %s=%s/%s", c.Type, c.Status, c.Reason)
		}
		if sub != nil {
			s += fmt.Sprintf(" step=%d next=%d state=%s fin=%s canaryRev=%s pth=%s stable=%s", sub.CurrentStepIndex, sub.NextStepIndex, sub.CurrentStepState, sub.FinalisingStep, o.Status.GetCanaryRevision(), sub.PodTemplateHash, sub.StableRevision)
		}
		return s
	case *v1beta1.BatchRelease:
		bp := "nil"
		if o.Spec.ReleasePlan.BatchPartition != nil {
			bp = fmt.Sprint(*o.Spec.ReleasePlan.BatchPartition)
		}
		return fmt.Sprintf("partition=%s rid=%s phase=%s batch=%d state=%s upd=%d/%d gen=%d/%d del=%v fin=%v", bp, o.Spec.ReleasePlan.RolloutID, o.Status.Phase, o.Status.CanaryStatus.CurrentBatch,
			o.Status.CanaryStatus.CurrentBatchState, o.Status.CanaryStatus.UpdatedReadyReplicas, o.Status.CanaryStatus.UpdatedReplicas, o.Status.ObservedGeneration, o.Generation, o.DeletionTimestamp != nil, o.Finalizers)
	case *kruisev1alpha1.CloneSet:
		p := "nil"
		if o.Spec.UpdateStrategy.Partition != nil {
			p = o.Spec.UpdateStrategy.Partition.String()
		}
		return fmt.Sprintf("replicas=%d partition=%s paused=%v img=%s ann=%v status{r=%d u=%d ur=%d cur=%s upd=%s og=%d/%d}", *o.Spec.Replicas, p, o.Spec.UpdateStrategy.Paused, o.Spec.Template.Spec.Containers[0].Image, keys(o.Annotations),
			o.Status.Replicas, o.Status.UpdatedReplicas, o.Status.UpdatedReadyReplicas, o.Status.CurrentRevision, o.Status.UpdateRevision, o.Status.ObservedGeneration, o.Generation)
	case *appsv1.Deployment:
		return fmt.Sprintf("replicas=%d paused=%v img=%s ann=%v labels=%v fin=%v del=%v status{r=%d u=%d ready=%d avail=%d og=%d/%d}", *o.Spec.Replicas, o.Spec.Paused, o.Spec.Template.Spec.Containers[0].Image, keys(o.Annotations), o.Labels, o.Finalizers, o.DeletionTimestamp != nil,
			o.Status.Replicas, o.Status.UpdatedReplicas, o.Status.ReadyReplicas, o.Status.AvailableReplicas, o.Status.ObservedGeneration, o.Generation)
	case *appsv1.ReplicaSet:
		return fmt.Sprintf("replicas=%d status{r=%d ready=%d}", *o.Spec.Replicas, o.Status.Replicas, o.Status.ReadyReplicas)
	case *corev1.Service:
		return fmt.Sprintf("selector=%v", o.Spec.Selector)
	case *corev1.Pod:
		return fmt.Sprintf("labels=%v ready=%v", o.Labels, isPodReady(o))
	}
	if wr.After == nil {
		return "(gone)"
	}
	if briefExtra != nil {
		return briefExtra(wr)
	}
	return ""
}

var briefExtra func(wr *Write) string

func keys(m map[string]string) []string { return sortedKeys(m) }

// DumpState renders the main objects of a run.
func DumpState(r *Run) string {
	var sb strings.Builder
	w, s := r.W, r.S
	if ro := w.Rollout(s.Namespace, s.Name); ro != nil {
		sb.WriteString("Rollout: " + Brief(&Write{After: ro}) + "\n  msg=" + ro.Status.Message + "\n")
		sp, _ := json.Marshal(ro.Spec)
		sb.WriteString("  spec=" + string(sp) + "\n")
	}
	if br := w.BatchRelease(s.Namespace, s.Name); br != nil {
		sb.WriteString("BatchRelease: " + Brief(&Write{After: br}) + " msg=" + br.Status.Message + "\n")
	}
	for _, o := range w.ListAll(GVKCloneSet, "") {
		sb.WriteString("CloneSet " + o.GetName() + ": " + Brief(&Write{After: o}) + "\n")
	}
	for _, o := range w.ListAll(GVKDeployment, "") {
		sb.WriteString("Deployment " + o.GetName() + ": " + Brief(&Write{After: o}) + "\n")
	}
	for _, o := range w.ListAll(GVKReplicaSet, "") {
		sb.WriteString("ReplicaSet " + o.GetName() + ": " + Brief(&Write{After: o}) + "\n")
	}
	for _, o := range w.ListAll(GVKService, "") {
		sb.WriteString("Service " + o.GetName() + ": " + Brief(&Write{After: o}) + "\n")
	}
	pods := w.ListAll(GVKPod, "")
	sb.WriteString(fmt.Sprintf("%d pods\n", len(pods)))
	return sb.String()
}

func init() {
	briefExtra = func(wr *Write) string {
		if r, ok := wr.After.(*gatewayv1beta1.HTTPRoute); ok {
			b, _ := json.Marshal(r.Spec.Rules)
			return string(b)
		}
		if i, ok := wr.After.(*networkingv1.Ingress); ok {
			b, _ := json.Marshal(i.Annotations)
			return string(b)
		}
		return ""
	}
}
