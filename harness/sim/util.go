package sim

import (
	"encoding/json"
	"runtime/debug"

	"k8s.io/apimachinery/pkg/api/meta"
	metav1 "k8s.io/apimachinery/pkg/apis/meta/v1"
	"k8s.io/apimachinery/pkg/runtime/schema"
	"sigs.k8s.io/controller-runtime/pkg/client"
)

func stack() string { return string(debug.Stack()) }

func metaExtract(list client.ObjectList) ([]client.Object, error) {
	items, err := meta.ExtractList(list)
	if err != nil {
		return nil, err
	}
	out := make([]client.Object, 0, len(items))
	for _, it := range items {
		if co, ok := it.(client.Object); ok {
			out = append(out, co)
		}
	}
	return out, nil
}

func metaGVK(g schema.GroupVersionKind) metav1.GroupVersionKind {
	return metav1.GroupVersionKind{Group: g.Group, Version: g.Version, Kind: g.Kind}
}

func metaGVR(g schema.GroupVersionResource) metav1.GroupVersionResource {
	return metav1.GroupVersionResource{Group: g.Group, Version: g.Version, Resource: g.Resource}
}

func jsonMarshal(v any) ([]byte, error)   { return json.Marshal(v) }
func jsonUnmarshal(d []byte, v any) error { return json.Unmarshal(d, v) }
