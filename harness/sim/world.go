package sim

import (
	"context"
	"encoding/json"
	"flag"
	"fmt"
	"io"
	"reflect"
	"sort"
	"sync"
	"time"

	kruisev1alpha1 "github.com/openkruise/kruise-api/apps/v1alpha1"
	kruisev1beta1 "github.com/openkruise/kruise-api/apps/v1beta1"
	rolloutsv1alpha1 "github.com/openkruise/rollouts/api/v1alpha1"
	rolloutsv1beta1 "github.com/openkruise/rollouts/api/v1beta1"
	brctrl "github.com/openkruise/rollouts/pkg/controller/batchrelease"
	rolloutctrl "github.com/openkruise/rollouts/pkg/controller/rollout"
	trctrl "github.com/openkruise/rollouts/pkg/controller/trafficrouting"
	trmanager "github.com/openkruise/rollouts/pkg/trafficrouting"
	expectations "github.com/openkruise/rollouts/pkg/util/expectation"
	"github.com/openkruise/rollouts/pkg/util/grace"
	admissionv1 "k8s.io/api/admission/v1"
	appsv1 "k8s.io/api/apps/v1"
	corev1 "k8s.io/api/core/v1"
	"k8s.io/apimachinery/pkg/runtime"
	"k8s.io/apimachinery/pkg/runtime/schema"
	"k8s.io/apimachinery/pkg/types"
	"k8s.io/client-go/kubernetes/scheme"
	clienttesting "k8s.io/client-go/testing"
	"k8s.io/client-go/util/workqueue"
	"k8s.io/klog/v2"
	"k8s.io/utils/pointer"
	"sigs.k8s.io/controller-runtime/pkg/client"
	"sigs.k8s.io/controller-runtime/pkg/client/fake"
	"sigs.k8s.io/controller-runtime/pkg/event"
	"sigs.k8s.io/controller-runtime/pkg/handler"
	"sigs.k8s.io/controller-runtime/pkg/reconcile"
	"sigs.k8s.io/controller-runtime/pkg/webhook/admission"

	"github.com/openkruise/rollouts/pkg/webhook/workload/mutating"
)

const (
	ActorRollout        = "rollout-controller"
	ActorBatchRelease   = "batchrelease-controller"
	ActorTrafficRouting = "trafficrouting-controller"
	ActorAdvDeployment  = "advanced-deployment-controller"
	ActorEnv            = "env"
	ActorUser           = "user"
	ActorGC             = "gc"
	ActorHandler        = "event-handler"
	ActorWebhook        = "webhook"
	ActorHarness        = "harness"
)

func init() {
	fs := flag.NewFlagSet("klog", flag.ContinueOnError)
	klog.InitFlags(fs)
	_ = fs.Set("logtostderr", "false")
	_ = fs.Set("alsologtostderr", "false")
	_ = fs.Set("stderrthreshold", "10")
	klog.SetOutput(io.Discard)
	klog.LogToStderr(false)
}

type discardRecorder struct{}

func (discardRecorder) Event(runtime.Object, string, string, string)                  {}
func (discardRecorder) Eventf(runtime.Object, string, string, string, ...interface{}) {}
func (discardRecorder) AnnotatedEventf(runtime.Object, map[string]string, string, string, string, ...interface{}) {
}

// Violation is a failed oracle.
type Violation struct {
	Property string `json:"property"`
	Sig      string `json:"sig"`
	Msg      string `json:"msg"`
	AtWrite  int    `json:"at_write"`
	AtAction int    `json:"at_action"`
}

// Monitor observes every write (i.e. every prefix of the write sequence / crash point).
type Monitor interface {
	OnWrite(w *World, wr *Write)
}

// QItem is a pending work-queue item.
type QItem struct {
	Ctrl string
	Key  types.NamespacedName
}

func (q QItem) String() string { return q.Ctrl + ":" + q.Key.Namespace + "/" + q.Key.Name }

// World is one simulated cluster plus the controllers under test.
type World struct {
	fake    client.Client
	tracker clienttesting.ObjectTracker

	epoch   time.Time
	clock   int
	uidSeq  int
	nameSeq int
	seq     int // write sequence
	opIndex int
	crashed bool

	Faults    FaultPlan
	FaultLog  []string
	Admission func(before, after client.Object) (client.Object, error)

	Writes     []*Write
	KeepWrites bool
	Monitors   []Monitor
	Violations []Violation
	ActionNo   int

	// pending work per controller (ordered, de-duplicated)
	pending []QItem
	inQueue map[string]bool

	reconcilers            map[string]reconcile.Reconciler
	rolloutWorkloadHandler handler.EventHandler
	rolloutBRHandler       handler.EventHandler
	brPodHandler           handler.EventHandler
	brWorkloadHandler      handler.EventHandler

	CurrentItem  *QItem // the work item being reconciled (nil outside reconciles)
	Reconciles   int
	Panics       []string
	ReconcileLog []string

	// scratch for monitors and environment models
	Scratch map[string]any
	// inputs steered away from because they fall in a listed known finding's class
	Excluded map[string]int

	cache map[schema.GroupVersionKind]map[types.NamespacedName]client.Object

	// Concurrent switches on the API lock (several reconciles in flight, C19b)
	Concurrent bool
	mu         sync.Mutex
}

// Options configure a world.
type Options struct {
	GraceSeconds int32 // package default grace periods (0 = zero-grace time mode)
}

func NewWorld(opt Options) *World {
	w := &World{
		epoch:    time.Now().Add(-48 * time.Hour).Truncate(time.Second),
		inQueue:  map[string]bool{},
		Scratch:  map[string]any{},
		Excluded: map[string]int{},
		cache:    map[schema.GroupVersionKind]map[types.NamespacedName]client.Object{},
	}
	w.tracker = clienttesting.NewObjectTracker(Scheme, scheme.Codecs.UniversalDecoder())
	w.fake = fake.NewClientBuilder().WithScheme(Scheme).WithObjectTracker(w.tracker).Build()
	// process-global state of the code under test
	rolloutctrl.SetDefaultGracePeriodSecondsForVerif(opt.GraceSeconds)
	trctrl.SetDefaultGracePeriodSecondsForVerif(opt.GraceSeconds)
	trmanager.SetDefaultGracePeriodSecondsForVerif(opt.GraceSeconds)
	w.startControllers()
	w.Admission = w.admit
	return w
}

// startControllers (re)creates every reconciler and clears all in-memory state of the
// controller process (grace expectations, creation expectations), as a process start does.
func (w *World) startControllers() {
	grace.ResetExpectations()
	expectations.ResourceExpectations = expectations.NewResourceExpectations()
	rec := discardRecorder{}
	w.reconcilers = map[string]reconcile.Reconciler{
		ActorRollout:        rolloutctrl.NewReconcilerForVerif(w.Client(ActorRollout), Scheme, rec),
		ActorBatchRelease:   brctrl.NewReconcilerForVerif(w.Client(ActorBatchRelease), Scheme, rec),
		ActorTrafficRouting: trctrl.NewReconcilerForVerif(w.Client(ActorTrafficRouting), Scheme, rec),
	}
	hc := w.Client(ActorHandler)
	w.rolloutWorkloadHandler = rolloutctrl.NewWorkloadEventHandlerForVerif(hc, Scheme)
	w.rolloutBRHandler = rolloutctrl.NewBatchReleaseEventHandlerForVerif(hc)
	w.brPodHandler = brctrl.NewPodEventHandlerForVerif(hc)
	w.brWorkloadHandler = brctrl.NewWorkloadEventHandlerForVerif(hc)
	w.crashed = false
}

// Restart models a controller-process restart: all in-memory state is lost and the work
// queues are rebuilt from a full re-list (informer resync delivers a create event per object).
func (w *World) Restart() {
	w.startControllers()
	w.pending = nil
	w.inQueue = map[string]bool{}
	for _, gvk := range []schema.GroupVersionKind{GVKRollout, GVKBatchRelease, GVKTrafficRouting, GVKDeployment, GVKStatefulSet, GVKCloneSet, GVKDaemonSet, GVKAdvStatefulSet} {
		for _, o := range w.ListAll(gvk, "") {
			w.fanout(&Write{Verb: "create", GVK: gvk, Key: client.ObjectKeyFromObject(o), After: o})
		}
	}
}

func (w *World) Client(actor string) client.Client {
	return &simClient{w: w, actor: actor, raw: actor == ActorHandler || actor == ActorWebhook}
}

// lock serialises API calls in the concurrent mode (C19b); a no-op otherwise.
func (w *World) lock() func() {
	if !w.Concurrent {
		return func() {}
	}
	w.mu.Lock()
	return w.mu.Unlock
}

// TakeWork pops the first pending item (concurrent mode).
func (w *World) TakeWork() (QItem, bool) {
	defer w.lock()()
	if len(w.pending) == 0 {
		return QItem{}, false
	}
	return w.dequeue(0), true
}

// ReconcileConcurrently runs one reconcile without touching single-threaded bookkeeping.
func (w *World) ReconcileConcurrently(it QItem) (err error, panicked string) {
	r := w.reconcilers[it.Ctrl]
	if r == nil {
		return nil, ""
	}
	var out reconcile.Result
	func() {
		defer func() {
			if p := recover(); p != nil {
				panicked = fmt.Sprintf("%s Reconcile(%s) panicked: %v\n%s", it.Ctrl, it.Key, p, stack())
			}
		}()
		out, err = r.Reconcile(context.TODO(), reconcile.Request{NamespacedName: it.Key})
	}()
	if err != nil || out.Requeue || out.RequeueAfter != 0 {
		unlock := w.lock()
		w.enqueue(it.Ctrl, it.Key)
		unlock()
	}
	return
}

func (w *World) noteFault(op OpInfo, when string, err error) {
	w.FaultLog = append(w.FaultLog, fmt.Sprintf("op#%d %s %s %s %s/%s: %s %v", op.Index, op.Actor, op.Verb, op.GVK.Kind, op.Key.Namespace, op.Key.Name, when, err))
}

func (w *World) Violate(property, sig, format string, args ...any) {
	w.Violations = append(w.Violations, Violation{Property: property, Sig: sig, Msg: fmt.Sprintf(format, args...), AtWrite: w.seq, AtAction: w.ActionNo})
}

// FirstViolation returns the first violation of one of the given properties.
func (w *World) FirstViolation(props ...string) *Violation {
	for i := range w.Violations {
		for _, p := range props {
			if w.Violations[i].Property == p {
				return &w.Violations[i]
			}
		}
	}
	return nil
}

func (w *World) record(wr *Write) {
	if w.KeepWrites {
		w.Writes = append(w.Writes, wr)
	}
	for _, m := range w.Monitors {
		m.OnWrite(w, wr)
	}
	w.fanout(wr)
}

// ---------- typed access helpers ----------

// Get returns a copy of the stored object (nil if absent). Reads of the harness itself are
// served from a write-through cache of the store (the API server's truth, never stale).
func (w *World) Get(gvk schema.GroupVersionKind, ns, name string) client.Object {
	if o := w.cache[gvk][types.NamespacedName{Namespace: ns, Name: name}]; o != nil {
		return o.DeepCopyObject().(client.Object)
	}
	return nil
}

// ListAll returns the stored objects of a kind sorted by namespace/name. The returned objects
// are shared with the cache and MUST NOT be mutated.
func (w *World) ListAll(gvk schema.GroupVersionKind, ns string) []client.Object {
	m := w.cache[gvk]
	if len(m) == 0 {
		return nil
	}
	keys := make([]types.NamespacedName, 0, len(m))
	for k := range m {
		if ns == "" || k.Namespace == ns {
			keys = append(keys, k)
		}
	}
	sort.Slice(keys, func(i, j int) bool {
		if keys[i].Namespace != keys[j].Namespace {
			return keys[i].Namespace < keys[j].Namespace
		}
		return keys[i].Name < keys[j].Name
	})
	out := make([]client.Object, 0, len(keys))
	for _, k := range keys {
		out = append(out, m[k])
	}
	return out
}

func (w *World) cachePut(gvk schema.GroupVersionKind, key types.NamespacedName, obj client.Object) {
	if w.cache[gvk] == nil {
		w.cache[gvk] = map[types.NamespacedName]client.Object{}
	}
	if obj == nil {
		delete(w.cache[gvk], key)
		return
	}
	w.cache[gvk][key] = obj
}

func (w *World) Rollout(ns, name string) *rolloutsv1beta1.Rollout {
	if o := w.Get(GVKRollout, ns, name); o != nil {
		return o.(*rolloutsv1beta1.Rollout)
	}
	return nil
}

func (w *World) BatchRelease(ns, name string) *rolloutsv1beta1.BatchRelease {
	if o := w.Get(GVKBatchRelease, ns, name); o != nil {
		return o.(*rolloutsv1beta1.BatchRelease)
	}
	return nil
}

// ---------- queue ----------

func (w *World) enqueue(ctrl string, key types.NamespacedName) {
	it := QItem{Ctrl: ctrl, Key: key}
	if w.inQueue[it.String()] {
		return
	}
	w.inQueue[it.String()] = true
	w.pending = append(w.pending, it)
}

func (w *World) Pending() []QItem { return append([]QItem(nil), w.pending...) }

func (w *World) dequeue(i int) QItem {
	it := w.pending[i]
	w.pending = append(w.pending[:i:i], w.pending[i+1:]...)
	delete(w.inQueue, it.String())
	return it
}

// simQueue adapts the deterministic queue to workqueue.RateLimitingInterface for the real
// event handlers.
type simQueue struct {
	w    *World
	ctrl string
}

var _ workqueue.RateLimitingInterface = &simQueue{}

func (q *simQueue) add(item interface{}) {
	if r, ok := item.(reconcile.Request); ok {
		q.w.enqueue(q.ctrl, r.NamespacedName)
	}
}
func (q *simQueue) Add(item interface{})                       { q.add(item) }
func (q *simQueue) AddAfter(item interface{}, _ time.Duration) { q.add(item) }
func (q *simQueue) AddRateLimited(item interface{})            { q.add(item) }
func (q *simQueue) Forget(interface{})                         {}
func (q *simQueue) NumRequeues(interface{}) int                { return 0 }
func (q *simQueue) Len() int                                   { return len(q.w.pending) }
func (q *simQueue) Get() (interface{}, bool)                   { return nil, true }
func (q *simQueue) Done(interface{})                           {}
func (q *simQueue) ShutDown()                                  {}
func (q *simQueue) ShutDownWithDrain()                         {}
func (q *simQueue) ShuttingDown() bool                         { return false }

// fanout delivers the watch event of a write to every controller's real event handlers
// (or, for EnqueueRequestForObject-style watches, enqueues the object itself).
func (w *World) fanout(wr *Write) {
	obj := wr.After
	if obj == nil {
		obj = wr.Before
	}
	if obj == nil {
		return
	}
	deliver := func(h handler.EventHandler, ctrl string) {
		q := &simQueue{w: w, ctrl: ctrl}
		// handlers may read through the client; a panic there is a controller-process panic
		defer func() {
			if r := recover(); r != nil {
				w.Panics = append(w.Panics, fmt.Sprintf("event handler of %s panicked on %s: %v", ctrl, wr, r))
				w.Violate("C09", "event-handler-panic", "event handler of %s panicked on %s: %v", ctrl, wr, r)
			}
		}()
		switch {
		case wr.Before == nil:
			h.Create(event.CreateEvent{Object: obj}, q)
		case wr.After == nil:
			h.Delete(event.DeleteEvent{Object: obj}, q)
		default:
			h.Update(event.UpdateEvent{ObjectOld: wr.Before, ObjectNew: wr.After}, q)
		}
	}
	switch wr.GVK {
	case GVKRollout:
		w.enqueue(ActorRollout, wr.Key)
	case GVKTrafficRouting:
		w.enqueue(ActorTrafficRouting, wr.Key)
	case GVKBatchRelease:
		deliver(w.rolloutBRHandler, ActorRollout)
		// BatchRelease controller watch predicate (re-implemented from
		// batchrelease_controller.go add(): update only on generation / deletion / annotation change)
		pass := true
		if wr.Before != nil && wr.After != nil {
			o, n := wr.Before.(*rolloutsv1beta1.BatchRelease), wr.After.(*rolloutsv1beta1.BatchRelease)
			pass = o.Generation != n.Generation || n.DeletionTimestamp != nil ||
				len(o.Annotations) != len(n.Annotations) || !reflect.DeepEqual(o.Annotations, n.Annotations)
		}
		if pass {
			w.enqueue(ActorBatchRelease, wr.Key)
		}
	case GVKPod:
		deliver(w.brPodHandler, ActorBatchRelease)
	case GVKDeployment, GVKStatefulSet, GVKCloneSet, GVKDaemonSet, GVKAdvStatefulSet:
		deliver(w.rolloutWorkloadHandler, ActorRollout)
		deliver(w.brWorkloadHandler, ActorBatchRelease)
	}
}

// ---------- reconcile ----------

// ReconcileResult summarises one reconcile for the scheduler.
type ReconcileResult struct {
	Item     QItem
	Err      error
	Requeue  bool
	Panicked bool
}

// Reconcile runs the real Reconcile of the controller for pending item i.
func (w *World) Reconcile(i int) ReconcileResult {
	it := w.dequeue(i)
	return w.reconcileItem(it)
}

func (w *World) reconcileItem(it QItem) ReconcileResult {
	r := w.reconcilers[it.Ctrl]
	res := ReconcileResult{Item: it}
	if r == nil {
		return res
	}
	if w.supersededBatchReleaseWouldResume(it) {
		// excluded schedule of a listed finding: the item is dropped; whatever ends the condition
		// (the Rollout deleting the BatchRelease, another template change) queues it again
		w.Excluded[FindingSupersededResumed]++
		return res
	}
	w.Reconciles++
	for _, t := range w.Tracks() {
		t.ReconcileStart = w.seq
	}
	w.CurrentItem = &it
	defer func() { w.CurrentItem = nil }()
	var out reconcile.Result
	func() {
		defer func() {
			if p := recover(); p != nil {
				res.Panicked = true
				msg := fmt.Sprintf("%s Reconcile(%s) panicked: %v\n%s", it.Ctrl, it.Key, p, stack())
				w.Panics = append(w.Panics, msg)
				w.Violate("C09", "reconcile-panic", "%s", msg)
			}
		}()
		out, res.Err = r.Reconcile(context.TODO(), reconcile.Request{NamespacedName: it.Key})
	}()
	if len(w.ReconcileLog) < 20000 {
		w.ReconcileLog = append(w.ReconcileLog, fmt.Sprintf("#%d %s err=%v result=%+v", w.Reconciles, it, res.Err, out))
	}
	if w.crashed {
		// the process died inside this reconcile: restart everything
		w.Restart()
		return res
	}
	// controller-runtime semantics: error => rate-limited requeue; RequeueAfter > 0 => timer;
	// Requeue => rate-limited requeue. In the zero-grace time mode the code computes
	// time.Until(now+0s), i.e. a tiny negative duration where a real run has +3s, so any
	// non-zero RequeueAfter counts as a requested requeue.
	if res.Err != nil || res.Panicked || out.Requeue || out.RequeueAfter != 0 {
		res.Requeue = true
		w.enqueue(it.Ctrl, it.Key)
	}
	return res
}

// ---------- admission ----------

var admissionDecoder, _ = admission.NewDecoder(Scheme)

// admit runs the real mutating workload webhook on an UPDATE and returns the mutated object
// (nil when the webhook does not patch).
func (w *World) admit(before, after client.Object) (client.Object, error) {
	gvk := gvkOf(after)
	oldRaw, _ := json.Marshal(before)
	newRaw, _ := json.Marshal(after)
	gvr := schema.GroupVersionResource{Group: gvk.Group, Version: gvk.Version, Resource: resourceOf(gvk)}
	req := admission.Request{AdmissionRequest: admissionv1.AdmissionRequest{
		UID:       types.UID(fmt.Sprintf("adm-%d", w.seq)),
		Kind:      metaGVK(gvk),
		Resource:  metaGVR(gvr),
		Name:      after.GetName(),
		Namespace: after.GetNamespace(),
		Operation: admissionv1.Update,
		Object:    runtime.RawExtension{Raw: newRaw},
		OldObject: runtime.RawExtension{Raw: oldRaw},
		DryRun:    pointer.Bool(false),
	}}
	cli := w.Client(ActorWebhook)
	var resp admission.Response
	var panicMsg string
	func() {
		defer func() {
			if p := recover(); p != nil {
				panicMsg = fmt.Sprintf("mutating workload webhook panicked: %v\n%s", p, stack())
			}
		}()
		switch gvk {
		case GVKDeployment, GVKCloneSet, GVKDaemonSet:
			h := &mutating.WorkloadHandler{Decoder: admissionDecoder}
			_ = h.InjectClient(cli)
			resp = h.Handle(context.TODO(), req)
		default:
			h := &mutating.UnifiedWorkloadHandler{Decoder: admissionDecoder}
			_ = h.InjectClient(cli)
			resp = h.Handle(context.TODO(), req)
		}
	}()
	if panicMsg != "" {
		w.Panics = append(w.Panics, panicMsg)
		w.Violate("C09", "webhook-panic", "%s", panicMsg)
		return nil, fmt.Errorf("webhook panicked")
	}
	if !resp.Allowed {
		msg := ""
		if resp.Result != nil {
			msg = resp.Result.Message
		}
		return nil, fmt.Errorf("admission webhook denied the request: %s", msg)
	}
	if len(resp.Patches) == 0 {
		return nil, nil
	}
	ops, _ := json.Marshal(resp.Patches)
	return applyJSONPatchOps(after, ops)
}

func resourceOf(gvk schema.GroupVersionKind) string {
	switch gvk.Kind {
	case "Deployment":
		return "deployments"
	case "StatefulSet":
		return "statefulsets"
	case "CloneSet":
		return "clonesets"
	case "DaemonSet":
		return "daemonsets"
	case "Ingress":
		return "ingresses"
	}
	return ""
}

// ---------- misc ----------

func sortedKeys[V any](m map[string]V) []string {
	ks := make([]string, 0, len(m))
	for k := range m {
		ks = append(ks, k)
	}
	sort.Strings(ks)
	return ks
}

var (
	_ = appsv1.Deployment{}
	_ = corev1.Pod{}
	_ = kruisev1alpha1.CloneSet{}
	_ = kruisev1beta1.StatefulSet{}
	_ = rolloutsv1alpha1.TrafficRouting{}
)
