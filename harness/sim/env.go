package sim

import (
	"context"
	"encoding/json"
	"fmt"
	"hash/fnv"
	"sort"
	"strconv"
	"strings"

	"github.com/davecgh/go-spew/spew"
	kruisev1alpha1 "github.com/openkruise/kruise-api/apps/v1alpha1"
	appsv1 "k8s.io/api/apps/v1"
	corev1 "k8s.io/api/core/v1"
	metav1 "k8s.io/apimachinery/pkg/apis/meta/v1"
	"k8s.io/apimachinery/pkg/labels"
	"k8s.io/apimachinery/pkg/runtime/schema"
	"k8s.io/apimachinery/pkg/types"
	"k8s.io/apimachinery/pkg/util/intstr"
	"k8s.io/apimachinery/pkg/util/rand"
	"k8s.io/utils/pointer"
	"sigs.k8s.io/controller-runtime/pkg/client"
)

// The workload environment: every action below is one step a real workload controller
// (Kruise CloneSet controller, native Deployment / ReplicaSet controllers, kubelet readiness,
// garbage collector) could take given the current knobs. EnvActions lists what is possible
// now; the "healthy" policy takes them in list order (progress first) until none is left.

type EnvAction struct {
	Kind string `json:"kind"`
	Ns   string `json:"ns,omitempty"`
	Name string `json:"name,omitempty"`
	Arg  string `json:"arg,omitempty"`
}

func (a EnvAction) String() string { return a.Kind + ":" + a.Ns + "/" + a.Name + ":" + a.Arg }

const (
	EnvPublishStatus = "publish-status" // workload / ReplicaSet controller writes status
	EnvCSUpdatePod   = "cloneset-update-pod"
	EnvCSScaleUp     = "cloneset-create-pod"
	EnvCSScaleDown   = "cloneset-delete-pod"
	EnvDeployNewRS   = "deployment-create-rs"
	EnvDeployScaleRS = "deployment-scale-rs"
	EnvRSCreatePod   = "replicaset-create-pod"
	EnvRSDeletePod   = "replicaset-delete-pod"
	EnvPodReady      = "pod-ready"
	EnvPodUnready    = "pod-unready" // adversarial only
	EnvGC            = "gc-delete"
)

// k8sTemplateHash is the upstream Kubernetes pod-template hash (controller.ComputeHash with
// hash.DeepHashObject), re-implemented here so that the environment does not depend on the
// repository's copy.
func k8sTemplateHash(t *corev1.PodTemplateSpec) string {
	h := fnv.New32a()
	printer := spew.ConfigState{Indent: " ", SortKeys: true, DisableMethods: true, SpewKeys: true}
	printer.Fprintf(h, "%#v", *t)
	return rand.SafeEncodeString(fmt.Sprint(h.Sum32()))
}

// revisionHash gives CloneSet-style revisions an arbitrary but content-determined name.
func revisionHash(t *corev1.PodTemplateSpec) string {
	c := t.DeepCopy()
	delete(c.Labels, appsv1.DefaultDeploymentUniqueLabelKey)
	data, _ := json.Marshal(c)
	h := fnv.New32a()
	h.Write(data)
	return fmt.Sprintf("%08x", h.Sum32())
}

func isPodReady(p *corev1.Pod) bool {
	for _, c := range p.Status.Conditions {
		if c.Type == corev1.PodReady {
			return c.Status == corev1.ConditionTrue
		}
	}
	return false
}

func (w *World) podsOwnedBy(ns string, uid types.UID) []*corev1.Pod {
	var out []*corev1.Pod
	for _, o := range w.ListAll(GVKPod, ns) {
		p := o.(*corev1.Pod)
		if ref := metav1.GetControllerOf(p); ref != nil && ref.UID == uid {
			out = append(out, p)
		}
	}
	return out
}

func livePods(ps []*corev1.Pod) []*corev1.Pod {
	var out []*corev1.Pod
	for _, p := range ps {
		if p.DeletionTimestamp == nil {
			out = append(out, p)
		}
	}
	return out
}

func scaledRoundUp(v *intstr.IntOrString, total int, def int) int {
	if v == nil {
		return def
	}
	n, err := intstr.GetScaledValueFromIntOrPercent(v, total, true)
	if err != nil {
		return def
	}
	return n
}

func (w *World) envClient() client.Client { return w.Client(ActorEnv) }

func (w *World) newPod(ns, prefix string, lbls map[string]string, owner metav1.OwnerReference, ready bool) *corev1.Pod {
	w.nameSeq++
	p := &corev1.Pod{
		ObjectMeta: metav1.ObjectMeta{Namespace: ns, Name: fmt.Sprintf("%s-%05d", prefix, w.nameSeq), Labels: map[string]string{}, OwnerReferences: []metav1.OwnerReference{owner}},
		Spec:       corev1.PodSpec{Containers: []corev1.Container{{Name: "main", Image: "img"}}},
		Status:     corev1.PodStatus{Phase: corev1.PodRunning},
	}
	for k, v := range lbls {
		p.Labels[k] = v
	}
	st := corev1.ConditionFalse
	if ready {
		st = corev1.ConditionTrue
	}
	p.Status.Conditions = []corev1.PodCondition{{Type: corev1.PodReady, Status: st}}
	return p
}

// ---------- CloneSet ----------

type csView struct {
	cs       *kruisev1alpha1.CloneSet
	pods     []*corev1.Pod // live pods
	updRev   string        // "<name>-<hash>" for the current template
	updated  []*corev1.Pod
	old      []*corev1.Pod
	replicas int
	allowed  int // max updated pods the partition permits
}

func (w *World) viewCloneSet(cs *kruisev1alpha1.CloneSet) csView {
	v := csView{cs: cs}
	v.pods = livePods(w.podsOwnedBy(cs.Namespace, cs.UID))
	v.updRev = cs.Name + "-" + revisionHash(&cs.Spec.Template)
	for _, p := range v.pods {
		if p.Labels[appsv1.ControllerRevisionHashLabelKey] == v.updRev {
			v.updated = append(v.updated, p)
		} else {
			v.old = append(v.old, p)
		}
	}
	v.replicas = int(pointer.Int32Deref(cs.Spec.Replicas, 1))
	keepOld := scaledRoundUp(cs.Spec.UpdateStrategy.Partition, v.replicas, 0)
	if keepOld > v.replicas {
		keepOld = v.replicas
	}
	v.allowed = v.replicas - keepOld
	return v
}

func (w *World) cloneSetStatus(v csView) kruisev1alpha1.CloneSetStatus {
	cs := v.cs
	st := *cs.Status.DeepCopy()
	st.ObservedGeneration = cs.Generation
	st.Replicas = int32(len(v.pods))
	st.UpdatedReplicas = int32(len(v.updated))
	st.ReadyReplicas, st.UpdatedReadyReplicas = 0, 0
	for _, p := range v.pods {
		if isPodReady(p) {
			st.ReadyReplicas++
		}
	}
	for _, p := range v.updated {
		if isPodReady(p) {
			st.UpdatedReadyReplicas++
		}
	}
	st.AvailableReplicas = st.ReadyReplicas
	st.UpdateRevision = v.updRev
	if st.CurrentRevision == "" {
		st.CurrentRevision = v.updRev
	}
	// Kruise: currentRevision follows updateRevision once every pod is updated and ready
	if st.UpdatedReplicas == st.Replicas && st.UpdatedReadyReplicas == st.Replicas && int(st.Replicas) == v.replicas {
		st.CurrentRevision = v.updRev
	}
	st.ExpectedUpdatedReplicas = int32(v.allowed)
	st.LabelSelector = labels.SelectorFromSet(cs.Spec.Selector.MatchLabels).String()
	return st
}

func (w *World) cloneSetActions(cs *kruisev1alpha1.CloneSet) []EnvAction {
	if cs.DeletionTimestamp != nil {
		return nil
	}
	v := w.viewCloneSet(cs)
	var out []EnvAction
	a := func(kind, arg string) {
		out = append(out, EnvAction{Kind: kind, Ns: cs.Namespace, Name: cs.Name, Arg: arg})
	}
	if len(v.pods) < v.replicas {
		a(EnvCSScaleUp, "")
	}
	if len(v.pods) > v.replicas {
		a(EnvCSScaleDown, "")
	}
	// Kruise: partition is the number of pods to keep on old revisions; a pod is updated only
	// while more old pods exist than that
	if !cs.Spec.UpdateStrategy.Paused && len(v.old) > v.replicas-v.allowed && len(v.pods) <= v.replicas {
		a(EnvCSUpdatePod, "")
	}
	want := w.cloneSetStatus(v)
	if !jsonEqual(want, cs.Status) {
		a(EnvPublishStatus, "CloneSet")
	}
	return out
}

func jsonEqual(a, b any) bool {
	x, _ := json.Marshal(a)
	y, _ := json.Marshal(b)
	return string(x) == string(y)
}

func (w *World) applyCloneSet(act EnvAction) {
	o := w.Get(GVKCloneSet, act.Ns, act.Name)
	if o == nil {
		return
	}
	cs := o.(*kruisev1alpha1.CloneSet)
	v := w.viewCloneSet(cs)
	cli := w.envClient()
	owner := *metav1.NewControllerRef(cs, GVKCloneSet)
	podLabels := func(rev string) map[string]string {
		l := map[string]string{}
		for k, val := range cs.Spec.Template.Labels {
			l[k] = val
		}
		l[appsv1.ControllerRevisionHashLabelKey] = rev
		l[appsv1.DefaultDeploymentUniqueLabelKey] = rev[strings.LastIndex(rev, "-")+1:]
		return l
	}
	switch act.Kind {
	case EnvCSScaleUp:
		// scaling up under a partition first fills the old-revision quota with current-revision pods
		rev := v.updRev
		if len(v.old) < v.replicas-v.allowed && cs.Status.CurrentRevision != "" && cs.Status.CurrentRevision != v.updRev {
			rev = cs.Status.CurrentRevision
		}
		_ = cli.Create(context.TODO(), w.newPod(cs.Namespace, cs.Name, podLabels(rev), owner, false))
	case EnvCSScaleDown:
		// prefer old-revision pods when more updated pods exist than allowed, else updated first is never needed
		victims := v.old
		if len(victims) == 0 || len(v.old) <= v.replicas-v.allowed {
			victims = v.pods
		}
		sort.Slice(victims, func(i, j int) bool { return victims[i].Name > victims[j].Name })
		_ = cli.Delete(context.TODO(), victims[0])
	case EnvCSUpdatePod:
		if cs.Spec.UpdateStrategy.Paused || len(v.old) <= v.replicas-v.allowed || len(v.old) == 0 {
			return
		}
		sort.Slice(v.old, func(i, j int) bool { return v.old[i].Name < v.old[j].Name })
		_ = cli.Delete(context.TODO(), v.old[0])
		_ = cli.Create(context.TODO(), w.newPod(cs.Namespace, cs.Name, podLabels(v.updRev), owner, false))
	case EnvPublishStatus:
		cs.Status = w.cloneSetStatus(v)
		_ = cli.Status().Update(context.TODO(), cs)
	}
}

// ---------- Deployment / ReplicaSet (native controllers) ----------

type depView struct {
	d        *appsv1.Deployment
	rss      []*appsv1.ReplicaSet // owned, live
	newRS    *appsv1.ReplicaSet
	oldRSs   []*appsv1.ReplicaSet
	replicas int
}

func templateWithoutHash(t *corev1.PodTemplateSpec) *corev1.PodTemplateSpec {
	c := t.DeepCopy()
	delete(c.Labels, appsv1.DefaultDeploymentUniqueLabelKey)
	return c
}

func (w *World) viewDeployment(d *appsv1.Deployment) depView {
	v := depView{d: d, replicas: int(pointer.Int32Deref(d.Spec.Replicas, 1))}
	want, _ := json.Marshal(templateWithoutHash(&d.Spec.Template))
	for _, o := range w.ListAll(GVKReplicaSet, d.Namespace) {
		rs := o.(*appsv1.ReplicaSet)
		if ref := metav1.GetControllerOf(rs); ref == nil || ref.UID != d.UID || rs.DeletionTimestamp != nil {
			continue
		}
		v.rss = append(v.rss, rs)
		have, _ := json.Marshal(templateWithoutHash(&rs.Spec.Template))
		if string(have) == string(want) && v.newRS == nil {
			v.newRS = rs
		} else {
			v.oldRSs = append(v.oldRSs, rs)
		}
	}
	return v
}

func rsRevision(rs *appsv1.ReplicaSet) int {
	n, _ := strconv.Atoi(rs.Annotations["deployment.kubernetes.io/revision"])
	return n
}

// isNativeControlled: the native Deployment controller ignores nothing, but a partition-style
// ("advanced") Deployment is paused with its strategy moved to an annotation; the native
// controller then only syncs status and scales proportionally.
func (w *World) deploymentActions(d *appsv1.Deployment) []EnvAction {
	var out []EnvAction
	a := func(kind, name, arg string) {
		out = append(out, EnvAction{Kind: kind, Ns: d.Namespace, Name: name, Arg: arg})
	}
	v := w.viewDeployment(d)
	// ReplicaSet controller + status
	for _, rs := range v.rss {
		pods := livePods(w.podsOwnedBy(rs.Namespace, rs.UID))
		want := int(pointer.Int32Deref(rs.Spec.Replicas, 0))
		if len(pods) < want {
			a(EnvRSCreatePod, rs.Name, "")
		}
		if len(pods) > want {
			a(EnvRSDeletePod, rs.Name, "")
		}
		if !jsonEqual(w.rsStatus(rs, pods), rs.Status) {
			a(EnvPublishStatus, rs.Name, "ReplicaSet")
		}
	}
	if d.DeletionTimestamp == nil {
		if v.newRS == nil && !d.Spec.Paused {
			a(EnvDeployNewRS, d.Name, "")
		}
		if tgt, ok := w.deploymentScaleStep(v); ok {
			a(EnvDeployScaleRS, d.Name, tgt)
		}
	}
	if !jsonEqual(w.deploymentStatus(v), d.Status) {
		a(EnvPublishStatus, d.Name, "Deployment")
	}
	return out
}

func (w *World) rsStatus(rs *appsv1.ReplicaSet, pods []*corev1.Pod) appsv1.ReplicaSetStatus {
	st := appsv1.ReplicaSetStatus{ObservedGeneration: rs.Generation, Replicas: int32(len(pods)), FullyLabeledReplicas: int32(len(pods))}
	for _, p := range pods {
		if isPodReady(p) {
			st.ReadyReplicas++
			if !w.neverAvailable(rs.Spec.MinReadySeconds) {
				st.AvailableReplicas++
			}
		}
	}
	return st
}

// neverAvailable: the blue-green style sets minReadySeconds to a huge value so that ready pods
// never become available during the release.
func (w *World) neverAvailable(minReadySeconds int32) bool { return minReadySeconds >= 3600 }

func (w *World) deploymentStatus(v depView) appsv1.DeploymentStatus {
	st := *v.d.Status.DeepCopy()
	st.ObservedGeneration = v.d.Generation
	st.Replicas, st.UpdatedReplicas, st.ReadyReplicas, st.AvailableReplicas = 0, 0, 0, 0
	for _, rs := range v.rss {
		pods := livePods(w.podsOwnedBy(rs.Namespace, rs.UID))
		st.Replicas += int32(len(pods))
		if rs == v.newRS {
			st.UpdatedReplicas += int32(len(pods))
		}
		for _, p := range pods {
			if isPodReady(p) {
				st.ReadyReplicas++
				if !w.neverAvailable(v.d.Spec.MinReadySeconds) {
					st.AvailableReplicas++
				}
			}
		}
	}
	st.UnavailableReplicas = 0
	if d := int32(v.replicas) - st.AvailableReplicas; d > 0 {
		st.UnavailableReplicas = d
	}
	return st
}

// deploymentScaleStep returns "<rsName>=<replicas>" for one legal scaling step of the native
// Deployment controller, if any.
func (w *World) deploymentScaleStep(v depView) (string, bool) {
	d := v.d
	set := func(rs *appsv1.ReplicaSet, n int) (string, bool) {
		if int(pointer.Int32Deref(rs.Spec.Replicas, 0)) == n {
			return "", false
		}
		return fmt.Sprintf("%s=%d", rs.Name, n), true
	}
	total := 0
	for _, rs := range v.rss {
		total += int(pointer.Int32Deref(rs.Spec.Replicas, 0))
	}
	activeOld := 0
	for _, rs := range v.oldRSs {
		if pointer.Int32Deref(rs.Spec.Replicas, 0) > 0 {
			activeOld++
		}
	}
	if d.Spec.Paused || v.newRS == nil {
		// paused (or nothing to roll to): only a scaling event is handled, on the single active RS
		var active []*appsv1.ReplicaSet
		for _, rs := range v.rss {
			if pointer.Int32Deref(rs.Spec.Replicas, 0) > 0 {
				active = append(active, rs)
			}
		}
		if len(active) == 1 {
			return set(active[0], v.replicas)
		}
		if len(active) == 0 && v.newRS != nil {
			return set(v.newRS, v.replicas)
		}
		return "", false
	}
	if activeOld == 0 {
		return set(v.newRS, v.replicas)
	}
	// scaling event with a single active ReplicaSet (the new one still at 0): the controller's
	// scale() sets it to the Deployment's size before any rolling step (FindActiveOrLatest)
	if activeOld == 1 && pointer.Int32Deref(v.newRS.Spec.Replicas, 0) == 0 {
		for _, rs := range v.oldRSs {
			if n := int(pointer.Int32Deref(rs.Spec.Replicas, 0)); n > 0 && n != v.replicas {
				return set(rs, v.replicas)
			}
		}
	}
	if d.Spec.Strategy.Type == appsv1.RecreateDeploymentStrategyType {
		for _, rs := range v.oldRSs {
			if s, ok := set(rs, 0); ok {
				return s, true
			}
		}
		return "", false
	}
	maxSurge, maxUnavail := 1, 0
	if ru := d.Spec.Strategy.RollingUpdate; ru != nil {
		maxSurge = scaledRoundUp(ru.MaxSurge, v.replicas, 1)
		if ru.MaxUnavailable != nil {
			n, _ := intstr.GetScaledValueFromIntOrPercent(ru.MaxUnavailable, v.replicas, false)
			maxUnavail = n
		}
		if maxSurge == 0 && maxUnavail == 0 {
			maxUnavail = 1
		}
	}
	newN := int(pointer.Int32Deref(v.newRS.Spec.Replicas, 0))
	if newN < v.replicas && total < v.replicas+maxSurge {
		up := v.replicas + maxSurge - total
		if newN+up > v.replicas {
			up = v.replicas - newN
		}
		return set(v.newRS, newN+up)
	}
	// scale down old within the availability budget
	available := 0
	for _, rs := range v.rss {
		for _, p := range livePods(w.podsOwnedBy(rs.Namespace, rs.UID)) {
			if isPodReady(p) && !w.neverAvailable(d.Spec.MinReadySeconds) {
				available++
			}
		}
	}
	budget := available - (v.replicas - maxUnavail)
	if budget > 0 {
		for _, rs := range v.oldRSs {
			n := int(pointer.Int32Deref(rs.Spec.Replicas, 0))
			if n == 0 {
				continue
			}
			dec := budget
			if dec > n {
				dec = n
			}
			return set(rs, n-dec)
		}
	}
	return "", false
}

func (w *World) applyDeployment(act EnvAction) {
	cli := w.envClient()
	switch act.Kind {
	case EnvDeployNewRS:
		o := w.Get(GVKDeployment, act.Ns, act.Name)
		if o == nil {
			return
		}
		d := o.(*appsv1.Deployment)
		v := w.viewDeployment(d)
		if v.newRS != nil || d.Spec.Paused {
			return
		}
		hash := k8sTemplateHash(&d.Spec.Template)
		maxRev := 0
		for _, rs := range v.rss {
			if r := rsRevision(rs); r > maxRev {
				maxRev = r
			}
		}
		tpl := d.Spec.Template.DeepCopy()
		if tpl.Labels == nil {
			tpl.Labels = map[string]string{}
		}
		tpl.Labels[appsv1.DefaultDeploymentUniqueLabelKey] = hash
		sel := d.Spec.Selector.DeepCopy()
		if sel.MatchLabels == nil {
			sel.MatchLabels = map[string]string{}
		}
		sel.MatchLabels[appsv1.DefaultDeploymentUniqueLabelKey] = hash
		rsLabels := map[string]string{}
		for k, val := range tpl.Labels {
			rsLabels[k] = val
		}
		rs := &appsv1.ReplicaSet{
			ObjectMeta: metav1.ObjectMeta{Namespace: d.Namespace, Name: d.Name + "-" + hash, Labels: rsLabels,
				Annotations: map[string]string{
					"deployment.kubernetes.io/revision":         strconv.Itoa(maxRev + 1),
					"deployment.kubernetes.io/desired-replicas": strconv.Itoa(v.replicas),
					"deployment.kubernetes.io/max-replicas":     strconv.Itoa(v.replicas + 1),
				},
				OwnerReferences: []metav1.OwnerReference{*metav1.NewControllerRef(d, GVKDeployment)}},
			Spec: appsv1.ReplicaSetSpec{Replicas: pointer.Int32(0), Selector: sel, Template: *tpl, MinReadySeconds: d.Spec.MinReadySeconds},
		}
		if err := cli.Create(context.TODO(), rs); err != nil {
			return
		}
		w.setDeploymentRevision(d, maxRev+1)
	case EnvDeployScaleRS:
		parts := strings.SplitN(act.Arg, "=", 2)
		if len(parts) != 2 {
			return
		}
		o := w.Get(GVKReplicaSet, act.Ns, parts[0])
		if o == nil {
			return
		}
		// re-validate: the step must still be the legal one
		if d := w.Get(GVKDeployment, act.Ns, act.Name); d != nil {
			if tgt, ok := w.deploymentScaleStep(w.viewDeployment(d.(*appsv1.Deployment))); !ok || tgt != act.Arg {
				return
			}
		}
		rs := o.(*appsv1.ReplicaSet)
		n, _ := strconv.Atoi(parts[1])
		rs.Spec.Replicas = pointer.Int32(int32(n))
		_ = cli.Update(context.TODO(), rs)
	case EnvRSCreatePod:
		o := w.Get(GVKReplicaSet, act.Ns, act.Name)
		if o == nil {
			return
		}
		rs := o.(*appsv1.ReplicaSet)
		if len(livePods(w.podsOwnedBy(rs.Namespace, rs.UID))) >= int(pointer.Int32Deref(rs.Spec.Replicas, 0)) {
			return
		}
		_ = cli.Create(context.TODO(), w.newPod(rs.Namespace, rs.Name, rs.Spec.Template.Labels, *metav1.NewControllerRef(rs, GVKReplicaSet), false))
	case EnvRSDeletePod:
		o := w.Get(GVKReplicaSet, act.Ns, act.Name)
		if o == nil {
			return
		}
		rs := o.(*appsv1.ReplicaSet)
		pods := livePods(w.podsOwnedBy(rs.Namespace, rs.UID))
		if len(pods) <= int(pointer.Int32Deref(rs.Spec.Replicas, 0)) {
			return
		}
		// not-ready pods first, then newest
		sort.Slice(pods, func(i, j int) bool {
			if isPodReady(pods[i]) != isPodReady(pods[j]) {
				return !isPodReady(pods[i])
			}
			return pods[i].Name > pods[j].Name
		})
		_ = cli.Delete(context.TODO(), pods[0])
	case EnvPublishStatus:
		switch act.Arg {
		case "ReplicaSet":
			if o := w.Get(GVKReplicaSet, act.Ns, act.Name); o != nil {
				rs := o.(*appsv1.ReplicaSet)
				rs.Status = w.rsStatus(rs, livePods(w.podsOwnedBy(rs.Namespace, rs.UID)))
				_ = cli.Status().Update(context.TODO(), rs)
			}
		case "Deployment":
			if o := w.Get(GVKDeployment, act.Ns, act.Name); o != nil {
				d := o.(*appsv1.Deployment)
				d.Status = w.deploymentStatus(w.viewDeployment(d))
				_ = cli.Status().Update(context.TODO(), d)
			}
		}
	}
}

func (w *World) setDeploymentRevision(d *appsv1.Deployment, rev int) {
	cur := w.Get(GVKDeployment, d.Namespace, d.Name)
	if cur == nil {
		return
	}
	dd := cur.(*appsv1.Deployment)
	if dd.Annotations == nil {
		dd.Annotations = map[string]string{}
	}
	dd.Annotations["deployment.kubernetes.io/revision"] = strconv.Itoa(rev)
	_ = w.envClient().Update(context.TODO(), dd)
}

// ---------- pods, GC ----------

func (w *World) podActions(ns string, adversarial bool) []EnvAction {
	var out []EnvAction
	for _, o := range w.ListAll(GVKPod, ns) {
		p := o.(*corev1.Pod)
		if p.DeletionTimestamp != nil {
			continue
		}
		if !isPodReady(p) {
			out = append(out, EnvAction{Kind: EnvPodReady, Ns: p.Namespace, Name: p.Name})
		} else if adversarial {
			out = append(out, EnvAction{Kind: EnvPodUnready, Ns: p.Namespace, Name: p.Name})
		}
	}
	return out
}

func (w *World) setPodReady(ns, name string, ready bool) {
	o := w.Get(GVKPod, ns, name)
	if o == nil {
		return
	}
	p := o.(*corev1.Pod)
	st := corev1.ConditionFalse
	if ready {
		st = corev1.ConditionTrue
	}
	p.Status.Conditions = []corev1.PodCondition{{Type: corev1.PodReady, Status: st}}
	_ = w.envClient().Status().Update(context.TODO(), p)
}

var gcKinds = []schema.GroupVersionKind{GVKBatchRelease, GVKDeployment, GVKReplicaSet, GVKPod, GVKService, GVKIngress}

// gcActions: dependents whose controller owner no longer exists are deleted by the garbage
// collector (background propagation).
func (w *World) gcActions() []EnvAction {
	uids := map[types.UID]bool{}
	for _, gvk := range []schema.GroupVersionKind{GVKRollout, GVKBatchRelease, GVKDeployment, GVKReplicaSet, GVKCloneSet, GVKStatefulSet, GVKDaemonSet, GVKAdvStatefulSet, GVKTrafficRouting} {
		for _, o := range w.ListAll(gvk, "") {
			uids[o.GetUID()] = true
		}
	}
	var out []EnvAction
	for _, gvk := range gcKinds {
		for _, o := range w.ListAll(gvk, "") {
			if o.GetDeletionTimestamp() != nil {
				continue
			}
			refs := o.GetOwnerReferences()
			if len(refs) == 0 {
				continue
			}
			orphan := true
			for _, r := range refs {
				if uids[r.UID] {
					orphan = false
				}
			}
			if orphan {
				out = append(out, EnvAction{Kind: EnvGC, Ns: o.GetNamespace(), Name: o.GetName(), Arg: gvk.Kind})
			}
		}
	}
	return out
}

func (w *World) applyGC(act EnvAction) {
	for _, gvk := range gcKinds {
		if gvk.Kind == act.Arg {
			if o := w.Get(gvk, act.Ns, act.Name); o != nil {
				_ = w.Client(ActorGC).Delete(context.TODO(), o)
			}
		}
	}
}

// ---------- entry points ----------

// EnvActions lists every environment step possible now, progress steps first.
func (w *World) EnvActions(adversarial bool) []EnvAction {
	var out []EnvAction
	out = append(out, w.gcActions()...)
	for _, o := range w.ListAll(GVKCloneSet, "") {
		out = append(out, w.cloneSetActions(o.(*kruisev1alpha1.CloneSet))...)
	}
	for _, o := range w.ListAll(GVKDeployment, "") {
		out = append(out, w.deploymentActions(o.(*appsv1.Deployment))...)
	}
	// orphan-free ReplicaSets of deleted Deployments are handled by gc
	out = append(out, w.podActions("", adversarial)...)
	return out
}

func (w *World) ApplyEnv(act EnvAction) {
	switch act.Kind {
	case EnvGC:
		w.applyGC(act)
	case EnvPodReady:
		w.setPodReady(act.Ns, act.Name, true)
	case EnvPodUnready:
		w.setPodReady(act.Ns, act.Name, false)
	case EnvCSScaleUp, EnvCSScaleDown, EnvCSUpdatePod:
		w.applyCloneSet(act)
	case EnvPublishStatus:
		if act.Arg == "CloneSet" {
			w.applyCloneSet(act)
		} else {
			w.applyDeployment(act)
		}
	default:
		w.applyDeployment(act)
	}
}
