package sim

import (
	"context"
	"encoding/json"
	"errors"
	"fmt"
	"reflect"
	"sort"
	"time"

	jsonpatch "github.com/evanphx/json-patch"
	apierrors "k8s.io/apimachinery/pkg/api/errors"
	"k8s.io/apimachinery/pkg/api/meta"
	metav1 "k8s.io/apimachinery/pkg/apis/meta/v1"
	"k8s.io/apimachinery/pkg/apis/meta/v1/unstructured"
	"k8s.io/apimachinery/pkg/runtime"
	"k8s.io/apimachinery/pkg/runtime/schema"
	"k8s.io/apimachinery/pkg/types"
	"sigs.k8s.io/controller-runtime/pkg/client"
	"sigs.k8s.io/controller-runtime/pkg/client/apiutil"
)

// Write is one persisted change of the simulated API server.
type Write struct {
	Seq    int
	Actor  string
	Verb   string // create | update | patch | delete | status
	GVK    schema.GroupVersionKind
	Key    types.NamespacedName
	Before client.Object // nil for create
	After  client.Object // nil when the object is gone after the write
}

func (wr *Write) String() string {
	return fmt.Sprintf("#%d %s %s %s %s/%s", wr.Seq, wr.Actor, wr.Verb, wr.GVK.Kind, wr.Key.Namespace, wr.Key.Name)
}

// OpInfo describes one client call for fault plans.
type OpInfo struct {
	Index   int // 1-based index of the call among all calls of controller actors
	Actor   string
	Verb    string // get | list | create | update | patch | delete | status
	GVK     schema.GroupVersionKind
	Key     types.NamespacedName
	IsWrite bool
}

// FaultPlan decides, per client call of a controller actor, whether to inject a fault.
type FaultPlan interface {
	// Before returns an error to fail the call without applying it.
	Before(op OpInfo) error
	// After is called after a successful write; a non-nil error is returned to the caller
	// although the write was applied (lost response). Returning ErrCrash aborts the reconcile.
	After(op OpInfo) error
}

var ErrCrash = errors.New("verif: injected controller crash")
var errCrashed = errors.New("verif: controller process is down")

// simClient is the client.Client handed to one actor.
type simClient struct {
	w     *World
	actor string
	raw   bool // read-only helper client of event handlers / webhooks: never locks (it is called under the lock)
}

var _ client.Client = &simClient{}

func (c *simClient) Scheme() *runtime.Scheme     { return Scheme }
func (c *simClient) RESTMapper() meta.RESTMapper { return c.w.fake.RESTMapper() }

func gvkOf(obj runtime.Object) schema.GroupVersionKind {
	if u, ok := obj.(*unstructured.Unstructured); ok {
		return u.GroupVersionKind()
	}
	if u, ok := obj.(*unstructured.UnstructuredList); ok {
		return u.GroupVersionKind()
	}
	gvk, err := apiutil.GVKForObject(obj, Scheme)
	if err != nil {
		return schema.GroupVersionKind{}
	}
	return gvk
}

func newObjFor(gvk schema.GroupVersionKind) client.Object {
	if Scheme.Recognizes(gvk) {
		o, err := Scheme.New(gvk)
		if err == nil {
			if co, ok := o.(client.Object); ok {
				return co
			}
		}
	}
	u := &unstructured.Unstructured{}
	u.SetGroupVersionKind(gvk)
	return u
}

func (c *simClient) isController() bool { return isControllerActor(c.actor) }

func isControllerActor(a string) bool {
	switch a {
	case ActorRollout, ActorBatchRelease, ActorTrafficRouting, ActorAdvDeployment:
		return true
	}
	return false
}

func (c *simClient) pre(verb string, gvk schema.GroupVersionKind, key types.NamespacedName, isWrite bool) (OpInfo, error) {
	op := OpInfo{Actor: c.actor, Verb: verb, GVK: gvk, Key: key, IsWrite: isWrite}
	if !c.isController() {
		return op, nil
	}
	c.w.opIndex++
	op.Index = c.w.opIndex
	if c.w.crashed {
		return op, errCrashed
	}
	if c.w.Faults != nil {
		if err := c.w.Faults.Before(op); err != nil {
			c.w.noteFault(op, "before", err)
			return op, err
		}
	}
	return op, nil
}

func (c *simClient) post(op OpInfo) error {
	if !c.isController() || c.w.Faults == nil {
		return nil
	}
	if err := c.w.Faults.After(op); err != nil {
		c.w.noteFault(op, "after", err)
		if errors.Is(err, ErrCrash) {
			c.w.crashed = true
		}
		return err
	}
	return nil
}

func (c *simClient) Get(ctx context.Context, key client.ObjectKey, obj client.Object, opts ...client.GetOption) error {
	if c.raw {
		return c.w.fake.Get(ctx, key, obj, opts...)
	}
	defer c.w.lock()()
	if _, err := c.pre("get", gvkOf(obj), key, false); err != nil {
		return err
	}
	return c.w.fake.Get(ctx, key, obj, opts...)
}

func (c *simClient) List(ctx context.Context, list client.ObjectList, opts ...client.ListOption) error {
	if c.raw {
		if err := c.w.fake.List(ctx, list, opts...); err != nil {
			return err
		}
		sortList(list)
		return nil
	}
	defer c.w.lock()()
	if _, err := c.pre("list", gvkOf(list), types.NamespacedName{}, false); err != nil {
		return err
	}
	if err := c.w.fake.List(ctx, list, opts...); err != nil {
		return err
	}
	sortList(list)
	return nil
}

func sortList(list client.ObjectList) {
	items, err := meta.ExtractList(list)
	if err != nil || len(items) < 2 {
		return
	}
	sort.SliceStable(items, func(i, j int) bool {
		a, _ := meta.Accessor(items[i])
		b, _ := meta.Accessor(items[j])
		if a.GetNamespace() != b.GetNamespace() {
			return a.GetNamespace() < b.GetNamespace()
		}
		return a.GetName() < b.GetName()
	})
	_ = meta.SetList(list, items)
}

func (c *simClient) Create(ctx context.Context, obj client.Object, opts ...client.CreateOption) error {
	return c.w.write(c, "create", obj, func() error {
		if obj.GetName() == "" && obj.GetGenerateName() != "" {
			c.w.nameSeq++
			obj.SetName(fmt.Sprintf("%s%05d", obj.GetGenerateName(), c.w.nameSeq))
		}
		return c.w.fake.Create(ctx, obj, opts...)
	})
}

func (c *simClient) Update(ctx context.Context, obj client.Object, opts ...client.UpdateOption) error {
	return c.w.write(c, "update", obj, func() error { return c.w.fake.Update(ctx, obj, opts...) })
}

func (c *simClient) Patch(ctx context.Context, obj client.Object, patch client.Patch, opts ...client.PatchOption) error {
	return c.w.write(c, "patch", obj, func() error { return c.w.fake.Patch(ctx, obj, patch, opts...) })
}

func (c *simClient) Delete(ctx context.Context, obj client.Object, opts ...client.DeleteOption) error {
	return c.w.write(c, "delete", obj, func() error { return c.w.fake.Delete(ctx, obj, opts...) })
}

func (c *simClient) DeleteAllOf(ctx context.Context, obj client.Object, opts ...client.DeleteAllOfOption) error {
	return fmt.Errorf("verif: DeleteAllOf is not supported by the simulator")
}

func (c *simClient) Status() client.SubResourceWriter { return &simStatus{c} }
func (c *simClient) SubResource(string) client.SubResourceClient {
	panic("verif: SubResource is not supported by the simulator")
}

type simStatus struct{ c *simClient }

func (s *simStatus) Create(ctx context.Context, obj client.Object, sub client.Object, opts ...client.SubResourceCreateOption) error {
	return fmt.Errorf("verif: status create is not supported")
}

func (s *simStatus) Update(ctx context.Context, obj client.Object, opts ...client.SubResourceUpdateOption) error {
	return s.c.w.write(s.c, "status", obj, func() error {
		// status subresource: only .status of the submitted object is persisted
		cur := newObjFor(gvkOf(obj))
		if err := s.c.w.fake.Get(ctx, client.ObjectKeyFromObject(obj), cur); err != nil {
			return err
		}
		if obj.GetResourceVersion() != "" && obj.GetResourceVersion() != cur.GetResourceVersion() {
			return apierrors.NewConflict(schema.GroupResource{Resource: gvkOf(obj).Kind}, obj.GetName(), errors.New("object was modified"))
		}
		merged, err := withStatusOf(cur, obj)
		if err != nil {
			return err
		}
		if err := s.c.w.fake.Update(ctx, merged); err != nil {
			return err
		}
		return copyInto(merged, obj)
	})
}

func (s *simStatus) Patch(ctx context.Context, obj client.Object, patch client.Patch, opts ...client.SubResourcePatchOption) error {
	return s.c.w.write(s.c, "status", obj, func() error {
		cur := newObjFor(gvkOf(obj))
		if err := s.c.w.fake.Get(ctx, client.ObjectKeyFromObject(obj), cur); err != nil {
			return err
		}
		if err := s.c.w.fake.Patch(ctx, obj, patch); err != nil {
			return err
		}
		// keep only the status change
		merged, err := withStatusOf(cur, obj)
		if err != nil {
			return err
		}
		merged.SetResourceVersion(obj.GetResourceVersion())
		if err := s.c.w.fake.Update(ctx, merged); err != nil {
			return err
		}
		return copyInto(merged, obj)
	})
}

// withStatusOf returns base with .status replaced by from's .status.
func withStatusOf(base, from client.Object) (client.Object, error) {
	bm, err := toMap(base)
	if err != nil {
		return nil, err
	}
	fm, err := toMap(from)
	if err != nil {
		return nil, err
	}
	if st, ok := fm["status"]; ok {
		bm["status"] = st
	} else {
		delete(bm, "status")
	}
	out := newObjFor(gvkOf(base))
	data, _ := json.Marshal(bm)
	if err := json.Unmarshal(data, out); err != nil {
		return nil, err
	}
	return out, nil
}

func toMap(obj runtime.Object) (map[string]any, error) {
	data, err := json.Marshal(obj)
	if err != nil {
		return nil, err
	}
	m := map[string]any{}
	err = json.Unmarshal(data, &m)
	return m, err
}

func copyInto(src, dst client.Object) error {
	data, err := json.Marshal(src)
	if err != nil {
		return err
	}
	if u, ok := dst.(*unstructured.Unstructured); ok {
		m := map[string]any{}
		if err := json.Unmarshal(data, &m); err != nil {
			return err
		}
		u.Object = m
		return nil
	}
	// zero then fill
	v := reflect.ValueOf(dst).Elem()
	v.Set(reflect.Zero(v.Type()))
	return json.Unmarshal(data, dst)
}

// normalized returns the object's JSON form without the fields that change on every write.
func normalized(obj client.Object) map[string]any {
	if obj == nil {
		return nil
	}
	m, err := toMap(obj)
	if err != nil {
		return nil
	}
	if md, ok := m["metadata"].(map[string]any); ok {
		delete(md, "resourceVersion")
		delete(md, "managedFields")
	}
	delete(m, "kind")
	delete(m, "apiVersion")
	return m
}

func specPart(m map[string]any) map[string]any {
	out := map[string]any{}
	for k, v := range m {
		if k == "metadata" || k == "status" {
			continue
		}
		out[k] = v
	}
	return out
}

// getStored fetches the stored object (nil if absent).
func (w *World) getStored(gvk schema.GroupVersionKind, key types.NamespacedName) client.Object {
	o := newObjFor(gvk)
	if err := w.fake.Get(context.TODO(), key, o); err != nil {
		return nil
	}
	o.GetObjectKind().SetGroupVersionKind(gvk)
	return o
}

// rawPut overwrites the stored object without touching resourceVersion semantics.
func (w *World) rawPut(obj client.Object) {
	gvk := gvkOf(obj)
	gvr, _ := meta.UnsafeGuessKindToResource(gvk)
	if err := w.tracker.Update(gvr, obj.DeepCopyObject(), obj.GetNamespace()); err != nil {
		panic(fmt.Sprintf("verif: rawPut %s %s/%s: %v", gvk.Kind, obj.GetNamespace(), obj.GetName(), err))
	}
}

// write is the single path of every mutation: fault hooks, apply, API-server fix-ups
// (UID, creationTimestamp, generation, admission), no-op detection, write log, monitors and
// watch-event fan-out.
func (w *World) write(c *simClient, verb string, obj client.Object, apply func() error) error {
	defer w.lock()()
	gvk := gvkOf(obj)
	key := client.ObjectKeyFromObject(obj)
	op, err := c.pre(verb, gvk, key, true)
	if err != nil {
		return err
	}
	var before client.Object
	if verb != "create" {
		before = w.cache[gvk][key]
	}
	if err := apply(); err != nil {
		return err
	}
	key = client.ObjectKeyFromObject(obj) // generateName
	after := w.getStored(gvk, key)

	switch {
	case verb == "create" && after != nil:
		w.clock++
		w.uidSeq++
		after.SetUID(types.UID(fmt.Sprintf("uid-%06d", w.uidSeq)))
		after.SetCreationTimestamp(metav1.NewTime(w.epoch.Add(time.Duration(w.clock) * time.Second)))
		after.SetGeneration(1)
		w.rawPut(after)
	case after != nil && before != nil && (verb == "update" || verb == "patch"):
		// admission (mutating workload webhook) on UPDATE of workloads by any actor. A request
		// that changes nothing skips it: the stored object was admitted before and the handlers
		// are functions of (old, new) only (modelling assumption, saves ~20% run time because the
		// Rollout controller re-issues an identical label patch on every reconcile).
		if isWorkloadGVK(gvk) && w.Admission != nil && !reflect.DeepEqual(normalized(before), normalized(after)) {
			mutated, aerr := w.Admission(before, after)
			if aerr != nil {
				w.rawPut(before) // request rejected: nothing persisted
				return apierrors.NewBadRequest(aerr.Error())
			}
			if mutated != nil {
				mutated.SetResourceVersion(after.GetResourceVersion())
				w.rawPut(mutated)
				after = w.getStored(gvk, key)
			}
		}
		bn, an := normalized(before), normalized(after)
		if !reflect.DeepEqual(specPart(bn), specPart(an)) {
			after.SetGeneration(before.GetGeneration() + 1)
			w.rawPut(after)
		}
	}
	if after != nil && (verb == "create" || verb == "update" || verb == "patch" || verb == "status") {
		_ = copyInto(after, obj)
	}
	// a write that changes nothing is not persisted by a real API server: no new
	// resourceVersion, no watch event
	if before != nil && after != nil && reflect.DeepEqual(normalized(before), normalized(after)) {
		after.SetResourceVersion(before.GetResourceVersion())
		w.rawPut(after)
		_ = copyInto(after, obj)
		w.cachePut(gvk, key, after)
		return c.post(op)
	}
	w.cachePut(gvk, key, after)
	w.seq++
	wr := &Write{Seq: w.seq, Actor: c.actor, Verb: verb, GVK: gvk, Key: key, Before: before, After: after}
	w.record(wr)
	return c.post(op)
}

// applyJSONPatchOps applies RFC 6902 operations to obj and returns the patched object.
func applyJSONPatchOps(obj client.Object, ops []byte) (client.Object, error) {
	data, err := json.Marshal(obj)
	if err != nil {
		return nil, err
	}
	p, err := jsonpatch.DecodePatch(ops)
	if err != nil {
		return nil, err
	}
	out, err := p.Apply(data)
	if err != nil {
		return nil, err
	}
	res := newObjFor(gvkOf(obj))
	if err := json.Unmarshal(out, res); err != nil {
		return nil, err
	}
	res.GetObjectKind().SetGroupVersionKind(gvkOf(obj))
	return res, nil
}
