// Package sim is engine E1: a closed-loop cluster simulator that runs the real reconcilers,
// webhooks, event handlers and traffic providers of openkruise/rollouts against a simulated
// API server (controller-runtime fake client + object tracker wrapped by simClient) with a
// knob-respecting workload environment. See /verif/DESIGN.md section 3.
package sim

import (
	kruisev1alpha1 "github.com/openkruise/kruise-api/apps/v1alpha1"
	kruisev1beta1 "github.com/openkruise/kruise-api/apps/v1beta1"
	rolloutsv1alpha1 "github.com/openkruise/rollouts/api/v1alpha1"
	rolloutsv1beta1 "github.com/openkruise/rollouts/api/v1beta1"
	admissionregistrationv1 "k8s.io/api/admissionregistration/v1"
	"k8s.io/apimachinery/pkg/runtime"
	"k8s.io/apimachinery/pkg/runtime/schema"
	clientgoscheme "k8s.io/client-go/kubernetes/scheme"
	gatewayv1beta1 "sigs.k8s.io/gateway-api/apis/v1beta1"
)

var Scheme = runtime.NewScheme()

func init() {
	_ = clientgoscheme.AddToScheme(Scheme)
	_ = kruisev1alpha1.AddToScheme(Scheme)
	_ = kruisev1beta1.AddToScheme(Scheme)
	_ = rolloutsv1alpha1.AddToScheme(Scheme)
	_ = rolloutsv1beta1.AddToScheme(Scheme)
	_ = gatewayv1beta1.AddToScheme(Scheme)
	_ = admissionregistrationv1.AddToScheme(Scheme)
}

var (
	GVKRollout        = rolloutsv1beta1.SchemeGroupVersion.WithKind("Rollout")
	GVKBatchRelease   = rolloutsv1beta1.SchemeGroupVersion.WithKind("BatchRelease")
	GVKTrafficRouting = rolloutsv1alpha1.SchemeGroupVersion.WithKind("TrafficRouting")
	GVKDeployment     = schema.GroupVersionKind{Group: "apps", Version: "v1", Kind: "Deployment"}
	GVKReplicaSet     = schema.GroupVersionKind{Group: "apps", Version: "v1", Kind: "ReplicaSet"}
	GVKStatefulSet    = schema.GroupVersionKind{Group: "apps", Version: "v1", Kind: "StatefulSet"}
	GVKCloneSet       = kruisev1alpha1.SchemeGroupVersion.WithKind("CloneSet")
	GVKDaemonSet      = kruisev1alpha1.SchemeGroupVersion.WithKind("DaemonSet")
	GVKAdvStatefulSet = kruisev1beta1.SchemeGroupVersion.WithKind("StatefulSet")
	GVKPod            = schema.GroupVersionKind{Version: "v1", Kind: "Pod"}
	GVKService        = schema.GroupVersionKind{Version: "v1", Kind: "Service"}
	GVKConfigMap      = schema.GroupVersionKind{Version: "v1", Kind: "ConfigMap"}
	GVKIngress        = schema.GroupVersionKind{Group: "networking.k8s.io", Version: "v1", Kind: "Ingress"}
	GVKHTTPRoute      = gatewayv1beta1.SchemeGroupVersion.WithKind("HTTPRoute")
	GVKHPA            = schema.GroupVersionKind{Group: "autoscaling", Version: "v2", Kind: "HorizontalPodAutoscaler"}
)

func isWorkloadGVK(g schema.GroupVersionKind) bool {
	switch g {
	case GVKDeployment, GVKStatefulSet, GVKCloneSet, GVKDaemonSet, GVKAdvStatefulSet:
		return true
	}
	return false
}
