package sim

import (
	"encoding/json"
	"fmt"
	"reflect"
	"sigs.k8s.io/controller-runtime/pkg/client"
	"strconv"
	"strings"

	kruisev1alpha1 "github.com/openkruise/kruise-api/apps/v1alpha1"
	"github.com/openkruise/rollouts/api/v1alpha1"
	"github.com/openkruise/rollouts/api/v1beta1"
	"github.com/openkruise/rollouts/pkg/util"
	appsv1 "k8s.io/api/apps/v1"
	corev1 "k8s.io/api/core/v1"
	networkingv1 "k8s.io/api/networking/v1"
	"k8s.io/apimachinery/pkg/util/intstr"
	"k8s.io/utils/pointer"
	gatewayv1beta1 "sigs.k8s.io/gateway-api/apis/v1beta1"
)

// ---------- provider readers (harness reference semantics of each traffic object) ----------

// Routing is what the gateway objects currently say about the canary Service.
type Routing struct {
	Weight     int    // canary share in percent (0 when none)
	Match      string // "" | "header" | "header2" | "other"
	RefsCanary bool   // some provider object references the canary Service at all
	Exists     bool   // provider object exists
}

func (rt Routing) ToCanary() bool { return rt.Weight > 0 || rt.Match != "" }

const revKey = appsv1.DefaultDeploymentUniqueLabelKey

func (w *World) ReadRouting(s Scenario) Routing {
	canarySvc := s.CanaryServiceName()
	if s.DisableCanarySvc {
		canarySvc = s.StableServiceName()
	}
	var rt Routing
	switch s.Provider {
	case "ingress-nginx":
		o := w.Get(GVKIngress, s.Namespace, s.IngressName()+"-canary")
		if o == nil {
			return rt
		}
		ing := o.(*networkingv1.Ingress)
		rt.Exists = true
		if ing.DeletionTimestamp != nil {
			return rt
		}
		for _, rule := range ing.Spec.Rules {
			if rule.HTTP == nil {
				continue
			}
			for _, p := range rule.HTTP.Paths {
				if p.Backend.Service != nil && p.Backend.Service.Name == canarySvc {
					rt.RefsCanary = true
				}
			}
		}
		a := ing.Annotations
		if a["nginx.ingress.kubernetes.io/canary"] != "true" || !rt.RefsCanary {
			return rt
		}
		if v, ok := a["nginx.ingress.kubernetes.io/canary-weight"]; ok {
			rt.Weight, _ = strconv.Atoi(v)
		}
		if h, ok := a["nginx.ingress.kubernetes.io/canary-by-header"]; ok && h != "" {
			switch {
			case h == "user-agent" && a["nginx.ingress.kubernetes.io/canary-by-header-value"] == "pc":
				rt.Match = "header"
			case h == "x-canary" && a["nginx.ingress.kubernetes.io/canary-by-header-pattern"] == "v.*":
				rt.Match = "header2"
			default:
				rt.Match = "other"
			}
		}
		if c := a["nginx.ingress.kubernetes.io/canary-by-cookie"]; c != "" {
			rt.Match = "other"
		}
	case "gateway":
		o := w.Get(GVKHTTPRoute, s.Namespace, s.RouteName())
		if o == nil {
			return rt
		}
		route := o.(*gatewayv1beta1.HTTPRoute)
		rt.Exists = true
		for _, rule := range route.Spec.Rules {
			var cw, sw int32 = -1, -1
			for _, ref := range rule.BackendRefs {
				wt := pointer.Int32Deref(ref.Weight, 1)
				switch string(ref.Name) {
				case canarySvc:
					rt.RefsCanary = true
					cw = wt
				case s.StableServiceName():
					sw = wt
				}
			}
			if s.DisableCanarySvc {
				continue
			}
			if cw < 0 {
				continue
			}
			headerRule := false
			for _, m := range rule.Matches {
				if len(m.Headers) > 0 {
					headerRule = true
					h := m.Headers[0]
					switch {
					case string(h.Name) == "user-agent" && h.Value == "pc":
						rt.Match = "header"
					case string(h.Name) == "x-canary" && h.Value == "v.*":
						rt.Match = "header2"
					default:
						rt.Match = "other"
					}
				}
			}
			if headerRule {
				continue
			}
			if sw < 0 {
				sw = 0
			}
			if cw+sw > 0 && cw > 0 {
				share := int(cw) * 100 / int(cw+sw)
				if share > rt.Weight {
					rt.Weight = share
				}
			}
		}
	}
	return rt
}

// ---------- shared monitor state ----------

// Track is the history-derived state shared by the C01–C05/C10/C18 monitors.
type Track struct {
	S Scenario

	// user requests (armed by the user model's writes)
	PausedSince    int // write seq at which spec.strategy.paused=true was persisted (0 = not paused)
	ReconcileStart int // write seq when the running reconcile started

	// step visit bookkeeping
	StepIndex      int32
	StepState      v1beta1.CanaryStepState
	ReadySeen      map[int32]bool // BatchRelease reported Ready for step k during the current plan
	MaxReadyPods   int            // most new-revision pods the BatchRelease has reported ready (same BatchRelease, size and template)
	ApprovedStep   int32          // step approved by the user in this visit (0 none)
	RoutedOK       map[int32]bool
	OutstandingReq bool // an explicit user request that may move the cursor non-sequentially
	BRUID          string

	// C01
	LastExposure  int
	ExposureEpoch int
	EpochBreak    bool

	// last user disturbance kind (release / rollback / scale / plan-edit / jump / delete / disable / pause)
	LastDisturbance    string
	EditedUpgradedStep bool                    // a plan edit changed the replicas of the current step after that step's upgrade (until it is left in order)
	RequestState       v1beta1.CanaryStepState // sub-state the current step was in when the controller acted on the user's last jump / plan edit ("" none)
	Released           bool                    // the first template change (the release itself) happened
	// since the Rollout was last Healthy:
	Superseded             bool // a template change hit a progressing release
	Scaled                 bool // the workload was scaled
	ChangedWhileFinalising bool // a template change hit Progressing/Cancelling or /Finalising

	// C10
	Cancel           *CancelState            // the rollback / supersession in flight, nil if none
	StableTpl        *corev1.PodTemplateSpec // workload template before the release in flight began
	CanaryTpl        *corev1.PodTemplateSpec // workload template the controller recorded as the canary revision
	Cancels          int                     // rollbacks / supersessions armed during the run
	CancelsHot       int                     // ... of which with canary traffic installed
	HandBacks        int                     // hand-back events judged while armed with traffic
	Restarts         int                     // supersession restarts judged
	BRFinalizerDrops int                     // BatchRelease finalizer removals judged (C18)
	SupersedeWrites  int                     // BatchRelease writes on the workload judged between supersession and restart
	RolledBacks      int                     // rollback completions judged

	pendingRelease bool // a template change was written since the Rollout was last Healthy
	cancelUnjudged bool // a template change hit a phase the cancel monitor does not classify

	// C05 / C18: user configuration before the release
	Base *Baseline
}

// CancelState: the user reverted the workload to its stable template ("rollback") or published a
// third template ("supersede") while the Rollout was progressing.
type CancelState struct {
	Kind       string // rollback | supersede
	HadTraffic bool   // the gateway carried a canary share / match when the user wrote
	Seq        int
	CanaryRev  string // the Rollout's recorded canary revision at that time
	Reason     string // progressing reason at that time
	Cancelling bool   // the controller entered Progressing/Cancelling afterwards
	NewPods    int    // live pods of the canary revision at that time
	StablePods int    // live pods of the stable revision at that time
}

// PodsOfRevision counts live pods of the scenario's workload labelled with the given revision.
func (w *World) PodsOfRevision(s Scenario, rev string) int {
	n := 0
	for _, po := range w.ListAll(GVKPod, s.Namespace) {
		p := po.(*corev1.Pod)
		if p.DeletionTimestamp == nil && p.Labels[revKey] == rev && p.Labels["app"] == "demo" {
			n++
		}
	}
	return n
}

// Baseline is the user-owned configuration recorded before the release.
type Baseline struct {
	ServiceSelector  map[string]string
	IngressSpec      any
	IngressAnn       map[string]string
	RouteRules       any
	WorkloadPaused   bool
	Partition        string
	DeployStrategy   any
	MinReadySeconds  int32
	ProgressDeadline *int32
	HPATarget        string
}

const trackKey = "track"

// Track returns the monitor state of the first installed scenario (single-rollout runs).
func (w *World) Track() *Track {
	if t, ok := w.Scratch[trackKey].(*Track); ok {
		return t
	}
	return nil
}

// Tracks returns the monitor state of every installed scenario.
func (w *World) Tracks() []*Track {
	ts, _ := w.Scratch[trackKey+"s"].([]*Track)
	return ts
}

// InstallMonitors attaches the standard monitor set for scenario s. Call after Build.
func (w *World) InstallMonitors(s Scenario) *Track {
	t := &Track{S: s, ReadySeen: map[int32]bool{}, RoutedOK: map[int32]bool{}, LastExposure: -1}
	t.Base = w.captureBaseline(s)
	if o := w.workloadObject(s); o != nil {
		t.StableTpl = templateOf(o).DeepCopy()
	}
	if _, ok := w.Scratch[trackKey]; !ok {
		w.Scratch[trackKey] = t
	}
	w.Scratch[trackKey+"s"] = append(w.Tracks(), t)
	w.Monitors = append(w.Monitors, &stdMonitor{t: t})
	return t
}

func (w *World) captureBaseline(s Scenario) *Baseline {
	b := &Baseline{}
	if o := w.Get(GVKService, s.Namespace, s.StableServiceName()); o != nil {
		b.ServiceSelector = o.(*corev1.Service).Spec.Selector
	}
	if o := w.Get(GVKIngress, s.Namespace, s.IngressName()); o != nil {
		b.IngressSpec = normalizedSpec(o)
		b.IngressAnn = o.GetAnnotations()
	}
	if o := w.Get(GVKHTTPRoute, s.Namespace, s.RouteName()); o != nil {
		b.RouteRules = routeShares(o.(*gatewayv1beta1.HTTPRoute))
	}
	switch s.Workload {
	case "cloneset":
		if o := w.Get(GVKCloneSet, s.Namespace, s.Name); o != nil {
			cs := o.(*kruisev1alpha1.CloneSet)
			b.WorkloadPaused = cs.Spec.UpdateStrategy.Paused
		}
	default:
		if o := w.Get(GVKDeployment, s.Namespace, s.Name); o != nil {
			d := o.(*appsv1.Deployment)
			b.WorkloadPaused = d.Spec.Paused
			b.DeployStrategy = normalizedAny(d.Spec.Strategy)
			b.MinReadySeconds = d.Spec.MinReadySeconds
			b.ProgressDeadline = d.Spec.ProgressDeadlineSeconds
		}
	}
	if o := w.Get(GVKHPA, s.Namespace, s.Name+"-hpa"); o != nil {
		b.HPATarget = hpaTarget(o)
	}
	return b
}

func hpaTarget(o client.Object) string {
	m, _ := toMapAny(o)
	spec, _ := m["spec"].(map[string]any)
	ref, _ := spec["scaleTargetRef"].(map[string]any)
	name, _ := ref["name"].(string)
	return name
}

func normalizedSpec(o any) any {
	m, _ := toMapAny(o)
	return m["spec"]
}

func normalizedAny(o any) any {
	m, _ := toMapAny(struct {
		X any `json:"x"`
	}{o})
	return m["x"]
}

func toMapAny(o any) (map[string]any, error) {
	if ro, ok := o.(interface{ DeepCopyObject() any }); ok {
		_ = ro
	}
	data, err := jsonMarshal(o)
	if err != nil {
		return nil, err
	}
	m := map[string]any{}
	err = jsonUnmarshal(data, &m)
	return m, err
}

// routeShares normalises HTTPRoute rules to matches + per-backend traffic shares, so that a
// single backend with weight 1 and weight 100 compare equal (same routing).
func routeShares(r *gatewayv1beta1.HTTPRoute) any {
	var out []any
	for _, rule := range r.Spec.Rules {
		total := 0
		for _, ref := range rule.BackendRefs {
			total += int(pointer.Int32Deref(ref.Weight, 1))
		}
		var refs []string
		for _, ref := range rule.BackendRefs {
			share := 0
			if total > 0 {
				share = int(pointer.Int32Deref(ref.Weight, 1)) * 10000 / total
			}
			refs = append(refs, fmt.Sprintf("%s=%d", ref.Name, share))
		}
		out = append(out, map[string]any{"matches": normalizedAny(rule.Matches), "filters": normalizedAny(rule.Filters), "backends": refs})
	}
	return normalizedAny(out)
}

type stdMonitor struct{ t *Track }

func planned(v intstr.IntOrString, replicas int) int {
	n, _ := intstr.GetScaledValueFromIntOrPercent(&v, replicas, true)
	if n > replicas {
		n = replicas
	}
	if n < 0 {
		n = 0
	}
	return n
}

func (m *stdMonitor) OnWrite(w *World, wr *Write) {
	t := m.t
	s := t.S
	if !s.Owns(w, wr) {
		return
	}
	m.checkCancelOrder(w, wr)
	switch wr.GVK {
	case GVKRollout:
		m.onRollout(w, wr)
	case GVKBatchRelease:
		m.onBatchRelease(w, wr)
	case GVKCloneSet, GVKDeployment:
		m.onWorkload(w, wr)
	case GVKService, GVKIngress, GVKHTTPRoute:
		m.onNetwork(w, wr)
	}
	// C04: evaluated on the store after every single write of every actor
	if s.HasTraffic() {
		m.checkNoVoid(w, wr)
	}
	m.checkFinalizerResidue(w, wr)
}

// ---------- C04 ----------

func (m *stdMonitor) checkNoVoid(w *World, wr *Write) {
	s := m.t.S
	rt := w.ReadRouting(s)
	if rt.ToCanary() && !s.DisableCanarySvc {
		o := w.Get(GVKService, s.Namespace, s.CanaryServiceName())
		switch {
		case o == nil:
			where := "rollout-gone"
			if ro := w.Rollout(s.Namespace, s.Name); ro != nil {
				where = strings.ToLower(string(ro.Status.Phase))
				if ro.Status.Phase == v1beta1.RolloutPhaseProgressing {
					where = strings.ToLower(progressingReason(ro))
				}
			}
			w.Violate("C04", "c04-route-to-missing-canary-service-"+s.Style+"-"+where, "after %s: gateway routes (weight=%d match=%q) to canary Service %s which does not exist", wr, rt.Weight, rt.Match, s.CanaryServiceName())
		case o.GetDeletionTimestamp() != nil:
			w.Violate("C04", "c04-route-to-deleting-canary-service", "after %s: gateway routes to canary Service being deleted", wr)
		default:
			sel := o.(*corev1.Service).Spec.Selector
			ro := w.Rollout(s.Namespace, s.Name)
			canary := ""
			if ro != nil && ro.Status.GetSubStatus() != nil {
				canary = ro.Status.GetSubStatus().PodTemplateHash
			}
			// "selects the new revision": pinned to a revision, and to the one the Rollout
			// records as its canary pod-template-hash (which may equal the stable one in a
			// release that re-publishes the stable template)
			if sel[revKey] == "" || (canary != "" && sel[revKey] != canary) {
				w.Violate("C04", "c04-canary-service-not-selecting-new-revision", "after %s: gateway routes to canary Service whose selector %v does not select the new revision (%s)", wr, sel, canary)
			}
		}
	}
	// stable Service pinned to a revision while it still receives traffic => pods of that revision exist
	if o := w.Get(GVKService, s.Namespace, s.StableServiceName()); o != nil && rt.Weight < 100 {
		sel := o.(*corev1.Service).Spec.Selector
		if rev := sel[revKey]; rev != "" {
			n := 0
			for _, po := range w.ListAll(GVKPod, s.Namespace) {
				p := po.(*corev1.Pod)
				if p.DeletionTimestamp == nil && p.Labels[revKey] == rev && p.Labels["app"] == sel["app"] {
					n++
				}
			}
			if n == 0 && m.workloadReplicas(w) > 0 {
				w.Violate("C04", "c04-stable-service-pinned-to-revision-without-pods"+m.context(w), "after %s: stable Service is pinned to revision %s (canary weight %d%%) but no pod of that revision exists", wr, rev, rt.Weight)
			}
		}
	}
}

// newRevisionHash: the pod-template-hash label the pods of the revision being released carry,
// derived from the workload (CloneSet: its template; canary style: the canary Deployment whose
// template is the workload's current one). "" when it cannot be told.
func (m *stdMonitor) newRevisionHash(w *World) string {
	s := m.t.S
	o := w.workloadObject(s)
	if o == nil {
		return ""
	}
	tpl := templateOf(o)
	if s.Workload == "cloneset" {
		return revisionHash(tpl)
	}
	if s.Style != "canary" {
		return ""
	}
	want, _ := json.Marshal(templateWithoutHash(tpl).Spec)
	for _, d := range w.ListAll(GVKDeployment, s.Namespace) {
		cd := d.(*appsv1.Deployment)
		if cd.Labels[util.CanaryDeploymentLabel] != s.Name || cd.DeletionTimestamp != nil {
			continue
		}
		have, _ := json.Marshal(templateWithoutHash(&cd.Spec.Template).Spec)
		if string(have) == string(want) {
			return k8sTemplateHash(&cd.Spec.Template)
		}
	}
	return ""
}

// context names the circumstances a C04 violation arose in, derived from what the user did since
// the Rollout was last Healthy and from the store, so that different defects behind one
// invariant get different signatures and a listed finding does not mask another one.
func (m *stdMonitor) context(w *World) string {
	t, s := m.t, m.t.S
	ro := w.Rollout(s.Namespace, s.Name)
	third := false
	whole := false
	if ro != nil && ro.Status.GetSubStatus() != nil {
		sub := ro.Status.GetSubStatus()
		for _, po := range w.ListAll(GVKPod, s.Namespace) {
			p := po.(*corev1.Pod)
			if p.DeletionTimestamp == nil && p.Labels["app"] == "demo" && p.Labels[revKey] != sub.StableRevision && p.Labels[revKey] != canaryRevOf(ro) && p.Labels[revKey] != sub.PodTemplateHash {
				third = true
			}
		}
		if steps := stepsOf(ro); int(sub.CurrentStepIndex) >= 1 && int(sub.CurrentStepIndex) <= len(steps) {
			whole = expectedAll(steps[sub.CurrentStepIndex-1], m.workloadReplicas(w))
		}
	}
	switch {
	case t.ChangedWhileFinalising:
		return "-template-change-while-finalising"
	case t.Superseded || third:
		return "-superseded-release"
	case whole && t.Scaled:
		return "-whole-workload-step-after-scale"
	case whole:
		return "-whole-workload-step"
	case t.Scaled:
		return "-after-scale"
	}
	return "-plain"
}

func (m *stdMonitor) workloadReplicas(w *World) int {
	s := m.t.S
	if s.Workload == "cloneset" {
		if o := w.Get(GVKCloneSet, s.Namespace, s.Name); o != nil {
			return int(pointer.Int32Deref(o.(*kruisev1alpha1.CloneSet).Spec.Replicas, 0))
		}
		return 0
	}
	if o := w.Get(GVKDeployment, s.Namespace, s.Name); o != nil {
		return int(pointer.Int32Deref(o.(*appsv1.Deployment).Spec.Replicas, 0))
	}
	return 0
}

// ---------- C18 ----------

// residue: what a Rollout's cleanup must have removed before its finalizer goes away.
func (w *World) Residue(s Scenario) []string {
	var out []string
	if s.HasTraffic() {
		rt := w.ReadRouting(s)
		if !s.DisableCanarySvc {
			if rt.ToCanary() {
				out = append(out, fmt.Sprintf("gateway still routes to canary (weight=%d match=%q)", rt.Weight, rt.Match))
			}
			if rt.RefsCanary {
				out = append(out, "gateway object still references the canary Service")
			}
			if o := w.Get(GVKService, s.Namespace, s.CanaryServiceName()); o != nil {
				out = append(out, "canary Service still exists")
			}
		}
		if s.Provider == "ingress-nginx" {
			if o := w.Get(GVKIngress, s.Namespace, s.IngressName()+"-canary"); o != nil {
				out = append(out, "canary Ingress still exists")
			}
		}
		if o := w.Get(GVKService, s.Namespace, s.StableServiceName()); o != nil {
			if rev := o.(*corev1.Service).Spec.Selector[revKey]; rev != "" {
				out = append(out, "stable Service still pinned to revision "+rev)
			}
		}
	}
	var wl interface{ GetAnnotations() map[string]string }
	if s.Workload == "cloneset" {
		if o := w.Get(GVKCloneSet, s.Namespace, s.Name); o != nil {
			wl = o
		}
	} else if o := w.Get(GVKDeployment, s.Namespace, s.Name); o != nil {
		wl = o
	}
	if wl != nil {
		if _, ok := wl.GetAnnotations()[util.InRolloutProgressingAnnotation]; ok {
			out = append(out, "workload still carries the in-progressing annotation")
		}
		if _, ok := wl.GetAnnotations()[util.BatchReleaseControlAnnotation]; ok {
			out = append(out, "workload still carries the BatchRelease control-info annotation")
		}
	}
	if br := w.BatchRelease(s.Namespace, s.Name); br != nil {
		out = append(out, "BatchRelease still exists")
	}
	for _, o := range w.ListAll(GVKDeployment, s.Namespace) {
		// a canary Deployment whose BatchRelease owner is gone and whose finalizer has been
		// removed is already handed to the garbage collector
		// (a canary Deployment still holding the BatchRelease's protection finalizer once that
		// BatchRelease is gone can never be collected, being deleted or not)
		if o.GetLabels()[util.CanaryDeploymentLabel] == s.Name && hasFinalizer(o, util.CanaryDeploymentFinalizer) {
			out = append(out, "canary Deployment "+o.GetName()+" still exists and holds its finalizer")
		}
	}
	return out
}

func hasFinalizer(o interface{ GetFinalizers() []string }, f string) bool {
	for _, x := range o.GetFinalizers() {
		if x == f {
			return true
		}
	}
	return false
}

// batchReleaseFinalizer is batchrelease.ReleaseFinalizer.
const batchReleaseFinalizer = "rollouts.kruise.io/batch-release-finalizer"

// checkBatchReleaseFinalizer: the BatchRelease controller drops its own finalizer only after the
// workload was released and the canary Deployments it created were released for collection.
func (m *stdMonitor) checkBatchReleaseFinalizer(w *World, wr *Write) {
	s := m.t.S
	if wr.GVK != GVKBatchRelease || wr.Before == nil || !hasFinalizer(wr.Before, batchReleaseFinalizer) {
		return
	}
	if wr.After != nil && hasFinalizer(wr.After, batchReleaseFinalizer) {
		return
	}
	m.t.BRFinalizerDrops++
	var res []string
	for _, o := range w.ListAll(GVKDeployment, s.Namespace) {
		if o.GetLabels()[util.CanaryDeploymentLabel] == s.Name && hasFinalizer(o, util.CanaryDeploymentFinalizer) {
			res = append(res, "canary Deployment "+o.GetName()+" still holds "+util.CanaryDeploymentFinalizer)
		}
	}
	if o := w.workloadObject(s); o != nil {
		if v, ok := o.GetAnnotations()[util.BatchReleaseControlAnnotation]; ok && strings.Contains(v, string(wr.Before.GetUID())) {
			res = append(res, "workload still carries this BatchRelease's control-info annotation")
		}
	}
	if len(res) > 0 {
		w.Violate("C18", "c18-batchrelease-finalizer-removed-with-residue", "%s removed the BatchRelease finalizer while its cleanup is incomplete: %s", wr, strings.Join(res, "; "))
	}
}

func (m *stdMonitor) checkFinalizerResidue(w *World, wr *Write) {
	s := m.t.S
	m.checkBatchReleaseFinalizer(w, wr)
	if wr.GVK != GVKRollout || wr.Before == nil {
		return
	}
	before := wr.Before.(*v1beta1.Rollout)
	if before.DeletionTimestamp == nil && (wr.After == nil || wr.After.GetDeletionTimestamp() == nil) {
		return
	}
	hadFin := hasFinalizer(before, util.KruiseRolloutFinalizer)
	hasFin := wr.After != nil && hasFinalizer(wr.After, util.KruiseRolloutFinalizer)
	if hadFin && !hasFin {
		if res := w.Residue(s); len(res) > 0 {
			w.Violate("C18", "c18-rollout-finalizer-removed-with-residue", "%s removed the Rollout finalizer while cleanup is incomplete: %s", wr, strings.Join(res, "; "))
		}
	}
}

// ---------- C10: rollback / supersession ----------

func (w *World) workloadObject(s Scenario) client.Object {
	if s.Workload == "cloneset" {
		if o := w.Get(GVKCloneSet, s.Namespace, s.Name); o != nil {
			return o
		}
		return nil
	}
	if o := w.Get(GVKDeployment, s.Namespace, s.Name); o != nil {
		return o
	}
	return nil
}

// armCancel classifies a user's template change. While the Rollout is Healthy the template
// being replaced is the stable one; while it is progressing the new template is a rollback (equal
// to the stable template), a return to the revision being released, or a supersession.
func (m *stdMonitor) armCancel(w *World, wr *Write, bt, at *corev1.PodTemplateSpec) {
	t, s := m.t, m.t.S
	ro := w.Rollout(s.Namespace, s.Name)
	if ro == nil || ro.DeletionTimestamp != nil || ro.Spec.Disabled {
		t.Cancel = nil
		return
	}
	switch ro.Status.Phase {
	case v1beta1.RolloutPhaseHealthy:
		if !t.pendingRelease {
			t.StableTpl = bt.DeepCopy()
			t.pendingRelease = true
		}
		t.Cancel = nil
		return
	case v1beta1.RolloutPhaseProgressing:
	default:
		t.Cancel = nil
		return
	}
	reason := progressingReason(ro)
	if reason != v1alpha1.ProgressingReasonInRolling && reason != v1alpha1.ProgressingReasonPaused {
		// initialising, or one of the finalising sequences is already running: which sequence the
		// controller continues with is not what this property fixes
		t.Cancel = nil
		t.cancelUnjudged = true
		return
	}
	if t.cancelUnjudged || t.StableTpl == nil || t.CanaryTpl == nil {
		t.Cancel = nil
		return
	}
	kind := "supersede"
	recordedStable := false
	if sub := ro.Status.GetSubStatus(); sub != nil {
		if s.Workload == "cloneset" {
			recordedStable = revisionHash(at) == sub.StableRevision
		} else {
			recordedStable = k8sTemplateHash(templateWithoutHash(at)) == sub.StableRevision
		}
	}
	switch {
	case reflect.DeepEqual(at.Spec, t.StableTpl.Spec) != recordedStable:
		// the template last seen Healthy and the revision the Rollout records as stable differ (a
		// superseding release on a fully updated workload moves the recorded stable revision):
		// which of the two "its stable revision" means is not for this monitor to decide
		t.Cancel = nil
		t.cancelUnjudged = true
		return
	case recordedStable:
		kind = "rollback"
	case reflect.DeepEqual(at.Spec, t.CanaryTpl.Spec):
		// back to the revision being released (the controller may or may not have seen the detour)
		if t.Cancel != nil && !t.Cancel.Cancelling {
			t.Cancel = nil
		}
		return
	}
	rt := w.ReadRouting(s)
	t.Cancel = &CancelState{Kind: kind, HadTraffic: s.HasTraffic() && !s.DisableCanarySvc && rt.ToCanary(), Seq: wr.Seq, CanaryRev: canaryRevOf(ro), Reason: reason,
		NewPods: w.PodsOfRevision(s, canaryRevOf(ro))}
	if sub := ro.Status.GetSubStatus(); sub != nil {
		t.Cancel.StablePods = w.PodsOfRevision(s, sub.StableRevision)
	}
	t.Cancels++
	if t.Cancel.HadTraffic {
		t.CancelsHot++
	}
}

// checkCancelOrder: once a rollback / supersession is in flight, every write that removes
// new-revision pods or hands the workload back to its native controller must find the gateway
// already free of any canary share.
func (m *stdMonitor) checkCancelOrder(w *World, wr *Write) {
	t, s := m.t, m.t.S
	c := t.Cancel
	if c != nil && c.Kind == "supersede" && s.Style == "bluegreen" {
		return // judged by the refusal oracle in onWorkload
	}
	if c == nil || !c.HadTraffic || wr.Actor == ActorUser || wr.Actor == ActorEnv || wr.Actor == ActorGC || wr.Actor == ActorHarness {
		return
	}
	event := ""
	ann := func(o client.Object, k string) bool {
		if o == nil {
			return false
		}
		_, ok := o.GetAnnotations()[k]
		return ok
	}
	switch wr.GVK {
	case GVKBatchRelease:
		if wr.Before == nil {
			return
		}
		if wr.Verb == "delete" || (wr.After != nil && wr.After.GetDeletionTimestamp() != nil && wr.Before.GetDeletionTimestamp() == nil) {
			event = "batchrelease-deleted"
		} else if wr.After != nil && wr.Verb != "status" {
			b, a := wr.Before.(*v1beta1.BatchRelease), wr.After.(*v1beta1.BatchRelease)
			if b.Spec.ReleasePlan.BatchPartition != nil && a.Spec.ReleasePlan.BatchPartition == nil {
				event = "batchrelease-unpartitioned"
			}
		}
	case GVKCloneSet, GVKDeployment:
		if wr.Before == nil || wr.Verb == "status" {
			return
		}
		if wr.Before.GetLabels()[util.CanaryDeploymentLabel] == s.Name {
			switch {
			case wr.Verb == "delete" || wr.After == nil || (wr.After.GetDeletionTimestamp() != nil && wr.Before.GetDeletionTimestamp() == nil):
				event = "canary-deployment-deleted"
			case pointer.Int32Deref(*replicasPtr(wr.After), 0) < pointer.Int32Deref(*replicasPtr(wr.Before), 0):
				event = "canary-deployment-scaled-down"
			}
			break
		}
		if wr.Key.Name != s.Name || wr.After == nil {
			return
		}
		switch {
		case ann(wr.Before, util.BatchReleaseControlAnnotation) && !ann(wr.After, util.BatchReleaseControlAnnotation):
			event = "workload-control-released"
		// (dropping the in-progressing marker alone hands nothing back: the workload stays paused /
		// partitioned under the BatchRelease's control-info)
		case workloadPaused(wr.Before) && !workloadPaused(wr.After):
			event = "workload-resumed"
		}
	}
	if event == "" {
		return
	}
	t.HandBacks++
	if rt := w.ReadRouting(s); rt.ToCanary() {
		w.Violate("C10", "c10-"+event+"-before-traffic-back-on-stable-"+c.Kind, "%s (%s) while the gateway still routes to the canary (weight=%d match=%q); the user's %s was written at #%d during Progressing/%s",
			wr, event, rt.Weight, rt.Match, c.Kind, c.Seq, c.Reason)
	}
}

// canaryRevOf is Status.GetCanaryRevision without its nil dereference on an empty status.
func canaryRevOf(ro *v1beta1.Rollout) string {
	if ro == nil || ro.Status.GetSubStatus() == nil {
		return ""
	}
	return ro.Status.GetCanaryRevision()
}

func compactJSON(v any) string {
	b, _ := json.Marshal(v)
	return string(b)
}

func workloadPaused(o client.Object) bool {
	switch t := o.(type) {
	case *kruisev1alpha1.CloneSet:
		return t.Spec.UpdateStrategy.Paused
	case *appsv1.Deployment:
		return t.Spec.Paused
	}
	return false
}

// onRolloutCancel: status writes of the Rollout controller judged against the cancel in flight.
func (m *stdMonitor) onRolloutCancel(w *World, wr *Write, before, after *v1beta1.Rollout) {
	t, s := m.t, m.t.S
	// the template the controller records as canary revision
	if canaryRevOf(after) != "" && (before == nil || canaryRevOf(before) != canaryRevOf(after)) {
		if o := w.workloadObject(s); o != nil {
			t.CanaryTpl = templateOf(o).DeepCopy()
		}
	}
	if after.Status.Phase == v1beta1.RolloutPhaseHealthy && (before == nil || before.Status.Phase != v1beta1.RolloutPhaseHealthy) {
		t.pendingRelease = false
		t.cancelUnjudged = false
		t.Superseded, t.Scaled, t.ChangedWhileFinalising = false, false, false
		t.RequestState = ""
		t.EditedUpgradedStep = false
		if o := w.workloadObject(s); o != nil {
			t.StableTpl = templateOf(o).DeepCopy()
		}
	}
	c := t.Cancel
	if c == nil || before == nil {
		return
	}
	br, ar := progressingReason(before), progressingReason(after)
	if ar == v1alpha1.ProgressingReasonCancelling {
		c.Cancelling = true
	}
	switch c.Kind {
	case "rollback":
		// the progressing condition leaves Cancelling / or the rollout becomes Healthy: reported as not succeeded
		if after.Status.Phase == v1beta1.RolloutPhaseProgressing && br != ar && ar == v1alpha1.ProgressingReasonCompleted {
			t.RolledBacks++
			cond := util.GetRolloutCondition(after.Status, v1beta1.RolloutConditionSucceeded)
			if cond == nil || cond.Status != corev1.ConditionFalse {
				sig := "c10-rollback-not-reported-as-failed"
				if !c.Cancelling {
					// the Rollout never showed Progressing/Cancelling: the revert was not recognised
					sig = "c10-rollback-not-recognised-" + s.Workload
				}
				w.Violate("C10", sig, "%s: the release was rolled back (user write #%d, %d new-revision and %d stable pods existed) and its progress ended (%s -> %s) without Succeeded=False (condition: %+v)", wr, c.Seq, c.NewPods, c.StablePods, br, ar, cond)
			}
			t.Cancel = nil
		}
	case "supersede":
		if canaryRevOf(after) != "" && canaryRevOf(after) != c.CanaryRev && after.Status.Phase == v1beta1.RolloutPhaseProgressing {
			t.Restarts++
			sub := after.Status.GetSubStatus()
			if sub.CurrentStepIndex != 1 || (sub.CurrentStepState != v1beta1.CanaryStepStateInit && sub.CurrentStepState != v1beta1.CanaryStepStateUpgrade && sub.CurrentStepState != "") {
				w.Violate("C10", "c10-supersession-not-restarted-at-step-one", "%s: a newer revision superseded the release (user write #%d) and the Rollout records it at step %d/%s instead of restarting at step 1", wr, c.Seq, sub.CurrentStepIndex, sub.CurrentStepState)
			}
			t.Cancel = nil
		}
	}
}

// ---------- Rollout status transitions: C02, C03(O2), C10 ----------

func stepsOf(ro *v1beta1.Rollout) []v1beta1.CanaryStep { return ro.Spec.Strategy.GetSteps() }

func progressingReason(ro *v1beta1.Rollout) string {
	if c := util.GetRolloutCondition(ro.Status, v1beta1.RolloutConditionProgressing); c != nil {
		return c.Reason
	}
	return ""
}

func (m *stdMonitor) onRollout(w *World, wr *Write) {
	t := m.t
	if wr.After == nil {
		return
	}
	after := wr.After.(*v1beta1.Rollout)
	var before *v1beta1.Rollout
	if wr.Before != nil {
		before = wr.Before.(*v1beta1.Rollout)
	}
	// user writes arm requests
	if wr.Actor == ActorUser && before != nil {
		if !before.Spec.Strategy.Paused && after.Spec.Strategy.Paused {
			t.PausedSince = wr.Seq
			t.LastDisturbance = "pause"
		}
		if before.Spec.Strategy.Paused && !after.Spec.Strategy.Paused {
			t.PausedSince = 0
		}
		bs, as := before.Status.GetSubStatus(), after.Status.GetSubStatus()
		if bs != nil && as != nil {
			if bs.CurrentStepState == v1beta1.CanaryStepStatePaused && as.CurrentStepState == v1beta1.CanaryStepStateReady {
				t.ApprovedStep = as.CurrentStepIndex
			}
			if bs.NextStepIndex != as.NextStepIndex {
				if !t.OutstandingReq {
					t.RequestState = ""
				}
				t.OutstandingReq = true
				t.EpochBreak = true
				t.LastDisturbance = "jump"
			}
		}
		if !reflect.DeepEqual(before.Spec.Strategy, after.Spec.Strategy) {
			// plan edit (hash change) or pause toggle
			if !reflect.DeepEqual(stepsOf(before), stepsOf(after)) {
				if bs := before.Status.GetSubStatus(); bs != nil {
					k := int(bs.CurrentStepIndex)
					bsteps, asteps := stepsOf(before), stepsOf(after)
					if k >= 1 && k <= len(bsteps) && k <= len(asteps) && !reflect.DeepEqual(bsteps[k-1].Replicas, asteps[k-1].Replicas) &&
						bs.CurrentStepState != v1beta1.CanaryStepStateInit && bs.CurrentStepState != v1beta1.CanaryStepStateUpgrade {
						t.EditedUpgradedStep = true
					}
				}
				if !t.OutstandingReq {
					t.RequestState = ""
				}
				t.OutstandingReq = true
				t.EpochBreak = true
				t.LastDisturbance = "plan-edit"
			}
		}
		if before.Spec.Disabled != after.Spec.Disabled || (before.DeletionTimestamp == nil && after.DeletionTimestamp != nil) {
			t.OutstandingReq = true
			t.EpochBreak = true
			t.LastDisturbance = "disable"
			if after.DeletionTimestamp != nil {
				t.LastDisturbance = "delete"
			}
		}
		return
	}
	if wr.Actor != ActorRollout {
		return
	}
	m.onRolloutCancel(w, wr, before, after)
	if before == nil {
		return
	}
	bs, as := before.Status.GetSubStatus(), after.Status.GetSubStatus()
	if as == nil {
		return
	}
	bIdx, bState := int32(0), v1beta1.CanaryStepState("")
	if bs != nil {
		bIdx, bState = bs.CurrentStepIndex, bs.CurrentStepState
	}
	aIdx, aState := as.CurrentStepIndex, as.CurrentStepState
	inRolling := after.Status.Phase == v1beta1.RolloutPhaseProgressing && progressingReason(before) == v1alpha1.ProgressingReasonInRolling
	steps := stepsOf(after)

	// --- paused: no rolling progress by a reconcile that began after the pause was persisted
	if t.PausedSince > 0 && t.PausedSince <= t.ReconcileStart && inRolling && progressingReason(after) != v1alpha1.ProgressingReasonCancelling {
		if aIdx != bIdx || (aState != bState && progressingReason(after) == v1alpha1.ProgressingReasonInRolling) {
			w.Violate("C02", "c02-progress-while-paused", "%s: step cursor moved (%d/%s -> %d/%s) although spec.strategy.paused was persisted at write #%d before this reconcile began (#%d)", wr, bIdx, bState, aIdx, aState, t.PausedSince, t.ReconcileStart)
		}
	}

	if !inRolling || bs == nil {
		if aIdx != bIdx || aState != bState {
			t.StepIndex, t.StepState = aIdx, aState
			if aIdx != bIdx {
				t.ApprovedStep = 0
			}
		}
		return
	}

	// the sub-state in which the controller found the step when it acted on a jump / plan edit
	// (the first such write after the request(s): a plan edit may turn an unfinished step Ready and
	// the jump then finds it "finished")
	if t.OutstandingReq && t.RequestState == "" && (aIdx != bIdx || (aState != bState && !legalSubStateMove(bState, aState))) && progressingReason(after) == v1alpha1.ProgressingReasonInRolling {
		t.RequestState = bState
	}

	// --- leaving StepTrafficRouting: C03 O2 (the configured share equals the step's value)
	if bState == v1beta1.CanaryStepStateTrafficRouting && aState != bState && aIdx == bIdx && int(bIdx) >= 1 && int(bIdx) <= len(steps) && progressingReason(after) == v1alpha1.ProgressingReasonInRolling {
		st := steps[bIdx-1]
		// C02 only needs the step to have passed through traffic routing; whether the share is
		// exactly the step's value is C03's oracle.
		t.RoutedOK[bIdx] = true
		if t.S.HasTraffic() && (st.Traffic != nil || len(st.Matches) > 0) {
			m.checkRouted(w, wr, after, bIdx, st)
		}
	}

	// --- step cursor changes
	if aIdx != bIdx && progressingReason(after) == v1alpha1.ProgressingReasonInRolling {
		sequential := aIdx == bIdx+1 && bState == v1beta1.CanaryStepStateReady
		if sequential && !t.OutstandingReq {
			m.checkAdvance(w, wr, after, bIdx)
			t.RequestState = "" // the step reached by the last request has been left in order
			t.EditedUpgradedStep = false
		} else if !t.OutstandingReq && !sequential {
			w.Violate("C02", "c02-cursor-moved-without-request", "%s: step cursor moved %d/%s -> %d/%s without an explicit user request", wr, bIdx, bState, aIdx, aState)
		}
		t.OutstandingReq = false
		t.ApprovedStep = 0
		t.EpochBreak = t.EpochBreak || aIdx < bIdx
	}
	// completion of the last step
	if aState == v1beta1.CanaryStepStateCompleted && bState != aState && aIdx == bIdx && progressingReason(after) == v1alpha1.ProgressingReasonInRolling {
		if !t.OutstandingReq {
			m.checkAdvance(w, wr, after, bIdx)
		}
	}
	// sub-state order within a step (no skipping over Upgrade / TrafficRouting / Paused)
	if aIdx == bIdx && aState != bState && progressingReason(after) == v1alpha1.ProgressingReasonInRolling && !t.OutstandingReq {
		if !legalSubStateMove(bState, aState) {
			// an approval is a user write; controller-only moves must follow the order
			w.Violate("C02", "c02-substate-order", "%s: step %d sub-state moved %s -> %s", wr, bIdx, bState, aState)
		}
	}
	if aIdx != bIdx || aState != bState {
		t.StepIndex, t.StepState = aIdx, aState
	}
}

func legalSubStateMove(from, to v1beta1.CanaryStepState) bool {
	order := []v1beta1.CanaryStepState{v1beta1.CanaryStepStateInit, v1beta1.CanaryStepStateUpgrade, v1beta1.CanaryStepStateTrafficRouting,
		v1beta1.CanaryStepStateMetricsAnalysis, v1beta1.CanaryStepStatePaused, v1beta1.CanaryStepStateReady, v1beta1.CanaryStepStateCompleted}
	idx := func(s v1beta1.CanaryStepState) int {
		for i, x := range order {
			if x == s {
				return i
			}
		}
		return -1
	}
	f, tt := idx(from), idx(to)
	if f < 0 || tt < 0 {
		return true // unknown states are not judged
	}
	if tt == f+1 {
		return true
	}
	// documented shortcuts: Upgrade -> MetricsAnalysis (100% partition step skips TrafficRouting,
	// done in StepInit); Init -> Upgrade is f+1
	if from == v1beta1.CanaryStepStateUpgrade && to == v1beta1.CanaryStepStateMetricsAnalysis {
		return true
	}
	// StepInit falls through to StepUpgrade in the same reconcile: when the BatchRelease already
	// reports the step's batch ready (a step re-entered after a jump back), one status write
	// carries Init -> Upgrade -> TrafficRouting (or -> MetricsAnalysis for the shortcut above).
	// Whether the batch really was ready is checkAdvance's business.
	if from == v1beta1.CanaryStepStateInit && (to == v1beta1.CanaryStepStateTrafficRouting || to == v1beta1.CanaryStepStateMetricsAnalysis) {
		return true
	}
	return false
}

// checkAdvance: leaving step k for k+1 (or completing the last step) requires readiness
// reported, routing applied and the pause satisfied.
func (m *stdMonitor) checkAdvance(w *World, wr *Write, ro *v1beta1.Rollout, k int32) {
	t := m.t
	steps := stepsOf(ro)
	if int(k) < 1 || int(k) > len(steps) {
		return
	}
	st := steps[k-1]
	if !m.readyFor(w, ro, k) && m.workloadReplicas(w) > 0 {
		w.Violate("C02", "c02-advance-without-ready", "%s: left step %d although the BatchRelease never reported that step's batch Ready", wr, k)
	}
	if t.S.HasTraffic() && (st.Traffic != nil || len(st.Matches) > 0) && !t.RoutedOK[k] {
		if !(expectedAll(st, m.workloadReplicas(w)) && v1beta1.IsRealPartition(ro)) {
			w.Violate("C02", "c02-advance-without-routing", "%s: left step %d although its traffic rule was never verified as applied", wr, k)
		}
	}
	last := int(k) == len(steps)
	auto := st.Pause.Duration != nil || (last && st.Replicas != nil && st.Replicas.StrVal == "100%")
	if !auto && t.ApprovedStep != k {
		w.Violate("C02", "c02-advance-without-approval", "%s: left step %d (manual pause) without a user approval in this visit", wr, k)
	}
}

// readyFor: the pods step k asks for were reported ready, either for that step index or, after
// a plan edit the BatchRelease has not been told about yet, as a number of ready new-revision
// pods at least as large.
func (m *stdMonitor) readyFor(w *World, ro *v1beta1.Rollout, k int32) bool {
	t := m.t
	if t.ReadySeen[k] {
		return true
	}
	steps := stepsOf(ro)
	if int(k) < 1 || int(k) > len(steps) || steps[k-1].Replicas == nil {
		return false
	}
	return t.MaxReadyPods > 0 && planned(*steps[k-1].Replicas, m.workloadReplicas(w)) <= t.MaxReadyPods
}

func expectedAll(st v1beta1.CanaryStep, replicas int) bool {
	if st.Replicas == nil {
		return false
	}
	n, _ := intstr.GetScaledValueFromIntOrPercent(st.Replicas, replicas, true)
	return n >= replicas
}

func wantRouting(st v1beta1.CanaryStep) (weight int, match string) {
	if len(st.Matches) > 0 {
		if len(st.Matches[0].Headers) > 0 {
			switch string(st.Matches[0].Headers[0].Name) {
			case "user-agent":
				return 0, "header"
			case "x-canary":
				return 0, "header2"
			}
		}
		return 0, "other"
	}
	if st.Traffic != nil {
		is := intstr.FromString(*st.Traffic)
		n, _ := intstr.GetScaledValueFromIntOrPercent(&is, 100, true)
		return n, ""
	}
	return 0, ""
}

func (m *stdMonitor) checkRouted(w *World, wr *Write, ro *v1beta1.Rollout, k int32, st v1beta1.CanaryStep) {
	t := m.t
	s := t.S
	rt := w.ReadRouting(s)
	wantW, wantM := wantRouting(st)
	ok := true
	if s.DisableCanarySvc {
		// canary Service == stable Service: only the rule itself can be judged
		ok = rt.Exists
	} else if rt.Weight != wantW || rt.Match != wantM {
		ok = false
		w.Violate("C03", "c03-routed-share-differs", "%s: step %d reported as routed but the gateway carries weight=%d match=%q, step wants weight=%d match=%q", wr, k, rt.Weight, rt.Match, wantW, wantM)
	}
	if !s.DisableCanarySvc {
		sub := ro.Status.GetSubStatus()
		if o := w.Get(GVKService, s.Namespace, s.CanaryServiceName()); o == nil {
			ok = false
			w.Violate("C03", "c03-routed-without-canary-service", "%s: step %d reported as routed but the canary Service does not exist", wr, k)
		} else if sel := o.(*corev1.Service).Spec.Selector; sel[revKey] != sub.PodTemplateHash || sub.PodTemplateHash == "" {
			ok = false
			w.Violate("C03", "c03-canary-service-selector", "%s: step %d routed but canary Service selects %q, canary revision is %q", wr, k, sel[revKey], sub.PodTemplateHash)
		}
		if o := w.Get(GVKService, s.Namespace, s.StableServiceName()); o != nil {
			if sel := o.(*corev1.Service).Spec.Selector; sel[revKey] != sub.StableRevision {
				ok = false
				w.Violate("C03", "c03-stable-service-not-pinned", "%s: step %d routed but stable Service selects %q, stable revision is %q", wr, k, sel[revKey], sub.StableRevision)
			}
		}
	}
	_ = ok
}

// ---------- BatchRelease: C01(c), readiness bookkeeping ----------

func (m *stdMonitor) onBatchRelease(w *World, wr *Write) {
	t := m.t
	s := t.S
	if wr.After == nil {
		return
	}
	br := wr.After.(*v1beta1.BatchRelease)
	if string(br.UID) != t.BRUID {
		t.BRUID = string(br.UID)
		t.ReadySeen = map[int32]bool{}
		t.MaxReadyPods = 0
		t.LastExposure = -1
	}
	ro := w.Rollout(s.Namespace, s.Name)
	switch wr.Actor {
	case ActorBatchRelease:
		if wr.Verb == "status" && br.Status.CanaryStatus.CurrentBatchState == v1beta1.ReadyBatchState &&
			br.Status.ObservedGeneration == br.Generation && br.Status.ObservedReleasePlanHash == util.HashReleasePlanBatches(&br.Spec.ReleasePlan) {
			for k := int32(1); k <= br.Status.CanaryStatus.CurrentBatch+1; k++ {
				t.ReadySeen[k] = true
			}
			if cb := int(br.Status.CanaryStatus.CurrentBatch); cb < len(br.Spec.ReleasePlan.Batches) {
				if n := planned(br.Spec.ReleasePlan.Batches[cb].CanaryReplicas, m.workloadReplicas(w)); n > t.MaxReadyPods {
					t.MaxReadyPods = n
				}
			}
			// equal-replica steps: readiness of an earlier step with the same planned replicas carries over
			if ro != nil {
				steps := stepsOf(ro)
				cb := int(br.Status.CanaryStatus.CurrentBatch)
				for i := range steps {
					if cb < len(steps) && steps[i].Replicas != nil && steps[cb].Replicas != nil && reflect.DeepEqual(steps[i].Replicas, steps[cb].Replicas) {
						t.ReadySeen[int32(i+1)] = true
					}
				}
			}
		}
	case ActorRollout:
		if wr.Verb == "status" || ro == nil || br.DeletionTimestamp != nil {
			return
		}
		// a changed batch list invalidates earlier readiness reports (the BatchRelease recalculates)
		if old, ok := wr.Before.(*v1beta1.BatchRelease); ok && old != nil && !reflect.DeepEqual(old.Spec.ReleasePlan.Batches, br.Spec.ReleasePlan.Batches) {
			t.ReadySeen = map[int32]bool{}
		}
		sub := ro.Status.GetSubStatus()
		if sub == nil {
			return
		}
		steps := stepsOf(ro)
		// the plan the BatchRelease holds is the Rollout's plan (judged on the writes that carry
		// the whole spec: create / update by runBatchRelease; merge patches of single fields such
		// as rolloutID or batchPartition:null do not restate the plan)
		if wr.Verb == "patch" {
			// fallthrough to the partition checks below
		} else if len(br.Spec.ReleasePlan.Batches) != len(steps) {
			w.Violate("C01", "c01-batchrelease-plan-differs", "%s: BatchRelease has %d batches, Rollout has %d steps", wr, len(br.Spec.ReleasePlan.Batches), len(steps))
		} else {
			for i := range steps {
				if steps[i].Replicas != nil && br.Spec.ReleasePlan.Batches[i].CanaryReplicas != *steps[i].Replicas {
					w.Violate("C01", "c01-batchrelease-plan-differs", "%s: batch %d is %s, step is %s", wr, i, br.Spec.ReleasePlan.Batches[i].CanaryReplicas.String(), steps[i].Replicas.String())
				}
			}
		}
		if bp := br.Spec.ReleasePlan.BatchPartition; bp != nil && progressingReason(ro) == v1alpha1.ProgressingReasonInRolling {
			if *bp > sub.CurrentStepIndex-1 {
				w.Violate("C01", "c01-batchpartition-ahead-of-step", "%s: batchPartition=%d but the persisted current step is %d", wr, *bp, sub.CurrentStepIndex)
			}
			// C02: a raise of batchPartition while paused
			var old *v1beta1.BatchRelease
			if wr.Before != nil {
				old = wr.Before.(*v1beta1.BatchRelease)
			}
			if old != nil && old.Spec.ReleasePlan.BatchPartition != nil && *bp > *old.Spec.ReleasePlan.BatchPartition &&
				t.PausedSince > 0 && t.PausedSince <= t.ReconcileStart {
				w.Violate("C02", "c02-batchpartition-raised-while-paused", "%s: batchPartition raised %d -> %d while the rollout is paused", wr, *old.Spec.ReleasePlan.BatchPartition, *bp)
			}
		}
	}
}

// ---------- workload knob writes: C01 exposure bound, C03(O3), C10 ----------

func (m *stdMonitor) exposure(w *World, obj any) (exp int, replicas int, ok bool) {
	s := m.t.S
	switch o := obj.(type) {
	case *kruisev1alpha1.CloneSet:
		if o.Name != s.Name {
			return 0, 0, false
		}
		n := int(pointer.Int32Deref(o.Spec.Replicas, 0))
		keep := scaledRoundUp(o.Spec.UpdateStrategy.Partition, n, 0)
		if keep > n {
			keep = n
		}
		return n - keep, n, true
	case *appsv1.Deployment:
		if o.Labels[util.CanaryDeploymentLabel] == s.Name {
			n := m.workloadReplicas(w)
			return int(pointer.Int32Deref(o.Spec.Replicas, 0)), n, true
		}
		// blue-green: the Deployment itself, un-paused with maxUnavailable 0 and pods that never
		// become available, runs maxSurge pods of the new revision
		if s.Style == "bluegreen" && o.Name == s.Name {
			n := int(pointer.Int32Deref(o.Spec.Replicas, 0))
			if _, ok := o.Annotations[util.BatchReleaseControlAnnotation]; !ok || o.Spec.Paused || o.Spec.Strategy.RollingUpdate == nil {
				return 0, n, true
			}
			surge := scaledRoundUp(o.Spec.Strategy.RollingUpdate.MaxSurge, n, 0)
			if surge > n {
				surge = n
			}
			return surge, n, true
		}
	}
	return 0, 0, false
}

func (m *stdMonitor) onWorkload(w *World, wr *Write) {
	t := m.t
	s := t.S
	if wr.After == nil {
		return
	}
	if wr.Actor == ActorUser {
		t.EpochBreak = true
		t.MaxReadyPods = 0 // size or template changed (or may have)
		if wr.Before != nil {
			if bt, at := templateOf(wr.Before), templateOf(wr.After); bt != nil && at != nil && !reflect.DeepEqual(bt.Spec, at.Spec) {
				if t.Released {
					t.LastDisturbance = "template-change"
				}
				t.Released = true
				if ro := w.Rollout(s.Namespace, s.Name); ro != nil && ro.Status.Phase == v1beta1.RolloutPhaseProgressing {
					t.Superseded = true
					if r := progressingReason(ro); r == v1alpha1.ProgressingReasonCancelling || r == v1alpha1.ProgressingReasonFinalising {
						t.ChangedWhileFinalising = true
					}
				}
			} else if rb, ra := replicasPtr(wr.Before), replicasPtr(wr.After); rb != nil && ra != nil && *rb != nil && *ra != nil && **rb != **ra {
				t.LastDisturbance = "scale"
				t.Scaled = true
			}
		}
		// template change by the user: rollback or supersession arms the cancel monitor
		if wr.Before != nil {
			bt, at := templateOf(wr.Before), templateOf(wr.After)
			if bt != nil && at != nil && !reflect.DeepEqual(bt.Spec, at.Spec) {
				t.OutstandingReq = true
				m.armCancel(w, wr, bt, at)
			}
		}
		return
	}
	if wr.Actor != ActorBatchRelease || wr.Verb == "status" {
		return
	}
	// C10: a blue-green release refuses supersession: once the user has published a third
	// template the controllers must not let the workload roll (un-pause it, widen its surge)
	if c := t.Cancel; c != nil && c.Kind == "supersede" && s.Style == "bluegreen" && wr.GVK == GVKDeployment && wr.Before != nil && wr.Key.Name == s.Name {
		b, a := wr.Before.(*appsv1.Deployment), wr.After.(*appsv1.Deployment)
		surge := func(d *appsv1.Deployment) int {
			if d.Spec.Strategy.RollingUpdate == nil {
				return 0
			}
			return scaledRoundUp(d.Spec.Strategy.RollingUpdate.MaxSurge, int(pointer.Int32Deref(d.Spec.Replicas, 0)), 0)
		}
		// (judged when pods of the superseded revision existed: that is what makes it a third version)
		if c.NewPods > 0 && !a.Spec.Paused && (b.Spec.Paused || surge(a) > surge(b)) {
			w.Violate("C10", "c10-bluegreen-supersession-not-refused", "%s: a newer revision was published at #%d during a blue-green release; instead of refusing it the controllers let the workload roll it (paused %v -> %v, strategy %s -> %s)", wr, c.Seq, b.Spec.Paused, a.Spec.Paused, compactJSON(b.Spec.Strategy), compactJSON(a.Spec.Strategy))
		}
	}
	exp, n, ok := m.exposure(w, wr.After)
	if !ok {
		return
	}
	// C10: between a supersession and the restart of the release, the superseding revision must
	// not be rolled out beyond what step one allows (it "restarts from step one")
	if c := t.Cancel; c != nil && c.Kind == "supersede" && wr.GVK == GVKCloneSet && wr.Before != nil {
		if ro := w.Rollout(s.Namespace, s.Name); ro != nil && canaryRevOf(ro) == c.CanaryRev && len(stepsOf(ro)) > 0 {
			before, _, _ := m.exposure(w, wr.Before)
			bound := 0
			if st := stepsOf(ro)[0]; st.Replicas != nil {
				bound = planned(*st.Replicas, n)
				if st.Replicas.Type == intstr.String {
					bound += (n + 99) / 100
				}
			}
			t.SupersedeWrites++
			if exp > before && exp > bound {
				w.Violate("C10", "c10-superseding-revision-exposed-beyond-step-one-before-restart", "%s: the user published a newer revision at #%d; before the Rollout restarted the release the BatchRelease controller raised the workload's exposure %d -> %d pods of %d for that revision (step one allows %d)", wr, c.Seq, before, exp, n, bound)
			}
		}
	}
	br := w.BatchRelease(s.Namespace, s.Name)
	ro := w.Rollout(s.Namespace, s.Name)
	if br == nil || br.DeletionTimestamp != nil || br.Spec.ReleasePlan.BatchPartition == nil || br.Status.Phase == v1beta1.RolloutPhaseFinalizing || br.Status.Phase == v1beta1.RolloutPhaseCompleted {
		return // promotion / hand-back, judged by C05/C10
	}
	batches := br.Spec.ReleasePlan.Batches
	if len(batches) == 0 {
		return
	}
	idx := int(*br.Spec.ReleasePlan.BatchPartition)
	if idx > len(batches)-1 {
		idx = len(batches) - 1
	}
	if idx < 0 {
		idx = 0
	}
	bound := planned(batches[idx].CanaryReplicas, n)
	if batches[idx].CanaryReplicas.Type == intstr.String && s.Workload == "cloneset" {
		bound += (n + 99) / 100 // documented percent-rounding slack of at most 1% of the workload size
	}
	if exp > bound {
		w.Violate("C01", "c01-exposure-exceeds-step", "%s: knob exposes %d new-revision pods of %d, BatchRelease batchPartition=%d allows %d", wr, exp, n, idx, bound)
	}
	if t.LastExposure >= 0 && exp < t.LastExposure && !t.EpochBreak {
		w.Violate("C01", "c01-exposure-moved-back", "%s: knob moved back from %d to %d new-revision pods while the release moves forward", wr, t.LastExposure, exp)
	}
	t.LastExposure = exp
	t.EpochBreak = false
	// C03 O3: first step configures traffic => stable Service pinned before the first pods are exposed
	// (judged on the BatchRelease's first batch only: after a jump back to step 1 it may still be
	// executing the later batch it was given before)
	if exp > 0 && idx == 0 && ro != nil && s.HasTraffic() && !s.DisableCanarySvc && ro.DeletionTimestamp == nil && !ro.Spec.Disabled &&
		ro.Status.Phase == v1beta1.RolloutPhaseProgressing && progressingReason(ro) == v1alpha1.ProgressingReasonInRolling {
		steps := stepsOf(ro)
		sub := ro.Status.GetSubStatus()
		if len(steps) > 0 && sub != nil && sub.CurrentStepIndex == 1 && (steps[0].Traffic != nil || len(steps[0].Matches) > 0) && !(expectedAll(steps[0], n) && v1beta1.IsRealPartition(ro)) {
			if o := w.Get(GVKService, s.Namespace, s.StableServiceName()); o != nil {
				if o.(*corev1.Service).Spec.Selector[revKey] == "" {
					w.Violate("C03", "c03-stable-service-not-pinned-before-first-batch", "%s: first step configures traffic but the stable Service is not pinned to the stable revision when new pods are first exposed", wr)
				}
			}
		}
	}
}

// ---------- network writes: C03(O1), C02 paused, C10 ----------

func (m *stdMonitor) onNetwork(w *World, wr *Write) {
	t := m.t
	s := t.S
	if wr.Actor != ActorRollout || !s.HasTraffic() {
		return
	}
	if wr.GVK == GVKService {
		return
	}
	ro := w.Rollout(s.Namespace, s.Name)
	if ro == nil || ro.Status.GetSubStatus() == nil {
		return
	}
	rt := w.ReadRouting(s)
	if !rt.ToCanary() || s.DisableCanarySvc {
		return
	}
	sub := ro.Status.GetSubStatus()
	k := sub.CurrentStepIndex
	// O1: a canary share is installed only after the step's pods were reported ready
	if progressingReason(ro) == v1alpha1.ProgressingReasonInRolling && !m.readyFor(w, ro, k) && m.workloadReplicas(w) > 0 {
		// the circumstances go into the signature: a jump / plan edit acted upon while the current
		// step had not finished its own upgrade, one acted upon after it, or none at all
		sig := "c03-traffic-before-pods-ready"
		switch t.RequestState {
		case "":
		case v1beta1.CanaryStepStateInit, v1beta1.CanaryStepStateUpgrade:
			sig += "-request-before-step-upgraded"
		default:
			sig += "-request-after-step-upgraded"
		}
		if t.EditedUpgradedStep {
			sig += "-replicas-of-upgraded-step-edited"
		}
		w.Violate("C03", sig, "%s: canary share (weight=%d match=%q) installed for step %d before its pods were reported ready", wr, rt.Weight, rt.Match, k)
	}
	if t.PausedSince > 0 && t.PausedSince <= t.ReconcileStart && progressingReason(ro) == v1alpha1.ProgressingReasonInRolling {
		w.Violate("C02", "c02-traffic-written-while-paused", "%s: gateway written for step %d while the rollout is paused", wr, k)
	}
}

// ---------- C05: exit-path restore (evaluated on the quiescent final store) ----------

// CheckRestored compares the final cluster with the user's configuration recorded before the
// release: nothing the rollout created remains and everything it modified is back.
func (r *Run) CheckRestored() []string {
	w, s := r.W, r.S
	t := w.Track()
	if t == nil || t.Base == nil {
		return nil
	}
	out := w.Residue(s)
	b := t.Base
	if s.HasTraffic() {
		if o := w.Get(GVKService, s.Namespace, s.StableServiceName()); o != nil {
			if sel := o.(*corev1.Service).Spec.Selector; !reflect.DeepEqual(sel, b.ServiceSelector) {
				out = append(out, fmt.Sprintf("stable Service selector is %v, the user configured %v", sel, b.ServiceSelector))
			}
		}
		if o := w.Get(GVKIngress, s.Namespace, s.IngressName()); o != nil {
			if !reflect.DeepEqual(normalizedSpec(o), b.IngressSpec) || !reflect.DeepEqual(o.GetAnnotations(), b.IngressAnn) {
				out = append(out, "stable Ingress differs from the user's configuration")
			}
		}
		if o := w.Get(GVKHTTPRoute, s.Namespace, s.RouteName()); o != nil {
			if got := routeShares(o.(*gatewayv1beta1.HTTPRoute)); !reflect.DeepEqual(got, b.RouteRules) {
				out = append(out, fmt.Sprintf("HTTPRoute rules differ from the user's configuration: %v vs %v", got, b.RouteRules))
			}
		}
	}
	var tpl *corev1.PodTemplateSpec
	switch s.Workload {
	case "cloneset":
		o := w.Get(GVKCloneSet, s.Namespace, s.Name)
		if o == nil {
			return out
		}
		cs := o.(*kruisev1alpha1.CloneSet)
		tpl = &cs.Spec.Template
		if cs.Spec.UpdateStrategy.Paused != b.WorkloadPaused {
			out = append(out, fmt.Sprintf("CloneSet updateStrategy.paused=%v, user had %v", cs.Spec.UpdateStrategy.Paused, b.WorkloadPaused))
		}
		if p := cs.Spec.UpdateStrategy.Partition; p != nil && scaledRoundUp(p, int(pointer.Int32Deref(cs.Spec.Replicas, 0)), 0) != 0 {
			out = append(out, "CloneSet partition left at "+p.String())
		}
		want := cs.Name + "-" + revisionHash(tpl)
		for _, p := range livePods(w.podsOwnedBy(cs.Namespace, cs.UID)) {
			if p.Labels[appsv1.ControllerRevisionHashLabelKey] != want || !isPodReady(p) {
				out = append(out, fmt.Sprintf("pod %s is not on the desired revision %s and ready", p.Name, want))
				break
			}
		}
	default:
		o := w.Get(GVKDeployment, s.Namespace, s.Name)
		if o == nil {
			return out
		}
		d := o.(*appsv1.Deployment)
		if d.Spec.Paused != b.WorkloadPaused {
			out = append(out, fmt.Sprintf("Deployment spec.paused=%v, user had %v", d.Spec.Paused, b.WorkloadPaused))
		}
		if got := normalizedAny(d.Spec.Strategy); !reflect.DeepEqual(got, b.DeployStrategy) {
			out = append(out, fmt.Sprintf("Deployment strategy is %v, user had %v", got, b.DeployStrategy))
		}
		if d.Spec.MinReadySeconds != b.MinReadySeconds {
			out = append(out, fmt.Sprintf("Deployment minReadySeconds=%d, user had %d", d.Spec.MinReadySeconds, b.MinReadySeconds))
		}
		if pointer.Int32Deref(d.Spec.ProgressDeadlineSeconds, -1) != pointer.Int32Deref(b.ProgressDeadline, -1) {
			out = append(out, fmt.Sprintf("Deployment progressDeadlineSeconds=%d, user had %d", pointer.Int32Deref(d.Spec.ProgressDeadlineSeconds, -1), pointer.Int32Deref(b.ProgressDeadline, -1)))
		}
		if o := w.Get(GVKHPA, s.Namespace, s.Name+"-hpa"); o != nil && b.HPATarget != "" {
			if got := hpaTarget(o); got != b.HPATarget {
				out = append(out, fmt.Sprintf("HPA scaleTargetRef.name=%q, user had %q", got, b.HPATarget))
			}
		}
		for _, k := range []string{v1alpha1.DeploymentStrategyAnnotation, v1beta1.OriginalDeploymentStrategyAnnotation} {
			if _, ok := d.Annotations[k]; ok {
				out = append(out, "Deployment still carries annotation "+k)
			}
		}
		v := w.viewDeployment(d)
		if v.newRS == nil {
			out = append(out, "no ReplicaSet for the desired template")
		} else {
			for _, rs := range v.oldRSs {
				if n := len(livePods(w.podsOwnedBy(rs.Namespace, rs.UID))); n > 0 {
					out = append(out, fmt.Sprintf("%d pods still on old ReplicaSet %s", n, rs.Name))
				}
			}
			pods := livePods(w.podsOwnedBy(v.newRS.Namespace, v.newRS.UID))
			if len(pods) != v.replicas {
				out = append(out, fmt.Sprintf("%d pods on the desired revision, want %d", len(pods), v.replicas))
			}
			for _, p := range pods {
				if !isPodReady(p) {
					out = append(out, "pod "+p.Name+" not ready")
					break
				}
			}
		}
	}
	return out
}
