package sim

import (
	"context"
	"os"
	"fmt"
	"strings"

	kruisev1alpha1 "github.com/openkruise/kruise-api/apps/v1alpha1"
	"github.com/openkruise/rollouts/api/v1alpha1"
	"github.com/openkruise/rollouts/api/v1beta1"
	"github.com/openkruise/rollouts/pkg/util"
	appsv1 "k8s.io/api/apps/v1"
	corev1 "k8s.io/api/core/v1"
	"k8s.io/utils/pointer"
	"sigs.k8s.io/controller-runtime/pkg/client"
)

// Action is one scheduler step of a history. Index-style arguments are taken modulo the
// number of enabled choices at execution time, so a recorded action list replays exactly and
// any sub-list of it is still executable (disabled actions are no-ops).
type Action struct {
	Kind string `json:"k"`           // reconcile | env | user | restart
	I    int    `json:"i,omitempty"` // choice index
	Arg  string `json:"a,omitempty"` // user action kind
	N    int    `json:"n,omitempty"` // user action parameter
}

func (a Action) String() string { return fmt.Sprintf("%s/%d/%s/%d", a.Kind, a.I, a.Arg, a.N) }

const (
	UserRelease  = "release"  // publish a new template version (N = version number >= 2)
	UserRollback = "rollback" // template back to v1
	UserApprove  = "approve"
	UserPause    = "pause"
	UserResume   = "resume"
	UserScale    = "scale"    // N = new replicas
	UserJump     = "jump"     // N = nextStepIndex to patch
	UserDisable  = "disable"
	UserEnable   = "enable"
	UserDelete   = "delete"
	UserEditStep = "editstep" // N selects an edit
)

// Run is a world plus the scenario and the executed history.
type Run struct {
	W           *World
	S           Scenario
	Adversarial bool
	History     []Action
	UserLog     []string
}

func NewRun(s Scenario) (*Run, error) {
	w := NewWorld(Options{GraceSeconds: int32(s.GraceSeconds)})
	r := &Run{W: w, S: s}
	return r, nil
}

// Settle drains queues and healthy environment steps until nothing is enabled (true) or the
// budget is exhausted (false).
func (w *World) Settle(budget int, approve bool) bool {
	for n := 0; n < budget; n++ {
		progress := false
		if len(w.pending) > 0 {
			w.Reconcile(0)
			progress = true
		}
		// fairness: the environment gets a step even while the queue is busy (a reconcile
		// that waits for the workload controller requeues itself)
		if acts := w.EnvActions(false); len(acts) > 0 {
			w.ApplyEnv(acts[0])
			progress = true
		}
		if !progress {
			return true
		}
	}
	return false
}

// Apply executes one action (no-op when it is not enabled).
func (r *Run) Apply(a Action) {
	w := r.W
	w.ActionNo++
	r.History = append(r.History, a)
	switch a.Kind {
	case "reconcile":
		if n := len(w.pending); n > 0 {
			w.Reconcile(mod(a.I, n))
		}
	case "env":
		if acts := w.EnvActions(r.Adversarial); len(acts) > 0 {
			w.ApplyEnv(acts[mod(a.I, len(acts))])
		}
	case "restart":
		w.Restart()
	case "user":
		r.user(a)
	}
}

func mod(i, n int) int {
	i %= n
	if i < 0 {
		i += n
	}
	return i
}

func (r *Run) ulog(format string, args ...any) {
	r.UserLog = append(r.UserLog, fmt.Sprintf("@%d ", r.W.ActionNo)+fmt.Sprintf(format, args...))
}

func (r *Run) workload() client.Object {
	if r.S.Workload == "cloneset" {
		return r.W.Get(GVKCloneSet, r.S.Namespace, r.S.Name)
	}
	return r.W.Get(GVKDeployment, r.S.Namespace, r.S.Name)
}

func templateOf(o client.Object) *corev1.PodTemplateSpec {
	switch t := o.(type) {
	case *kruisev1alpha1.CloneSet:
		return &t.Spec.Template
	case *appsv1.Deployment:
		return &t.Spec.Template
	}
	return nil
}

func replicasPtr(o client.Object) **int32 {
	switch t := o.(type) {
	case *kruisev1alpha1.CloneSet:
		return &t.Spec.Replicas
	case *appsv1.Deployment:
		return &t.Spec.Replicas
	}
	return nil
}

// WorkloadVersion returns the image version ("v1", "v2", …) of the workload template.
func (r *Run) WorkloadVersion() string {
	o := r.workload()
	if o == nil {
		return ""
	}
	img := templateOf(o).Spec.Containers[0].Image
	return img[strings.LastIndex(img, ":")+1:]
}

func (r *Run) user(a Action) {
	w, s := r.W, r.S
	ctx := context.TODO()
	cli := w.Client(ActorUser)
	switch a.Arg {
	case UserRelease, UserRollback:
		o := r.workload()
		if o == nil {
			return
		}
		ver := "v1"
		if a.Arg == UserRelease {
			ver = fmt.Sprintf("v%d", 2+mod(a.N, 3))
		}
		if r.WorkloadVersion() == ver {
			return
		}
		if a.Arg == UserRollback && KnownOpen[FindingRevertBeforeObserved] && os.Getenv("VERIF_REPLAY") == "" && r.revertBeforeObserved() {
			r.W.Excluded[FindingRevertBeforeObserved]++
			return
		}
		templateOf(o).Spec.Containers[0].Image = "app:" + ver
		if s.UseRolloutID {
			l := o.GetLabels()
			if l == nil {
				l = map[string]string{}
			}
			l[v1beta1.RolloutIDLabel] = fmt.Sprintf("id-%s-%d", ver, w.ActionNo)
			o.SetLabels(l)
		}
		if err := cli.Update(ctx, o); err != nil {
			r.ulog("%s %s failed: %v", a.Arg, ver, err)
			return
		}
		r.ulog("%s to %s", a.Arg, ver)
	case UserScale:
		o := r.workload()
		if o == nil {
			return
		}
		n := int32(1 + mod(a.N, 12))
		if *(*replicasPtr(o)) == n {
			return
		}
		*replicasPtr(o) = pointer.Int32(n)
		if err := cli.Update(ctx, o); err == nil {
			r.ulog("scale to %d", n)
		}
	case UserApprove:
		ro := w.Rollout(s.Namespace, s.Name)
		if ro == nil || ro.Status.GetSubStatus() == nil || ro.Status.GetSubStatus().CurrentStepState != v1beta1.CanaryStepStatePaused {
			return
		}
		if ro.Status.Phase != v1beta1.RolloutPhaseProgressing {
			return
		}
		ro.Status.GetSubStatus().CurrentStepState = v1beta1.CanaryStepStateReady
		if err := cli.Status().Update(ctx, ro); err == nil {
			r.ulog("approve step %d", ro.Status.GetSubStatus().CurrentStepIndex)
		}
	case UserJump:
		ro := w.Rollout(s.Namespace, s.Name)
		if ro == nil || ro.Status.GetSubStatus() == nil || ro.Status.Phase != v1beta1.RolloutPhaseProgressing {
			return
		}
		ro.Status.GetSubStatus().NextStepIndex = int32(a.N)
		if err := cli.Status().Update(ctx, ro); err == nil {
			r.ulog("jump nextStepIndex=%d", a.N)
		}
	case UserPause, UserResume, UserDisable, UserEnable, UserEditStep:
		ro := w.Rollout(s.Namespace, s.Name)
		if ro == nil || ro.DeletionTimestamp != nil {
			return
		}
		old := ro.DeepCopy()
		switch a.Arg {
		case UserPause:
			ro.Spec.Strategy.Paused = true
		case UserResume:
			ro.Spec.Strategy.Paused = false
		case UserDisable:
			ro.Spec.Disabled = true
		case UserEnable:
			ro.Spec.Disabled = false
		case UserEditStep:
			steps := ro.Spec.Strategy.GetSteps()
			if len(steps) == 0 {
				return
			}
			i := mod(a.N, len(steps))
			switch mod(a.N/7, 3) {
			case 0: // toggle pause kind
				if steps[i].Pause.Duration == nil {
					steps[i].Pause.Duration = pointer.Int32(0)
				} else {
					steps[i].Pause.Duration = nil
				}
			case 1: // raise replicas of the step to the next step's value (keeps non-decreasing)
				if i+1 < len(steps) {
					v := *steps[i+1].Replicas
					steps[i].Replicas = &v
				}
			case 2: // change traffic weight
				if steps[i].Traffic != nil {
					steps[i].Traffic = pointer.String(fmt.Sprintf("%d%%", 1+mod(a.N, 50)))
				}
			}
		}
		if err := w.ValidateRollout(old, ro); err != nil {
			r.ulog("%s rejected: %v", a.Arg, err)
			return
		}
		if err := cli.Update(ctx, ro); err == nil {
			r.ulog("%s", a.Arg)
		}
	case UserDelete:
		ro := w.Rollout(s.Namespace, s.Name)
		if ro == nil || ro.DeletionTimestamp != nil {
			return
		}
		if err := cli.Delete(ctx, ro); err == nil {
			r.ulog("delete rollout")
		}
	}
}

// FindingRevertBeforeObserved: canary-style Deployment with traffic routing; the user reverts the
// template to the stable version before the Rollout controller has recorded the release being
// reverted. The Rollout then runs a "release" whose canary revision equals the stable revision,
// the finder reports no PodTemplateHash (IsInRollback branch) and DoTrafficRouting waits for it
// forever (StepTrafficRouting livelock). See known_findings.json.
const FindingRevertBeforeObserved = "c07-livelock-revert-to-stable-before-release-observed"

// KnownOpen lists the recorded (not repaired) findings whose input class the user model steers
// away from, so that the search continues behind them. Exclusions are counted.
var KnownOpen = map[string]bool{FindingRevertBeforeObserved: true}

// revertBeforeObserved: the workload is marked in-progressing but the Rollout has not yet
// recorded the revision currently in the workload as its canary revision.
func (r *Run) revertBeforeObserved() bool {
	o := r.workload()
	if o == nil {
		return false
	}
	if _, ok := o.GetAnnotations()[util.InRolloutProgressingAnnotation]; !ok {
		return false
	}
	ro := r.W.Rollout(r.S.Namespace, r.S.Name)
	if ro == nil {
		return false
	}
	if ro.Status.Phase != v1beta1.RolloutPhaseProgressing {
		return true
	}
	cond := util.GetRolloutCondition(ro.Status, v1beta1.RolloutConditionProgressing)
	return cond == nil || cond.Reason == v1alpha1.ProgressingReasonInitializing
}

// ---------- fair completion ----------

// Outcome of Complete.
type Outcome struct {
	Terminal   bool   `json:"terminal"`
	Stuck      bool   `json:"stuck"`
	Exhausted  bool   `json:"exhausted"`
	Reconciles int    `json:"reconciles"`
	Detail     string `json:"detail"`
}

// Complete drives the run with the deterministic fair schedule (drain queue, healthy
// environment, approve manual pauses) until the terminal state, a stuck state or the budget.
func (r *Run) Complete(budget int) Outcome {
	w := r.W
	start := w.Reconciles
	for n := 0; n < budget; n++ {
		// the user is responsive: approvals and resumes are granted as soon as they are needed
		if r.needApproval() {
			r.Apply(Action{Kind: "user", Arg: UserApprove})
			continue
		}
		if ro := w.Rollout(r.S.Namespace, r.S.Name); ro != nil && ro.Spec.Strategy.Paused && ro.DeletionTimestamp == nil {
			r.Apply(Action{Kind: "user", Arg: UserResume})
			continue
		}
		progress := false
		if len(w.pending) > 0 {
			r.Apply(Action{Kind: "reconcile", I: 0})
			progress = true
		}
		if acts := w.EnvActions(false); len(acts) > 0 {
			r.Apply(Action{Kind: "env", I: 0})
			progress = true
		}
		if progress {
			continue
		}
		ok, detail := r.Terminal()
		return Outcome{Terminal: ok, Stuck: !ok, Reconciles: w.Reconciles - start, Detail: detail}
	}
	_, detail := r.Terminal()
	return Outcome{Exhausted: true, Reconciles: w.Reconciles - start, Detail: detail}
}

func (r *Run) needApproval() bool {
	ro := r.W.Rollout(r.S.Namespace, r.S.Name)
	if ro == nil || ro.Status.Phase != v1beta1.RolloutPhaseProgressing || ro.Spec.Strategy.Paused {
		return false
	}
	sub := ro.Status.GetSubStatus()
	return sub != nil && sub.CurrentStepState == v1beta1.CanaryStepStatePaused
}

// Terminal: the Rollout is gone, Disabled, or Healthy with nothing left to do; no
// BatchRelease; every pod on the desired revision and ready.
func (r *Run) Terminal() (bool, string) {
	w, s := r.W, r.S
	ro := w.Rollout(s.Namespace, s.Name)
	if br := w.BatchRelease(s.Namespace, s.Name); br != nil {
		return false, fmt.Sprintf("BatchRelease still exists (phase %s)", br.Status.Phase)
	}
	if ro != nil {
		switch ro.Status.Phase {
		case v1beta1.RolloutPhaseHealthy, v1beta1.RolloutPhaseDisabled:
		default:
			cond := util.GetRolloutCondition(ro.Status, v1beta1.RolloutConditionProgressing)
			reason := ""
			if cond != nil {
				reason = cond.Reason
			}
			sub := ro.Status.GetSubStatus()
			st := ""
			if sub != nil {
				st = fmt.Sprintf(" step=%d state=%s finalising=%s", sub.CurrentStepIndex, sub.CurrentStepState, sub.FinalisingStep)
			}
			return false, fmt.Sprintf("rollout phase %s reason %s%s msg=%q", ro.Status.Phase, reason, st, ro.Status.Message)
		}
	}
	o := r.workload()
	if o == nil {
		return true, "workload gone"
	}
	if _, ok := o.GetAnnotations()[util.InRolloutProgressingAnnotation]; ok && ro != nil && ro.Status.Phase == v1beta1.RolloutPhaseHealthy {
		return false, "workload still marked in-progressing while rollout is Healthy"
	}
	return true, "ok"
}

var _ = v1alpha1.ProgressingReasonCompleted

// LivelockClass names where a non-terminating run is parked (phase / reason / step state and
// recognisable causes), so that different liveness failures get different signatures.
func (r *Run) LivelockClass() string {
	ro := r.W.Rollout(r.S.Namespace, r.S.Name)
	if ro == nil {
		return "rollout-gone"
	}
	cls := strings.ToLower(string(ro.Status.Phase))
	if cond := util.GetRolloutCondition(ro.Status, v1beta1.RolloutConditionProgressing); cond != nil && ro.Status.Phase == v1beta1.RolloutPhaseProgressing {
		cls += "-" + strings.ToLower(cond.Reason)
	}
	if sub := ro.Status.GetSubStatus(); sub != nil {
		cls += "-" + strings.ToLower(string(sub.CurrentStepState))
		if sub.FinalisingStep != "" {
			cls += "-" + strings.ToLower(string(sub.FinalisingStep))
		}
		if sub.CurrentStepState == v1beta1.CanaryStepStateTrafficRouting && sub.PodTemplateHash == "" {
			cls += "-podtemplatehash-empty"
		}
	}
	if br := r.W.BatchRelease(r.S.Namespace, r.S.Name); br != nil {
		cls += "-br-" + strings.ToLower(string(br.Status.Phase)) + "-" + strings.ToLower(string(br.Status.CanaryStatus.CurrentBatchState))
	}
	return cls
}
