package sim

import (
	"context"
	"fmt"
	"os"
	"reflect"
	"strings"

	kruisev1alpha1 "github.com/openkruise/kruise-api/apps/v1alpha1"
	"github.com/openkruise/rollouts/api/v1alpha1"
	"github.com/openkruise/rollouts/api/v1beta1"
	"github.com/openkruise/rollouts/pkg/util"
	appsv1 "k8s.io/api/apps/v1"
	corev1 "k8s.io/api/core/v1"
	"k8s.io/apimachinery/pkg/runtime/schema"
	"k8s.io/apimachinery/pkg/util/intstr"
	"k8s.io/utils/pointer"
	"sigs.k8s.io/controller-runtime/pkg/client"
	gatewayv1beta1 "sigs.k8s.io/gateway-api/apis/v1beta1"
)

// Action is one scheduler step of a history. Index-style arguments are taken modulo the
// number of enabled choices at execution time, so a recorded action list replays exactly and
// any sub-list of it is still executable (disabled actions are no-ops).
type Action struct {
	Kind string `json:"k"`           // reconcile | env | user | restart
	I    int    `json:"i,omitempty"` // choice index
	Arg  string `json:"a,omitempty"` // user action kind
	N    int    `json:"n,omitempty"` // user action parameter
}

func (a Action) String() string { return fmt.Sprintf("%s/%d/%s/%d", a.Kind, a.I, a.Arg, a.N) }

const (
	UserRelease  = "release"  // publish a new template version (N = version number >= 2)
	UserRollback = "rollback" // template back to v1
	UserApprove  = "approve"
	UserPause    = "pause"
	UserResume   = "resume"
	UserScale    = "scale" // N = new replicas
	UserJump     = "jump"  // N = nextStepIndex to patch
	UserDisable  = "disable"
	UserEnable   = "enable"
	UserDelete   = "delete"
	UserEditStep = "editstep" // N selects an edit
)

// Run is a world plus the scenario and the executed history.
type Run struct {
	W           *World
	S           Scenario
	Adversarial bool
	History     []Action
	// Effective is History without the user actions that were skipped because they fall into a
	// listed finding's input class; replaying it needs no exclusion logic.
	Effective []Action
	skipped   bool
	UserLog   []string
}

func NewRun(s Scenario) (*Run, error) {
	w := NewWorld(Options{GraceSeconds: int32(s.GraceSeconds)})
	r := &Run{W: w, S: s}
	return r, nil
}

// Settle drains queues and healthy environment steps until nothing is enabled (true) or the
// budget is exhausted (false).
func (w *World) Settle(budget int, approve bool) bool {
	for n := 0; n < budget; n++ {
		progress := false
		if len(w.pending) > 0 {
			w.Reconcile(0)
			progress = true
		}
		// fairness: the environment gets a step even while the queue is busy (a reconcile
		// that waits for the workload controller requeues itself)
		if acts := w.EnvActions(false); len(acts) > 0 {
			w.ApplyEnv(acts[0])
			progress = true
		}
		if !progress {
			return true
		}
	}
	return false
}

// Apply executes one action (no-op when it is not enabled).
func (r *Run) Apply(a Action) {
	w := r.W
	w.ActionNo++
	r.History = append(r.History, a)
	switch a.Kind {
	case "reconcile":
		if n := len(w.pending); n > 0 {
			w.Reconcile(mod(a.I, n))
		}
	case "env":
		if acts := w.EnvActions(r.Adversarial); len(acts) > 0 {
			w.ApplyEnv(acts[mod(a.I, len(acts))])
		}
	case "restart":
		w.Restart()
	case "fault":
		// the N-th controller call (error-before-call) / controller write (other kinds) from now on fails
		spec := FaultSpec{Kind: a.Arg, At: a.N}
		if i := strings.Index(a.Arg, ":"); i > 0 {
			spec.Kind, spec.Target = a.Arg[:i], a.Arg[i+1:]
		}
		w.Faults = NewFaults(spec)
	case "settle":
		// controllers and environment run (fairly, no user) until they wait for something
		for n := 0; n < 400; n++ {
			progress := false
			if len(w.pending) > 0 {
				w.Reconcile(0)
				progress = true
			}
			if acts := w.EnvActions(false); len(acts) > 0 {
				w.ApplyEnv(acts[0])
				progress = true
			}
			if !progress {
				break
			}
		}
	case "user":
		r.skipped = false
		r.user(a)
		if r.skipped {
			return
		}
	}
	r.Effective = append(r.Effective, a)
}

func mod(i, n int) int {
	i %= n
	if i < 0 {
		i += n
	}
	return i
}

func (r *Run) ulog(format string, args ...any) {
	r.UserLog = append(r.UserLog, fmt.Sprintf("@%d ", r.W.ActionNo)+fmt.Sprintf(format, args...))
}

func (r *Run) workload() client.Object {
	if r.S.Workload == "cloneset" {
		return r.W.Get(GVKCloneSet, r.S.Namespace, r.S.Name)
	}
	return r.W.Get(GVKDeployment, r.S.Namespace, r.S.Name)
}

func templateOf(o client.Object) *corev1.PodTemplateSpec {
	switch t := o.(type) {
	case *kruisev1alpha1.CloneSet:
		return &t.Spec.Template
	case *appsv1.Deployment:
		return &t.Spec.Template
	}
	return nil
}

func replicasPtr(o client.Object) **int32 {
	switch t := o.(type) {
	case *kruisev1alpha1.CloneSet:
		return &t.Spec.Replicas
	case *appsv1.Deployment:
		return &t.Spec.Replicas
	}
	return nil
}

// WorkloadVersion returns the image version ("v1", "v2", …) of the workload template.
func (r *Run) WorkloadVersion() string {
	o := r.workload()
	if o == nil {
		return ""
	}
	img := templateOf(o).Spec.Containers[0].Image
	return img[strings.LastIndex(img, ":")+1:]
}

func (r *Run) user(a Action) {
	w, s := r.W, r.S
	ctx := context.TODO()
	cli := w.Client(ActorUser)
	switch a.Arg {
	case UserRelease, UserRollback:
		o := r.workload()
		if o == nil {
			return
		}
		ver := "v1"
		if a.Arg == UserRelease {
			ver = fmt.Sprintf("v%d", 2+mod(a.N, 3))
		}
		if r.WorkloadVersion() == ver {
			return
		}
		// a "release" of the template the Rollout records as stable is a rollback as well
		isRevert := a.Arg == UserRollback || r.targetIsStable(o, ver)
		if isRevert && KnownOpen[FindingRevertBeforeObserved] && os.Getenv("VERIF_REPLAY_STRICT") == "" && r.revertBeforeObserved() {
			r.W.Excluded[FindingRevertBeforeObserved]++
			r.skipped = true
			return
		}
		if r.returnAfterResetDeletedBatchRelease(o, ver) {
			r.W.Excluded[FindingReturnAfterReset]++
			r.skipped = true
			return
		}
		if r.blueGreenSupersession(o, ver) {
			r.W.Excluded[FindingBlueGreenSupersession]++
			r.skipped = true
			return
		}
		if r.releaseDuringCancel(o, ver) {
			r.W.Excluded[FindingReleaseDuringCancel]++
			r.skipped = true
			return
		}
		if isRevert && r.rollbackBeforeFirstPod() {
			r.W.Excluded[FindingRollbackBeforeFirstPod]++
			r.skipped = true
			return
		}
		if isRevert && r.rollbackWhileBatchReleasePreparing() {
			r.W.Excluded[FindingRollbackWhilePreparing]++
			r.skipped = true
			return
		}
		if isRevert && r.exitBeforeBatchRelease() {
			r.W.Excluded[FindingExitBeforeBatchRelease]++
			r.skipped = true
			return
		}
		templateOf(o).Spec.Containers[0].Image = "app:" + ver
		if s.UseRolloutID {
			l := o.GetLabels()
			if l == nil {
				l = map[string]string{}
			}
			l[v1beta1.RolloutIDLabel] = fmt.Sprintf("id-%s-%d", ver, w.ActionNo)
			o.SetLabels(l)
		}
		if err := cli.Update(ctx, o); err != nil {
			r.ulog("%s %s failed: %v", a.Arg, ver, err)
			return
		}
		r.ulog("%s to %s", a.Arg, ver)
	case UserScale:
		o := r.workload()
		if o == nil {
			return
		}
		n := int32(1 + mod(a.N, 12))
		if *(*replicasPtr(o)) == n {
			return
		}
		if r.S.Style == "bluegreen" {
			// model limit, not a finding: the environment's native Deployment controller has no
			// proportional scaling across two active ReplicaSets, so blue-green runs are not scaled
			return
		}
		if r.scaleBelowTrafficStep(int(n)) {
			r.W.Excluded[FindingScaleBelowTrafficStep]++
			r.skipped = true
			return
		}
		*replicasPtr(o) = pointer.Int32(n)
		if err := cli.Update(ctx, o); err == nil {
			r.ulog("scale to %d", n)
		}
	case UserApprove:
		ro := w.Rollout(s.Namespace, s.Name)
		if ro == nil || ro.Status.GetSubStatus() == nil || ro.Status.GetSubStatus().CurrentStepState != v1beta1.CanaryStepStatePaused {
			return
		}
		if ro.Status.Phase != v1beta1.RolloutPhaseProgressing {
			return
		}
		ro.Status.GetSubStatus().CurrentStepState = v1beta1.CanaryStepStateReady
		if err := cli.Status().Update(ctx, ro); err == nil {
			r.ulog("approve step %d", ro.Status.GetSubStatus().CurrentStepIndex)
		}
	case UserJump:
		ro := w.Rollout(s.Namespace, s.Name)
		if ro == nil || ro.Status.GetSubStatus() == nil || ro.Status.Phase != v1beta1.RolloutPhaseProgressing {
			return
		}
		if r.jumpToSelfWithPlanEdit(ro, int32(a.N), false) {
			r.W.Excluded[FindingPlanEditJumpToSelf]++
			r.skipped = true
			return
		}
		ro.Status.GetSubStatus().NextStepIndex = int32(a.N)
		if err := cli.Status().Update(ctx, ro); err == nil {
			r.ulog("jump nextStepIndex=%d", a.N)
		}
	case UserPause, UserResume, UserDisable, UserEnable, UserEditStep:
		ro := w.Rollout(s.Namespace, s.Name)
		if ro == nil || ro.DeletionTimestamp != nil {
			return
		}
		if a.Arg == UserDisable && r.exitBeforeBatchRelease() {
			r.W.Excluded[FindingExitBeforeBatchRelease]++
			r.skipped = true
			return
		}
		old := ro.DeepCopy()
		switch a.Arg {
		case UserPause:
			ro.Spec.Strategy.Paused = true
		case UserResume:
			ro.Spec.Strategy.Paused = false
		case UserDisable:
			ro.Spec.Disabled = true
		case UserEnable:
			ro.Spec.Disabled = false
		case UserEditStep:
			steps := ro.Spec.Strategy.GetSteps()
			if len(steps) == 0 {
				return
			}
			if sub := ro.Status.GetSubStatus(); sub != nil && r.jumpToSelfWithPlanEdit(ro, sub.NextStepIndex, true) {
				r.W.Excluded[FindingPlanEditJumpToSelf]++
				r.skipped = true
				return
			}
			i := mod(a.N, len(steps))
			switch mod(a.N/7, 3) {
			case 0: // toggle pause kind
				if steps[i].Pause.Duration == nil {
					steps[i].Pause.Duration = pointer.Int32(0)
				} else {
					steps[i].Pause.Duration = nil
				}
			case 1: // raise replicas of the step to the next step's value (keeps non-decreasing)
				if i+1 < len(steps) && r.raiseReplicasOfUpgradedStep(ro, i) {
					r.W.Excluded[FindingRaiseUpgradedStep]++
					r.skipped = true
					return
				}
				if i+1 < len(steps) {
					v := *steps[i+1].Replicas
					steps[i].Replicas = &v
				}
			case 2: // change traffic weight
				if steps[i].Traffic != nil {
					steps[i].Traffic = pointer.String(fmt.Sprintf("%d%%", 1+mod(a.N, 50)))
				}
			}
		}
		if err := w.ValidateRollout(old, ro); err != nil {
			r.ulog("%s rejected: %v", a.Arg, err)
			return
		}
		if err := cli.Update(ctx, ro); err == nil {
			r.ulog("%s", a.Arg)
		}
	case UserDelete:
		ro := w.Rollout(s.Namespace, s.Name)
		if ro == nil || ro.DeletionTimestamp != nil {
			return
		}
		if r.exitBeforeBatchRelease() {
			r.W.Excluded[FindingExitBeforeBatchRelease]++
			r.skipped = true
			return
		}
		if err := cli.Delete(ctx, ro); err == nil {
			r.ulog("delete rollout")
		}
	}
}

// FindingRollbackWhilePreparing: canary-style Deployment; the workload is reverted to the stable
// template after the BatchRelease was created but before it took the workload over (still
// Preparing, no control-info annotation), and the release is published again right after. The
// BatchRelease initialises on the reverted template and creates its canary Deployment from it;
// after the re-release it never creates one for the new revision: the batch never becomes ready
// and the rollout livelocks in StepUpgrade. Same family as FindingRevertBeforeObserved (template
// flipped faster than the controllers observe it).
const FindingRollbackWhilePreparing = "c07-livelock-rollback-and-rerelease-while-batchrelease-preparing"

// rollbackWhileBatchReleasePreparing: canary style, BatchRelease exists and has not annotated the workload yet.
func (r *Run) rollbackWhileBatchReleasePreparing() bool {
	if !KnownOpen[FindingRollbackWhilePreparing] || os.Getenv("VERIF_REPLAY_STRICT") != "" || r.S.Style != "canary" {
		return false
	}
	o := r.workload()
	br := r.W.BatchRelease(r.S.Namespace, r.S.Name)
	if o == nil || br == nil || br.DeletionTimestamp != nil {
		return false
	}
	_, controlled := o.GetAnnotations()[util.BatchReleaseControlAnnotation]
	return !controlled
}

// FindingRaiseUpgradedStep: the plan is edited so that the CURRENT step asks for more replicas
// after that step has finished its own upgrade. The BatchRelease is only told about the plan in
// StepUpgrade, so the step keeps its old pods; a later jump to a step with the same (new) replicas
// takes doCanaryJump's "equal replicas" shortcut straight to StepTrafficRouting and that step's
// traffic is applied to the old, smaller number of pods (100% of the traffic to 1 of 9 pods in the
// replay).
const FindingRaiseUpgradedStep = "c03-plan-edit-raises-replicas-of-the-already-upgraded-current-step"

// raiseReplicasOfUpgradedStep: step i is the current step, past its upgrade, and the edit changes its replicas.
func (r *Run) raiseReplicasOfUpgradedStep(ro *v1beta1.Rollout, i int) bool {
	if !KnownOpen[FindingRaiseUpgradedStep] || os.Getenv("VERIF_REPLAY_STRICT") != "" {
		return false
	}
	sub := ro.Status.GetSubStatus()
	if sub == nil || ro.Status.Phase != v1beta1.RolloutPhaseProgressing || int(sub.CurrentStepIndex) != i+1 {
		return false
	}
	steps := ro.Spec.Strategy.GetSteps()
	if reflect.DeepEqual(steps[i].Replicas, steps[i+1].Replicas) {
		return false
	}
	switch sub.CurrentStepState {
	case v1beta1.CanaryStepStateInit, v1beta1.CanaryStepStateUpgrade:
		return false
	}
	return true
}

// FindingRevertBeforeObserved: canary-style Deployment with traffic routing; the user reverts the
// template to the stable version before the Rollout controller has recorded the release being
// reverted. The Rollout then runs a "release" whose canary revision equals the stable revision,
// the finder reports no PodTemplateHash (IsInRollback branch) and DoTrafficRouting waits for it
// forever (StepTrafficRouting livelock). See known_findings.json.
const FindingRevertBeforeObserved = "c07-livelock-revert-to-stable-before-release-observed"

// FindingExitBeforeBatchRelease: the Rollout is deleted or disabled (or the workload rolled back) after the mutating webhook has
// put the workload on hold (partition 100% / paused, in-progressing annotation) but before the
// Rollout controller created the BatchRelease. Finalising then finds no BatchRelease to resume
// the workload through, removes the annotation and its finalizer, and the workload stays held
// forever (CloneSet partition 100%, Deployment paused) with no Rollout left to drive it.
const FindingExitBeforeBatchRelease = "c05-workload-left-held-exit-before-batchrelease-created"

// FindingPlanEditJumpToSelf: while step k is still in StepInit/StepUpgrade the user both edits the
// plan (hash change) and patches nextStepIndex = k. handleRolloutPlanChanged recalculates k,
// finds it equal to nextStepIndex and sets StepReady; the pending jump to k (same replicas as
// itself) then enters StepTrafficRouting, so step k's traffic rule is applied before any of its
// pods exist or are ready.
const FindingPlanEditJumpToSelf = "c03-plan-edit-plus-jump-to-current-step-routes-before-ready"

// FindingReleaseDuringCancel: with traffic routing, a new template version is published while a
// rollback is still being finalised (Progressing/Cancelling). The in-progressing annotation is
// removed at the start of finalising and the workload is handed back (ResumeWorkload) before the
// stable Service is un-pinned (rollback task order); the webhook does not hold the new release
// (workload runs several revisions => "cannot enter rollout progressing"), the native controller
// replaces every stable pod and the stable Service, still pinned to the stable revision, is left
// without endpoints until the cancel reaches RestoreStableService.
const FindingReleaseDuringCancel = "c04-release-during-rollback-cancel-empties-pinned-stable-service"

// FindingScaleBelowTrafficStep: partition-style rollout with traffic routing whose plan has a
// step with a traffic rule that covers the whole workload before or after a mid-release scale
// (an integer step >= the new size, or a percent step rounding up to everything on 1-2 replicas). The step now replaces every stable pod, but the "restore the stable Service before a
// step that releases all stable pods" bypass is evaluated in StepInit only, so the stable Service
// stays pinned to the stable revision and loses all its endpoints.
const FindingScaleBelowTrafficStep = "c04-scale-down-to-traffic-step-size-empties-pinned-stable-service"

// KnownOpen lists the recorded (not repaired) findings whose input class the user model steers
// away from, so that the search continues behind them. Exclusions are counted.
// targetIsStable: the workload template with image app:<ver> is the revision the Rollout records
// as stable while it is progressing.
func (r *Run) targetIsStable(o client.Object, ver string) bool {
	ro := r.W.Rollout(r.S.Namespace, r.S.Name)
	if ro == nil || ro.Status.Phase != v1beta1.RolloutPhaseProgressing || ro.Status.GetSubStatus() == nil {
		return false
	}
	tpl := templateOf(o).DeepCopy()
	tpl.Spec.Containers[0].Image = "app:" + ver
	stable := ro.Status.GetSubStatus().StableRevision
	if r.S.Workload == "cloneset" {
		return revisionHash(tpl) == stable
	}
	return k8sTemplateHash(templateWithoutHash(tpl)) == stable
}

// FindingRollbackBeforeFirstPod: controller_finder recognises a CloneSet rollback by
// currentRevision == updateRevision && UpdatedReplicas != Replicas. That is false when no pod of
// the new revision exists yet, when every pod is already on the new revision (currentRevision has
// moved on), and when the partition lets the CloneSet controller revert every new pod before the
// Rollout controller looks (partition 0). The revert is then taken for a continuous release of
// the stable revision: a full stepwise "release" of v1 onto v1 runs (manual approvals included)
// and ends Succeeded=True.
const FindingRollbackBeforeFirstPod = "c10-cloneset-rollback-not-recognised-when-no-mixed-revisions-remain"

// rollbackBeforeFirstPod: CloneSet, release in progress, and the pods will not stay on mixed
// revisions after the revert.
func (r *Run) rollbackBeforeFirstPod() bool {
	if !KnownOpen[FindingRollbackBeforeFirstPod] || os.Getenv("VERIF_REPLAY_STRICT") != "" || r.S.Workload != "cloneset" {
		return false
	}
	ro := r.W.Rollout(r.S.Namespace, r.S.Name)
	if ro == nil || ro.Status.Phase != v1beta1.RolloutPhaseProgressing || canaryRevOf(ro) == "" || ro.Status.GetSubStatus() == nil {
		return false
	}
	if r.W.PodsOfRevision(r.S, canaryRevOf(ro)) == 0 || r.W.PodsOfRevision(r.S, ro.Status.GetSubStatus().StableRevision) == 0 {
		return true
	}
	if cs, ok := r.workload().(*kruisev1alpha1.CloneSet); ok {
		return scaledRoundUp(cs.Spec.UpdateStrategy.Partition, int(pointer.Int32Deref(cs.Spec.Replicas, 0)), 0) == 0
	}
	return false
}

// FindingReturnAfterReset: a rollback or supersession made the Rollout start its continuous-release
// reset and delete the BatchRelease while the current step was already past its upgrade; the user
// then goes back to the revision being released. The Rollout resumes normal rolling from that
// sub-state, never recreates the BatchRelease (only StepUpgrade does), completes "successfully",
// and nothing clears the partition=100% the webhook set on the last template change.
const FindingReturnAfterReset = "c05-return-to-released-revision-after-reset-deleted-the-batchrelease"

// returnAfterResetDeletedBatchRelease: the target template is the revision being released, the
// BatchRelease is gone (or going) and the current step is past StepUpgrade.
func (r *Run) returnAfterResetDeletedBatchRelease(target client.Object, ver string) bool {
	if !KnownOpen[FindingReturnAfterReset] || os.Getenv("VERIF_REPLAY_STRICT") != "" {
		return false
	}
	ro := r.W.Rollout(r.S.Namespace, r.S.Name)
	if ro == nil || ro.Status.Phase != v1beta1.RolloutPhaseProgressing || ro.Status.GetSubStatus() == nil {
		return false
	}
	if br := r.W.BatchRelease(r.S.Namespace, r.S.Name); br != nil && br.DeletionTimestamp == nil {
		return false
	}
	switch ro.Status.GetSubStatus().CurrentStepState {
	case v1beta1.CanaryStepStateInit, v1beta1.CanaryStepStateUpgrade:
		return false
	}
	tpl := templateOf(target).DeepCopy()
	tpl.Spec.Containers[0].Image = "app:" + ver
	h := k8sTemplateHash(templateWithoutHash(tpl))
	if r.S.Workload == "cloneset" {
		h = revisionHash(tpl)
	}
	return h == canaryRevOf(ro)
}

// FindingBlueGreenSupersession: a third template is published during a blue-green release. The
// Rollout controller refuses it ("please rollback first") and keeps the BatchRelease, but the
// BatchRelease controller aborts for one round only (see FindingSupersededResumed), then
// un-pauses the Deployment the webhook had just paused and the native controller rolls the third
// revision into the surge capacity: three versions run side by side.
const FindingBlueGreenSupersession = "c10-bluegreen-supersession-rolled-out-by-the-batchrelease"

// blueGreenSupersession: blue-green release progressing and the target template is neither the
// revision being released nor the stable one.
func (r *Run) blueGreenSupersession(target client.Object, ver string) bool {
	if !KnownOpen[FindingBlueGreenSupersession] || os.Getenv("VERIF_REPLAY_STRICT") != "" || r.S.Style != "bluegreen" {
		return false
	}
	ro := r.W.Rollout(r.S.Namespace, r.S.Name)
	if ro == nil || ro.Status.Phase != v1beta1.RolloutPhaseProgressing || ro.Status.GetSubStatus() == nil {
		return false
	}
	tpl := templateOf(target).DeepCopy()
	tpl.Spec.Containers[0].Image = "app:" + ver
	h := k8sTemplateHash(templateWithoutHash(tpl))
	return h != canaryRevOf(ro) && h != ro.Status.GetSubStatus().StableRevision
}

// ActiveProps names the properties whose monitors the running check asserts (nil = all). The
// exclusions of findings that can only surface through one property's monitor are applied only
// where that monitor is asserted, so that the other checks keep exploring those inputs.
var ActiveProps map[string]bool

func propActive(p string) bool { return ActiveProps == nil || ActiveProps[p] }

// FindingSupersededResumed: a third template is published on a partition-style workload while a
// release is progressing. The BatchRelease controller "aborts" on the revision change for one
// round only (it records the new update revision in its status), so if it reconciles again before
// the Rollout controller restarts the release (always, while the Rollout is paused) it drives the
// superseding revision to the superseded release's current batch: the webhook's full partition
// is lowered again and the new revision reaches that many pods without ever passing step one.
const FindingSupersededResumed = "c10-superseding-revision-driven-by-the-superseded-batchrelease"

// supersededBatchReleaseWouldResume: this BatchRelease reconcile would run the superseded
// release's plan on a revision the Rollout has not adopted yet.
func (w *World) supersededBatchReleaseWouldResume(it QItem) bool {
	if it.Ctrl != ActorBatchRelease || !KnownOpen[FindingSupersededResumed] || os.Getenv("VERIF_REPLAY_STRICT") != "" {
		return false
	}
	br, ro := w.BatchRelease(it.Key.Namespace, it.Key.Name), w.Rollout(it.Key.Namespace, it.Key.Name)
	if br == nil || ro == nil || br.DeletionTimestamp != nil || br.Status.Phase != v1beta1.RolloutPhaseProgressing ||
		ro.Status.Phase != v1beta1.RolloutPhaseProgressing || ro.Spec.WorkloadRef.Kind != "CloneSet" || canaryRevOf(ro) == "" {
		return false
	}
	o := w.Get(GVKCloneSet, it.Key.Namespace, ro.Spec.WorkloadRef.Name)
	if o == nil {
		return false
	}
	cs := o.(*kruisev1alpha1.CloneSet)
	if cs.Generation != cs.Status.ObservedGeneration {
		return false
	}
	upd := cs.Status.UpdateRevision
	short := upd[strings.LastIndex(upd, "-")+1:]
	return short != canaryRevOf(ro) && short != ro.Status.GetSubStatus().StableRevision && br.Status.UpdateRevision == upd
}

var KnownOpen = map[string]bool{FindingReturnAfterReset: true, FindingRollbackWhilePreparing: true, FindingRaiseUpgradedStep: true, FindingBlueGreenSupersession: true, FindingSupersededResumed: true, FindingRollbackBeforeFirstPod: true, FindingRevertBeforeObserved: true, FindingExitBeforeBatchRelease: true, FindingGatewayDisableCanarySvc: true, FindingPlanEditJumpToSelf: true, FindingReleaseDuringCancel: true, FindingScaleBelowTrafficStep: true}

// scaleBelowTrafficStep: partition style + provider + an integer step with traffic >= n.
func (r *Run) scaleBelowTrafficStep(n int) bool {
	if !KnownOpen[FindingScaleBelowTrafficStep] || os.Getenv("VERIF_REPLAY_STRICT") != "" || !r.S.HasTraffic() || r.S.Style != "partition" {
		return false
	}
	ro := r.W.Rollout(r.S.Namespace, r.S.Name)
	o := r.workload()
	if ro == nil || o == nil {
		return false
	}
	old := int(pointer.Int32Deref(*replicasPtr(o), 0))
	coversAll := func(size int) bool {
		for _, st := range ro.Spec.Strategy.GetSteps() {
			if (st.Traffic != nil || len(st.Matches) > 0) && st.Replicas != nil {
				if k, _ := intstr.GetScaledValueFromIntOrPercent(st.Replicas, size, true); k >= size {
					return true
				}
			}
		}
		return false
	}
	// scaling across (or within) the region where a traffic step replaces the whole workload
	return coversAll(old) || coversAll(n)
}

// releaseDuringCancel: traffic routing configured and the Rollout is finalising a rollback.
func (r *Run) releaseDuringCancel(target client.Object, ver string) bool {
	if !KnownOpen[FindingReleaseDuringCancel] || os.Getenv("VERIF_REPLAY_STRICT") != "" {
		return false
	}
	// (a) any template change while a rollback or a completed release is being finalised
	// (Progressing reason Cancelling / Finalising): the webhook holds the workload and
	// marks it in-progressing, the cancel's next finalising round removes the marker again, and
	// the workload stays held with no release ever started for it
	if ro := r.W.Rollout(r.S.Namespace, r.S.Name); ro != nil && ro.Status.Phase == v1beta1.RolloutPhaseProgressing {
		if cond := util.GetRolloutCondition(ro.Status, v1beta1.RolloutConditionProgressing); cond != nil &&
			(cond.Reason == v1alpha1.ProgressingReasonCancelling || cond.Reason == v1alpha1.ProgressingReasonFinalising) {
			return true
		}
	}
	if !r.S.HasTraffic() || !propActive("C04") {
		return false
	}
	// (b) the dangerous window with traffic routing: the workload has been handed back (no in-progressing marker, so the
	// webhook will not hold a multi-revision workload) while the stable Service is still pinned
	o := r.workload()
	if o == nil {
		return false
	}
	if _, ok := o.GetAnnotations()[util.InRolloutProgressingAnnotation]; ok && r.S.Style != "partition" {
		return false
	}
	// partition style: a superseding release lets the workload controller replace the remaining
	// stable pods (it keeps "partition" pods of any old revision) while the Service stays pinned
	svc := r.W.Get(GVKService, r.S.Namespace, r.S.StableServiceName())
	if svc != nil && svc.(*corev1.Service).Spec.Selector[appsv1.DefaultDeploymentUniqueLabelKey] != "" {
		return true
	}
	// ... and the same before the Service is pinned: a template change while the pods are already
	// on two revisions leaves old pods of both, and a later traffic step pins the Service to a
	// stable revision whose pods may all be replaced
	if r.S.Style == "partition" {
		revs := map[string]bool{}
		for _, po := range r.W.ListAll(GVKPod, r.S.Namespace) {
			if p := po.(*corev1.Pod); p.DeletionTimestamp == nil && p.Labels["app"] == "demo" {
				revs[p.Labels[appsv1.DefaultDeploymentUniqueLabelKey]] = true
			}
		}
		tpl := templateOf(target).DeepCopy()
		tpl.Spec.Containers[0].Image = "app:" + ver
		if len(revs) >= 2 && !revs[revisionHash(tpl)] {
			return true
		}
		// the workload is not settled (e.g. handed back by a disabled Rollout and still rolling):
		// CloneSet status.currentRevision, which becomes the recorded stable revision, is not the
		// revision the pods run
		if cs, ok := target.(*kruisev1alpha1.CloneSet); ok {
			ro := r.W.Rollout(r.S.Namespace, r.S.Name)
			if ro != nil && ro.Status.Phase != v1beta1.RolloutPhaseProgressing {
				cur := cs.Status.CurrentRevision[strings.LastIndex(cs.Status.CurrentRevision, "-")+1:]
				for rev := range revs {
					if rev != cur {
						return true
					}
				}
			}
		}
		// a third revision while a release is progressing: the restarted release records the
		// superseded revision as stable as soon as every pod had reached it
		if ro := r.W.Rollout(r.S.Namespace, r.S.Name); ro != nil && ro.Status.Phase == v1beta1.RolloutPhaseProgressing && ro.Status.GetSubStatus() != nil {
			h := revisionHash(tpl)
			return h != canaryRevOf(ro) && h != ro.Status.GetSubStatus().StableRevision
		}
	}
	return false
}

// jumpToSelfWithPlanEdit: the rollout is InRolling at step k before its upgrade finished, and
// after this action both a plan edit and nextStepIndex == k would be outstanding.
func (r *Run) jumpToSelfWithPlanEdit(ro *v1beta1.Rollout, next int32, editing bool) bool {
	if !KnownOpen[FindingPlanEditJumpToSelf] || os.Getenv("VERIF_REPLAY_STRICT") != "" {
		return false
	}
	sub := ro.Status.GetSubStatus()
	if sub == nil || next != sub.CurrentStepIndex {
		return false
	}
	switch sub.CurrentStepState {
	case v1beta1.CanaryStepStateInit, v1beta1.CanaryStepStateUpgrade:
	default:
		return false
	}
	if editing {
		return true // a jump to the current step is pending and the plan is about to change
	}
	// jumping to self while a plan change is unprocessed (not even seen yet, or seen and not yet
	// acted upon)
	return ro.Generation != ro.Status.ObservedGeneration || (sub.RolloutHash != "" && sub.RolloutHash != ro.Annotations[util.RolloutHashAnnotation])
}

// exitBeforeBatchRelease: workload marked in-progressing and no BatchRelease exists.
func (r *Run) exitBeforeBatchRelease() bool {
	if !KnownOpen[FindingExitBeforeBatchRelease] || os.Getenv("VERIF_REPLAY_STRICT") != "" {
		return false
	}
	o := r.workload()
	if o == nil {
		return false
	}
	if _, ok := o.GetAnnotations()[util.InRolloutProgressingAnnotation]; !ok {
		return false
	}
	br := r.W.BatchRelease(r.S.Namespace, r.S.Name)
	if br == nil || br.DeletionTimestamp != nil {
		return true
	}
	// a superseding release is pending: the controller will delete this BatchRelease before it
	// gets to the exit
	ro := r.W.Rollout(r.S.Namespace, r.S.Name)
	if ro == nil {
		return false
	}
	wl, err := util.NewControllerFinder(r.W.Client(ActorHarness)).GetWorkloadForRef(ro)
	if err != nil || wl == nil || !wl.IsStatusConsistent {
		return true
	}
	return wl.CanaryRevision != canaryRevOf(ro)
}

// revertBeforeObserved: the workload is marked in-progressing but the Rollout has not yet
// recorded the revision currently in the workload as its canary revision.
func (r *Run) revertBeforeObserved() bool {
	o := r.workload()
	if o == nil {
		return false
	}
	if _, ok := o.GetAnnotations()[util.InRolloutProgressingAnnotation]; !ok {
		return false
	}
	ro := r.W.Rollout(r.S.Namespace, r.S.Name)
	if ro == nil {
		return false
	}
	if ro.Status.Phase != v1beta1.RolloutPhaseProgressing {
		return true
	}
	cond := util.GetRolloutCondition(ro.Status, v1beta1.RolloutConditionProgressing)
	if cond == nil || cond.Reason == v1alpha1.ProgressingReasonInitializing {
		return true
	}
	// the controller has not caught up with the template currently in the workload (a previous
	// change is still unprocessed, e.g. v2 -> v4 -> v1 in quick succession)
	wl, err := util.NewControllerFinder(r.W.Client(ActorHarness)).GetWorkloadForRef(ro)
	if err != nil || wl == nil || !wl.IsStatusConsistent {
		return true
	}
	return wl.CanaryRevision != canaryRevOf(ro)
}

// ---------- fair completion ----------

// Outcome of Complete.
type Outcome struct {
	Terminal   bool   `json:"terminal"`
	Stuck      bool   `json:"stuck"`
	Exhausted  bool   `json:"exhausted"`
	Reconciles int    `json:"reconciles"`
	Detail     string `json:"detail"`
}

// Complete drives the run with the deterministic fair schedule (drain queue, healthy
// environment, approve manual pauses) until the terminal state, a stuck state or the budget.
func (r *Run) Complete(budget int) Outcome {
	w := r.W
	start := w.Reconciles
	for n := 0; n < budget; n++ {
		// the user is responsive: approvals and resumes are granted as soon as they are needed
		if r.needApproval() {
			r.Apply(Action{Kind: "user", Arg: UserApprove})
			continue
		}
		if ro := w.Rollout(r.S.Namespace, r.S.Name); ro != nil && ro.Spec.Strategy.Paused && ro.DeletionTimestamp == nil {
			r.Apply(Action{Kind: "user", Arg: UserResume})
			continue
		}
		progress := false
		if len(w.pending) > 0 {
			r.Apply(Action{Kind: "reconcile", I: 0})
			progress = true
		}
		if acts := w.EnvActions(false); len(acts) > 0 {
			r.Apply(Action{Kind: "env", I: 0})
			progress = true
		}
		if progress {
			continue
		}
		ok, detail := r.Terminal()
		return Outcome{Terminal: ok, Stuck: !ok, Reconciles: w.Reconciles - start, Detail: detail}
	}
	_, detail := r.Terminal()
	return Outcome{Exhausted: true, Reconciles: w.Reconciles - start, Detail: detail}
}

func (r *Run) needApproval() bool {
	ro := r.W.Rollout(r.S.Namespace, r.S.Name)
	if ro == nil || ro.Status.Phase != v1beta1.RolloutPhaseProgressing || ro.Spec.Strategy.Paused {
		return false
	}
	sub := ro.Status.GetSubStatus()
	return sub != nil && sub.CurrentStepState == v1beta1.CanaryStepStatePaused
}

// Terminal: the Rollout is gone, Disabled, or Healthy with nothing left to do; no
// BatchRelease; every pod on the desired revision and ready.
func (r *Run) Terminal() (bool, string) {
	w, s := r.W, r.S
	ro := w.Rollout(s.Namespace, s.Name)
	if br := w.BatchRelease(s.Namespace, s.Name); br != nil {
		return false, fmt.Sprintf("BatchRelease still exists (phase %s)", br.Status.Phase)
	}
	if ro != nil {
		switch ro.Status.Phase {
		case v1beta1.RolloutPhaseHealthy, v1beta1.RolloutPhaseDisabled:
		default:
			cond := util.GetRolloutCondition(ro.Status, v1beta1.RolloutConditionProgressing)
			reason := ""
			if cond != nil {
				reason = cond.Reason
			}
			sub := ro.Status.GetSubStatus()
			st := ""
			if sub != nil {
				st = fmt.Sprintf(" step=%d state=%s finalising=%s", sub.CurrentStepIndex, sub.CurrentStepState, sub.FinalisingStep)
			}
			return false, fmt.Sprintf("rollout phase %s reason %s%s msg=%q", ro.Status.Phase, reason, st, ro.Status.Message)
		}
	}
	o := r.workload()
	if o == nil {
		return true, "workload gone"
	}
	if _, ok := o.GetAnnotations()[util.InRolloutProgressingAnnotation]; ok && ro != nil && ro.Status.Phase == v1beta1.RolloutPhaseHealthy {
		return false, "workload still marked in-progressing while rollout is Healthy"
	}
	return true, "ok"
}

var _ = v1alpha1.ProgressingReasonCompleted

// LivelockClass names where a non-terminating run is parked (phase / reason / step state and
// recognisable causes), so that different liveness failures get different signatures.
func (r *Run) LivelockClass() string {
	ro := r.W.Rollout(r.S.Namespace, r.S.Name)
	if ro == nil {
		return "rollout-gone"
	}
	cls := strings.ToLower(string(ro.Status.Phase))
	if cond := util.GetRolloutCondition(ro.Status, v1beta1.RolloutConditionProgressing); cond != nil && ro.Status.Phase == v1beta1.RolloutPhaseProgressing {
		cls += "-" + strings.ToLower(cond.Reason)
	}
	if sub := ro.Status.GetSubStatus(); sub != nil {
		cls += "-" + strings.ToLower(string(sub.CurrentStepState))
		if sub.FinalisingStep != "" {
			cls += "-" + strings.ToLower(string(sub.FinalisingStep))
		}
		if sub.CurrentStepState == v1beta1.CanaryStepStateTrafficRouting && sub.PodTemplateHash == "" {
			cls += "-podtemplatehash-empty"
		}
	}
	if br := r.W.BatchRelease(r.S.Namespace, r.S.Name); br != nil {
		cls += "-br-" + strings.ToLower(string(br.Status.Phase)) + "-" + strings.ToLower(string(br.Status.CanaryStatus.CurrentBatchState))
	}
	// circumstances: the template was changed more than once (rollback / re-release / supersession)
	changes := 0
	for _, l := range r.UserLog {
		if strings.Contains(l, " release to ") || strings.Contains(l, " rollback to ") {
			changes++
		}
	}
	if changes >= 2 {
		cls += "-template-changed-again"
	}
	return cls
}

// FinalState is the normalised final cluster state used to compare a faulty run with the
// fault-free baseline (C06): no resourceVersions, timestamps, UIDs or generated-name suffixes.
func (r *Run) FinalState() map[string]any {
	w, s := r.W, r.S
	out := map[string]any{}
	if ro := w.Rollout(s.Namespace, s.Name); ro != nil {
		m := map[string]any{"phase": string(ro.Status.Phase), "paused": ro.Spec.Strategy.Paused, "disabled": ro.Spec.Disabled}
		for _, c := range ro.Status.Conditions {
			m["cond-"+string(c.Type)] = string(c.Status) + "/" + c.Reason
		}
		if sub := ro.Status.GetSubStatus(); sub != nil {
			m["step"] = fmt.Sprintf("%d/%s/%s", sub.CurrentStepIndex, sub.CurrentStepState, sub.FinalisingStep)
			m["canaryRevision"] = canaryRevOf(ro)
		}
		out["rollout"] = m
	} else {
		out["rollout"] = nil
	}
	out["batchrelease"] = w.BatchRelease(s.Namespace, s.Name) != nil
	if o := r.workload(); o != nil {
		m := normalized(o)
		delete(m, "status")
		if md, ok := m["metadata"].(map[string]any); ok {
			for _, k := range []string{"uid", "creationTimestamp", "generation"} {
				delete(md, k)
			}
			if ann, ok := md["annotations"].(map[string]any); ok {
				delete(ann, "deployment.kubernetes.io/revision")
				if len(ann) == 0 {
					delete(md, "annotations")
				}
			}
			if lbl, ok := md["labels"].(map[string]any); ok {
				delete(lbl, v1beta1.RolloutIDLabel)
			}
		}
		out["workload"] = m
	}
	for _, gvk := range []schema.GroupVersionKind{GVKService, GVKIngress, GVKHTTPRoute} {
		for _, o := range w.ListAll(gvk, s.Namespace) {
			if !s.ownsObject(w, gvk, o, 0) {
				continue
			}
			m := normalized(o)
			delete(m, "status")
			if md, ok := m["metadata"].(map[string]any); ok {
				for _, k := range []string{"uid", "creationTimestamp", "generation"} {
					delete(md, k)
				}
			}
			if gvk == GVKHTTPRoute {
				m = map[string]any{"shares": routeShares(o.(*gatewayv1beta1.HTTPRoute))}
			}
			out[gvk.Kind+"/"+o.GetName()] = m
		}
	}
	deps := 0
	for _, o := range w.ListAll(GVKDeployment, s.Namespace) {
		if o.GetDeletionTimestamp() == nil && s.ownsObject(w, GVKDeployment, o, 0) {
			deps++
		}
	}
	out["deployments"] = deps
	pods := map[string]int{}
	for _, o := range w.ListAll(GVKPod, s.Namespace) {
		p := o.(*corev1.Pod)
		if p.DeletionTimestamp != nil || p.Labels["app"] != s.Name {
			continue
		}
		pods[fmt.Sprintf("rev=%s ready=%v", p.Labels[appsv1.DefaultDeploymentUniqueLabelKey], isPodReady(p))]++
	}
	out["pods"] = pods
	return normalizedAny(out).(map[string]any)
}

func init() {
	// VERIF_E1_NOEXCLUDE=all|<finding>[,<finding>] switches exclusions off (to re-establish a
	// finding or verify a repair).
	off := os.Getenv("VERIF_E1_NOEXCLUDE")
	if off == "" {
		return
	}
	for k := range KnownOpen {
		if off == "all" {
			KnownOpen[k] = false
		}
	}
	for _, k := range strings.Split(off, ",") {
		if _, ok := KnownOpen[k]; ok {
			KnownOpen[k] = false
		}
	}
}
