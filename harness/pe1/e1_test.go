// Closed-loop (E1) checks: every test runs generated scenarios + histories on the simulator
// with the standard monitors attached and asserts only its own property's monitors; failures
// of other properties' monitors are recorded as notes.
package pe1

import (
	"encoding/json"
	"fmt"
	"os"
	"sort"
	"strings"
	"testing"

	"pgregory.net/rapid"

	"verifharness/sim"
	"verifharness/vlib"
)

func TestMain(m *testing.M) { vlib.Main(m) }

type e1Case struct {
	S sim.Scenario `json:"scenario"`
	H []sim.Action `json:"history"`
}

type e1Spec struct {
	check string
	props []string // monitor properties asserted as violations of this check
	bias  sim.Bias
	// nt decides whether a finished run is non-trivial for this property
	nt func(c e1Case, r *sim.Run, st *runStats) bool
	// final is an extra end-of-run oracle (after fair completion)
	final func(t vlib.TB, c e1Case, r *sim.Run, out sim.Outcome)
	// cls adds property-specific classes of a finished run
	cls func(r *sim.Run) []string
}

type runStats struct {
	maxStep       int
	userKinds     map[string]bool
	disturbances  int
	hadCanaryPath bool
	terminal      bool
}

func budgetFor(s sim.Scenario) int { return 1500 + 500*len(s.Steps) }

func execute(t vlib.TB, sp e1Spec, c e1Case) (*sim.Run, sim.Outcome, *runStats) {
	r, _ := sim.NewRun(c.S)
	r.Adversarial = sp.bias.Adversarial
	if err := r.W.Build(c.S); err != nil {
		vlib.Fail(t, sp.check, "harness-scenario-rejected", c, "scenario rejected: %v", err)
	}
	r.W.InstallMonitors(c.S)
	st := &runStats{userKinds: map[string]bool{}}
	for _, a := range c.H {
		r.Apply(a)
		if ro := r.W.Rollout(c.S.Namespace, c.S.Name); ro != nil && ro.Status.GetSubStatus() != nil {
			if k := int(ro.Status.GetSubStatus().CurrentStepIndex); k > st.maxStep && ro.Status.Phase == "Progressing" {
				st.maxStep = k
			}
		}
		if v := r.W.FirstViolation(sp.props...); v != nil {
			vlib.Fail(t, sp.check, v.Sig, e1Case{S: c.S, H: r.Effective}, "%s\nuser log: %v", v.Msg, r.UserLog)
		}
	}
	prefix := append([]sim.Action(nil), r.Effective...)
	c = e1Case{S: c.S, H: prefix} // what is written to a replay file: needs no exclusion logic
	out := r.Complete(budgetFor(c.S))
	st.terminal = out.Terminal
	for k, n := range sim.GenExcluded {
		for i := 0; i < n; i++ {
			vlib.Excluded(sp.check, k)
		}
		delete(sim.GenExcluded, k)
	}
	for k, n := range r.W.Excluded {
		for i := 0; i < n; i++ {
			vlib.Excluded(sp.check, k)
		}
	}
	if v := r.W.FirstViolation(sp.props...); v != nil {
		vlib.Fail(t, sp.check, v.Sig, c, "%s\nuser log: %v", v.Msg, r.UserLog)
	}
	// other properties' monitors: note, never silently dropped
	other := map[string]bool{}
	for _, v := range r.W.Violations {
		mine := false
		for _, p := range sp.props {
			if v.Property == p {
				mine = true
			}
		}
		if !mine && !other[v.Sig] {
			other[v.Sig] = true
			vlib.Class(sp.check, "NOTE other-property="+v.Property+" "+v.Sig)
		}
	}
	if sp.final != nil {
		sp.final(t, c, r, out)
	}
	return r, out, st
}

func classes(c e1Case) (cls []string, sig string, disturb int, kinds map[string]bool) {
	s := c.S
	cls = []string{"kind=" + s.Workload + "/" + s.Style, "provider=" + s.Provider, fmt.Sprintf("steps=%d", len(s.Steps))}
	if len(s.Steps) > 0 && s.Provider != "" && (s.Steps[0].Traffic != nil || s.Steps[0].Match != "") && sim.StepCoversAll(s.Steps[0], s.Replicas) {
		cls = append(cls, "first-traffic-step-covers-whole-workload")
	}
	if s.Replicas <= 3 {
		cls = append(cls, "tiny-workload")
	}
	kinds = map[string]bool{}
	first := true
	for _, a := range c.H {
		if a.Kind != "user" {
			continue
		}
		if a.Arg == sim.UserRelease && first {
			first = false
			continue
		}
		if a.Arg != sim.UserApprove {
			disturb++
		}
		kinds[a.Arg] = true
	}
	ks := make([]string, 0, len(kinds))
	for k := range kinds {
		ks = append(ks, k)
	}
	sort.Strings(ks)
	for _, k := range ks {
		cls = append(cls, "user="+k)
	}
	sj, _ := json.Marshal(s)
	sig = string(sj) + strings.Join(ks, ",")
	for _, a := range c.H {
		if a.Kind == "user" {
			sig += a.String()
		}
	}
	return
}

func runSpec(t *testing.T, sp e1Spec) {
	// development aid: assert other properties' monitors under this check's bias
	if extra := os.Getenv("VERIF_E1_PROPS"); extra != "" {
		sp.props = strings.Split(extra, ",")
	}
	sim.ActiveProps = map[string]bool{}
	for _, p := range sp.props {
		sim.ActiveProps[p] = true
	}
	var rc e1Case
	if ok, _ := vlib.LoadReplay(sp.check, &rc); ok {
		execute(t, sp, rc)
		return
	}
	rapid.Check(t, func(t *rapid.T) {
		s := sim.GenScenario(t, sp.bias)
		c := e1Case{S: s, H: sim.GenHistory(t, s, sp.bias)}
		r, _, st := execute(t, sp, c)
		cls, sig, disturb, kinds := classes(c)
		st.disturbances, st.userKinds = disturb, kinds
		nt := sp.nt(c, r, st)
		if st.maxStep >= 2 {
			cls = append(cls, "reached-step>=2")
		}
		if st.terminal {
			cls = append(cls, "terminal")
		}
		if sp.cls != nil {
			cls = append(cls, sp.cls(r)...)
		}
		vlib.Record(sp.check, sig, nt, cls, func() any { return c })
	})
}

// ---------- per-property entry points ----------

func TestC01ClosedLoop(t *testing.T) {
	runSpec(t, e1Spec{check: "c01-closed-loop", props: []string{"C01"},
		bias: sim.Bias{MaxActions: 150, LargeReplicas: vlib.Thorough(), UserWeights: map[string]int{sim.UserApprove: 10, sim.UserScale: 3, sim.UserEditStep: 3, sim.UserJump: 1, sim.UserRollback: 1, sim.UserRelease: 1, sim.UserPause: 1, sim.UserResume: 2}},
		nt: func(c e1Case, r *sim.Run, st *runStats) bool {
			return st.maxStep >= 2 || (st.maxStep >= 1 && st.disturbances > 0)
		}})
}

func TestC02Gating(t *testing.T) {
	runSpec(t, e1Spec{check: "c02-gating", props: []string{"C02"},
		bias: sim.Bias{MaxActions: 180, UserWeights: map[string]int{sim.UserApprove: 8, sim.UserPause: 4, sim.UserResume: 4, sim.UserJump: 2, sim.UserEditStep: 2, sim.UserScale: 1, sim.UserRollback: 1, sim.UserRelease: 1}},
		nt: func(c e1Case, r *sim.Run, st *runStats) bool {
			return st.maxStep >= 2 && (st.userKinds[sim.UserPause] || st.userKinds[sim.UserJump] || st.userKinds[sim.UserEditStep] || st.userKinds[sim.UserScale])
		}})
}

func TestC03TrafficFollowsPods(t *testing.T) {
	runSpec(t, e1Spec{check: "c03-traffic-follows-pods", props: []string{"C03"},
		bias: sim.Bias{MaxActions: 150, ForceProvider: true, SettlePct: 3, JumpBursts: 4, UserWeights: map[string]int{sim.UserApprove: 10, sim.UserJump: 5, sim.UserEditStep: 2, sim.UserScale: 1, sim.UserPause: 1, sim.UserResume: 2}},
		nt: func(c e1Case, r *sim.Run, st *runStats) bool {
			n := 0
			for _, s := range c.S.Steps {
				if s.Traffic != nil || s.Match != "" {
					n++
				}
			}
			return st.maxStep >= 1 && n >= 1 && (n >= 2 || st.userKinds[sim.UserJump] || st.maxStep >= 2)
		}})
}

func TestC04NoVoid(t *testing.T) {
	runSpec(t, e1Spec{check: "c04-no-void", props: []string{"C04"},
		bias: sim.Bias{MaxActions: 150, ForceProvider: true, SettlePct: 3, CancelBursts: 3, UserWeights: map[string]int{sim.UserApprove: 10, sim.UserRollback: 3, sim.UserRelease: 2, sim.UserDisable: 2, sim.UserDelete: 2, sim.UserEnable: 1, sim.UserScale: 1}},
		nt:   func(c e1Case, r *sim.Run, st *runStats) bool { return st.maxStep >= 1 && !c.S.DisableCanarySvc }})
}

func TestC10RollbackFirst(t *testing.T) {
	runSpec(t, e1Spec{check: "c10-cancel", props: []string{"C10"},
		bias: sim.Bias{MaxActions: 150, ForceProvider: true, SettlePct: 4, CancelBursts: 4, UserWeights: map[string]int{sim.UserApprove: 8, sim.UserRollback: 5, sim.UserRelease: 4, sim.UserPause: 1, sim.UserResume: 1, sim.UserScale: 1}},
		// non-trivial: a rollback / supersession hit a progressing release and one of the three
		// oracles judged something (a hand-back write while armed with canary traffic, a rollback
		// completion, a supersession restart)
		nt: func(c e1Case, r *sim.Run, st *runStats) bool {
			tr := r.W.Track()
			return tr.Cancels > 0 && (tr.HandBacks > 0 || tr.RolledBacks > 0 || tr.Restarts > 0)
		},
		cls: func(r *sim.Run) []string {
			tr := r.W.Track()
			var out []string
			add := func(n int, name string) {
				if n > 0 {
					out = append(out, name)
				}
			}
			add(tr.Cancels, "cancel-armed")
			add(tr.CancelsHot, "cancel-armed-with-canary-traffic")
			add(tr.HandBacks, "hand-back-judged")
			add(tr.RolledBacks, "rollback-completion-judged")
			add(tr.Restarts, "supersession-restart-judged")
			return out
		}})
}

func TestC18Finalizers(t *testing.T) {
	runSpec(t, e1Spec{check: "c18-rollout-finalizer", props: []string{"C18"},
		bias: sim.Bias{MaxActions: 150, Restarts: true, Faults: true, SettlePct: 3, UserWeights: map[string]int{sim.UserApprove: 10, sim.UserDelete: 6, sim.UserDisable: 1, sim.UserRollback: 2, sim.UserRelease: 1}},
		nt:   func(c e1Case, r *sim.Run, st *runStats) bool { return st.maxStep >= 1 && st.userKinds[sim.UserDelete] },
		cls: func(r *sim.Run) []string {
			var out []string
			if len(r.W.FaultLog) > 0 {
				out = append(out, "fault-fired")
			}
			if tr := r.W.Track(); tr != nil && tr.BRFinalizerDrops > 0 {
				out = append(out, "batchrelease-finalizer-drop-judged")
			}
			return out
		}})
}

func TestC09Reachability(t *testing.T) {
	runSpec(t, e1Spec{check: "c09-reachability", props: []string{"C09"},
		bias: sim.Bias{MaxActions: 150, HostileJump: true, UserWeights: map[string]int{sim.UserApprove: 6, sim.UserJump: 6, sim.UserEditStep: 3, sim.UserScale: 2, sim.UserDisable: 1, sim.UserEnable: 1, sim.UserDelete: 1, sim.UserRollback: 1, sim.UserRelease: 2, sim.UserPause: 1, sim.UserResume: 1}},
		nt:   func(c e1Case, r *sim.Run, st *runStats) bool { return st.maxStep >= 1 && st.userKinds[sim.UserJump] }})
}

// C05: every exit path leaves the cluster as the user configured it. The exit (complete /
// rollback / disable / delete) is whatever the drawn history contains; after fair completion
// the final store is compared with the configuration recorded before the release.
func TestC05ExitRestore(t *testing.T) {
	runSpec(t, e1Spec{check: "c05-exit-restore", props: []string{"C05"},
		bias: sim.Bias{MaxActions: 150, UserWeights: map[string]int{sim.UserApprove: 10, sim.UserRollback: 3, sim.UserDisable: 3, sim.UserDelete: 3, sim.UserRelease: 1, sim.UserScale: 1, sim.UserEditStep: 1, sim.UserPause: 1, sim.UserResume: 1}},
		nt:   func(c e1Case, r *sim.Run, st *runStats) bool { return st.maxStep >= 1 && st.terminal },
		final: func(t vlib.TB, c e1Case, r *sim.Run, out sim.Outcome) {
			if !out.Terminal {
				return // liveness is C07's verdict
			}
			if res := r.CheckRestored(); len(res) > 0 {
				sig := "c05-not-restored-" + slug(res[0])
				if tr := r.W.Track(); tr != nil && tr.BRUID == "" {
					sig += "-batchrelease-never-created"
				}
				// circumstances: the user changed the template again while the release was progressing
				if tr := r.W.Track(); tr != nil && tr.Cancels > 0 {
					sig += "-after-rollback-or-supersession"
				}
				vlib.Fail(t, "c05-exit-restore", sig, c, "after the rollout ended the cluster is not as the user configured it: %s\nuser log: %v", strings.Join(res, "; "), r.UserLog)
			}
		}})
}

func slug(s string) string {
	var b strings.Builder
	words := 0
	for _, w := range strings.Fields(strings.ToLower(s)) {
		ok := true
		for _, c := range w {
			if !(c >= 'a' && c <= 'z') {
				ok = false
			}
		}
		if !ok {
			continue
		}
		if words > 0 {
			b.WriteByte('-')
		}
		b.WriteString(w)
		words++
		if words == 5 {
			break
		}
	}
	return b.String()
}
