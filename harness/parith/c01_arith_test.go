package parith

import (
	"fmt"
	"os"
	"testing"

	"github.com/openkruise/rollouts/pkg/controller/batchrelease/control"
	deploymentutil "github.com/openkruise/rollouts/pkg/controller/deployment/util"
	apps "k8s.io/api/apps/v1"
	"k8s.io/apimachinery/pkg/util/intstr"
	"k8s.io/utils/pointer"

	"verifharness/vlib"
)

const chkC01 = "c01-arith"

// C01Case is one point of the exhaustive domain of C01 part (a).
type C01Case struct {
	N int `json:"n"`
	// Plan: the point (n, plan value) — all three pure functions and the partition-style CloneSet
	// batch context are evaluated for it.
	Plan *Val `json:"plan,omitempty"`
	// Stable: the point (n, stable) of the wider domain of ParseIntegerAsPercentageIfPossible (every
	// old-revision remainder 0..n, as rollback-in-batches can produce), with plan value "50%".
	Stable *int `json:"stable,omitempty"`
}

// c01State carries the per-process fake API server holding the partition-style CloneSet whose
// REAL CalculateBatchContext supplies the partition for int plans as well.
type c01State struct {
	env *env
}

func (s *c01State) forN(n int) *env {
	if s.env == nil || int(s.env.n) != n {
		s.env = newEnv(PartCloneSet, int32(n), false)
	}
	return s.env
}

// c01Point checks one (n, plan value) point; returns whether it is non-trivial.
func c01Point(t vlib.TB, s *c01State, n int, v Val) bool {
	c := C01Case{N: n, Plan: &v}
	planned := refPlanned(v, n)

	// (1) control.CalculateBatchReplicas == replicas configured for the step
	rel := newRelease(PartCloneSet, []Val{v})
	if got := control.CalculateBatchReplicas(rel, n, 0); got != planned {
		sig := "c01-batch-replicas-above-step"
		if got < planned {
			sig = "c01-batch-replicas-below-step"
		}
		vlib.Fail(t, chkC01, sig, c, "CalculateBatchReplicas(plan %s, replicas %d) = %d, the step configures %d", v, n, got, planned)
	}

	// (2) deploymentutil.NewRSReplicasLimit <= replicas configured for the step
	d := &apps.Deployment{Spec: apps.DeploymentSpec{Replicas: pointer.Int32(int32(n))}}
	if got := int(deploymentutil.NewRSReplicasLimit(v.intstr(), d)); got > planned || got < 0 {
		vlib.Fail(t, chkC01, "c01-newrs-limit-above-step", c, "NewRSReplicasLimit(partition %s, replicas %d) = %d, the step configures %d", v, n, got, planned)
	}

	// (3) ParseIntegerAsPercentageIfPossible, restored with the CloneSet round-up rule
	if v.Pct {
		is := v.intstr()
		part := control.ParseIntegerAsPercentageIfPossible(int32(n-planned), int32(n), &is)
		updated := n - kruisePartitionStable(part, n)
		if updated > planned+refSlack(n) {
			vlib.Fail(t, chkC01, "c01-cloneset-percent-partition-exposes-too-many", c,
				"plan %s of %d replicas: planned %d, partition %s restores to %d updated pods > planned + ceil(n/100) = %d",
				v, n, planned, part.String(), updated, planned+refSlack(n))
		}
	}

	// (4) the partition the REAL partition-style CloneSet controller computes for this batch
	if n > 0 {
		e := s.forN(n)
		ctx, _, err := e.calc(rel)
		if err != nil {
			panic(fmt.Sprintf("harness: CalculateBatchContext: %v", err))
		}
		updated := n - kruisePartitionStable(ctx.DesiredPartition, n)
		if v.Pct {
			if updated > planned+refSlack(n) {
				vlib.Fail(t, chkC01, "c01-cloneset-percent-partition-exposes-too-many", c,
					"CloneSet batch context for plan %s of %d replicas: planned %d, DesiredPartition %s restores to %d updated pods > %d",
					v, n, planned, ctx.DesiredPartition.String(), updated, planned+refSlack(n))
			}
		} else if updated != planned {
			vlib.Fail(t, chkC01, "c01-cloneset-int-partition-differs-from-step", c,
				"CloneSet batch context for plan %s of %d replicas: planned %d, DesiredPartition %s restores to %d updated pods",
				v, n, planned, ctx.DesiredPartition.String(), updated)
		}
		if int(ctx.PlannedUpdatedReplicas) > planned {
			vlib.Fail(t, chkC01, "c01-batch-replicas-above-step", c, "PlannedUpdatedReplicas %d > %d", ctx.PlannedUpdatedReplicas, planned)
		}
	}
	return n > 1 && planned > 0 && planned < n
}

// c01Stable checks ParseIntegerAsPercentageIfPossible on (stable, n) for an arbitrary remainder.
func c01Stable(t vlib.TB, n, stable int) {
	plan := intstr.FromString("50%")
	part := control.ParseIntegerAsPercentageIfPossible(int32(stable), int32(n), &plan)
	restored := kruisePartitionStable(part, n)
	// updated pods exceed the intended n-stable by stable-restored
	if stable-restored > refSlack(n) {
		vlib.Fail(t, chkC01, "c01-cloneset-percent-partition-exposes-too-many", C01Case{N: n, Stable: &stable},
			"ParseIntegerAsPercentageIfPossible(stable %d, all %d) = %s keeps only %d old pods: %d more updated pods than intended, slack %d",
			stable, n, part.String(), restored, stable-restored, refSlack(n))
	}
}

func TestC01Arith(t *testing.T) {
	var rc C01Case
	st := &c01State{}
	if ok, _ := vlib.LoadReplay(chkC01, &rc); ok {
		if rc.Plan != nil {
			c01Point(t, st, rc.N, *rc.Plan)
		}
		if rc.Stable != nil {
			c01Stable(t, rc.N, *rc.Stable)
		}
		return
	} else if os.Getenv("VERIF_REPLAY") != "" {
		return // a replay file of another sub-check
	}
	N := arithN()
	sh, nsh := shard()
	var evals, nt int64
	var samples []any
	for n := sh; n <= N; n += nsh {
		for p := 0; p <= 100; p++ {
			evals++
			if c01Point(t, st, n, Val{Pct: true, V: p}) {
				nt++
				if len(samples) < 2 && p == 37 && n > 100 {
					samples = append(samples, C01Case{N: n, Plan: &Val{Pct: true, V: p}})
				}
			}
		}
		for k := 0; k <= n+2; k++ {
			evals++
			if c01Point(t, st, n, Val{V: k}) {
				nt++
				if len(samples) < 4 && k == n/3 && n > 200 {
					samples = append(samples, C01Case{N: n, Plan: &Val{V: k}})
				}
			}
		}
		for s := 0; s <= n; s++ {
			evals++
			c01Stable(t, n, s)
			if n > 1 && s > 0 && s < n {
				nt++
			}
		}
		vlib.Class(chkC01, "replicas-values-enumerated")
		if n > 100 {
			vlib.Class(chkC01, "replicas>100")
		}
	}
	vlib.Note(chkC01, fmt.Sprintf("shard %d/%d: replicas n = %d, %d+%d, ... <= %d; per n: percent 0..100, int 0..n+2, stable remainder 0..n", sh, nsh, sh, sh, nsh, N))
	vlib.RecordBulk(chkC01, evals, nt, true, samples)
}
