// Package parith holds the exhaustive arithmetic parts of properties C01 (part a) and C07 (part c).
package parith

// Signatures of confirmed, still open defects of /repo. While an entry is true the enumerations and
// generators steer away from exactly that finding's input class (counted with vlib.Excluded) so
// that the search continues behind it. Set an entry to false (or run with
// VERIF_ARITH_NOEXCLUDE=1) to see the defect again.
var knownOpen = map[string]bool{
	// partition-style CloneSet, percent plan whose stable remainder s = n - ceil(p*n/100) satisfies
	// 1 <= s < n/100 (i.e. plan "99%", n > 100, n not a multiple of 100):
	// control.ParseIntegerAsPercentageIfPossible falls back to partition "1%", which Kruise restores
	// (rounding up) to ceil(n/100) > s old pods, so updated = n - ceil(n/100) < DesiredUpdatedReplicas
	// and BatchContext.IsBatchReady never returns nil.
	sigOnePercentFallback: true,
	// blue-green CloneSet, integer plan k > n: DesiredUpdatedReplicas = k is not clamped to the
	// workload size although a CloneSet with maxSurge k never runs more than n updated pods.
	sigBGCloneSetIntAboveReplicas: true,
	// partition-style Deployment, batch i-1 planned as a percentage and batch i as an integer (or
	// the reverse): control.IsCurrentMoreThanOrEqualToDesired compares both scaled to 10000000, so
	// "50%" counts as >= 80 and the partition is never raised.
	sigDeploymentMixedUnits: true,
}

const (
	sigOnePercentFallback         = "c07-cloneset-partition-1pct-fallback-below-desired"
	sigBGCloneSetIntAboveReplicas = "c07-bluegreen-cloneset-int-plan-above-replicas"
	sigDeploymentMixedUnits       = "c07-partition-deployment-mixed-int-percent-not-raised"
)
