// Package parith holds the exhaustive arithmetic parts of properties C01 (part a) and C07 (part c).
package parith

// Signatures of confirmed, still open defects of /repo (each re-established against the REAL
// control plane and BatchContext.IsBatchReady; minimal replays in findings/<sig>.json). While an
// entry is true the enumeration and the generator steer away from exactly that finding's input
// class (counted with vlib.Excluded) so that the search continues behind it. Set an entry to false
// once /repo carries the fix; VERIF_ARITH_NOEXCLUDE=all (or a comma-separated list of signatures)
// switches the steering off for one run without editing this file.
var knownOpen = map[string]bool{
	// partition-style CloneSet, percentage plan whose old-revision remainder s = n - ceil(p*n/100)
	// satisfies 1 <= s < n/100 (equivalently: plan "99%", n > 100, n not a multiple of 100; 297
	// points for n <= 400): control.ParseIntegerAsPercentageIfPossible answers partition "1%", which
	// Kruise restores (rounding up) to ceil(n/100) > s old pods, so a fully complying CloneSet runs
	// n - ceil(n/100) < DesiredUpdatedReplicas updated pods and IsBatchReady never returns nil.
	// Minimal: 101 replicas, plan ["99%"]. Reachable: Rollout step `replicas: 99%` without traffic
	// on a partition-style CloneSet is admitted by the validating webhook.
	sigOnePercentFallback: false, // repaired by a "fix:" commit in /repo, see /verif/known_findings.json

	// blue-green CloneSet, integer plan k > n: bluegreenstyle/cloneset CalculateBatchContext takes
	// DesiredUpdatedReplicas = k without clamping to the workload size (every other control plane
	// clamps), but a CloneSet with maxSurge k never runs more than n updated pods.
	// Minimal: 1 replica, plan [2]. Reachable: the webhook admits any positive integer `replicas`.
	sigBGCloneSetIntAboveReplicas: false, // repaired by a "fix:" commit in /repo, see /verif/known_findings.json

	// partition-style Deployment, an earlier batch planned as a percentage and the current one as
	// an integer: control.IsCurrentMoreThanOrEqualToDesired scales both against 10000000, so the
	// stored "1%" (=100000) counts as >= 2 and UpgradeBatch never raises the partition.
	// Minimal: 2 replicas, plan ["1%", 2]. Reachable: the webhook skips the monotonicity comparison
	// for steps of different units, and the CRD admits int-or-string per step.
	sigDeploymentMixedUnits: false, // repaired by a "fix:" commit in /repo, see /verif/known_findings.json
}

const (
	sigOnePercentFallback         = "c07-cloneset-partition-1pct-fallback-below-desired"
	sigBGCloneSetIntAboveReplicas = "c07-bluegreen-cloneset-int-plan-above-replicas"
	sigDeploymentMixedUnits       = "c07-partition-deployment-mixed-int-percent-not-raised"
)
